#!/usr/bin/env python3
"""Writes MANIFEST.json from the table below (kept in one place so it stays valid)."""
import json, subprocess

REPO_HOOK_COMMITS = subprocess.run(["git", "-C", "/repo", "log", "--format=%H %s"], capture_output=True, text=True).stdout.strip().split("\n")
hooks = [l.split(" ")[0] for l in REPO_HOOK_COMMITS if l.split(" ", 1)[1].startswith("verif hook")]

CHECKS = {
    "C01": dict(
        text="Theorems for all bounds 1<=n<2^32 and all raw words (range, exactly equal fibres, majority accepted, restart on rejection, (rej n)^t all-reject streams, 4 bytes <-> word bijection) about the Gallina transcription of randomUint32n/randomUint32; the transcription is differential-tested against the real code through the scripted crypto/rand.Reader, and a full 2^32 raw-word sweep of the real draw is the direct oracle.",
        ref="§3.1, §6 C01",
        note="Trusts Coq kernel+VM, the hand transcription of util.go:42-50,74-87 (tied by the draw correspondence family incl. chunked reads, faults and forced rejections), extraction (ExtrOcamlBasic only), harness and orchestrator. No axioms.",
        technique="Coq proof by induction/counting over N (modulus as section variable) + differential correspondence + exhaustive 2^32 sweep oracle"),
}
PENDING = {}

ALL = ["C%02d" % i for i in range(1, 19)]

def main():
    checks = []
    for pid in ALL:
        if pid not in CHECKS:
            continue
        c = CHECKS[pid]
        checks.append({
            "property_id": pid,
            "quick_cmd": "python3 verif.py check %s --tier quick" % pid,
            "thorough_cmd": "python3 verif.py check %s --tier thorough" % pid,
            "evidence_file": "/verif/evidence/%s.json" % pid,
            "replay_cmd_template": "python3 verif.py replay {path}",
            "engine": "coq-model+correspondence",
            "level_claimed": {"category": "proof", "text": c["text"], "design_ref": c["ref"]},
            "level_note": c["note"],
            "technique": c["technique"],
        })
    na = [{"property_id": pid, "reason": PENDING.get(pid, "check not yet built in this revision of /verif (designed in DESIGN.md §6; being implemented)")}
          for pid in ALL if pid not in CHECKS]
    m = {
        "version": 1,
        "setup_cmd": "python3 verif.py setup",
        "hooks": {
            "guard": "verif",
            "enable": "go build -tags verif (harness/spgdrive with `replace go.1password.io/spg => /repo`; cmd/opgen built with -tags verif)",
            "baseline_off_cmd": "cd /repo && GOFLAGS=-mod=mod GOPROXY=off GOSUMDB=off GOTOOLCHAIN=local go test -json -vet=off -count=1 -timeout 25m ./...",
            "source_commits": hooks,
            "add_only": True,
        },
        "engines": [
            {"name": "coq-model+correspondence", "path": "/verif/coq, /verif/harness, /verif/translator, /verif/vlib",
             "serves_properties": [c["property_id"] for c in checks],
             "kind_free_text": "Coq 8.16.1 development (model, proofs, property statements) + translator regenerating coq/Gen from /repo + Go harness vs OCaml-extracted model differential check + direct oracles"},
        ],
        "checks": checks,
        "not_applicable": na,
        "notes": "See DESIGN.md. known_findings.json lists repaired (fixed:) and open findings.",
    }
    json.dump(m, open("/verif/MANIFEST.json", "w"), indent=1)

if __name__ == "__main__":
    main()
