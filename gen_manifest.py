#!/usr/bin/env python3
"""Writes MANIFEST.json from the table below (kept in one place so it stays valid)."""
import json, subprocess

REPO_HOOK_COMMITS = subprocess.run(["git", "-C", "/repo", "log", "--format=%H %s"], capture_output=True, text=True).stdout.strip().split("\n")
hooks = [l.split(" ")[0] for l in REPO_HOOK_COMMITS if l.split(" ", 1)[1].startswith("verif hook")]

CHECKS = {
    "C01": dict(
        text="Theorems for all bounds 1<=n<2^32 and all raw words (range, exactly equal fibres, majority accepted, restart on rejection, (rej n)^t all-reject streams, 4 bytes <-> word bijection) about the Gallina transcription of randomUint32n/randomUint32; the transcription is differential-tested against the real code through the scripted crypto/rand.Reader, and a full 2^32 raw-word sweep of the real draw is the direct oracle (bounds above 2^31: a collision probe followed by a full count of two alternatives).",
        ref="§3.1, §6 C01",
        note="Trusts Coq kernel+VM, the hand transcription of util.go:42-50,74-87 (tied by the draw correspondence family incl. chunked reads, faults and forced rejections), extraction (ExtrOcamlBasic only), harness and orchestrator. No axioms.",
        technique="Coq proof by induction/counting over N (modulus as section variable) + differential correspondence + exhaustive 2^32 sweep oracle"),
    "C02": dict(
        text="Theorems for every recipe, budget and candidate string: one attempt is exactly (1/a)^L on the strings over the duplicate-free alphabet and 0 elsewhere; the generator returns every satisfying string with one and the same probability q=(1/a)^L*(1+f+..+f^(T-1)) and every other string with probability 0 (whole-candidate redraw); the ideal distribution is the unique solution of the first-step equations with the raw 32-bit word counts of C01, and it is the LIMIT of the exact frequencies over uniform raw tapes: the number of m-word tapes on which the tape interpreter returns a value is given by a recursion over the C01 counts (rawcount_NR), the cumulated frequency is below the ideal probability and within u(depth, M) of it, and u tends to 0 (frequency_sandwich, u_vanishes) — no informal step between bytes and distribution; alphabet order is irrelevant. The gen term the theorems are about is the one the tape interpreter runs in the correspondence check.",
        ref="§3, §6 C02",
        note="Trusts kernel+VM, hand model of buildCharacterList/requireFilter/Generate (tied by the chargen correspondence family under the canonical-alphabet hook), extraction, harness. Domain: valid UTF-8 recipe strings; alphabets < 2^32. No axioms.",
        technique="Coq proof (expectation monad, retry geometric factor, counting over strings_over) + differential correspondence + complete index-cell enumeration oracle"),
    "C03": dict(
        text="Theorems for all recipes and all raw-word streams: a returned password satisfies the recipe (length, allowed, not excluded, every live required family hit); the alphabet is exactly the allowed-and-not-excluded characters, sorted, duplicate-free, canonical, and every listed character is drawn.",
        ref="§6 C03",
        note="Trusts kernel+VM, hand model of the set algebra (tied by chargen and recipe/Alphabet() correspondence families incl. flag triples), extraction, harness. Domain: valid UTF-8 recipe strings. No axioms.",
        technique="Coq proof (set algebra on duplicate-free lists, support of the gen monad) + differential correspondence + independent Python oracle on real outputs"),
    "C04": dict(
        text="Theorems for every word list, length, scheme and separator function: the law of what WLRecipe.Generate returns is the image under the rendering map of the PRODUCT of independent draws (capitalisation pattern, one uniform index in [0,size) per word, one fresh separator call per gap, the call inside Entropy()) — proved with a Fubini lemma for the expectation monad; every index vector has probability exactly (1/size)^L, every 'one' position 1/L, every 'random' subset (1/2)^L; the point probability of a password is exactly the product of its choices' probabilities whenever the pattern is readable (a decoder that is a left inverse of the rendering), hence all possible passwords are equally likely with a uniform separator; the premises about the kept words are derived from NewWordList under the property's title-casing premise; the generator's draws are well formed (fewer than 2^32 words, Length and separator alphabets below 2^32: every preset), so by the raw-word layer of C01/C02 each of these probabilities is the limit, with an explicit error bound, of the frequency over uniform tapes of raw 32-bit words.",
        ref="§6 C04",
        note="Trusts kernel+VM, the hand model of the assembly loop (tied by the wlgen correspondence family and by complete product cells run on the real code), strings.Title as an idempotent oracle. Domain: lists without an empty entry (F7), separators satisfying sep_ok (constants and character recipes with nothing left to require: every preset, everything opgen builds). No axioms.",
        technique="Coq proof (product/Fubini theorem for the gen monad, decoder lemma, point masses) + differential correspondence + complete product-cell enumeration oracle"),
    "C06": dict(
        text="Theorems: character recipes — no string likelier than 1/count, every satisfying string has the same probability q with q*count = 1 - f^T, and the integer behind Entropy() is that count; wordlist recipes — for every scheme, every list of good words (uncapitalisable words included: then the bound is the min-entropy one without bonus), every length and every separator whose values are no likelier than 1/M and which reports log2 M, no (tokens, entropy) result is likelier than 1/wl_entropy_count; met with equality when generation is uniform; the entropy stored in a returned password is the one Entropy() computes (same generator term, any other value has probability 0).",
        ref="§6 C06, §8 F7 F8",
        note="Trusts kernel+VM, the hand models (tied by chargen/wlgen/entropy correspondence: Entropy() and Password.Entropy as float32 against log2 of the model's integer, with stated ulp tolerance), exact cell enumeration on the real code. Fallible separators beyond the sep_ok premise are the open finding F8; lists with an empty word F7. Float rounding is outside the proof. No axioms.",
        technique="Coq proof (point-mass bounds via decoder lemma, geometric retry factor, integer form of the bound) + differential correspondence + exact-probability cell oracle"),
    "C18": dict(
        text="Theorems: the diagnostics of a generation are a function of the recipe alone (two runs on any two random sources emit identical output: non-interference); every emitted line is a fixed template with a decimal integer in the hole; the integers are the alphabet size (0) and the duplicate count. Tied to the code by comparing captured fd 1 / fd 2 / log output byte for byte with the model's rendering in every family (refused, failing, retried, exhausted, starved generations) and by the translator's census of output statements.",
        ref="§6 C18",
        note="Trusts kernel+VM, the Diag model (one constructor per output site), fd-level capture in the harness, the translator's output-site scanner (every print/log/panic-with-argument statement in the package, with static argument types). No axioms.",
        technique="Coq proof (non-interference by construction + grammar of templates) + differential correspondence on captured output + output-site census regenerated from source + leak-search oracle"),
    "C14": dict(
        text="PARTIAL. Theorems: for threads that perform no shared write, EVERY interleaving at single-access granularity leaves the shared state unchanged, contains no conflicting accesses (race freedom) and gives every call the result it has when run alone — instantiated for any number of goroutines each running any sequence of Generate/Entropy/Alphabet/SuccessProbability/Size calls on shared recipes, lists and separator functions of the API model (the results to which C03/C05/C06 apply); and, by computation over the write footprints, call edges with argument binding, closures, go statements and package variables that the translator extracts from the CURRENT source, no exported entry point, separator closure or initialiser reaches a store to memory another goroutine can reach (receivers by value; buildCharacterList writes only through the address of a private copy).",
        ref="§6 C14",
        note="Partial: the theorem is about footprints, not machine executions. Trusts kernel+VM, the translator's effect analysis (conservative: anything not understood is 'unknown' = shared), the summary table for golang-set/math/big/fmt/crypto/rand, and — for the compiled code — the Go race detector, which samples schedules on every run (8-64 goroutines over shared values incl. the package-level presets, every result validated). The Go memory model and scheduler are not modelled. No axioms.",
        technique="Coq proof (invariant over all interleavings of write-free threads) + footprint closure computed in Coq over translator-extracted effects + race-detector stress with result validation"),
    "C16": dict(
        text="Theorems by computation over the data the translator reads from the CURRENT source against the documented literals: the five class strings, flag values and the flag table (and the model uses these very constants); NewCharRecipe / NewWLRecipe assignments; MaxTrials = 200, MaxFailRate = 1/10^9; each of the seven presets as declared is the model's preset, returns exactly the documented values, is infallible under the default budget — hence (C04/C06 theorems) every value has probability exactly 1/count — with counts 10, 100, 7, 49, 6, 16 and entropy log2(count); AgileWords and AgileSyllables equal the lines of testdata/*.txt, are strictly sorted (hence duplicate-free), lower-case a-z, non-empty, 18325 and 10129 entries.",
        ref="§6 C16",
        note="Trusts kernel+VM and the translator spg2coq (go/parser + go/types constant folding). The behaviour of the built package is tied separately: every preset over its complete cell, classes through Alphabet(), defaults, budget and SHA-256 of the exported lists against testdata, read through the public API. Float entropies compared with 2 ulp. No axioms.",
        technique="Coq proof by computation (vm_compute) on data regenerated from the source on every run + differential correspondence over complete preset cells + direct oracle on the built package"),
    "C17": dict(
        text="Theorems: the class / separator / scheme tables, flag definitions, defaults (length 20, everything minus ambiguous; four words of AgileWords, hyphen, no capitalisation), exit statuses and the recipe-construction code read from the CURRENT cmd/opgen source are the documented ones and the ones the model uses; cli_plan (Go flag syntax -> library recipe) sets a class flag exactly when a listed word names it; no arguments, an unknown subcommand, an undefined flag and an unknown list are usage/flag errors (exit 2), unreadable or empty files fatal (exit 1); cli_exec runs the LIBRARY MODEL on the planned recipe: exit 0 with exactly one password that satisfies the planned recipe (characters) or that the planned wordlist recipe can generate (words; C05 says what those are), or the recipe's entropy with --entropy; a refusal exits 1; no error path prints a password.",
        ref="§6 C17",
        note="Trusts kernel+VM, the hand model of main and of Go's flag syntax (-f, --f, -f=v, -f v, booleans, --, -h, strconv.ParseInt base 0), the translator for the tables, title-casing of the shipped a-z lists by the model's ASCII title function, '%.2f' formatting done in the orchestrator (skipped within 0.02 of a rounding boundary, counted). Word identity is not predicted (Go map order differs per process): the real binary's line is matched against the model's token pattern with list membership. No axioms.",
        technique="Coq proof (plan/exec model composed with the library model, tables by computation on regenerated data) + differential correspondence against the real binary with a scripted tape + tape-free language-membership oracle"),
    "C07": dict(
        text="Theorem count_code_correct for every alphabet, every family of required sets (arbitrary overlaps, any number) and every length: the repaired counting recursion returns exactly the number of distinct satisfying strings; the integer behind Entropy() is that count on both code paths; never negative; zero iff unsatisfiable. The float tail (log2, float32) is compared with a 2-ulp tolerance against the exact integer exported by the verif hook.",
        ref="§6 C07, §8 F1",
        note="Trusts kernel+VM, the model of n() (tied by the recipe correspondence family on exact integers up to length 3000), Python big-integer log2, the float tolerance. Float rounding itself is outside the proof. No axioms.",
        technique="Coq proof by induction on the required-set list (filter/product commutation) + exact-integer differential correspondence + brute-force/inclusion-exclusion oracle"),
    "C13": dict(
        text="Theorems: the exact decision structure of Generate (bad length, empty alphabet, pre-flight refusal, at most MaxTrials attempts); every reachable outcome is a satisfying password or one of four errors with its exact cause, never a generator panic; SuccessProbability's exact value is the satisfying fraction count/a^L; the guard band of the default budget (>= 1/10 never refused, <= 9/100 always) and equality of the fast and exact decisions; wordlist recipes: missing/empty list and bad length give errors, and on no stream of raw words does the generator draw from zero alternatives (every bound it draws over lies in [1, 2^32)).",
        ref="§6 C13, §8 F1/F5",
        note="Trusts kernel+VM, hand model (tied by chargen/wlgen families with budgets, zero-valued recipes, exhaustion and last-attempt tapes), exact-rational vs float64 decision compared except within 0.5% of the threshold (counted as borderline). No axioms.",
        technique="Coq proof (case analysis of the generator term, big-integer guard band by vm_compute facts) + differential correspondence + exact-arithmetic decision oracle"),
    "C11": dict(
        text="Theorems for every non-empty token sequence of valid-UTF-8 values of at most 255 characters (any type bytes, empty values included): MakeIndices succeeds, Tokenize(String(), index) returns exactly the tokens, and the index has the documented size per kind; a token over 255 characters is an error; an index is never lossy; the kind conditions are characterised; composed with the generators: every character password of a recipe over text has the one-byte index and decodes exactly, every wordlist password over text words/separators of at most 255 characters encodes and decodes exactly, with 2*Length bytes for a non-empty constant separator and at most Length+1 for the empty one; the pinned byte-length encoder is refuted on concrete witnesses (F3, F3b).",
        ref="§6 C11, §8 F3/F3b",
        note="Trusts kernel+VM, the transcription of token.go (tied by the token family and by the round trip carried in every generated password of every family), the UTF-8 segmentation model explode (fuzzed through tokenize on invalid/truncated input). Entropy pass-through is compared, not proved. Domain: text (valid UTF-8) values; invalid bytes can fuse across token boundaries. No axioms.",
        technique="Coq proof (explode_app on valid UTF-8, slice round-trip lemmas per kind) + differential correspondence + direct round-trip oracle"),
    "C12": dict(
        text="Theorems for ALL byte strings as password and as index: tokenize never panics (the model carries Go's bounds checks as explicit Panic outcomes); returned tokens are consecutive slices whose concatenation is a prefix; exact character counts and types per kind; empty index, unknown kind, truncated full index and excessive lengths are errors; the pinned code is refuted by the witness (\"abc\", [3,1]) (F4).",
        ref="§6 C12, §8 F4",
        note="Trusts kernel+VM, the transcription of Tokenize incl. explicit bounds checks (tied by the tokenize family: kind byte exhaustive 0..255, both parities, invalid UTF-8), harness panic recovery. No axioms.",
        technique="Coq proof (structural recursion with explicit panic outcomes) + differential correspondence + direct totality/prefix oracle"),
    "C05": dict(
        text="Theorems for every title function, budget, recipe and raw-word stream: a returned wordlist password is the interleaving (assemble) of Length chosen atoms — word idx_i or, exactly at the positions the scheme selected, its title-cased form — with Length-1 separator values each in the range of its separator function, empty ones giving no token; the five schemes' position patterns; Atoms()/Separators() recover the atoms/separators in order; in observable form, for lists without an empty word: Atoms() is exactly the Length drawn words title-cased exactly at the selected positions, Separators() exactly Length-1 copies of a non-empty constant separator (none for the empty one), first and last token atoms.",
        ref="§6 C05, §8 F7",
        note="Trusts kernel+VM, the hand model of the token assembly loop (tied by the wlgen correspondence family, with the list order and strings.Title graph read from the implementation). Premise for the exactly-Length-atoms corollary: no kept word is empty (known finding F7 is reported otherwise). No axioms.",
        technique="Coq proof (support of the gen term by induction over the assembly loop) + differential correspondence + structural oracle"),
    "C08": dict(
        text="Theorems: every value Entropy() can return has components Length, size, bonus_of and the separator's entropy; the bonus is granted iff every kept word changes under title-casing and the scheme is random/one; size and un-capitalisable count, hence the value, are the same for any two constructions from inputs with the same elements (any order, repetition, map iteration order).",
        ref="§6 C08, §8 F2",
        note="Trusts kernel+VM, hand model of NewWordList/Entropy (tied by wlgen and the repeated-construction wlentropy family), idempotence of strings.Title (hypothesis in the statements, re-checked by the harness on every word), float32 arithmetic compared with an 8-ulp tolerance. No axioms.",
        technique="Coq proof (order-independence of the twin-removal pass, permutation invariance of counts) + differential correspondence + repeated-construction oracle"),
    "C10": dict(
        text="Theorems for every idempotent title function, every input list and every map iteration order: the kept words are exactly the distinct input words that are not the title-cased form of another listed word, without duplicates; the kept set, Size and un-capitalisable count are invariant under reordering/repetition of the input; an empty list is an error.",
        ref="§6 C10",
        note="Trusts kernel+VM, hand model of NewWordList with explicit iteration-order parameters (tied by the wordlist family: kept set read out through one-word passwords, several constructions per input). Caller-slice immutability: by the model's immutability, the translator's effect summary and the before/after comparison. No axioms.",
        technique="Coq proof (invariant over deletion-while-ranging, for all visiting orders) + differential correspondence + specification oracle with the real strings.Title graph"),
    "C09": dict(
        text="Theorems about the scripted-reader semantics every generator runs on: raw words are the complete 4-byte groups of the delivered bytes, independent of chunking (hence outcome and byte count are chunking-invariant for every generator); a read failing with 0-3 bytes delivered ends the word stream and nothing after it is used; an error arriving with a completed read is dropped (io.ReadFull); a starved run is the PRNG panic and a password only ever comes from complete words preceding the first failing read. 'Only input is the source' holds by construction of the gen monad and is tied to the code by obligations regenerated from the source (imports; crypto/rand.Read is called in exactly one function, into a buffer private to that activation) and by runs in which another generation executes inside a read of the first (interleave family): the same bytes give the same choices.",
        ref="§6 C09",
        note="Trusts kernel+VM, the model of crypto/rand.Read = io.ReadFull(Reader, 4 bytes) under go1.23.5 (tied by the faults family: 12 chunkings and a fault at every read position with 0-3 bytes, both generators), the translator's import list. That crypto/rand.Reader is the OS CSPRNG is Go's contract. No axioms.",
        technique="Coq proof (structural recursion over the read script) + differential correspondence + fault injection at every read position"),
    "C15": dict(
        text="Theorems over the API state machine (recipes incl. the unexported cache fields; caller-side field updates; Generate/Entropy/Alphabet/SuccessProbability with per-call tapes): calls never change the state; for every operation sequence over any number of recipes the result of each call is the result on the current public fields only (history independence, by induction over the sequence); replay invariance; methods are functions of the public fields although they read the cache; stale cache contents are irrelevant.",
        ref="§6 C15",
        note="Trusts kernel+VM, the model's value-receiver semantics (why the code has it — by-value receivers and no shared stores — is read from the source by the translator, see C14), tied by the history correspondence family with snapshots and replay invariance. No axioms.",
        technique="Coq proof (invariant + induction over fold of operations) + differential correspondence on operation histories + snapshot/replay oracle"),
}
PENDING = {}

ALL = ["C%02d" % i for i in range(1, 19)]

def main():
    checks = []
    for pid in ALL:
        if pid not in CHECKS:
            continue
        c = CHECKS[pid]
        checks.append({
            "property_id": pid,
            "quick_cmd": "python3 verif.py check %s --tier quick" % pid,
            "thorough_cmd": "python3 verif.py check %s --tier thorough" % pid,
            "evidence_file": "/verif/evidence/%s.json" % pid,
            "replay_cmd_template": "python3 verif.py replay {path}",
            "engine": "coq-model+correspondence",
            "level_claimed": {"category": "proof", "text": c["text"], "design_ref": c["ref"]},
            "level_note": c["note"],
            "technique": c["technique"],
        })
    na = [{"property_id": pid, "reason": PENDING.get(pid, "check not yet built in this revision of /verif (designed in DESIGN.md §6; being implemented)")}
          for pid in ALL if pid not in CHECKS]
    m = {
        "version": 1,
        "setup_cmd": "python3 verif.py setup",
        "hooks": {
            "guard": "verif",
            "enable": "go build -tags verif (harness/spgdrive with `replace go.1password.io/spg => /repo`; cmd/opgen built with -tags verif)",
            "baseline_off_cmd": "cd /repo && GOFLAGS=-mod=mod GOPROXY=off GOSUMDB=off GOTOOLCHAIN=local go test -json -vet=off -count=1 -timeout 25m ./...",
            "source_commits": hooks,
            "add_only": True,
        },
        "engines": [
            {"name": "coq-model+correspondence", "path": "/verif/coq, /verif/harness, /verif/translator, /verif/vlib",
             "serves_properties": [c["property_id"] for c in checks],
             "kind_free_text": "Coq 8.16.1 development (model, proofs, property statements) + translator regenerating coq/Gen from /repo + Go harness vs OCaml-extracted model differential check + direct oracles"},
        ],
        "checks": checks,
        "not_applicable": na,
        "notes": "See DESIGN.md (§12 describes what is built). Every check: translator regenerates coq/Gen from the tree under test -> full Coq build -> Print Assumptions closed for every property theorem -> differential correspondence (Go harness built with -tags verif vs extracted model) -> kernel-evaluated sample (the run's own cases re-evaluated by vm_compute inside Coq against the extracted program) -> direct oracle -> verdict. known_findings.json lists repaired (fixed:) and open findings; seeded/ holds 72 confirmed seeded changes with what catches them.",
    }
    json.dump(m, open("/verif/MANIFEST.json", "w"), indent=1)

if __name__ == "__main__":
    main()
