#!/bin/sh
# Statement coverage of 1Password/spg under the harness runs of the quick checks.
# Works on a COPY of /verif (scratch dir given as $1, default /tmp/cov): the harness is rebuilt there with
# `go build -cover -coverpkg=all` and an explicit counter flush (the harness redirects fd 1/2, so the runtime's
# own exit hook has nowhere to report), every quick check except C14/C17 is run, and the blocks of the library
# that no case executed are listed.  Nothing in /verif or /repo is modified.
set -e
D=${1:-/tmp/cov}
rm -rf "$D"; mkdir -p "$D/data"
rsync -a --exclude .git --exclude replays --exclude seeded /verif/ "$D/verif/"
cd "$D/verif"
python3 - <<'PY'
p='vlib/core.py'; s=open(p).read()
s=s.replace('rc, out = sh(["go", "build", "-modfile", modfile, "-tags", "verif", "-o", os.path.join(BUILD, "spgdrive"), "."],',
            'rc, out = sh(["go", "build", "-cover", "-covermode=atomic", "-coverpkg=all", "-modfile", modfile, "-tags", "verif", "-o", os.path.join(BUILD, "spgdrive"), "."],')
open(p,'w').write(s)
p='harness/main.go'; s=open(p).read()
s=s.replace('\t"runtime"\n','\t"runtime"\n\t"runtime/coverage"\n',1)
s=s.replace('\tdefer out.Flush()\n\tfor {','\tdefer out.Flush()\n\tdefer func() {\n\t\tif d := os.Getenv("GOCOVERDIR"); d != "" {\n\t\t\t_ = coverage.WriteMetaDir(d)\n\t\t\t_ = coverage.WriteCountersDir(d)\n\t\t}\n\t}()\n\tfor {',1)
open(p,'w').write(s)
PY
rm -f build/spgdrive
export GOCOVERDIR="$D/data"
python3 verif.py setup >/dev/null 2>&1
for c in C01 C02 C03 C04 C05 C06 C07 C08 C09 C10 C11 C12 C13 C15 C16 C18; do python3 verif.py check $c 2>&1 | tail -1 | cut -c1-70; done
GOFLAGS=-mod=mod GOTOOLCHAIN=local go tool covdata textfmt -i="$D/data" -o "$D/cover.txt" 2>/dev/null
python3 - "$D/cover.txt" <<'PY'
import re, sys, collections
blocks = collections.OrderedDict()
for l in open(sys.argv[1]):
    m = re.match(r'go\.1password\.io/spg/([\w\.]+):(\d+)\.(\d+),(\d+)\.(\d+) (\d+) (\d+)', l)
    if m:
        k = (m.group(1), int(m.group(2)), int(m.group(4)), int(m.group(6)), m.group(3), m.group(5))
        blocks[k] = blocks.get(k, 0) + int(m.group(7))
tot, cov = collections.Counter(), collections.Counter()
for (f, sl, el, n, _, _), c in blocks.items():
    tot[f] += n
    cov[f] += n if c else 0
for f in tot:
    print("%-20s %4d/%4d statements executed" % (f, cov[f], tot[f]))
for (f, sl, el, n, _, _), c in blocks.items():
    if not c:
        print("  never executed: %s:%d-%d (%d statements)" % (f, sl, el, n))
PY
