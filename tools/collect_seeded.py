#!/usr/bin/env python3
"""Assemble /verif/seeded/<id>/ from the sub-agents' deliverables, my own confirmation runs (tools/seedverify.py) and the
check matrix (tools/seedrun.py --checks all).  Usage: collect_seeded.py <seed_out dir>"""
import os, sys, json, glob, shutil

NEEDS = {
 "C01-m1": ("util.go randomUint32n: `for v >= discard` became `if` — a rejected raw word is redrawn once and the replacement is never re-checked",
            "two consecutive raw words at or above the rejection threshold"),
 "C01-m2": ("util.go randomUint32n: `for v >= discard` became `for v > discard` — the threshold value itself is accepted, alternative 0 gets one extra raw word",
            "the single raw word equal to the threshold (bias 2^-32, invisible statistically)"),
 "C02-m1": ("char_gen.go buildCharacterList: alphabet built by concatenating allowed and required strings instead of a set union — a character in two overlapping required sets is listed twice",
            "a recipe whose required sets overlap (e.g. Require: Digits with RequireSets {\"13579\"})"),
 "C02-m2": ("char_gen.go Generate: a rejected candidate keeps Length-1 of its characters (slides by one) instead of being redrawn whole",
            "a recipe with a live required set and a stream whose first candidate misses it"),
 "C03-m1": ("char_gen.go buildCharacterList: exclusions are subtracted from a required set only if something remains — a wholly excluded required set keeps its excluded characters",
            "a required set that is a subset of the excluded characters"),
 "C03-m2": ("char_sets.go requireFilter: per-byte set lookup instead of ContainsAny — a multi-byte character is taken for a Latin-1 member with the same byte",
            "a custom required set with a character in U+0080..U+00FF, another multi-byte character sharing a UTF-8 byte, and a draw containing only the latter"),
 "C04-m1": ("word_gen.go Generate: capWords map replaced by a uint64 bit mask — positions 64 and above can never be capitalised",
            "Length >= 65 with scheme all/one/random and a draw selecting a position >= 64"),
 "C04-m2": ("util.go randomUint32n: `for v > max` off-by-one copied from math/rand — index 0 gets one extra 32-bit preimage for every non-power-of-two size",
            "the single raw word equal to the rejection threshold of the list size / Length / separator alphabet"),
 "C05-m1": ("word_gen.go Generate: capWords as a uint64 bit mask — positions >= 64 never capitalised ('all' leaves them plain)",
            "Length >= 65 with scheme all, or one with a position draw >= 64"),
 "C05-m2": ("word_gen.go Generate: token slice preallocated and 'is this the last word' rewritten as len(ts) < cap(ts) — a trailing separator after the last atom when an earlier gap was empty",
            "a separator function that returns \"\" for some gap and a non-empty string afterwards (e.g. a fallible separator recipe under a small MaxTrials)"),
 "C06-m1": ("char_strength.go n(): memo table keyed on (size of reduced alphabet, remaining sets) — over-counts when two equal-size required sets overlap a later one differently",
            "three required sets such as {\"ab\",\"cd\",\"de\"}"),
 "C06-m2": ("word_gen.go Generate capitalises with a first-rune-only helper while NewWordList/Entropy still classify with strings.Title",
            "a list in which every word changes under strings.Title but one starts with an uncased rune ('tis, 4-wheel), scheme random/one"),
 "C07-m1": ("char_strength.go n(): drops required sets that contain another required set, with a non-strict subset test — two equal required sets are both dropped",
            "two required sets that are equal after exclusion"),
 "C07-m2": ("char_strength.go entropyWithRequired: machine-word fast path guarded by BitLen() <= 64 — counts in [2^63, 2^64) wrap negative, Entropy() is NaN",
            "a recipe whose count lies in [2^63, 2^64) (entropy between 63 and 64 bits)"),
 "C08-m1": ("word_gen.go NewWordList: un-capitalisable words counted during the twin-removal pass over the map (the pinned defect F2 reintroduced)",
            "a list with a word and its capitalised twin and no genuinely un-capitalisable word; map order visiting the twin first"),
 "C08-m2": ("word_gen.go NewWordList: twin removal merged into the input-order de-duplication loop — only 'Polish before polish' is handled",
            "an input in which the lower-case form precedes its capitalised twin, or the twin is repeated"),
 "C09-m1": ("util.go randomUint32: one rand.Reader.Read into a stack buffer instead of rand.Read — short reads leave the buffer partially filled",
            "a source that returns 1-3 bytes per read with a nil error"),
 "C09-m2": ("word_gen.go sfWrap: deferred recover() turns any panic during separator generation into an empty separator",
            "a wordlist recipe with a random separator and a failing read during a separator draw"),
 "C10-m1": ("word_gen.go NewWordList: twin removal moved into the input loop — Title(w) deleted only if already seen when w is first inserted",
            "the lower-case form appearing before an occurrence of its capitalised twin"),
 "C10-m2": ("word_gen.go NewWordList second pass: words whose first rune is upper case are skipped before strings.Title",
            "a word that starts upper-case with a lower-case later segment (O'neil, Jean-luc, New york) together with its Title form"),
 "C11-m1": ("token.go isAlternatingTokens: stride-2 pass that never checks the last token of an odd-length sequence — A S S classified as alternating",
            "an odd-length sequence alternating everywhere except a trailing non-atom"),
 "C11-m2": ("token.go MakeIndices: 'token too large' pre-check uses len() in bytes instead of the character count",
            "a non-ASCII token of at most 255 characters but more than 255 bytes"),
 "C12-m1": ("token.go Tokenize: []rune(pw) and string(chars[a:b]) instead of strings.Split/Join — invalid UTF-8 bytes come back as U+FFFD",
            "a password that is not valid UTF-8 and a token covering the invalid byte"),
 "C12-m2": ("token.go Tokenize: bounds checks compare with len(pw) in bytes instead of the character count — panic instead of error",
            "a password with a multi-byte character and an index whose cumulative length lies between the character count and the byte count"),
 "C13-m1": ("char_gen.go Generate: retry loop bound `<= MaxTrials` — 201 attempts",
            "a stream on which all permitted attempts fail"),
 "C13-m2": ("char_strength.go SuccessProbability memoised in a package-level sync.Map keyed by the joined RequireSets — different splits of the same characters collide",
            "two calls on recipes whose RequireSets concatenate to the same string ({a,b,c,d} then {ab,cd})"),
 "C14-m1": ("word_gen.go: unCapitalizableCount initialised lazily by (*WordList).isAllCapitalizable on first use",
            "a cold shared *WordList, scheme random/one, concurrent first calls"),
 "C14-m2": ("char_gen.go: r.requiredSets = r.requiredSets[:0] and NewSFFunction calls buildCharacterList up front — the closure's copies share one backing array",
            "a constructed SFFunction with two or more required sets shared by concurrent goroutines"),
 "C15-m1": ("char_gen.go buildCharacterList: in-place filter of empty RequireSets entries (r.RequireSets[:0] + append) compacts the caller's backing array",
            "an empty string before a non-empty one in RequireSets"),
 "C15-m2": ("word_gen.go WLRecipe.Entropy memoised on the shared *WordList keyed by {Length, Capitalize, SeparatorFunc != nil}",
            "two different non-nil separator functions with the same Length and Capitalize on one list"),
 "C16-m1": ("word_gen.go SFDigits2 'optimised' into one draw in [0,100) printed with strconv.Itoa — one-character separators for draws below 10",
            "a draw whose value is below 10"),
 "C16-m2": ("agilewords.go: the entry \"ocher\" spell-fixed to \"ochre\" in the generated file only",
            "entry-by-entry comparison with testdata (or drawing that word, 1 in 18325)"),
 "C17-m1": ("cmd/opgen charGenerator: recipe.Exclude |= parse(...) — the default Ambiguous exclusion survives an explicit --exclude list",
            "a non-default --exclude list without 'ambiguous' together with --entropy (every printed password is still valid)"),
 "C17-m2": ("cmd/opgen main: result printed with fmt.Printf(result + \"\\n\") — the password becomes a format string",
            "--file with a word containing % and a draw selecting it"),
 "C18-m1": ("char_gen.go Generate: after exhausting MaxTrials a log line formats the *Password (a Stringer) — the last rejected candidate goes to the process log",
            "a recipe with required sets and a stream on which all attempts fail"),
 "C18-m2": ("word_gen.go Generate: a warning naming the word just drawn is logged when it has no distinct capitalisation",
            "a list entry unchanged by strings.Title, a capitalising scheme and a draw putting it in a capitalised slot"),
}


NEEDS_R2 = {
 "C01-m1": ("util.go randomUint32: re-reads when the 4 bytes are all zero — alternative 0 loses one raw word for every n (mask path included)", "an aligned 00 00 00 00 raw word"),
 "C01-m2": ("util.go randomUint32n: branch for n > MaxInt32 does `if v >= n { v -= n }` without rejection", "a bound above 2^31 that is not a power of two and a raw word >= n"),
 "C02-m1": ("char_gen.go buildCharacterList: a wholly excluded required set is removed in place without stepping the index back — the next required set keeps its excluded characters", "a required set fully wiped by exclusion followed by another required set"),
 "C02-m2": ("char_sets.go requireFilter: byte-indexed lookup pwd[i:i+1] — a multi-byte required character is never matched", "a required set mixing non-ASCII and ASCII members"),
 "C03-m1": ("char_gen.go Generate: token buffer allocated before the trial loop and appended to without reset — (k+1)*Length tokens after k rejected candidates", "at least one rejected candidate"),
 "C03-m2": ("char_gen.go Generate: break on success and an exhausted check that can never be true — the last rejected candidate is returned with a nil error", "all permitted attempts failing"),
 "C04-m1": ("word_gen.go Generate: a word index is redrawn while it equals the previous word's index ('no stuttering')", "two consecutive equal word draws"),
 "C04-m2": ("word_gen.go Generate: the last (separator, entropy) pair is cached and the separator function is called again only while the reported entropy is non-zero", "a separator call that reports entropy 0 but whose value would vary (e.g. a separator recipe exhausting its attempts in one gap)"),
 "C05-m1": ("word_gen.go: token buffer kept on the WordList and reused — a returned Password aliases it and is overwritten by a later Generate", "holding a password across a later Generate on the same list"),
 "C05-m2": ("word_gen.go Generate: the per-gap len(sep) > 0 test hoisted to 'a separator is configured' — empty separator tokens", "a functional separator returning \"\" (SFNone)"),
 "C06-m1": ("char_gen.go buildCharacterList: alphabet by concatenation instead of union — characters shared by overlapping required sets are drawn twice while n() counts distinct strings", "overlapping required sets"),
 "C06-m2": ("word_gen.go Entropy: the random-scheme bonus becomes Length * capitalizeRatio()", "scheme random on a list mixing capitalisable and uncapitalisable words"),
 "C07-m1": ("char_gen.go Entropy: early -Inf when Length < number of required sets (valid only for disjoint sets)", "overlapping required sets and Length smaller than their number"),
 "C07-m2": ("util.go entropySimple: log2(math.Pow(nelem, length)) — +Inf once the count reaches 2^1024", "nothing required and Length*log2(size) >= 1024"),
 "C08-m1": ("word_gen.go NewWordList: 'capitalisable' decided by whether the first rune is lower-case instead of comparing with strings.Title", "words like 'tis, (sic), Ice-cream or a word starting with a caseless letter"),
 "C08-m2": ("word_gen.go Entropy: random-scheme bonus Length * capitalizeRatio() instead of the all-or-nothing guard", "scheme random on a mixed list"),
 "C09-m1": ("util.go randomUint32n: rejection loop reads with a shadowed err and breaks on failure — the error is swallowed", "a rejected first draw and a failing read right after it"),
 "C09-m2": ("util.go randomUint32: the 4-byte buffer hoisted to a package-level variable", "two generations interleaving between read and decode"),
 "C10-m1": ("word_gen.go NewWordList: a capFirst helper (first rune only) instead of strings.Title in the twin passes", "a word with an internal non-letter and one of its capitalised forms"),
 "C10-m2": ("word_gen.go NewWordList: twin removal only when the list had an exact duplicate ('already clean' shortcut)", "a twin pair in a list without exact duplicates"),
 "C11-m1": ("token.go MakeIndices (compact kinds): uint8 conversion before the > 255 guard — lengths silently mod 256", "a token of 256 or more characters in an all-atom or alternating sequence"),
 "C11-m2": ("token.go Tokenize (full kind): returns a fresh Password without the Entropy argument", "a full-kind index (entropy comes back 0)"),
 "C12-m1": ("token.go Tokenize (full kind): parity check dropped — a truncated index decodes with one token fewer", "kind byte 3 with an even total length"),
 "C12-m2": ("token.go Tokenize: early return for an empty password — unknown kinds, over-long lengths and truncated indices are accepted", "the empty string with a malformed index"),
 "C13-m1": ("char_strength.go n(): 'pruning' shortcut with IsSubset instead of empty intersection — SuccessProbability too high for overlapping sets", "overlapping required sets in a particular order"),
 "C13-m2": ("word_gen.go Generate: guard r.Size()==0 became r.list==nil — an empty non-nil list reaches randomUint32n(0)", "NewWLRecipe(n, &WordList{})"),
 "C14-m1": ("char_gen.go: Entropy gets a pointer receiver — buildCharacterList writes the shared recipe", "concurrent Entropy and Generate on one *CharRecipe"),
 "C14-m2": ("util.go randomUint32n: package-level counter incremented in the rejection loop only", "two goroutines both drawing a rejected raw word (invisible to a race run on the real source)"),
 "C15-m1": ("util.go randomUint32: bytes fetched 64 at a time into a package-level block handed out across calls", "the same call after different numbers of earlier draws"),
 "C15-m2": ("char_gen.go: buildCharacterList appends the classes to r.AllowChars / r.ExcludeChars and Alphabet gets a pointer receiver", "an Alphabet() call followed by a narrowed Allow or cleared Exclude"),
 "C16-m1": ("char_gen.go: MaxFailRate 1e-8 instead of 1e-9", "a recipe whose overall failure probability lies in (1e-9, 1e-8]"),
 "C16-m2": ("char_gen.go: the '-' of ctSymbols replaced by U+2010", "drawing that symbol"),
 "C17-m1": ("cmd/opgen parseCharacterClasses: ccFlags += ccFlag instead of |=", "a class word repeated in a list"),
 "C17-m2": ("cmd/opgen loadWordListFile: strings.Split(TrimSpace, \"\\n\") instead of strings.Fields", "files with several words on a line, CRLF, blank lines or trailing blanks"),
 "C18-m1": ("word_gen.go sfWrap: a 'cannot happen' log line quoting the separator when len(sep) != Length (bytes vs characters)", "a separator recipe over multi-byte characters"),
 "C18-m2": ("char_sets.go requireFilter: logs the set name and the whole candidate when a required set was emptied by exclusion", "a required set entirely covered by the exclusions"),
}
NEEDS_R3 = {
 "C01-m1": ("util.go randomUint32n: the power-of-two path takes k bits from a package-level 32-bit pool whose refill ORs a shifted word in and loses the shifted-out bits", "a sequence of power-of-two draws whose widths do not divide 32 (every 11th draw over n=8 has a forced zero bit)"),
 "C01-m2": ("util.go randomUint32n: final `v % n` replaced by a multiply-shift reduction while the rejection threshold is still the one for the modulo", "any bound that is not a power of two (n=18328: alternative 0 gets one raw word too many; above 2^31 two accepted words collide)"),
 "C02-m1": ("char_sets.go requireFilter: single pass crediting each character to the first unmet required set, then break — a character shared by two sets satisfies only one", "overlapping required sets and a candidate whose only member of one set is the shared character"),
 "C02-m2": ("char_gen.go Generate: the filter is skipped when SuccessProbability() >= 1.0 (a float32 that rounds to exactly 1 for long passwords)", "Length >= 70 with a required class and a stream whose candidate misses it"),
 "C03-m1": ("char_gen.go buildCharacterList: excluded classes are masked out of Allow/Require and no longer added to the excluded characters", "a class bit both excluded and allowed/required, with a character of that class arriving through AllowChars or a custom required set"),
 "C03-m2": ("char_gen.go Generate: candidates built in a package-level token buffer that the returned Password keeps", "two Generate calls with the first *Password retained"),
 "C04-m1": ("word_gen.go Generate (scheme one): a selected word that strings.Title leaves unchanged passes the capital on to the next position", "scheme one, a list with an un-capitalisable entry and the position draw landing on it"),
 "C04-m2": ("util.go + word_gen.go: the rejection bound for the word draw is cached on the WordList from len(list) before de-duplication", "an input that shrinks under normalisation and a raw word among the top few 32-bit values"),
 "C05-m1": ("word_gen.go: the scheme-all position map is built once and kept on the shared *WordList with no Length in the key", "two scheme-all recipes on one list, the shorter one used first"),
 "C05-m2": ("word_gen.go Generate switches on strings.ToLower of the scheme while Entropy() compares the raw string", "a scheme string differing from a constant only by case (All, One, RANDOM)"),
 "C06-m1": ("char_strength.go n(): 'implied' required sets pruned with the subset test the wrong way round — the binding subset is dropped", "one required set a proper subset of another"),
 "C06-m2": ("word_gen.go Generate: a non-empty SeparatorChar overrides SeparatorFunc while Entropy() still adds the function's entropy", "both separator fields set on one recipe"),
 "C07-m1": ("char_strength.go n(): recursion memoised per call by (alphabet cardinality, number of sets left)", "three or more required sets, two sub-alphabets of equal size overlapping a later set differently"),
 "C07-m2": ("char_gen.go Entropy(): process-wide cache keyed by the fields with RequireSets flattened by strings.Join", "two recipes in one process whose RequireSets concatenate to the same string"),
 "C08-m1": ("word_gen.go NewWordList: unCapitalizableCount = len(input) - capable, counted against the input slice instead of the kept words", "a repeated input word or capitalised twin on an all-capitalisable list with scheme random/one"),
 "C08-m2": ("word_gen.go Entropy(): separator entropy memoised in a package-level map keyed by the function's code pointer — all NewSFFunction closures collide", "two recipes with different preset separators evaluated in one process"),
 "C09-m1": ("util.go randomUint32: source errors whose Temporary() is true are retried up to three times, bytes summed across attempts", "a read failing with EAGAIN/EINTR or a wrapped temporary error"),
 "C09-m2": ("util.go randomUint32n: bound-2 draws served from a package-level bit reservoir", "coin flips after an earlier generation, or after a recovered source failure at a refill"),
 "C10-m1": ("word_gen.go NewWordList: the caller's slice is reused as the word list when nothing was dropped, and sorted in place", "a list without duplicates or twins (the slice is sorted and stays shared)"),
 "C10-m2": ("word_gen.go NewWordList: results memoised by {&list[0], len(list)}", "a second construction through the same buffer with the same length and different words"),
 "C11-m1": ("token.go isAllAtoms 'simplified' to 'no separator present'", "tokens with a type byte of 2 or more (from a full index) fed back to MakeIndices"),
 "C11-m2": ("token.go Tokenize: rejects a non-positive entropy argument", "a password of entropy 0 (one-word list) or any zero/negative/infinite entropy value"),
 "C12-m1": ("token.go Tokenize: the character-kind token slice comes from a sync.Pool and is put back while the returned Password references it", "two Tokenize calls with kind byte 0, the first result kept"),
 "C12-m2": ("token.go: hand-written IndexKind.String() guarding with > instead of >=, used in the default branch's error", "kind byte 4 exactly (panic instead of error)"),
 "C13-m1": ("char_gen.go hasAcceptableFailRate: the refusal threshold is computed once in a package-level var — later MaxTrials/MaxFailRate are ignored", "a caller who changes MaxTrials or MaxFailRate"),
 "C13-m2": ("char_gen.go Generate: the character loop `for i = 0` shares the trial counter", "a stream on which attempts fail (never terminates when Length+1 < MaxTrials, one attempt only otherwise)"),
 "C14-m1": ("char_gen.go buildCharacterList: the 'Dunno' fallback name is written back into the package-level charTypeNamesByFlag map", "Require: Ambiguous on first use in the process, concurrently with any recipe that requires a class"),
 "C14-m2": ("word_gen.go NewSFFunction: `if r.Length < 1 { r.Length = 1 }` inside the returned closure writes its captured recipe", "a constructed separator from a recipe with Length unset, shared by goroutines"),
 "C15-m1": ("char_gen.go: class sets cached in a package-level table; the excluded set starts as an alias of a table entry and ExcludeChars are added into it", "one call on {Exclude: Ambiguous, ExcludeChars: ...} — every later recipe excluding Ambiguous loses those characters"),
 "C15-m2": ("char_gen.go: the pre-flight verdict is memoised behind an unexported pointer allocated by NewCharRecipe and copied with the value", "NewCharRecipe, a refused or accepted Generate, then a field update"),
 "C16-m1": ("word_gen.go: the digit separator presets built in an init() loop whose closure captures the range variable (go 1.14 semantics)", "SFDigitsNoAmbiguous1/2 (draw from all ten digits, report 3.32 bits)"),
 "C16-m2": ("char_gen.go NewCharRecipe returns a pointer to one shared package-level default recipe", "a second NewCharRecipe after the caller modified the first"),
 "C17-m1": ("cmd/opgen --entropy prints fmt.Println(math.Round(e*100)/100) instead of %.2f", "an entropy whose second decimal is zero (28.2 instead of 28.20)"),
 "C17-m2": ("cmd/opgen: a new exit constant inserted before ExitUsage in the iota block", "missing subcommand, unknown subcommand or unknown --list (exit 3 instead of 2)"),
 "C18-m1": ("token.go Tokens.Kind(): logs %v of the tokens before returning FullIndexKind", "Generate followed by MakeIndices on an irregular sequence (empty word, or a separator recipe giving up)"),
 "C18-m2": ("char_gen.go Generate: a trace gated on the SPG_TRACE environment variable logs every rejected candidate", "SPG_TRACE set and a recipe that retries"),
}

NEEDS_R4 = {
 "C01-m1": ("util.go randomUint32: rand.Reader.Read(b[:]) with the returned byte count ignored — a reader delivering fewer than 4 bytes leaves the low-order bytes zero", "a source that returns 1-3 bytes per read"),
 "C01-m2": ("util.go randomUint32n: a rejected word is 'repaired' with v<<8 | one fresh byte instead of being redrawn whole", "a single rejected raw word (bias about n/2^32/256, 5 bytes consumed instead of 8)"),
 "C02-m1": ("char_sets.go setFromString: ranges over runes and skips utf8.RuneError without checking the width — a validly encoded U+FFFD disappears", "U+FFFD in AllowChars, RequireSets or ExcludeChars"),
 "C02-m2": ("char_gen.go Generate: last-recipe cache keyed by fmt.Sprint(r) — RequireSets {\"a b\"} and {\"a\",\"b\"} print alike", "two recipes with colliding %v images used one after the other"),
 "C03-m1": ("char_gen.go: the custom-set guard len(s) > 0 becomes len(strings.TrimSpace(s)) > 0 — a whitespace-only required set is neither enforced nor added to the alphabet", "a required set made only of blanks (space, TAB, NBSP)"),
 "C03-m2": ("char_gen.go Alphabet(): the joined string is sorted as bytes instead of sorting the characters", "any alphabet with a non-ASCII character (invalid UTF-8 comes back)"),
 "C04-m1": ("word_gen.go Generate (scheme random): when every coin comes up tails one position is drawn and capitalised", "the all-tails draw (probability 2^-Length)"),
 "C04-m2": ("word_gen.go word loop: bit pool for power-of-two lists refilled on avail <= 0 instead of avail < width", "a list of 2^k words with k not dividing 32 and Length > 32/k (8 words: every 11th word from only 4 entries)"),
 "C05-m1": ("word_gen.go Generate: strings.Title(strings.ToLower(w)) while NewWordList/Entropy classify with Title", "an entry with inner capitals or special case mappings at a capitalised position (iPhone, ALPHA, 1A)"),
 "C05-m2": ("word_gen.go (scheme one): the position draw wrapped in if Length > 1 — Length 1 capitalises nothing", "scheme one with Length 1"),
 "C06-m1": ("word_gen.go (scheme random): the coins come from one 32-bit word, position i takes bit i%32", "scheme random with Length >= 33 (positions i and i+32 always agree; Entropy still adds Length bits)"),
 "C06-m2": ("char_gen.go Generate: on the last permitted attempt a failing candidate is 'repaired' by planting members of the missing required sets", "a stream on which all earlier attempts and the last one miss a requirement"),
 "C07-m1": ("char_gen.go Entropy: with required sets and Length > 512 the simple Length*log2(alphabet) formula is used", "a required set tiny relative to the alphabet (1000 characters allowed, two required) at Length 513 and more"),
 "C07-m2": ("char_strength.go n(): the empty-set skip moved into the recursion as 'no members in this alphabet' — a later required set contained in an earlier one is dropped in the avoiding branch", "a subset listed after its superset (order-dependent, map-order-dependent with class flags)"),
 "C08-m1": ("word_gen.go Entropy: early return 0 for lists of fewer than 2 words", "a one-word list (single, repeated, or a twin pair) with scheme random/one or a separator function"),
 "C08-m2": ("word_gen.go Entropy: the separator term guarded by SeparatorChar == \"\" && SeparatorFunc != nil", "both separator fields set"),
 "C09-m1": ("word_gen.go Generate (scheme random): the coin flips walk the map of positions — which coin goes to which word comes from Go's map iteration order", "replaying the same bytes (no statistical test can see it)"),
 "C09-m2": ("util.go randomUint32n: the power-of-two path inlined with rand.Read into a stack buffer and the error check lost", "a failing read at a draw with a 2^k bound (coin flips, 16- or 64-character alphabets, lists of 2^k words)"),
 "C10-m1": ("word_gen.go NewWordList: dedup map holds first-seen indices and the twin test is unique[cap] > 0 — a twin first seen at index 0 looks absent", "the capitalised twin as the first element of the input"),
 "C10-m2": ("word_gen.go NewWordList: zero-length words skipped ('blank line in a word file')", "a list containing the empty string"),
 "C11-m1": ("token.go MakeIndices: token lengths counted in UTF-16 units", "a token with a character outside the BMP"),
 "C11-m2": ("token.go maxTokenLen (used by Kind): combining marks (category Mn) not counted", "an all-atom password whose every atom is a base letter plus combining marks"),
 "C12-m1": ("token.go Tokenize: the per-token bounds check replaced by one check of the total, summed into a uint8", "lengths totalling 256 or more against a password shorter than the total but at least total mod 256"),
 "C12-m2": ("token.go Tokenize: the empty-index guard len(ti) == 0 becomes ti == nil", "an empty non-nil index (Indices{}, make(Indices,0), stored[:0])"),
 "C13-m1": ("char_strength.go n() base case: uint64 multiply loop when length*log2(size) <= 64 (should be < 64) — a count of exactly 2^64 wraps to 0", "a power-of-two alphabet with length*log2(size) == 64 and a required set (16 characters x Length 16)"),
 "C13-m2": ("char_gen.go hasAcceptableFailRate: 'pigeonhole' refusal when there are more required sets than Length", "overlapping required sets, or sets emptied by exclusion, with Length below their number"),
 "C14-m1": ("char_gen.go: the 'Custom N' names come from a package-level slice pre-filled with four names and appended on demand", "recipes with more than four RequireSets first used concurrently"),
 "C14-m2": ("char_gen.go: alphabets of class-only recipes cached in a sync.Map; Alphabet() sorts the shared cached slice in place", "the first Alphabet() of a class combination concurrent with Generate or another Alphabet()"),
 "C15-m1": ("char_strength.go SuccessProbability: strings.Join(append(r.RequireSets, r.AllowChars), \"\") writes into the caller's backing array when RequireSets has spare capacity", "RequireSets passed as a prefix of a longer table"),
 "C15-m2": ("word_gen.go NewSFFunction: the separator's entropy captured from the first call with a sync.Once", "a first call that fails (all attempts miss a requirement): every later call reports 0 bits"),
 "C16-m1": ("word_gen.go sfWrap + util.go nFromString: a fast path for requirement-free separator recipes picking with randomUint32() % n", "a raw word in the top 2^32 mod n values (outputs and entropies identical, modulo bias)"),
 "C16-m2": ("char_gen.go constants: a sentinel after Ambiguous and All = sentinel - 1 — All includes Ambiguous", "the constant itself, or Require: All without the default exclusion"),
 "C17-m1": ("cmd/opgen main: log.SetOutput(os.Stdout) — the library's duplicate-word notice lands on standard output before the password", "--file with a repeated word or a twin pair"),
 "C17-m2": ("cmd/opgen charGenerator: recipe.Exclude &^= recipe.Require", "a class both in --require and in the effective --exclude"),
 "C18-m1": ("word_gen.go Generate: a deferred recover() logs the tokens drawn so far when the random source fails, then re-panics", "a source that fails after at least one word draw"),
 "C18-m2": ("token.go MakeIndices: a token over 255 characters is logged (first 12 characters, %.12q) before the error is returned", "a wordlist password with an entry or separator beyond 255 characters, then MakeIndices"),
}

NEEDS_R5 = {
 "C01-m1": ("util.go randomUint32n: `if v := randomUint32(); v < discard { break }` inside the rejection loop — the := shadows v, the rejected word is what gets reduced", "one raw word at or above the threshold with a non-power-of-two bound (byte consumption stays correct)"),
 "C01-m2": ("util.go randomUint32: rand.Int(rand.Reader, big.NewInt(math.MaxUint32)) instead of the 4-byte read — the upper bound is exclusive, FF FF FF FF is silently redrawn", "a power-of-two bound and that aligned word"),
 "C02-m1": ("char_gen.go Generate: the filter string built with copy into a Length-byte buffer — multi-byte candidates are cut at Length bytes", "a valid candidate whose required character lies past byte offset Length"),
 "C02-m2": ("char_sets.go setFromString: runes up to unicode.MaxLatin1 treated as one byte", "any character in U+0080..U+00FF in a custom string"),
 "C03-m1": ("char_gen.go buildCharacterList: the three independent ifs folded into one first-match switch (Require, Allow, Exclude)", "a class bit both excluded and allowed or required"),
 "C03-m2": ("char_sets.go requireFilter: misses collected in a uint8 bit mask — 1 << i is 0 from the ninth set on", "nine or more required sets and a candidate missing only a later one"),
 "C04-m1": ("word_gen.go NewWordList: the un-capitalisable count via `capable := ourWords[:0]; append` — compacts the kept word slice in place", "a list mixing capitalisable and un-capitalisable words (duplicated and lost words, Size unchanged)"),
 "C04-m2": ("util.go randomUint32n: inner `v := randomUint32()` in the restructured rejection loop shadows the returned variable", "a first raw word in the rejection zone of a non-power-of-two bound"),
 "C05-m1": ("word_gen.go Generate: title-casing skipped when unicode.IsUpper(rune(w[0])) — w[0] is a byte; UTF-8 lead bytes 0xC2..0xDE are upper-case Latin-1 code points", "a word starting with é, ü, ñ, a Cyrillic or Greek letter at a capitalised position"),
 "C05-m2": ("word_gen.go NewWordList: `ourWords = list` when nothing was dropped — the word list aliases the caller's slice", "an input without duplicates and a caller that later reuses the slice"),
 "C06-m1": ("char_sets.go requireFilter: ranges by rune but slices one byte (pwd[i:i+1])", "a required set mixing ASCII and non-ASCII members"),
 "C06-m2": ("char_strength.go entropyWithRequired: big.Float.Float64() then math.Log2 — overflows to +Inf", "a requiring recipe whose count reaches 2^1024 (default alphabet with Require Digits from Length 173)"),
 "C07-m1": ("char_gen.go buildCharacterList: required class strings appended onto r.RequireSets — writes into the caller's backing array", "RequireSets with spare capacity shared by two recipes, and a Require flag"),
 "C07-m2": ("char_strength.go n(): leaf shortcut returns a shared *big.Int for 0 and 1, later mutated by count.Sub(count, avoiding)", "overlapping required sets leaving a one-character alphabet; every later recipe in the process is affected"),
 "C08-m1": ("word_gen.go NewWordList: the un-capitalisable count compares with strings.ToTitle (upper-cases every letter) instead of strings.Title", "an already-capitalised word (Monday) in a list without caseless words, scheme random/one"),
 "C08-m2": ("word_gen.go Entropy: the random bonus as log2(1 << uint(Length)) held in an int", "scheme random with Length 63 (NaN) or 64 and more (-Inf)"),
 "C09-m1": ("util.go randomUint32: the error check becomes n == 0 && err != nil", "a read failing after 1-3 of its 4 bytes"),
 "C09-m2": ("word_gen.go WLRecipe.Generate: named results and a deferred recover().(error) — the string panic of the source failure is swallowed, (&Password{}, nil) is returned", "any failing read during a wordlist generation"),
 "C10-m1": ("word_gen.go NewWordList: twins removed with append(ws[:i], ws[i+1:]...) inside a range over ws — the element after a removed one is skipped", "two twin pairs whose capitalised forms are neighbours in byte order (march, may, March, May)"),
 "C10-m2": ("word_gen.go Generate: strings.ToUpper(w[:1]) + w[1:] instead of strings.Title — the first byte, not the first character", "a word whose first character is non-ASCII at a capitalised position"),
 "C11-m1": ("token.go maxTokenLen: a helper keeps `&t` of the range variable (go 1.14 semantics: one shared variable) — the last token's length is returned", "an all-atom sequence with a longer atom that ends in a one-character atom"),
 "C11-m2": ("token.go: the folded length check compares with math.MaxInt8 instead of math.MaxUint8", "a token of 128 to 255 characters"),
 "C12-m1": ("token.go Tokenize: strings.SplitN(pw, \"\", total) — the last element is the unsplit remainder", "a kind-1/2 index whose lengths sum to less than the string's characters"),
 "C12-m2": ("token.go Tokenize: `sep, err := takeChars(...)` in the separator branch shadows the err checked after the loop", "kind byte 2 and a string that runs out exactly at a separator token"),
 "C13-m1": ("char_strength.go SuccessProbability: denominator from len(r.Alphabet()) — bytes, not characters", "a non-ASCII character in the alphabet and at least one requirement (a 0.985 recipe is refused)"),
 "C13-m2": ("word_gen.go WLRecipe.Generate: make(Tokens, 0, 2*r.Length-1) ahead of the guards — negative capacity panics", "a wordlist recipe with Length <= 0 (WLRecipe{}, NewWLRecipe(0, nil))"),
 "C14-m1": ("word_gen.go: a title cache map on WordList guarded by a mutex, reached through a value-receiver method — each call locks a private copy of the mutex", "concurrent Generate on one shared list with a capitalising scheme"),
 "C14-m2": ("char_gen.go buildCharacterList: required classes appended to a local copy of r.RequireSets — on the caller's backing array", "RequireSets with spare capacity, a Require flag, two goroutines"),
 "C15-m1": ("word_gen.go NewWLRecipe: SeparatorFunc = attrs.fixedSeparator (a method value bound to that one recipe object)", "a copy of a NewWLRecipe recipe whose SeparatorChar is then changed"),
 "C15-m2": ("char_gen.go buildCharacterList: `custom := append(r.RequireSets[:0], r.RequireSets...)` then sort.Strings(custom) — sorts the caller's slice", "two or more RequireSets entries not in sorted order"),
 "C16-m1": ("char_gen.go: class sets cached once; the first excluded class is taken by reference and ExcludeChars are added into it", "a recipe with an Exclude class plus ExcludeChars, then any recipe excluding Ambiguous"),
 "C16-m2": ("word_gen.go NewWordList: `ourWords := list[:0]` — the caller's slice (the exported AgileWords, in opgen) is overwritten in map order", "entry-by-entry comparison of the exported list with testdata after it was passed to NewWordList once"),
 "C17-m1": ("cmd/opgen main: `pwd, err := generator.Generate()` in the else block shadows the outer err checked at the single exit point", "a command line the library refuses without --entropy (prints nothing, exits 0)"),
 "C17-m2": ("cmd/opgen loadWordListFile: a bufio ReadString loop that breaks on err != nil — an unterminated last line is dropped", "--file whose last line has no newline"),
 "C18-m1": ("token.go + word_gen.go: a redacting String() on *Token (pointer receiver) and a log of the token slice when an empty word is skipped — fmt prints []Token elements as values", "a list with an empty entry and a draw selecting it after the first position"),
 "C18-m2": ("char_gen.go + trace.go: a trace hook logging rejected candidates in a file whose constraint line reads `// go:build spgtrace` (the space makes it a comment: always compiled)", "a recipe with requirements and a first candidate that fails them"),
}

NEEDS_R6 = {
 "C04-m1": ("util.go randomUint32: one rand.Reader.Read into a stack array, the byte count ignored", "a source that returns fewer than 4 bytes per read"),
 "C04-m2": ("word_gen.go Generate: strings.Title(strings.ToLower(w)) at capitalised positions — entries differing only in inner case produce the same token", "a list with iPhone/iphone-style pairs and a capitalised position landing on one"),
 "C04-m3": ("word_gen.go Generate: a drawn empty-string entry is redrawn (i--; continue) — the blank member is never chosen although Size and entropy count it", "a list containing \"\" plus another entry, and a draw selecting the blank"),
 "C04-m4": ("word_gen.go Generate: a separator function returning \"\" falls back to SeparatorChar", "both separator fields set and a function that can return the empty string"),
 "C05-m1": ("password.go String(): built through a []rune — bytes that are not valid UTF-8 become U+FFFD", "a list entry that is not valid UTF-8 at a position that is not title-cased"),
 "C05-m2": ("word_gen.go Generate: an empty generated separator falls back to SeparatorChar", "SeparatorChar set together with a function returning \"\" (SFNone)"),
 "C05-m3": ("word_gen.go Generate: capitalisation gated by isAllCapitalizable() ('every entry changes under Title' instead of 'some entry does')", "a list with one caseless entry among lower-case words and a capitalising scheme"),
 "C05-m4": ("word_gen.go Generate: the atom guard len(w) > 0 becomes len(strings.TrimSpace(w)) > 0", "a whitespace-only list entry drawn"),
 "C07-m1": ("char_strength.go n(): the leaf exponent kept in one package-level *big.Int", "several goroutines inside Entropy() at once with different Length and a required set"),
 "C07-m2": ("char_gen.go/char_sets.go: custom required sets named after their characters, a set whose name is already present is skipped", "a RequireSets entry literally \"Digits\" (or another class name) with that class required"),
 "C07-m3": ("char_gen.go buildCharacterList: the empty-entry skip becomes len(strings.TrimSpace(s)) > 0", "a required set made entirely of whitespace"),
 "C07-m4": ("char_gen.go: NewCharRecipe allocates a `last` pointer; Entropy() reuses its previous result while a key without the contents of RequireSets is unchanged", "a constructed recipe asked once whose RequireSets contents are then replaced in place"),
 "C10-m1": ("word_gen.go NewWordList: a twin is found by looking up strings.ToLower(w) and checking that it titles back to w", "a base word with an inner capital together with its title form (iPhone/IPhone)"),
 "C10-m2": ("word_gen.go NewWordList: a leading U+FEFF is trimmed from the element at index 0 only", "a BOM-prefixed word in first position"),
 "C10-m3": ("word_gen.go NewWordList: words sorted case-insensitively and twins removed by a sweep over neighbours only", "three case-spellings of one word and a map order leaving the third between the twin pair (about 1 construction in 10)"),
 "C10-m4": ("word_gen.go Generate: strings.Title(strings.ToLower(w)) at capitalised positions", "a kept word with an inner capital at a capitalised position"),
 "C15-m1": ("char_strength.go n(): a shared package-level big one for one-character alphabets, zeroed by the in-place Sub of a later recursion", "an earlier recipe with nested required sets leaving exactly one other allowed character"),
 "C15-m2": ("util.go randomUint32n: a 256-slot table of rejection bounds written for n < 256 but read through uint8(n) for every n", "a draw over a small n, a later draw over n + 256k, and a raw word at the top of the range"),
 "C15-m3": ("word_gen.go Generate: a drawn empty-string entry is deleted from the shared *WordList and redrawn", "a list containing \"\" and a draw that hits it: every later recipe on that list changes"),
 "C15-m4": ("char_gen.go Generate: trial token slices from a sync.Pool, put back before the filter decides — a held result is overwritten by a later Generate", "an earlier successful call on a recipe with requirements whose *Password is still held"),
 "C16-m1": ("word_gen.go NewSFFunction: each separator call lowers MaxTrials to 20 and restores it only on success", "a constructed separator that fails under 20 attempts, then reading MaxTrials"),
 "C16-m2": ("char_gen.go buildCharacterList: a required class is added only when charTypeNamesByFlag has a name for it (Ambiguous has none)", "Require: Ambiguous"),
 "C16-m3": ("util.go subtractString + char_gen.go: exclusion through a regexp bracket class built with QuoteMeta — `.-_` in the symbols becomes a range", "Exclude: Symbols (also removes digits and upper-case letters, keeps '-')"),
 "C16-m4": ("char_gen.go NewCharRecipe: early return for length < 1 before the defaults are set", "NewCharRecipe(0) or a negative length"),
}


def main():
    src = sys.argv[1]
    rnd = sys.argv[2] if len(sys.argv) > 2 else ""        # "" for round 1, "r2" for round 2
    needs = NEEDS_R6 if rnd == "r6" else NEEDS_R5 if rnd == "r5" else NEEDS_R4 if rnd == "r4" else NEEDS_R3 if rnd == "r3" else NEEDS_R2 if rnd == "r2" else NEEDS
    verify = {}
    vf = os.path.join(src, "verify.jsonl")
    if os.path.exists(vf):
        for l in open(vf):
            r = json.loads(l)
            verify[r["seed"]] = r
    matrix = {}
    files = sorted(glob.glob(os.path.join(src, "matrix*.jsonl"))) + sorted(glob.glob(os.path.join(src, "run_own*.jsonl"))) + \
        sorted(glob.glob(os.path.join(src, "run[0-9]*.jsonl")))
    for f in files:
        for l in open(f):
            try:
                r = json.loads(l)
            except Exception:
                continue
            for c, v in r.get("results", {}).items():
                if v.get("rc") is None:
                    continue
                matrix.setdefault(r["seed"], {})[c] = v      # later files (re-runs with strengthened checks) win
    out = "/verif/seeded"
    os.makedirs(out, exist_ok=True)
    for d in sorted(glob.glob(os.path.join(src, "C*", "m*"))):
        prop = os.path.basename(os.path.dirname(d))
        key = "%s-%s" % (prop, os.path.basename(d))
        sid = "%s-%s%s" % (prop, rnd, os.path.basename(d))
        dst = os.path.join(out, sid)
        os.makedirs(dst, exist_ok=True)
        for f in os.listdir(d):
            shutil.copy(os.path.join(d, f), os.path.join(dst, f))
        v = verify.get(d, {})
        res = matrix.get(d, {})
        caught = sorted(c for c, x in res.items() if x["rc"] == 1)
        missed = sorted(c for c, x in res.items() if x["rc"] == 0)
        what, nd = needs.get(key, ("", ""))
        meta = {
            "id": sid, "property": prop, "change": what, "needs_to_manifest": nd,
            "origin": "written by a sub-agent given only the property text and a scratch worktree of /repo",
            "confirmed_by_me": {"tool": "tools/seedverify.py (scratch worktree of /repo HEAD)", "patch_applies": v.get("applies"), "builds_with_and_without_tag": v.get("builds"),
                                "existing_suite_passes_with_patch_x2": v.get("suite_pass_with_patch"), "demo_passes_on_clean_tree": v.get("demo_clean_pass"),
                                "demo_fails_with_patch": v.get("demo_patched_fail"), "confirmed": v.get("confirmed")},
            "checks_run": "tools/seedrun.py (copy of /verif, scratch worktree, SPG_REPO): quick tier of every registered check",
            "caught_by": caught, "not_caught_by": missed,
            "own_property_detail": (res.get(prop) or {}).get("detail", ""), "own_property_line": (res.get(prop) or {}).get("line", "").split(" replay=")[0],
        }
        json.dump(meta, open(os.path.join(dst, "meta.json"), "w"), indent=1)
        print(sid, "caught_by", caught)

main()
