#!/usr/bin/env python3
"""Systematic small mutants of 1Password/spg (operator flips, off-by-one constants, negations) to measure what the checks
detect.  Each mutant is built and run through the EXISTING test suite in a scratch worktree; the ones that still compile and
pass the suite (the realistic, test-surviving ones) are run against the quick checks on a copy of /verif (SPG_REPO).
Never touches /repo.   usage: mutate.py <outdir> [--files a.go,b.go] [--limit N] [--shard i/n]"""
import os, re, sys, json, subprocess, shutil, tempfile, argparse, hashlib

ENV = dict(os.environ, GOFLAGS="-mod=mod", GOPROXY="off", GOSUMDB="off", GOTOOLCHAIN="local")
FILES = ["util.go", "char_gen.go", "char_sets.go", "char_strength.go", "word_gen.go", "token.go", "password.go", "cmd/opgen/opgen.go"]
ORDER = {   # checks most likely to notice a change in the file, first
    "util.go": ["C01", "C09", "C02", "C04", "C07", "C18", "C13", "C14"],
    "char_gen.go": ["C03", "C02", "C13", "C07", "C06", "C15", "C16", "C18", "C14"],
    "char_sets.go": ["C03", "C02", "C13", "C07", "C15", "C14"],
    "char_strength.go": ["C07", "C13", "C06", "C02", "C15", "C18", "C14"],
    "word_gen.go": ["C05", "C04", "C08", "C10", "C06", "C13", "C16", "C15", "C18", "C17", "C14"],
    "token.go": ["C11", "C12", "C05", "C02"],
    "password.go": ["C05", "C11", "C03"],
    "cmd/opgen/opgen.go": ["C17"],
}
RULES = [
    (r"<=", "<"), (r">=", ">"), (r"(?<![<>=!:])<(?![=<-])", "<="), (r"(?<![<>=!-])>(?![=>])", ">="),
    (r"==", "!="), (r"!=", "=="), (r"&&", "||"), (r"\|\|", "&&"),
    (r"(?<=[\w\)\]]) \+ (?=[\w\(])", " - "), (r"(?<=[\w\)\]]) - (?=[\w\(])", " + "), (r"(?<=[\w\)\]])-1\b", "-2"), (r"(?<=[\w\)\]])\+1\b", "+2"),
    (r"\b0\b", "1"), (r"\b1\b", "0"), (r"\b1\b", "2"), (r"\btrue\b", "false"), (r"\bfalse\b", "true"),
    (r"\+\+", "--"), (r"\+=", "-="), (r"(?<=if )!", ""), (r"\bcontinue\b", "break"), (r"%", "/"),
    (r"\[1:\]", "[:]"), (r"\|=", "&="), (r"(?<=\w) \| (?=\w)", " & "), (r"(?<=\w) & (?=\w)", " | "),
]


def sh(cmd, cwd, timeout=600):
    try:
        p = subprocess.run(cmd, cwd=cwd, env=ENV, shell=True, stdout=subprocess.PIPE, stderr=subprocess.STDOUT, text=True, timeout=timeout)
        return p.returncode, p.stdout
    except subprocess.TimeoutExpired:
        return 124, "timeout"


def code_part(line):
    """the part of a line before a // comment, outside string literals (roughly)"""
    out, i, q = [], 0, None
    while i < len(line):
        c = line[i]
        if q:
            if c == "\\":
                i += 2
                continue
            if c == q:
                q = None
        elif c in "\"'`":
            q = c
        elif line.startswith("//", i):
            break
        i += 1
    return line[:i]


def mutants(repo, files):
    for f in files:
        src = open(os.path.join(repo, f)).read().split("\n")
        in_block, in_raw = False, False
        for ln, line in enumerate(src):
            s = line.strip()
            if in_block:
                if "*/" in s:
                    in_block = False
                continue
            if s.startswith("/*"):
                in_block = "*/" not in s
                continue
            if in_raw:
                if "`" in line:
                    in_raw = False
                continue
            if line.count("`") % 2 == 1:
                in_raw = True
                continue
            if not s or s.startswith("//") or s.startswith("import") or s.startswith("package") or s.startswith('"'):
                continue
            code = code_part(line)
            for pat, rep in RULES:
                for m in re.finditer(pat, code):
                    # skip matches inside string literals
                    if code[:m.start()].count('"') % 2 == 1:
                        continue
                    new = line[:m.start()] + rep + line[m.end():]
                    if new == line:
                        continue
                    yield f, ln, line, new


def mutants_v2(repo, files):
    """second operator family: a single-line statement deleted (assignment, increment, call, continue/break), and an `if`
    condition forced to true / false"""
    stmt = re.compile(r"^\s*(?:[\w\.\[\]\*]+(?:,\s*[\w\.\[\]\*]+)*\s*(?:[-+|&^*/%]?=)\s*[^{]*|[\w\.\[\]]+(?:\+\+|--)|[\w\.]+\(.*\)|continue|break)\s*$")
    for f in files:
        src = open(os.path.join(repo, f)).read().split("\n")
        depth_ok = False
        for ln, line in enumerate(src):
            s = line.strip()
            if s.startswith("func "):
                depth_ok = True
            if not depth_ok or not s or s.startswith("//"):
                continue
            code = code_part(line)
            if stmt.match(code) and not s.startswith(("return", "defer", "go ", "var ", "case ", "default")) and ":=" not in code:
                yield f, ln, line, line[:len(line) - len(line.lstrip())] + "// deleted: " + s
            m = re.match(r"^(\s*(?:\} else )?if )(.*)( \{\s*)$", code)
            if m and ";" not in m.group(2):
                yield f, ln, line, m.group(1) + "true || " + m.group(2) + m.group(3)
                yield f, ln, line, m.group(1) + "false && " + m.group(2) + m.group(3)


def main():
    ap = argparse.ArgumentParser()
    ap.add_argument("out")
    ap.add_argument("--ops", default="v1")
    ap.add_argument("--files", default=",".join(FILES))
    ap.add_argument("--limit", type=int, default=0)
    ap.add_argument("--shard", default="0/1")
    a = ap.parse_args()
    si, sn = [int(x) for x in a.shard.split("/")]
    os.makedirs(a.out, exist_ok=True)
    base = tempfile.mkdtemp(prefix="mut-")
    wt = os.path.join(base, "repo")
    vcopy = os.path.join(base, "verif")
    subprocess.run(["git", "-C", "/repo", "worktree", "add", "--detach", wt, "HEAD"], check=True, stdout=subprocess.DEVNULL, stderr=subprocess.DEVNULL)
    subprocess.run(["rsync", "-a", "--exclude", ".git", "--exclude", "replays", "--exclude", "seeded", "/verif/", vcopy + "/"], check=True)
    env = dict(os.environ, SPG_REPO=wt)
    log = open(os.path.join(a.out, "mutants-%d.jsonl" % si), "a")
    done = set()
    try:
        for l in open(os.path.join(a.out, "mutants-%d.jsonl" % si)):
            done.add(json.loads(l)["id"])
    except Exception:
        pass
    n = 0
    try:
        gen = mutants_v2 if a.ops == "v2" else mutants
        for k, (f, ln, old, new) in enumerate(gen(wt, a.files.split(","))):
            mid = hashlib.sha1(("%s:%d:%s" % (f, ln, new)).encode()).hexdigest()[:10]
            if int(mid, 16) % sn != si or mid in done:
                continue
            if a.limit and n >= a.limit:
                break
            n += 1
            path = os.path.join(wt, f)
            src = open(path).read().split("\n")
            src[ln] = new
            open(path, "w").write("\n".join(src))
            rec = {"id": mid, "file": f, "line": ln + 1, "old": old.strip(), "new": new.strip()}
            rc, out = sh("go build ./... && go build -tags verif ./... && go vet ./... 2>&1 | head -5", wt)
            if rc != 0:
                rec["status"] = "does-not-build"
            else:
                rc, out = sh("go test -vet=off -count=1 ./...", wt, timeout=300)
                if rc != 0:
                    rec["status"] = "killed-by-existing-tests"
                else:
                    rc2, out2 = sh("go test -vet=off -count=1 ./...", wt, timeout=300)
                    if rc2 != 0:
                        rec["status"] = "killed-by-existing-tests"
                    else:
                        rec["status"] = "survives-tests"
                        caught = None
                        for c in ORDER.get(f, []):
                            p = subprocess.run([sys.executable, os.path.join(vcopy, "verif.py"), "check", c, "--tier", "quick"], cwd=vcopy, env=env,
                                               stdout=subprocess.PIPE, stderr=subprocess.STDOUT, text=True)
                            if p.returncode != 0:
                                line = [l for l in p.stdout.split("\n") if l.startswith("VIOLATION")]
                                caught = {"check": c, "line": (line[0].split(" replay=")[0] + (" no-failing-input-found" if line and "no-failing" in line[0] else "")) if line else p.stdout[-200:]}
                                break
                        rec["caught"] = caught
            subprocess.run("git checkout -- .", cwd=wt, shell=True)
            log.write(json.dumps(rec) + "\n")
            log.flush()
    finally:
        subprocess.run(["git", "-C", "/repo", "worktree", "remove", "--force", wt], stdout=subprocess.DEVNULL, stderr=subprocess.DEVNULL)
        shutil.rmtree(base, ignore_errors=True)


main()
