#!/usr/bin/env python3
"""Confirm a seeded change in a scratch worktree of /repo (never in /repo itself):
   existing suite passes with the patch; the demonstration fails with it and passes without.
   usage: seedverify.py <seed dir with patch.diff + demo> ...   -> prints one JSON line per seed"""
import os, sys, re, json, subprocess, shutil, glob, tempfile

ENV = dict(os.environ, GOFLAGS="-mod=mod", GOPROXY="off", GOSUMDB="off", GOTOOLCHAIN="local")

def sh(cmd, cwd, timeout=1200):
    p = subprocess.run(cmd, cwd=cwd, env=ENV, shell=True, stdout=subprocess.PIPE, stderr=subprocess.STDOUT, text=True, timeout=timeout)
    return p.returncode, p.stdout

def main():
    wt = tempfile.mkdtemp(prefix="seedwt-")
    os.rmdir(wt)
    subprocess.run(["git", "-C", "/repo", "worktree", "add", "--detach", wt, "HEAD"], check=True, stdout=subprocess.DEVNULL, stderr=subprocess.DEVNULL)
    try:
        for d in sys.argv[1:]:
            d = os.path.abspath(d)
            res = {"seed": d}
            demos = [f for f in glob.glob(os.path.join(d, "*.go"))]
            patch = os.path.join(d, "patch.diff")
            race = "-race" if "-race" in open(os.path.join(d, "RUN.txt")).read() else ""
            placed = []
            names = []
            pkgdir = "."
            for f in demos:
                src = open(f).read()
                m = re.search(r"^package\s+(\w+)", src, re.M)
                pkgdir = "cmd/opgen" if m and m.group(1) == "main" else "."
                names += re.findall(r"^func (Test\w+|Example\w*)\(", src, re.M)
            run = "^(%s)$" % "|".join(names) if names else "."
            def demo():
                for f in demos:
                    shutil.copy(f, os.path.join(wt, pkgdir, os.path.basename(f)))
                    placed.append(os.path.join(wt, pkgdir, os.path.basename(f)))
                rc, out = sh("go test -vet=off -count=1 %s -run '%s' ./%s" % (race, run, pkgdir), wt)
                for f in placed:
                    if os.path.exists(f): os.remove(f)
                return rc, out
            rc0, out0 = demo()
            res["demo_clean_pass"] = (rc0 == 0)
            rc, out = sh("git apply '%s'" % patch, wt)
            res["applies"] = (rc == 0)
            if rc == 0:
                rcb, outb = sh("go build ./... && go build -tags verif ./...", wt)
                res["builds"] = (rcb == 0)
                suite = []
                for i in range(2):
                    rcs, outs = sh("go test -vet=off -count=1 ./...", wt)
                    suite.append(rcs == 0)
                res["suite_pass_with_patch"] = all(suite)
                rc1, out1 = demo()
                res["demo_patched_fail"] = (rc1 != 0)
                res["demo_patched_tail"] = out1[-600:]
            sh("git checkout -- . && git clean -fdq", wt)
            res["confirmed"] = bool(res.get("demo_clean_pass") and res.get("applies") and res.get("builds") and res.get("suite_pass_with_patch") and res.get("demo_patched_fail"))
            print(json.dumps(res), flush=True)
    finally:
        subprocess.run(["git", "-C", "/repo", "worktree", "remove", "--force", wt], stdout=subprocess.DEVNULL, stderr=subprocess.DEVNULL)
        shutil.rmtree(wt, ignore_errors=True)

main()
