#!/usr/bin/env python3
"""Run checks against seeded changes WITHOUT touching /repo or /verif's build:
   a copy of /verif (with its build products) and a scratch worktree of /repo are used
   (SPG_REPO points the framework at the worktree).
   usage: seedrun.py --checks C01,C02|all  <seed dir> ...   -> JSON lines {seed, results:{Cxx: {rc, line}}}"""
import os, sys, json, subprocess, shutil, tempfile, argparse

def main():
    ap = argparse.ArgumentParser()
    ap.add_argument("--checks", default="own")
    ap.add_argument("--tier", default="quick")
    ap.add_argument("--keep", action="store_true", help="keep the scratch copy (replays, evidence) for inspection")
    ap.add_argument("seeds", nargs="+")
    a = ap.parse_args()
    base = tempfile.mkdtemp(prefix="seedrun-")
    wt = os.path.join(base, "repo")
    vcopy = os.path.join(base, "verif")
    subprocess.run(["git", "-C", "/repo", "worktree", "add", "--detach", wt, "HEAD"], check=True, stdout=subprocess.DEVNULL, stderr=subprocess.DEVNULL)
    subprocess.run(["rsync", "-a", "--exclude", ".git", "--exclude", "replays", "/verif/", vcopy + "/"], check=True)
    env = dict(os.environ, SPG_REPO=wt)
    manifest = json.load(open("/verif/MANIFEST.json"))
    allchecks = [c["property_id"] for c in manifest["checks"]]
    try:
        for d in a.seeds:
            d = os.path.abspath(d)
            own = os.path.basename(os.path.dirname(d)) if os.path.basename(d).startswith("m") else None
            meta = os.path.join(d, "meta.json")
            if os.path.exists(meta):
                own = json.load(open(meta)).get("property", own)
            checks = allchecks if a.checks == "all" else ([own] if a.checks == "own" else a.checks.split(","))
            r = subprocess.run(["git", "apply", os.path.join(d, "patch.diff")], cwd=wt)
            res = {}
            if r.returncode != 0:
                print(json.dumps({"seed": d, "error": "patch does not apply"}), flush=True)
                continue
            for c in checks:
                if c not in allchecks:
                    res[c] = {"rc": None, "line": "not registered"}
                    continue
                p = subprocess.run([sys.executable, os.path.join(vcopy, "verif.py"), "check", c, "--tier", a.tier], cwd=vcopy, env=env,
                                   stdout=subprocess.PIPE, stderr=subprocess.STDOUT, text=True)
                lines = [l for l in p.stdout.split("\n") if l.startswith(("VIOLATION", "OK ", "KNOWN"))]
                detail = ""
                for l in lines:
                    if l.startswith("VIOLATION") and "replay=" in l:
                        rp = l.split("replay=")[1].split()[0]
                        try:
                            dj = json.load(open(rp))
                            v = dj.get("violation") or {}
                            detail = (v.get("what") or "") or "; ".join("%s: %s" % (b.get("what"), b.get("detail")) for b in dj.get("broken", []))
                        except Exception as e:
                            detail = "?"
                res[c] = {"rc": p.returncode, "line": " | ".join(l for l in lines if not l.startswith("KNOWN"))[:300], "detail": detail[:400]}
            subprocess.run("git checkout -- . && git clean -fdq", cwd=wt, shell=True)
            print(json.dumps({"seed": d, "results": res}), flush=True)
    finally:
        subprocess.run(["git", "-C", "/repo", "worktree", "remove", "--force", wt], stdout=subprocess.DEVNULL, stderr=subprocess.DEVNULL)
        if a.keep:
            print("kept: " + base, file=sys.stderr)
        else:
            shutil.rmtree(base, ignore_errors=True)

main()
