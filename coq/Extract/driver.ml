(* modelrun: runs the extracted Coq model on line-oriented cases.
   Input  line: <id> <family> <args...>      (space separated)
   Output line: <id> <result...>
   bytes are hex ("-" = empty); lists are a count followed by the elements. *)
module ZA = Z   (* zarith, before Model shadows the name Z *)
type str = string (* OCaml strings, before Model shadows the name string *)
module Str_ = Stdlib.String
open Model

let rec pos_of_int i =
  if i = 1 then XH
  else if i land 1 = 0 then XO (pos_of_int (i lsr 1))
  else XI (pos_of_int (i lsr 1))
let n_of_int i = if i = 0 then N0 else if i < 0 then failwith "n_of_int" else Npos (pos_of_int i)
let z_of_int i = if i = 0 then Z0 else if i > 0 then Zpos (pos_of_int i) else Zneg (pos_of_int (-i))
let rec int_of_pos = function XH -> 1 | XO p -> 2 * int_of_pos p | XI p -> 2 * int_of_pos p + 1
let int_of_n = function N0 -> 0 | Npos p -> int_of_pos p
let int_of_z = function Z0 -> 0 | Zpos p -> int_of_pos p | Zneg p -> - (int_of_pos p)
let rec nat_of_int i = if i <= 0 then O else S (nat_of_int (i - 1))
let int_of_nat n = let rec go acc = function O -> acc | S m -> go (acc + 1) m in go 0 n

(* big numbers are printed in hex through zarith *)
let rec zar_of_pos = function
  | XH -> ZA.one
  | XO p -> ZA.shift_left (zar_of_pos p) 1
  | XI p -> ZA.succ (ZA.shift_left (zar_of_pos p) 1)
let zar_of_n = function N0 -> ZA.zero | Npos p -> zar_of_pos p
let zar_of_z = function Z0 -> ZA.zero | Zpos p -> zar_of_pos p | Zneg p -> ZA.neg (zar_of_pos p)
let hexz z = if ZA.sign z < 0 then "-" ^ ZA.format "%x" (ZA.neg z) else ZA.format "%x" z
let rec pos_of_zar z =
  if ZA.equal z ZA.one then XH
  else if ZA.is_even z then XO (pos_of_zar (ZA.shift_right z 1))
  else XI (pos_of_zar (ZA.shift_right z 1))
let z_of_zar z = if ZA.sign z = 0 then Z0 else if ZA.sign z > 0 then Zpos (pos_of_zar z) else Zneg (pos_of_zar (ZA.neg z))
let n_of_zar z = if ZA.sign z = 0 then N0 else Npos (pos_of_zar z)

let bytes_of_hex s =
  if s = "-" then [] else begin
    let n = String.length s / 2 in
    List.init n (fun i -> n_of_int (int_of_string ("0x" ^ String.sub s (2 * i) 2)))
  end
let hex_of_bytes bs =
  if bs = [] then "-" else String.concat "" (List.map (fun b -> Printf.sprintf "%02x" (int_of_n b)) bs)

(* token stream *)
type toks = { mutable rest : str list }
let next t = match t.rest with [] -> failwith "unexpected end of case" | x :: r -> t.rest <- r; x
let next_int t = int_of_string (next t)
let next_n t = n_of_zar (ZA.of_string (next t))
let next_z t = z_of_zar (ZA.of_string (next t))
let next_bytes t = bytes_of_hex (next t)
let next_bool t = next t = "1"
let next_list t f = let k = next_int t in List.init k (fun _ -> f t)

let next_source t : source = next_list t (fun t -> let bs = next_bytes t in let f = next_bool t in Chunk (bs, f))

let err_name = function
  | EBadLength -> "badlength" | ENoChars -> "nochars" | EFailRate -> "failrate"
  | EExhausted -> "exhausted" | ENoList -> "nolist" | EEmptyList -> "emptylist"
  | EEmptyIndex -> "emptyindex" | ETooShort -> "tooshort" | EBadFull -> "badfull"
  | EUnknownKind -> "unknownkind" | ETokenTooLarge -> "toolarge"
let panic_name = function
  | PDrawZero -> "zero" | PPrng -> "prng" | PIndex -> "index" | PNil -> "nil"

let show_outcome f = function
  | Done a -> "ok " ^ f a
  | Err e -> "err " ^ err_name e
  | Panic p -> "panic " ^ panic_name p

(* diagnostics rendered by the Coq model itself (Model/Diag.v) *)
let render_diag ds =
  Printf.sprintf "stdout=%s stderr=%s" (hex_of_bytes (render_stream Stdout ds)) (hex_of_bytes (render_stream Log ds))
let no_diag = "stdout=- stderr=-"

let next_recipe t =
  let l = next_z t in
  let allow = next_n t in let req = next_n t in let excl = next_n t in
  let ac = next_bytes t in
  let rs = next_list t next_bytes in
  let ec = next_bytes t in
  { crLength = l; crAllow = allow; crRequire = req; crExclude = excl;
    crAllowChars = ac; crRequireSets = rs; crExcludeChars = ec }
let next_budget t =
  let tr = next_z t in let fn = next_z t in let fd = next_z t in
  { bTrials = tr; bFailNum = fn; bFailDen = fd }

let show_entropy = function
  | EntCount c -> "C:" ^ hexz (zar_of_z c)
  | EntSimple (l, size) -> Printf.sprintf "S:%s:%s" (ZA.to_string (zar_of_z l)) (ZA.to_string (zar_of_n size))

(* tokens as "<k> <hex>:<type> ..." *)
let show_tokens (ts : (n list * n) list) =
  String.concat " " (string_of_int (List.length ts) :: List.map (fun (v, ty) -> hex_of_bytes v ^ ":" ^ string_of_int (int_of_n ty)) ts)
let join0 (vs : n list list) =
  hex_of_bytes (List.concat (List.mapi (fun i v -> if i = 0 then v else N0 :: v) vs))

let show_roundtrip (ts : (n list * n) list) =
  let toks = List.map (fun (v, ty) -> { value = v; ttype = ty }) ts in
  let ((k, mi), rt) = roundtrip_report toks in
  let idx = (match mi with
    | Done [] -> "nil"
    | Done l -> hex_of_bytes l
    | Err e -> "err:" ^ err_name e
    | Panic p -> "panic:" ^ panic_name p) in
  let r = (match rt with
    | RtNone -> "none" | RtOk -> "ok" | RtErr e -> "err:" ^ err_name e | RtPanic -> "panic"
    | RtLossy ts' -> "lossy:" ^ String.concat "," (List.map (fun t -> hex_of_bytes t.value ^ ":" ^ string_of_int (int_of_n t.ttype)) ts')) in
  Printf.sprintf "kind=%d idx=%s rt=%s" (int_of_n k) idx r

let show_password (ts : (n list * n) list) ent consumed =
  let atoms = List.filter_map (fun (v, ty) -> if int_of_n ty = 1 then Some v else None) ts in
  let seps = List.filter_map (fun (v, ty) -> if int_of_n ty = 0 then Some v else None) ts in
  Printf.sprintf "ok %s str=%s atoms=%s seps=%s ent=%s consumed=%d %s" (show_tokens ts)
    (hex_of_bytes (List.concat (List.map fst ts))) (join0 atoms) (join0 seps) (show_entropy ent) consumed
    (show_roundtrip ts)

let show_strs (ss : n list list) =
  if ss = [] then "0" else Printf.sprintf "%d,%s" (List.length ss) (String.concat "," (List.map hex_of_bytes ss))

(* "<k>,<hex>,<hex>..." or "0" or "none" *)
let parse_strs s =
  if s = "0" then [] else
  match String.split_on_char ',' s with
  | _ :: items -> List.map bytes_of_hex items
  | [] -> []
let next_emit t = let s = next t in if s = "none" then None else Some (parse_strs s)
let next_titles t =
  let s = next t in
  let tbl = if s = "0" then [] else
    (match String.split_on_char ',' s with
     | _ :: items -> List.map (fun it -> match String.split_on_char '>' it with
                                         | [a; b] -> (bytes_of_hex a, bytes_of_hex b)
                                         | _ -> failwith "bad title pair") items
     | [] -> []) in
  (tbl, s)
let next_words t =
  match t.rest with
  | "nil" :: r -> t.rest <- r; ([], "nil")
  | "zero" :: r -> t.rest <- r; ([], "zero")
  | _ -> (next_list t next_bytes, "list")
let rec next_sep t =
  match next t with
  | "both" -> let _ = next_bytes t in next_sep t     (* SeparatorChar and SeparatorFunc both set: the function is used *)
  | "char" -> SepChar (next_bytes t)
  | "const" -> SepConst (next_bytes t)
  | "recipe" -> SepRecipe (next_recipe t)
  | "preset" -> (match next t with
      | "SFNone" -> sFNone | "SFDigits1" -> sFDigits1 | "SFDigits2" -> sFDigits2
      | "SFDigitsNoAmbiguous1" -> sFDigitsNoAmbiguous1 | "SFDigitsNoAmbiguous2" -> sFDigitsNoAmbiguous2
      | "SFSymbols" -> sFSymbols | "SFDigitsSymbols" -> sFDigitsSymbols
      | p -> failwith ("unknown preset " ^ p))
  | k -> failwith ("bad separator kind " ^ k)

let show_wl_entropy (e : wl_entropy) =
  Printf.sprintf "W:%s:%s:%s:%s" (ZA.to_string (zar_of_z e.weLength)) (ZA.to_string (zar_of_n e.weSize))
    (match e.weBonus with BonusNone -> "n" | BonusRandom -> "r" | BonusOne -> "o")
    (match e.weSep with None -> "-" | Some se -> show_entropy se)

let show_password_wl (ts : (n list * n) list) ent consumed =
  let atoms = List.filter_map (fun (v, ty) -> if int_of_n ty = 1 then Some v else None) ts in
  let seps = List.filter_map (fun (v, ty) -> if int_of_n ty = 0 then Some v else None) ts in
  Printf.sprintf "ok %s str=%s atoms=%s seps=%s ent=%s consumed=%d %s" (show_tokens ts)
    (hex_of_bytes (List.concat (List.map fst ts))) (join0 atoms) (join0 seps) (show_wl_entropy ent) consumed
    (show_roundtrip ts)


(* ---- the two shipped lists, as the MODEL's new_word_list constructs them; computed once and cached on disk
   (key: content of the list file and this executable), because the model's normalisation is quadratic ---- *)
let read_lines path =
  let ic = open_in_bin path in
  let n = in_channel_length ic in
  let data = really_input_string ic n in
  close_in ic;
  let ls = String.split_on_char '\n' data in
  let ls = (match List.rev ls with "" :: r -> List.rev r | _ -> ls) in
  (data, ls)
let bytes_of_str (s : str) : n list = List.init (Str_.length s) (fun i -> n_of_int (Char.code s.[i]))
let builtin_cache : (str, word_list option outcome) Hashtbl.t = Hashtbl.create 2
let builtin_list (fname : str) : word_list option outcome =
  match Hashtbl.find_opt builtin_cache fname with
  | Some r -> r
  | None ->
    let dir = (try Sys.getenv "SPG_LISTS_DIR" with Not_found -> "/repo/testdata") in
    let (data, ls) = read_lines (Filename.concat dir fname) in
    let key = Digest.to_hex (Digest.string ("ascii" ^ data ^ Digest.file Sys.executable_name)) in
    let cdir = (try Sys.getenv "VERIF_CACHE_DIR" with Not_found -> Filename.get_temp_dir_name ()) in
    let cfile = Filename.concat cdir ("modelrun-list-" ^ key) in
    let r =
      if Sys.file_exists cfile then begin
        let (_, cl) = read_lines cfile in
        (match cl with
         | u :: ws -> Done (Some { wlWords = List.map bytes_of_hex ws; wlUncap = nat_of_int (int_of_string u) })
         | [] -> failwith "bad list cache")
      end else begin
        let (o, _) = run_new_word_list_ascii (List.map bytes_of_str ls) in
        (match o with
         | Done (Some wl) ->
             let oc = open_out_bin cfile in
             output_string oc (string_of_int (int_of_nat wl.wlUncap) ^ "\n");
             List.iter (fun w -> output_string oc (hex_of_bytes w ^ "\n")) wl.wlWords;
             close_out oc
         | _ -> ());
        o
      end in
    Hashtbl.replace builtin_cache fname r; r

let show_action = function
  | AUsage -> "usage" | AFlagError -> "flagerror" | AHelp -> "help" | AFatal -> "fatal" | AOutside -> "outside"
  | AChar (_, false) -> "chars" | AChar (_, true) -> "chars-entropy"
  | AWords (_, false) -> "words" | AWords (_, true) -> "words-entropy"


(* ---- kernel sample: when MODELRUN_COQ names a file, every supported case is also written there as a Gallina goal
   "<model function applied to the parsed arguments> = <the value this extracted program computed>", to be checked by
   coqc with vm_compute: the kernel's evaluation of the model against the extracted code, on the very cases that were
   compared with the implementation. ---- *)
let coq_out : out_channel option =
  match Sys.getenv_opt "MODELRUN_COQ" with
  | Some path when path <> "" -> Some (open_out_gen [Open_append; Open_creat] 0o644 path)
  | _ -> None
let goal_counter = ref 0
let pp_n n = Printf.sprintf "%s%%N" (ZA.to_string (zar_of_n n))
(* big integers are written in Horner form over 2^64 (Coq parses long decimal literals slowly) *)
let pp_z z =
  let v = zar_of_z z in
  let base = ZA.shift_left ZA.one 64 in
  let rec horner a = if ZA.lt a base then ZA.to_string a else
      Printf.sprintf "(%s + 18446744073709551616 * %s)" (ZA.to_string (ZA.rem a base)) (horner (ZA.div a base)) in
  if ZA.sign v >= 0 then Printf.sprintf "(%s)%%Z" (horner v) else Printf.sprintf "(- %s)%%Z" (horner (ZA.neg v))
let pp_nat k = Printf.sprintf "(N.to_nat %s)" (pp_n (n_of_int (int_of_nat k)))
let pp_bool b = if b then "true" else "false"
let pp_list f l = "[" ^ String.concat "; " (List.map f l) ^ "]"
let pp_bytes (b : n list) = if b = [] then "(@nil N)" else "[" ^ String.concat "; " (List.map (fun x -> ZA.to_string (zar_of_n x)) b) ^ "]%N"
let pp_opt f = function None -> "None" | Some x -> "(Some " ^ f x ^ ")"
let pp_pair f g (a, b) = "(" ^ f a ^ ", " ^ g b ^ ")"
let pp_err = function
  | EBadLength -> "EBadLength" | ENoChars -> "ENoChars" | EFailRate -> "EFailRate" | EExhausted -> "EExhausted"
  | ENoList -> "ENoList" | EEmptyList -> "EEmptyList" | EEmptyIndex -> "EEmptyIndex" | ETooShort -> "ETooShort"
  | EBadFull -> "EBadFull" | EUnknownKind -> "EUnknownKind" | ETokenTooLarge -> "ETokenTooLarge"
let pp_panic = function PDrawZero -> "PDrawZero" | PPrng -> "PPrng" | PIndex -> "PIndex" | PNil -> "PNil"
let pp_outcome f = function
  | Done a -> "(Done " ^ f a ^ ")" | Err e -> "(Err " ^ pp_err e ^ ")" | Panic p -> "(Panic " ^ pp_panic p ^ ")"
let pp_recipe r =
  Printf.sprintf "(mkCR %s %s %s %s %s %s %s)" (pp_z r.crLength) (pp_n r.crAllow) (pp_n r.crRequire) (pp_n r.crExclude)
    (pp_bytes r.crAllowChars) (pp_list pp_bytes r.crRequireSets) (pp_bytes r.crExcludeChars)
let pp_budget b = Printf.sprintf "(mkBudget %s %s %s)" (pp_z b.bTrials) (pp_z b.bFailNum) (pp_z b.bFailDen)
let pp_source (src : source) = pp_list (fun (Chunk (bs, f)) -> Printf.sprintf "Chunk %s %s" (pp_bytes bs) (pp_bool f)) src
let pp_entropy = function
  | EntCount c -> "(EntCount " ^ pp_z c ^ ")" | EntSimple (l, sz) -> "(EntSimple " ^ pp_z l ^ " " ^ pp_n sz ^ ")"
let pp_token tk = Printf.sprintf "(Tok %s %s)" (pp_bytes tk.value) (pp_n tk.ttype)
let pp_bonus = function BonusNone -> "BonusNone" | BonusRandom -> "BonusRandom" | BonusOne -> "BonusOne"
let pp_wle e = Printf.sprintf "(mkWLE %s %s %s %s)" (pp_z e.weLength) (pp_n e.weSize) (pp_bonus e.weBonus) (pp_opt pp_entropy e.weSep)
let pp_wl wl = Printf.sprintf "(mkWL %s %s)" (pp_list pp_bytes wl.wlWords) (pp_nat wl.wlUncap)
let pp_sep = function
  | SepChar c -> "(SepChar " ^ pp_bytes c ^ ")" | SepConst c -> "(SepConst " ^ pp_bytes c ^ ")" | SepRecipe r -> "(SepRecipe " ^ pp_recipe r ^ ")"
let pp_cap = function
  | CapNone -> "CapNone" | CapFirst -> "CapFirst" | CapAll -> "CapAll" | CapRandom -> "CapRandom" | CapOne -> "CapOne" | CapOther -> "CapOther"
let pp_diag = function DEntropySimpleNot z -> "(DEntropySimpleNot " ^ pp_z z ^ ")" | DDuplicates z -> "(DDuplicates " ^ pp_z z ^ ")"
let pp_tbl tbl = pp_list (pp_pair pp_bytes pp_bytes) tbl
let emit_goal id lhs rhs =
  match coq_out with
  | None -> ()
  | Some oc ->
      incr goal_counter;
      Printf.fprintf oc "(* case %s *)\nGoal %s = %s.\nProof. vm_compute. reflexivity. Qed.\n" id lhs rhs;
      flush oc
let current_id = ref ""
let pp_wlr (w : wl_recipe) = Printf.sprintf "(mkWLR %s %s %s %s)" (pp_opt pp_wl w.wrList) (pp_z w.wrLength) (pp_sep w.wrSep) (pp_cap w.wrCap)
let pp_obj = function
  | OChar c -> Printf.sprintf "(OChar (mkCO %s None))" (pp_recipe c.coPub)
  | OWL w -> "(OWL " ^ pp_wlr w ^ ")"
let pp_op = function
  | SetChar (h, r) -> Printf.sprintf "SetChar %s %s" (pp_nat h) (pp_recipe r)
  | SetWL (h, w) -> Printf.sprintf "SetWL %s %s" (pp_nat h) (pp_wlr w)
  | Generate (h, src) -> Printf.sprintf "Generate %s %s" (pp_nat h) (pp_source src)
  | Entropy (h, src) -> Printf.sprintf "Entropy %s %s" (pp_nat h) (pp_source src)
  | Alphabet h -> "Alphabet " ^ pp_nat h
  | SuccessProb h -> "SuccessProb " ^ pp_nat h
let pp_result = function
  | RNone -> "RNone"
  | RChar (o, n, e) -> Printf.sprintf "RChar %s %s %s" (pp_outcome (pp_list pp_bytes) o) (pp_n n) (pp_entropy e)
  | RWord (o, n) -> Printf.sprintf "RWord %s %s" (pp_outcome (pp_pair (pp_list pp_token) pp_wle) o) (pp_n n)
  | REntropy e -> "REntropy " ^ pp_entropy e
  | RWLEntropy (o, n) -> Printf.sprintf "RWLEntropy %s %s" (pp_outcome pp_wle o) (pp_n n)
  | RAlphabet a -> "RAlphabet " ^ pp_bytes a
  | RSuccess (num, den) -> Printf.sprintf "RSuccess %s %s" (pp_z num) (pp_z den)
let pp_rt = function
  | RtNone -> "RtNone" | RtOk -> "RtOk" | RtErr e -> "(RtErr " ^ pp_err e ^ ")" | RtPanic -> "RtPanic"
  | RtLossy ts -> "(RtLossy " ^ pp_list pp_token ts ^ ")"
let pp_wsrc = function
  | BuiltinWords -> "BuiltinWords" | BuiltinSyllables -> "BuiltinSyllables" | FromFile ws -> "(FromFile " ^ pp_list pp_bytes ws ^ ")"
let pp_action = function
  | AUsage -> "AUsage" | AFlagError -> "AFlagError" | AHelp -> "AHelp" | AFatal -> "AFatal" | AOutside -> "AOutside"
  | AChar (r, e) -> Printf.sprintf "(AChar %s %s)" (pp_recipe r) (pp_bool e)
  | AWords (p, e) -> Printf.sprintf "(AWords (mkWP %s %s %s %s) %s)" (pp_wsrc p.wpSource) (pp_z p.wpSize) (pp_sep p.wpSep) (pp_cap p.wpCap) (pp_bool e)

let run_case fam t =
  match fam with
  | "draw" ->
      let n = next_n t in
      let src = next_source t in
      let (o, consumed) = run_draw n src in
      emit_goal !current_id (Printf.sprintf "run_draw %s %s" (pp_n n) (pp_source src)) (pp_pair (pp_outcome pp_n) pp_n (o, consumed));
      Printf.sprintf "%s consumed=%d %s" (show_outcome (fun i -> string_of_int (int_of_n i)) o) (int_of_n consumed) no_diag
  | "chargen" ->
      let r = next_recipe t in
      let b = next_budget t in
      let src = next_source t in
      let (o, consumed) = run_chargen b r src in
      emit_goal !current_id (Printf.sprintf "(run_chargen %s %s %s, char_generate_diag %s, char_entropy %s)" (pp_budget b) (pp_recipe r) (pp_source src) (pp_recipe r) (pp_recipe r))
        (Printf.sprintf "(%s, %s, %s)" (pp_pair (pp_outcome (pp_list pp_bytes)) pp_n (o, consumed)) (pp_list pp_diag (char_generate_diag r)) (pp_entropy (char_entropy r)));
      let d = render_diag (char_generate_diag r) in
      (match o with
       | Done cand ->
           show_password (List.map (fun g -> (g, n_of_int 1)) cand) (char_entropy r) (int_of_n consumed) ^ " " ^ d
       | Err e -> Printf.sprintf "err %s consumed=%d %s" (err_name e) (int_of_n consumed) d
       | Panic p -> Printf.sprintf "panic %s consumed=%d %s" (panic_name p) (int_of_n consumed) d)
  | "recipe" ->
      let r = next_recipe t in
      let (((a, c), e), den) = recipe_report r in
      emit_goal !current_id (Printf.sprintf "recipe_report %s" (pp_recipe r)) (Printf.sprintf "(%s, %s, %s, %s)" (pp_bytes a) (pp_z c) (pp_entropy e) (pp_z den));
      let ed = (match e with EntSimple (_, N0) -> [DEntropySimpleNot Z0] | _ -> []) in
      Printf.sprintf "alphabet=%s count=%s ent=%s sp=%s/%s stable=1 %s" (hex_of_bytes a)
        (hexz (zar_of_z c)) (show_entropy e) (hexz (zar_of_z c)) (hexz (zar_of_z den))
        (render_diag (ed @ ed @ ed @ ed))
  | "token" ->
      let ts = next_list t (fun t -> let v = next_bytes t in let ty = next_n t in (v, ty)) in
      (let toks = List.map (fun (v, ty) -> { value = v; ttype = ty }) ts in
       let ((k, mi), rt) = roundtrip_report toks in
       emit_goal !current_id (Printf.sprintf "roundtrip_report %s" (pp_list pp_token toks))
         (Printf.sprintf "(%s, %s, %s)" (pp_n k) (pp_outcome pp_bytes mi) (pp_rt rt)));
      show_roundtrip ts ^ " " ^ no_diag
  | "tokenize" ->
      let pw = next_bytes t in
      let idx = next_bytes t in
      emit_goal !current_id (Printf.sprintf "tokenize %s %s" (pp_bytes pw) (pp_bytes idx)) (pp_outcome (pp_list pp_token) (tokenize pw idx));
      (match tokenize pw idx with
       | Done ts -> Printf.sprintf "ok %s entok=1 %s" (show_tokens (List.map (fun tk -> (tk.value, tk.ttype)) ts)) no_diag
       | Err e -> Printf.sprintf "err %s %s" (err_name e) no_diag
       | Panic p -> Printf.sprintf "panic %s %s" (panic_name p) no_diag)
  | "wordlist" ->
      let emit = next_emit t in
      let (tbl, tstr) = next_titles t in
      let (l, _) = next_words t in
      let (o, d) = run_new_word_list tbl emit l in
      emit_goal !current_id (Printf.sprintf "run_new_word_list %s %s %s" (pp_tbl tbl) (pp_opt (pp_list pp_bytes) emit) (pp_list pp_bytes l))
        (pp_pair (pp_outcome (pp_opt pp_wl)) (pp_list pp_diag) (o, d));
      (match o with
       | Done (Some wl) ->
           Printf.sprintf "ok size=%d words=%s titles=%s slice=same %s" (List.length wl.wlWords) (show_strs wl.wlWords) tstr (render_diag d)
       | Done None -> Printf.sprintf "ORDER-IS-NOT-A-REARRANGEMENT-OF-THE-KEPT-WORDS %s" (render_diag d)
       | Err e -> Printf.sprintf "err %s slice=same %s" (err_name e) (render_diag d)
       | Panic p -> Printf.sprintf "panic %s %s" (panic_name p) (render_diag d))
  | "wlgen" ->
      let emit = next_emit t in
      let (tbl, tstr) = next_titles t in
      let (l, lk) = next_words t in
      let wlo = (match lk with
        | "nil" -> Ok None
        | "zero" -> Ok (Some { wlWords = []; wlUncap = O })
        | _ -> (match run_new_word_list tbl emit l with
                | (Done (Some wl), _) -> Ok (Some wl)
                | (Done None, _) -> Error "ORDER-IS-NOT-A-REARRANGEMENT-OF-THE-KEPT-WORDS"
                | (Err e, _) -> Error ("err " ^ err_name e ^ " atconstruction")
                | (Panic p, _) -> Error ("panic " ^ panic_name p))) in
      let len = next_z t in
      let sep = next_sep t in
      let cap = cap_of_string (next_bytes t) in
      let b = next_budget t in
      let src = next_source t in
      (match wlo with
       | Error m -> m ^ " " ^ no_diag
       | Ok wl ->
         let r = { wrList = wl; wrLength = len; wrSep = sep; wrCap = cap } in
         let (o, consumed) = run_wlgen tbl b r src in
         emit_goal !current_id (Printf.sprintf "(run_wlgen %s %s (mkWLR %s %s %s %s) %s, wl_generate_diag (mkWLR %s %s %s %s))" (pp_tbl tbl) (pp_budget b)
             (pp_opt pp_wl wl) (pp_z len) (pp_sep sep) (pp_cap cap) (pp_source src) (pp_opt pp_wl wl) (pp_z len) (pp_sep sep) (pp_cap cap))
           (Printf.sprintf "(%s, %s)" (pp_pair (pp_outcome (pp_pair (pp_list pp_token) pp_wle)) pp_n (o, consumed)) (pp_list pp_diag (wl_generate_diag r)));
         let d = render_diag (wl_generate_diag r) in
         let pre = (match wl with Some w when lk <> "zero" -> Printf.sprintf "order=%s titles=%s " (show_strs w.wlWords) tstr | _ -> "") in
         (match o with
          | Done (ts, e) ->
              pre ^ show_password_wl (List.map (fun tk -> (tk.value, tk.ttype)) ts) e (int_of_n consumed) ^ " " ^ d
          | Err e -> Printf.sprintf "%serr %s consumed=%d %s" pre (err_name e) (int_of_n consumed) d
          | Panic p -> Printf.sprintf "%spanic %s consumed=%d %s" pre (panic_name p) (int_of_n consumed) d))
  | "sepcall" ->
      let sep = next_sep t in
      let b = next_budget t in
      let src = next_source t in
      let (o, consumed) = run_sep b sep src in
      emit_goal !current_id (Printf.sprintf "run_sep %s %s %s" (pp_budget b) (pp_sep sep) (pp_source src))
        (pp_pair (pp_outcome (pp_pair pp_bytes (pp_opt pp_entropy))) pp_n (o, consumed));
      let d = render_diag (sep_diag sep) in
      (match o with
       | Done (v, e) -> Printf.sprintf "ok %s ent=%s consumed=%d %s" (hex_of_bytes v)
                          (match e with None -> "S:1:1" | Some se -> show_entropy se) (int_of_n consumed) d
       | Err e -> Printf.sprintf "err %s consumed=%d %s" (err_name e) (int_of_n consumed) d
       | Panic p -> Printf.sprintf "panic %s consumed=%d %s" (panic_name p) (int_of_n consumed) d)
  | "cli" ->
      (* cli <k> <arg>... <f> (<path> <content|!>)... <titles> <source> *)
      let argv = next_list t next_bytes in
      let files = next_list t (fun t -> let p = next_bytes t in let c = next t in (p, if c = "!" then None else Some (bytes_of_hex c))) in
      let title = (match t.rest with
        | "ascii" :: r -> t.rest <- r; title_ascii
        | _ -> let (tbl, _) = next_titles t in title_of tbl) in
      let src = next_source t in
      let fs p = (match List.assoc_opt p files with Some c -> c | None -> None) in
      let a = cli_plan fs argv in
      emit_goal !current_id
        (Printf.sprintf "cli_plan (fun p => %s None) %s"
           (String.concat "" (List.map (fun (p, c) -> Printf.sprintf "if beqb p %s then %s else " (pp_bytes p) (pp_opt pp_bytes c)) files))
           (pp_list pp_bytes argv))
        (pp_action a);
      let needs = (match a with AWords (p, _) -> (match p.wpSource with BuiltinWords -> 1 | BuiltinSyllables -> 2 | FromFile _ -> 0) | _ -> 0) in
      let aw = if needs = 1 then builtin_list "agwordlist.txt" else Err ENoList in
      let asyl = if needs = 2 then builtin_list "agsyllables.txt" else Err ENoList in
      let (o, consumed) = run_cli title aw asyl a src in
      (match o with
       | Done out ->
           let pw = (match out.coPassword with
             | None -> "-"
             | Some ts -> show_tokens (List.map (fun tk -> (tk.value, tk.ttype)) ts)) in
           let ent = (match out.coEntropy with
             | None -> "-"
             | Some (Inl e) -> show_entropy e
             | Some (Inr e) -> show_wl_entropy e) in
           Printf.sprintf "plan=%s exit=%d pw=%s ent=%s consumed=%d diag=%s" (show_action a) (int_of_n out.coExit) pw ent (int_of_n consumed)
             (hex_of_bytes (render_stream Stdout (cli_diag a)))
       | Err e -> Printf.sprintf "plan=%s err %s" (show_action a) (err_name e)
       | Panic p -> Printf.sprintf "plan=%s panic %s consumed=%d" (show_action a) (panic_name p) (int_of_n consumed))
  | "interleave" ->
      (* two generations, one running inside a read of the other: by the interleaving theorem (C14) and C09 each result is
         the sequential result on its own tape *)
      let ra = next_recipe t in
      let rb = next_recipe t in
      let b = next_budget t in
      let _k = next_int t in
      let srcA = next_source t in
      let srcB = next_source t in
      let brief r src = (match run_chargen b r src with
        | (Done cand, _) -> "ok:" ^ hex_of_bytes (List.concat cand)
        | (Err e, _) -> "err:" ^ err_name e
        | (Panic p, _) -> "panic " ^ panic_name p) in
      let a = brief ra srcA in let bb = brief rb srcB in
      Printf.sprintf "seqA=%s seqB=%s ilA=%s ilB=%s %s" a bb a bb
        (render_diag (char_generate_diag ra @ char_generate_diag rb @ char_generate_diag ra @ char_generate_diag rb))
  | "history" ->
      let (tbl, _) = next_titles t in
      let nobj = next_int t in
      let objs = Array.make nobj (OWL { wrList = None; wrLength = Z0; wrSep = SepChar []; wrCap = CapNone }) in
      for i = 0 to nobj - 1 do
        (match next t with
         | "char" -> objs.(i) <- OChar { coPub = next_recipe t; coCache = None }
         | "wl" ->
             let (l, _) = next_words t in
             let wl = (match run_new_word_list tbl None l with (Done (Some w), _) -> Some w | _ -> None) in
             let len = next_z t in
             let sep = next_sep t in
             let cap = cap_of_string (next_bytes t) in
             objs.(i) <- OWL { wrList = wl; wrLength = len; wrSep = sep; wrCap = cap }
         | k -> failwith ("bad object kind " ^ k))
      done;
      (* the driver tracks the current public fields only to translate mutreq/setw into Set operations *)
      let cur = Array.copy objs in
      let nops = next_int t in
      let ops = ref [] in
      for _ = 1 to nops do
        let opk = next t in
        let h = next_int t in
        let hn = nat_of_int h in
        (match opk with
         | "setc" -> let r = next_recipe t in cur.(h) <- OChar { coPub = r; coCache = None }; ops := SetChar (hn, r) :: !ops
         | "mutreq" ->
             let i = next_int t in let v = next_bytes t in
             (match cur.(h) with
              | OChar c ->
                  let r = c.coPub in
                  let rs = List.mapi (fun j x -> if j = i then v else x) r.crRequireSets in
                  let r' = { r with crRequireSets = rs } in
                  cur.(h) <- OChar { coPub = r'; coCache = None }; ops := SetChar (hn, r') :: !ops
              | _ -> failwith "mutreq on a wordlist recipe")
         | "setw" ->
             let len = next_z t in let sep = next_sep t in let cap = cap_of_string (next_bytes t) in
             (match cur.(h) with
              | OWL w -> let w' = { w with wrLength = len; wrSep = sep; wrCap = cap } in
                         cur.(h) <- OWL w'; ops := SetWL (hn, w') :: !ops
              | _ -> failwith "setw on a character recipe")
         | "gen" -> ops := Generate (hn, next_source t) :: !ops
         | "ent" -> ops := Entropy (hn, next_source t) :: !ops
         | "alpha" -> ops := Alphabet hn :: !ops
         | "sp" -> ops := SuccessProb hn :: !ops
         | k -> failwith ("bad op " ^ k))
      done;
      let results = run_history tbl (Array.to_list objs) (List.rev !ops) in
      emit_goal !current_id (Printf.sprintf "run_history %s %s %s" (pp_tbl tbl) (pp_list pp_obj (Array.to_list objs)) (pp_list pp_op (List.rev !ops)))
        (pp_list pp_result results);
      let show = function
        | RNone -> "-"
        | RChar (o, n, e) ->
            (match o with
             | Done cand -> show_password (List.map (fun g -> (g, n_of_int 1)) cand) e (int_of_n n) ^ " snap=ok"
             | Err er -> Printf.sprintf "err %s consumed=%d snap=ok" (err_name er) (int_of_n n)
             | Panic p -> Printf.sprintf "panic %s consumed=%d snap=ok" (panic_name p) (int_of_n n))
        | RWord (o, n) ->
            (match o with
             | Done (ts, e) -> show_password_wl (List.map (fun tk -> (tk.value, tk.ttype)) ts) e (int_of_n n) ^ " snap=ok"
             | Err er -> Printf.sprintf "err %s consumed=%d snap=ok" (err_name er) (int_of_n n)
             | Panic p -> Printf.sprintf "panic %s consumed=%d snap=ok" (panic_name p) (int_of_n n))
        | REntropy e -> "ent=" ^ show_entropy e ^ " snap=ok"
        | RWLEntropy (o, n) ->
            (match o with
             | Done e -> Printf.sprintf "ent=%s consumed=%d snap=ok" (show_wl_entropy e) (int_of_n n)
             | Err er -> "err " ^ err_name er | Panic p -> "panic " ^ panic_name p)
        | RAlphabet a -> "alphabet=" ^ hex_of_bytes a ^ " snap=ok"
        | RSuccess (num, den) -> Printf.sprintf "sp=%s/%s snap=ok" (hexz (zar_of_z num)) (hexz (zar_of_z den)) in
      String.concat " | " (List.map show results) ^ " " ^ no_diag
  | _ -> failwith ("unknown family " ^ fam)

let () =
  try
    while true do
      let line = input_line stdin in
      if line <> "" then begin
        let t = { rest = String.split_on_char ' ' line } in
        let id = next t in
        let fam = next t in
        current_id := id ^ " " ^ fam;
        let res = try run_case fam t with Failure m -> "MODEL-FAILURE " ^ m | Not_found -> "MODEL-FAILURE not_found" in
        print_string id; print_char ' '; print_endline res
      end
    done
  with End_of_file -> ()
