(* modelrun: runs the extracted Coq model on line-oriented cases.
   Input  line: <id> <family> <args...>      (space separated)
   Output line: <id> <result...>
   bytes are hex ("-" = empty); lists are a count followed by the elements. *)
module ZA = Z   (* zarith, before Model shadows the name Z *)
open Model

let rec pos_of_int i =
  if i = 1 then XH
  else if i land 1 = 0 then XO (pos_of_int (i lsr 1))
  else XI (pos_of_int (i lsr 1))
let n_of_int i = if i = 0 then N0 else if i < 0 then failwith "n_of_int" else Npos (pos_of_int i)
let rec int_of_pos = function XH -> 1 | XO p -> 2 * int_of_pos p | XI p -> 2 * int_of_pos p + 1
let int_of_n = function N0 -> 0 | Npos p -> int_of_pos p
let rec nat_of_int i = if i <= 0 then O else S (nat_of_int (i - 1))
let int_of_nat n = let rec go acc = function O -> acc | S m -> go (acc + 1) m in go 0 n

(* big numbers are printed in hex through zarith *)
let rec zar_of_pos = function
  | XH -> ZA.one
  | XO p -> ZA.shift_left (zar_of_pos p) 1
  | XI p -> ZA.succ (ZA.shift_left (zar_of_pos p) 1)
let zar_of_n = function N0 -> ZA.zero | Npos p -> zar_of_pos p
let hexz z = if ZA.sign z < 0 then "-" ^ ZA.format "%x" (ZA.neg z) else ZA.format "%x" z
let rec pos_of_zar z =
  if ZA.equal z ZA.one then XH
  else if ZA.is_even z then XO (pos_of_zar (ZA.shift_right z 1))
  else XI (pos_of_zar (ZA.shift_right z 1))
let n_of_zar z = if ZA.sign z = 0 then N0 else Npos (pos_of_zar z)

let bytes_of_hex s =
  if s = "-" then [] else begin
    let n = String.length s / 2 in
    List.init n (fun i -> n_of_int (int_of_string ("0x" ^ String.sub s (2 * i) 2)))
  end
let hex_of_bytes bs =
  if bs = [] then "-" else String.concat "" (List.map (fun b -> Printf.sprintf "%02x" (int_of_n b)) bs)

(* token stream *)
type toks = { mutable rest : string list }
let next t = match t.rest with [] -> failwith "unexpected end of case" | x :: r -> t.rest <- r; x
let next_int t = int_of_string (next t)
let next_n t = n_of_zar (ZA.of_string (next t))
let next_bytes t = bytes_of_hex (next t)
let next_bool t = next t = "1"
let next_list t f = let k = next_int t in List.init k (fun _ -> f t)

let next_source t : source = next_list t (fun t -> let bs = next_bytes t in let f = next_bool t in Chunk (bs, f))

let err_name = function
  | EBadLength -> "badlength" | ENoChars -> "nochars" | EFailRate -> "failrate"
  | EExhausted -> "exhausted" | ENoList -> "nolist" | EEmptyList -> "emptylist"
  | EEmptyIndex -> "emptyindex" | ETooShort -> "tooshort" | EBadFull -> "badfull"
  | EUnknownKind -> "unknownkind" | ETokenTooLarge -> "toolarge"
let panic_name = function
  | PDrawZero -> "zero" | PPrng -> "prng" | PIndex -> "index" | PNil -> "nil"

let show_outcome f = function
  | Done a -> "ok " ^ f a
  | Err e -> "err " ^ err_name e
  | Panic p -> "panic " ^ panic_name p

let run_case fam t =
  match fam with
  | "draw" ->
      let n = next_n t in
      let src = next_source t in
      let (o, consumed) = run_draw n src in
      Printf.sprintf "%s consumed=%d stdout=- stderr=-" (show_outcome (fun i -> string_of_int (int_of_n i)) o) (int_of_n consumed)
  | _ -> failwith ("unknown family " ^ fam)

let () =
  try
    while true do
      let line = input_line stdin in
      if line <> "" then begin
        let t = { rest = String.split_on_char ' ' line } in
        let id = next t in
        let fam = next t in
        let res = try run_case fam t with Failure m -> "MODEL-FAILURE " ^ m | Not_found -> "MODEL-FAILURE not_found" in
        print_string id; print_char ' '; print_endline res
      end
    done
  with End_of_file -> ()
