(** Extraction of the executable model to OCaml.  Only ExtrOcamlBasic is used:
    N, Z, positive, nat, Q stay the Coq inductives. *)
From Coq Require Extraction.
From Coq Require Import ExtrOcamlBasic.
From Spg.Base Require Import Prelude Utf8 Bytes.
From Spg.Model Require Import Tables Rand GenM CharSets CharGen Token WordList WordGen Api Diag Cli.

Definition run_draw (n : N) (src : source) : outcome N * N :=
  run_src (Pick n (fun i => Ret (Done i))) src.

Definition run_chargen (b : budget) (r : char_recipe) (src : source) : outcome (list bytes) * N :=
  run_src (char_generate b r) src.

(** MakeIndices followed by Tokenize on String(): kind, index, and whether the tokens came back *)
Fixpoint tokens_eqb (a b : list token) : bool :=
  match a, b with
  | [], [] => true
  | x :: a', y :: b' => beqb (value x) (value y) && N.eqb (ttype x) (ttype y) && tokens_eqb a' b'
  | _, _ => false
  end.
Inductive rt_result : Type := RtNone | RtOk | RtErr (e : err) | RtLossy (ts : list token) | RtPanic.
Definition roundtrip_report (ts : list token) : N * outcome (list N) * rt_result :=
  let k := kind ts in
  let mi := make_indices ts in
  let rt := match mi with
            | Done [] => RtNone
            | Done idx => match tokenize (pw_string ts) idx with
                          | Done ts' => if tokens_eqb ts ts' then RtOk else RtLossy ts'
                          | Err e => RtErr e
                          | Panic _ => RtPanic
                          end
            | _ => RtNone
            end in
  (k, mi, rt).

Definition run_wlgen (tbl : list (bytes * bytes)) (b : budget) (r : wl_recipe) (src : source)
  : outcome (list token * wl_entropy) * N :=
  run_src (wl_generate (title_of tbl) b r) src.

(** one call of a separator function: value, reported entropy, bytes consumed *)
Definition run_sep (b : budget) (s : sep_fun) (src : source) : outcome (bytes * option entropy) * N :=
  run_src (fmap Done (sep_call b s)) src.

(** the command line: plan, then the library model on the planned recipe *)
Definition run_cli (title : bytes -> bytes) (aw asyl : outcome (option word_list)) (a : action) (src : source) : outcome cli_out * N :=
  run_src (fmap Done (cli_exec title aw asyl a)) src.
(** NewWordList under the model's ASCII title-casing (exact for ASCII words; the shipped lists are a-z) *)
Definition run_new_word_list_ascii (l : list bytes) := new_word_list title_ascii None l.

Definition run_new_word_list (tbl : list (bytes * bytes)) (emit : option (list bytes)) (l : list bytes) :=
  new_word_list (title_of tbl) emit l.

Definition run_history (tbl : list (bytes * bytes)) (s : state) (ops : list op) : list result :=
  run_ops (title_of tbl) default_budget s ops.

Extraction "model.ml"
  run_draw run_src explode
  run_chargen recipe_report char_entropy alphabet_string recipe_count sp_num sp_den char_generate_diag char_entropy_diag
  mkCR mkBudget Z.of_N roundtrip_report tokenize Tok
  run_wlgen run_sep sep_diag run_cli cli_plan cli_diag title_of title_ascii run_new_word_list_ascii run_new_word_list wl_generate_diag cap_of_string mkWLR mkWL
  run_history mkCO OChar OWL SetChar SetWL Generate Entropy Alphabet SuccessProb
  render_stream Stdout Log
  SFNone SFDigits1 SFDigits2 SFDigitsNoAmbiguous1 SFDigitsNoAmbiguous2 SFSymbols SFDigitsSymbols.
