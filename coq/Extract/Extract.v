(** Extraction of the executable model to OCaml.  Only ExtrOcamlBasic is used:
    N, Z, positive, nat, Q stay the Coq inductives. *)
From Coq Require Extraction.
From Coq Require Import ExtrOcamlBasic.
From Spg.Base Require Import Prelude Utf8 Bytes.
From Spg.Model Require Import Tables Rand GenM CharSets CharGen.

Definition run_draw (n : N) (src : source) : outcome N * N :=
  run_src (Pick n (fun i => Ret (Done i))) src.

Definition run_chargen (b : budget) (r : char_recipe) (src : source) : outcome (list bytes) * N :=
  run_src (char_generate b r) src.

Extraction "model.ml"
  run_draw run_src explode
  run_chargen recipe_report char_entropy alphabet_string recipe_count sp_num sp_den char_generate_diag char_entropy_diag
  mkCR mkBudget Z.of_N.
