(** Extraction of the executable model to OCaml.  Only ExtrOcamlBasic is used:
    N, Z, positive, nat, Q stay the Coq inductives. *)
From Coq Require Extraction.
From Coq Require Import ExtrOcamlBasic.
From Spg.Base Require Import Prelude.
From Spg.Model Require Import Rand GenM.

Definition run_draw (n : N) (src : source) : outcome N * N :=
  run_src (Pick n (fun i => Ret (Done i))) src.

Extraction "model.ml" run_draw run_src.
