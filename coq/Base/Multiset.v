(** Order-insensitive comparison of two lists through a boolean equality: the
    facts the translator regenerates from the source (output statements, flags,
    exit sites) are sets WITH MULTIPLICITY of statements; the order in which the
    translator meets them (file order, declaration order) carries no meaning. *)
From Coq Require Import List Arith Bool Permutation.
Import ListNotations.

(** boolean list equality with its specification (the sumbool deciders do not compute well) *)
Fixpoint list_eqb {A} (eqb : A -> A -> bool) (l1 l2 : list A) : bool :=
  match l1, l2 with
  | [], [] => true
  | a :: r1, c :: r2 => eqb a c && list_eqb eqb r1 r2
  | _, _ => false
  end.
Lemma list_eqb_eq {A} (eqb : A -> A -> bool) (Heq : forall x y, eqb x y = true -> x = y) l1 :
  forall l2, list_eqb eqb l1 l2 = true -> l1 = l2.
Proof.
  induction l1 as [|a r1 IH]; intros [|c r2] H; try discriminate; [reflexivity|].
  cbn [list_eqb] in H. apply andb_prop in H. destruct H as [H1 H2]. f_equal; [apply Heq; exact H1|apply IH; exact H2].
Qed.

(** boolean equality on pairs *)
Definition pair_eqb {A B} (ea : A -> A -> bool) (eb : B -> B -> bool) (x y : A * B) : bool := ea (fst x) (fst y) && eb (snd x) (snd y).
Lemma pair_eqb_eq {A B} (ea : A -> A -> bool) (eb : B -> B -> bool)
  (Ha : forall x y, ea x y = true -> x = y) (Hb : forall x y, eb x y = true -> x = y) x y : pair_eqb ea eb x y = true -> x = y.
Proof.
  destruct x as [x1 x2]. destruct y as [y1 y2]. unfold pair_eqb. cbn [fst snd]. intros H. apply andb_prop in H. destruct H as [H1 H2].
  apply Ha in H1. apply Hb in H2. subst. reflexivity.
Qed.

Section MS.
Context {A : Type} (eqb : A -> A -> bool).

(** remove the first occurrence *)
Fixpoint remove1 (x : A) (l : list A) : list A :=
  match l with [] => [] | y :: r => if eqb x y then r else y :: remove1 x r end.

Fixpoint same_multiset (l1 l2 : list A) : bool :=
  match l1 with
  | [] => match l2 with [] => true | _ => false end
  | x :: r => existsb (eqb x) l2 && same_multiset r (remove1 x l2)
  end.

Hypothesis eqb_eq : forall x y, eqb x y = true -> x = y.

Lemma perm_remove1 x l : existsb (eqb x) l = true -> Permutation l (x :: remove1 x l).
Proof.
  induction l as [|y r IH]; cbn [existsb remove1]; [discriminate|].
  destruct (eqb x y) eqn:E.
  - intros _. apply eqb_eq in E. subst y. apply Permutation_refl.
  - cbn [orb]. intros H. eapply Permutation_trans; [apply perm_skip; apply IH; exact H|]. apply perm_swap.
Qed.

(** what a [true] means: the two lists are permutations of each other *)
Theorem same_multiset_perm : forall l1 l2, same_multiset l1 l2 = true -> Permutation l1 l2.
Proof.
  induction l1 as [|x r IH]; intros l2 H; cbn [same_multiset] in H.
  - destruct l2; [apply perm_nil|discriminate].
  - apply andb_prop in H. destruct H as [H1 H2].
    eapply Permutation_trans; [apply perm_skip; apply IH; exact H2|].
    apply Permutation_sym. apply perm_remove1. exact H1.
Qed.
End MS.
