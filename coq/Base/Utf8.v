(** UTF-8 segmentation as Go's strings.Split(s, "") performs it: the *size*
    result of utf8.DecodeRuneInString, applied repeatedly.  Anything that is not
    a well-formed sequence (stray continuation byte, truncated sequence, overlong
    or surrogate range, > F4) is a one-byte glyph. *)
From Spg.Base Require Import Prelude.
Open Scope N_scope.

Definition inr (lo hi b : N) : bool := (lo <=? b) && (b <=? hi).
Definition cont (b : N) : bool := inr 128 191 b.     (* 0x80..0xBF *)

Definition glyph_len (s : bytes) : nat :=
  match s with
  | [] => O
  | b0 :: t =>
    if inr 194 223 b0 then                                   (* C2..DF *)
      match t with b1 :: _ => if cont b1 then 2%nat else 1%nat | _ => 1%nat end
    else if inr 224 239 b0 then                              (* E0..EF *)
      match t with
      | b1 :: b2 :: _ =>
        let lo := if b0 =? 224 then 160 else 128 in
        let hi := if b0 =? 237 then 159 else 191 in
        if inr lo hi b1 && cont b2 then 3%nat else 1%nat
      | _ => 1%nat
      end
    else if inr 240 244 b0 then                              (* F0..F4 *)
      match t with
      | b1 :: b2 :: b3 :: _ =>
        let lo := if b0 =? 240 then 144 else 128 in
        let hi := if b0 =? 244 then 143 else 191 in
        if inr lo hi b1 && cont b2 && cont b3 then 4%nat else 1%nat
      | _ => 1%nat
      end
    else 1%nat
  end.

Fixpoint explode_fuel (fuel : nat) (s : bytes) : list bytes :=
  match fuel with
  | O => []
  | S f => match s with
           | [] => []
           | _ => let k := glyph_len s in firstn k s :: explode_fuel f (skipn k s)
           end
  end.
Definition explode (s : bytes) : list bytes := explode_fuel (length s) s.

(** number of characters, as utf8.RuneCountInString / len(strings.Split(s,"")) *)
Definition glyphs (v : bytes) : nat := length (explode v).

Lemma glyph_len_pos s : s <> [] -> (1 <= glyph_len s <= 4)%nat.
Proof.
  destruct s as [|b0 t]; [congruence|]. intros _. unfold glyph_len.
  repeat match goal with |- context [if ?c then _ else _] => destruct c end;
  repeat match goal with |- context [match ?l with [] => _ | _ :: _ => _ end] => destruct l end;
  repeat match goal with |- context [if ?c then _ else _] => destruct c end; lia.
Qed.

Lemma glyph_len_le s : (glyph_len s <= length s)%nat.
Proof.
  destruct s as [|b0 t]; [cbn; lia|]. unfold glyph_len.
  repeat match goal with |- context [if ?c then _ else _] => destruct c end;
  repeat match goal with |- context [match ?l with [] => _ | _ :: _ => _ end] => destruct l end;
  repeat match goal with |- context [if ?c then _ else _] => destruct c end; cbn [length]; lia.
Qed.

Lemma explode_fuel_concat f s : (length s <= f)%nat -> concat (explode_fuel f s) = s.
Proof.
  revert s. induction f as [|f IH]; intros s Hs.
  - destruct s; [reflexivity|cbn in Hs; lia].
  - destruct s as [|b t]; [reflexivity|].
    cbn [explode_fuel concat]. set (s := b :: t) in *.
    rewrite IH; [apply firstn_skipn|].
    rewrite skipn_length. pose proof (glyph_len_pos s ltac:(discriminate)). lia.
Qed.
Lemma explode_concat s : concat (explode s) = s.
Proof. apply explode_fuel_concat. lia. Qed.

Lemma explode_fuel_irrel f1 f2 s : (length s <= f1)%nat -> (length s <= f2)%nat ->
  explode_fuel f1 s = explode_fuel f2 s.
Proof.
  revert f2 s. induction f1 as [|f1 IH]; intros f2 s H1 H2.
  - destruct s; [destruct f2; reflexivity|cbn in H1; lia].
  - destruct f2 as [|f2]; [destruct s; [reflexivity|cbn in H2; lia]|].
    destruct s as [|b t]; [reflexivity|]. cbn [explode_fuel]. f_equal. set (s := b :: t) in *.
    pose proof (glyph_len_pos s ltac:(discriminate)).
    apply IH; rewrite skipn_length; lia.
Qed.

Lemma explode_nil : explode [] = []. Proof. reflexivity. Qed.

Lemma explode_unfold s : s <> [] -> explode s = firstn (glyph_len s) s :: explode (skipn (glyph_len s) s).
Proof.
  intros Hs. unfold explode. destruct s as [|b t]; [congruence|].
  cbn [length explode_fuel]. f_equal. set (s := b :: t) in *.
  apply explode_fuel_irrel; rewrite skipn_length; cbn [length]; fold s.
  - pose proof (glyph_len_pos s ltac:(discriminate)). subst s. cbn [length]. lia.
  - lia.
Qed.

Lemma explode_nonempty s g : In g (explode s) -> g <> [].
Proof.
  unfold explode. generalize (length s) at 1 as f. intros f. revert s.
  induction f as [|f IH]; intros s; [intros []|].
  destruct s as [|b t]; [intros []|]. cbn [explode_fuel]. set (s := b :: t) in *.
  intros [<-|H]; [|eapply IH; exact H].
  pose proof (glyph_len_pos s ltac:(discriminate)). subst s. destruct (glyph_len (b :: t)); [lia|]. cbn. discriminate.
Qed.

(** A glyph whose length is decided inside itself: every well-formed sequence
    and every lone invalid byte that is not a truncated prefix. *)
Definition valid_glyph (g : bytes) : Prop :=
  g <> [] /\ forall b, glyph_len (g ++ b) = length g.
Definition valid_utf8 (a : bytes) : Prop := Forall valid_glyph (explode a).

Lemma explode_app_glyph g b : valid_glyph g -> explode (g ++ b) = g :: explode b.
Proof.
  intros (Hne & Hb). rewrite explode_unfold by (destruct g; [congruence|discriminate]).
  rewrite Hb. rewrite firstn_app, Nat.sub_diag, firstn_all, skipn_app, Nat.sub_diag, skipn_all. cbn. rewrite app_nil_r. reflexivity.
Qed.

Theorem explode_app a b : valid_utf8 a -> explode (a ++ b) = explode a ++ explode b.
Proof.
  unfold valid_utf8. intros H.
  rewrite <- (explode_concat a) at 1.
  induction H as [|g gs Hg Hgs IH]; [reflexivity|].
  cbn [concat app]. rewrite <- app_assoc, explode_app_glyph by exact Hg. f_equal. exact IH.
Qed.

Lemma explode_single g : valid_glyph g -> explode g = [g].
Proof. intros H. rewrite <- (app_nil_r g) at 1. rewrite explode_app_glyph by exact H. reflexivity. Qed.

Lemma explode_concat_glyphs gs : Forall valid_glyph gs -> explode (concat gs) = gs.
Proof.
  induction 1 as [|g gs Hg _ IH]; [reflexivity|].
  cbn [concat]. rewrite explode_app_glyph by exact Hg. rewrite IH. reflexivity.
Qed.

Lemma valid_utf8_concat gs : Forall valid_glyph gs -> valid_utf8 (concat gs).
Proof. intros H. unfold valid_utf8. rewrite explode_concat_glyphs; assumption. Qed.

Lemma explode_concat_values vs : Forall valid_utf8 vs ->
  explode (concat vs) = concat (map explode vs).
Proof.
  induction 1 as [|v vs Hv _ IH]; [reflexivity|].
  cbn [concat map]. rewrite explode_app by exact Hv. rewrite IH. reflexivity.
Qed.

(** an ASCII byte is a valid glyph *)
Lemma ascii_valid_glyph b : b < 128 -> valid_glyph [b].
Proof.
  intros Hb. split; [discriminate|]. intros t. cbn [app glyph_len].
  unfold inr. destruct (194 <=? b) eqn:E1; [lia|]. cbn [andb].
  destruct (224 <=? b) eqn:E2; [lia|]. cbn [andb].
  destruct (240 <=? b) eqn:E3; [lia|]. reflexivity.
Qed.

Lemma explode_ascii s : Forall (fun b => b < 128) s -> explode s = map (fun b => [b]) s.
Proof.
  induction 1 as [|b s Hb _ IH]; [reflexivity|].
  change (b :: s) with ([b] ++ s). rewrite explode_app_glyph by (apply ascii_valid_glyph; exact Hb).
  rewrite IH. reflexivity.
Qed.

Example explode_example :
  explode [104; 195; 169; 226; 130; 172; 240; 159; 146; 169; 255; 195]
  = [[104]; [195; 169]; [226; 130; 172]; [240; 159; 146; 169]; [255]; [195]].
Proof. vm_compute. reflexivity. Qed.
