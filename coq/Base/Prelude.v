(** Common imports, outcome type, error and panic kinds.
    Go panics are modelled explicitly, never totalised away. *)
From Coq Require Export NArith ZArith List Bool Arith Lia.
From Coq Require Export ZifyBool ZifyN ZifyNat.
Export ListNotations.

Ltac Zify.zify_post_hook ::= Z.div_mod_to_equations.

Definition bytes := list N.

(** Error kinds returned as Go [error] values. *)
Inductive err : Type :=
| EBadLength      (* "don't ask for passwords of length %d" *)
| ENoChars        (* "no characters to build pwd from" *)
| EFailRate       (* "Chance of not generated a valid password ... is too high" *)
| EExhausted      (* "couldn't generate password complying with requirements after %v attempts" *)
| ENoList         (* "wordlist generator must be set up before being used" *)
| EEmptyList      (* "cannot set up word list generator without words" *)
| EEmptyIndex     (* "tokenization must begin with a TI Kind byte" *)
| ETooShort       (* "password too short for indices" *)
| EBadFull        (* "full token index must be (length, type) pairs after the kind byte" *)
| EUnknownKind    (* "Unknown TIIndex kind: %d" *)
| ETokenTooLarge. (* "token too large (%d)" *)

(** Go run-time panics that the modelled code can raise. *)
Inductive panic : Type :=
| PDrawZero       (* randomUint32n called with 0 *)
| PPrng           (* "PRNG gen error": a read from crypto/rand failed *)
| PIndex          (* index out of range *)
| PNil.           (* nil pointer dereference *)

Inductive outcome (A : Type) : Type :=
| Done (a : A)
| Err (e : err)
| Panic (p : panic).
Arguments Done {A}. Arguments Err {A}. Arguments Panic {A}.

Definition omap {A B} (f : A -> B) (o : outcome A) : outcome B :=
  match o with Done a => Done (f a) | Err e => Err e | Panic p => Panic p end.

Definition obind {A B} (o : outcome A) (f : A -> outcome B) : outcome B :=
  match o with Done a => f a | Err e => Err e | Panic p => Panic p end.

Definition is_done {A} (o : outcome A) : bool :=
  match o with Done _ => true | _ => false end.
