(** Byte strings: equality, bytewise lexicographic order (sort.Strings), sets as
    duplicate-free lists. *)
From Spg.Base Require Import Prelude.
Open Scope N_scope.

Fixpoint beqb (x y : bytes) : bool :=
  match x, y with
  | [], [] => true
  | a :: x', b :: y' => (a =? b) && beqb x' y'
  | _, _ => false
  end.

Lemma beqb_spec x y : reflect (x = y) (beqb x y).
Proof.
  revert y. induction x as [|a x IH]; intros [|b y]; cbn; try (constructor; congruence).
  destruct (N.eqb_spec a b); cbn; [|constructor; congruence].
  destruct (IH y); constructor; congruence.
Qed.
Lemma beqb_refl x : beqb x x = true.
Proof. destruct (beqb_spec x x); congruence. Qed.
Lemma beqb_eq x y : beqb x y = true <-> x = y.
Proof. destruct (beqb_spec x y); split; congruence. Qed.

(** x <= y bytewise, shorter prefix first: Go's string comparison *)
Fixpoint bleb (x y : bytes) : bool :=
  match x, y with
  | [], _ => true
  | _ :: _, [] => false
  | a :: x', b :: y' => if a <? b then true else if b <? a then false else bleb x' y'
  end.

Lemma bleb_total x y : bleb x y = true \/ bleb y x = true.
Proof.
  revert y. induction x as [|a x IH]; intros [|b y]; cbn; auto.
  destruct (a <? b) eqn:E1, (b <? a) eqn:E2; auto; lia.
Qed.
Lemma bleb_antisym x y : bleb x y = true -> bleb y x = true -> x = y.
Proof.
  revert y. induction x as [|a x IH]; intros [|b y]; cbn; try congruence.
  destruct (a <? b) eqn:E1, (b <? a) eqn:E2; try congruence; try lia.
  intros H1 H2. assert (a = b) by lia. subst. f_equal. apply IH; assumption.
Qed.
Lemma bleb_trans x y z : bleb x y = true -> bleb y z = true -> bleb x z = true.
Proof.
  revert y z. induction x as [|a x IH]; intros [|b y] [|c z]; cbn; try congruence.
  destruct (a <? b) eqn:E1, (b <? a) eqn:E2, (b <? c) eqn:E3, (c <? b) eqn:E4, (a <? c) eqn:E5, (c <? a) eqn:E6;
    try congruence; try lia; intros; eauto.
Qed.
Lemma bleb_refl x : bleb x x = true.
Proof. destruct (bleb_total x x); assumption. Qed.

(** insertion sort *)
Fixpoint insert (x : bytes) (l : list bytes) : list bytes :=
  match l with
  | [] => [x]
  | y :: l' => if bleb x y then x :: l else y :: insert x l'
  end.
Definition sort (l : list bytes) : list bytes := fold_right insert [] l.

Inductive sorted : list bytes -> Prop :=
| sorted_nil : sorted []
| sorted_one x : sorted [x]
| sorted_cons x y l : bleb x y = true -> sorted (y :: l) -> sorted (x :: y :: l).

Lemma insert_In x l y : In y (insert x l) <-> y = x \/ In y l.
Proof.
  induction l as [|z l IH]; cbn; [intuition|].
  destruct (bleb x z); cbn; [intuition|]. rewrite IH. intuition.
Qed.
Lemma sort_In l y : In y (sort l) <-> In y l.
Proof. induction l as [|x l IH]; [reflexivity|]. change (sort (x :: l)) with (insert x (sort l)). rewrite insert_In, IH. cbn. intuition. Qed.

Lemma insert_sorted x l : sorted l -> sorted (insert x l).
Proof.
  induction 1 as [|y|y z l Hyz Hs IH]; cbn.
  - constructor.
  - destruct (bleb x y) eqn:E; [constructor; [assumption|constructor]|].
    constructor; [|constructor]. destruct (bleb_total x y); congruence.
  - destruct (bleb x y) eqn:E; [constructor; [assumption|constructor; assumption]|].
    cbn in IH. destruct (bleb x z) eqn:E2.
    + constructor; [destruct (bleb_total x y); congruence|]. constructor; assumption.
    + constructor; assumption.
Qed.
Lemma sort_sorted l : sorted (sort l).
Proof. induction l as [|x l IH]; [constructor|]. change (sort (x :: l)) with (insert x (sort l)). apply insert_sorted, IH. Qed.

Lemma insert_length x l : length (insert x l) = S (length l).
Proof. induction l as [|y l IH]; cbn; [reflexivity|]. destruct (bleb x y); cbn; congruence. Qed.
Lemma sort_cons x l : sort (x :: l) = insert x (sort l).
Proof. reflexivity. Qed.
Lemma sort_length l : length (sort l) = length l.
Proof. induction l as [|x l IH]; [reflexivity|]. rewrite sort_cons, insert_length, IH. reflexivity. Qed.

Lemma insert_NoDup x l : ~ In x l -> NoDup l -> NoDup (insert x l).
Proof.
  induction l as [|y l IH]; cbn; intros Hx Hn; [constructor; [intros []|constructor]|].
  destruct (bleb x y); [constructor; assumption|].
  inversion Hn as [|? ? Hy Hl]; subst. constructor.
  - rewrite insert_In. intros [->|H]; [apply Hx; left; reflexivity|contradiction].
  - apply IH; [intros H; apply Hx; right; exact H|assumption].
Qed.
Lemma sort_NoDup l : NoDup l -> NoDup (sort l).
Proof.
  induction 1 as [|x l Hx Hn IH]; [constructor|]. change (sort (x :: l)) with (insert x (sort l)).
  apply insert_NoDup; [rewrite sort_In; exact Hx|exact IH].
Qed.

(** a sorted duplicate-free list is determined by its elements *)
Lemma sorted_head_le x l : sorted (x :: l) -> forall y, In y l -> bleb x y = true.
Proof.
  revert x. induction l as [|z l IH]; intros x Hs y Hy; [destruct Hy|].
  inversion Hs as [| |? ? ? Hxz Hs']; subst.
  destruct Hy as [->|Hy]; [assumption|].
  eapply bleb_trans; [exact Hxz|]. apply IH; assumption.
Qed.
Lemma sorted_tail x l : sorted (x :: l) -> sorted l.
Proof. inversion 1; [constructor|assumption]. Qed.

Lemma sorted_unique l1 : forall l2, sorted l1 -> sorted l2 -> NoDup l1 -> NoDup l2 ->
  (forall y, In y l1 <-> In y l2) -> l1 = l2.
Proof.
  induction l1 as [|x l1 IH]; intros [|y l2] S1 S2 N1 N2 H.
  - reflexivity.
  - exfalso. apply (proj2 (H y)). left; reflexivity.
  - exfalso. apply (proj1 (H x)). left; reflexivity.
  - assert (x = y).
    { apply bleb_antisym.
      - destruct (proj2 (H y) (or_introl eq_refl)) as [->|Hy]; [apply bleb_refl|].
        eapply sorted_head_le; eassumption.
      - destruct (proj1 (H x) (or_introl eq_refl)) as [->|Hx]; [apply bleb_refl|].
        eapply sorted_head_le; eassumption. }
    subst y. f_equal. inversion N1; inversion N2; subst.
    apply IH; eauto using sorted_tail.
    intros z. split; intros Hz.
    + destruct (proj1 (H z) (or_intror Hz)) as [->|]; [contradiction|assumption].
    + destruct (proj2 (H z) (or_intror Hz)) as [->|]; [contradiction|assumption].
Qed.

(** sets as lists *)
Definition mem (x : bytes) (l : list bytes) : bool := existsb (beqb x) l.
Lemma mem_In x l : mem x l = true <-> In x l.
Proof. unfold mem. rewrite existsb_exists. split.
  - intros (y & Hy & E). apply beqb_eq in E. subst. assumption.
  - intros H. exists x. split; [assumption|apply beqb_refl]. Qed.
Lemma mem_false x l : mem x l = false <-> ~ In x l.
Proof. rewrite <- mem_In. destruct (mem x l); split; congruence. Qed.

Fixpoint dedup (l : list bytes) : list bytes :=
  match l with
  | [] => []
  | x :: l' => if mem x l' then dedup l' else x :: dedup l'
  end.
Lemma dedup_In l y : In y (dedup l) <-> In y l.
Proof.
  induction l as [|x l IH]; cbn; [reflexivity|].
  destruct (mem x l) eqn:E; cbn; rewrite IH; [|reflexivity].
  apply mem_In in E. split; [auto|intros [->|]; auto].
Qed.
Lemma dedup_NoDup l : NoDup (dedup l).
Proof.
  induction l as [|x l IH]; cbn; [constructor|].
  destruct (mem x l) eqn:E; [assumption|]. constructor; [|assumption].
  rewrite dedup_In. apply mem_false. assumption.
Qed.

Definition diff (A R : list bytes) : list bytes := filter (fun x => negb (mem x R)) A.
Lemma diff_In A R y : In y (diff A R) <-> In y A /\ ~ In y R.
Proof. unfold diff. rewrite filter_In, negb_true_iff, mem_false. reflexivity. Qed.
Lemma diff_NoDup A R : NoDup A -> NoDup (diff A R).
Proof. apply NoDup_filter. Qed.

Definition union (A B : list bytes) : list bytes := dedup (A ++ B).
Lemma union_In A B y : In y (union A B) <-> In y A \/ In y B.
Proof. unfold union. rewrite dedup_In, in_app_iff. reflexivity. Qed.
