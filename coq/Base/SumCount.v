(** Sums and counts over the interval [0,m) of N.  These are mathematical
    definitions: they are never evaluated at m = 2^32. *)
From Spg.Base Require Import Prelude.
Open Scope N_scope.

Definition sumBelow (m : N) (f : N -> N) : N :=
  N.recursion 0 (fun v acc => acc + f v) m.
Definition countBelow (m : N) (p : N -> bool) : N :=
  sumBelow m (fun v => if p v then 1 else 0).

Lemma sumBelow_0 f : sumBelow 0 f = 0. Proof. reflexivity. Qed.
Lemma sumBelow_succ m f : sumBelow (N.succ m) f = sumBelow m f + f m.
Proof. unfold sumBelow. rewrite N.recursion_succ; try reflexivity. intros ? ? -> ? ? ->. reflexivity. Qed.

Lemma sumBelow_ext m f g : (forall v, v < m -> f v = g v) -> sumBelow m f = sumBelow m g.
Proof.
  induction m using N.peano_ind; intros H; [reflexivity|].
  rewrite !sumBelow_succ. rewrite IHm by (intros; apply H; lia). rewrite H by lia. reflexivity.
Qed.

Lemma sumBelow_add a b f : sumBelow (a + b) f = sumBelow a f + sumBelow b (fun v => f (a + v)).
Proof.
  induction b using N.peano_ind.
  - rewrite N.add_0_r. cbn. lia.
  - rewrite N.add_succ_r, !sumBelow_succ, IHb. lia.
Qed.

Lemma sumBelow_plus m f g : sumBelow m (fun i => f i + g i) = sumBelow m f + sumBelow m g.
Proof. induction m using N.peano_ind; [reflexivity|]. rewrite !sumBelow_succ, IHm. lia. Qed.

Lemma sumBelow_zero m : sumBelow m (fun _ => 0) = 0.
Proof. induction m using N.peano_ind; [reflexivity|]. rewrite sumBelow_succ, IHm. reflexivity. Qed.

Lemma sumBelow_scale m c f : sumBelow m (fun i => c * f i) = c * sumBelow m f.
Proof. induction m using N.peano_ind; [cbn; lia|]. rewrite !sumBelow_succ, IHm. lia. Qed.

Lemma sumBelow_const m c : sumBelow m (fun _ => c) = m * c.
Proof. induction m using N.peano_ind; [reflexivity|]. rewrite sumBelow_succ, IHm. lia. Qed.

Lemma countBelow_ext m p q : (forall v, v < m -> p v = q v) -> countBelow m p = countBelow m q.
Proof. intros H. apply sumBelow_ext. intros v Hv. rewrite H by exact Hv. reflexivity. Qed.

Lemma countBelow_true m : countBelow m (fun _ => true) = m.
Proof. unfold countBelow. induction m using N.peano_ind; [reflexivity|]. rewrite sumBelow_succ, IHm. lia. Qed.

Lemma countBelow_split a b p : countBelow (a + b) p = countBelow a p + countBelow b (fun v => p (a + v)).
Proof. unfold countBelow. apply sumBelow_add. Qed.

Lemma countBelow_false m p : (forall v, v < m -> p v = false) -> countBelow m p = 0.
Proof. intros H. unfold countBelow. induction m using N.peano_ind; [reflexivity|].
  rewrite sumBelow_succ, IHm by (intros; apply H; lia). rewrite H by lia. reflexivity. Qed.

Lemma countBelow_le m p : countBelow m p <= m.
Proof. unfold countBelow. induction m using N.peano_ind; [cbn; lia|].
  rewrite sumBelow_succ. destruct (p m); lia. Qed.

Lemma countBelow_compl m p : countBelow m p + countBelow m (fun v => negb (p v)) = m.
Proof. unfold countBelow. induction m using N.peano_ind; [reflexivity|].
  rewrite !sumBelow_succ. destruct (p m); cbn [negb]; lia. Qed.

(** #{ v < q*n | v mod n = i } = q *)
Lemma count_mod_block n i : i < n -> countBelow n (fun v => v mod n =? i) = 1.
Proof.
  intros Hi. unfold countBelow.
  assert (H: forall m, m <= n -> sumBelow m (fun v => if v mod n =? i then 1 else 0) = if i <? m then 1 else 0).
  { induction m using N.peano_ind; intros Hm.
    - cbn. destruct (i <? 0) eqn:E; lia.
    - rewrite sumBelow_succ, IHm by lia.
      rewrite (N.mod_small m n) by lia.
      destruct (i <? m) eqn:E1, (m =? i) eqn:E2, (i <? N.succ m) eqn:E3; lia. }
  rewrite H by lia. destruct (i <? n) eqn:E; lia.
Qed.

Lemma count_mod_blocks n q i : i < n -> countBelow (q * n) (fun v => v mod n =? i) = q.
Proof.
  intros Hi. induction q using N.peano_ind.
  - reflexivity.
  - replace (N.succ q * n) with (q * n + n) by lia.
    unfold countBelow in *. rewrite sumBelow_add, IHq.
    rewrite (sumBelow_ext n _ (fun v => if v mod n =? i then 1 else 0)).
    + fold (countBelow n (fun v => v mod n =? i)). rewrite count_mod_block by lia. lia.
    + intros v Hv. replace (q * n + v) with (v + q * n) by lia. rewrite N.mod_add by lia. reflexivity.
Qed.

Lemma sumBelow_delta n j (G : N -> N) : j < n ->
  sumBelow n (fun i => (if j =? i then 1 else 0) * G i) = G j.
Proof.
  intros Hj.
  assert (H : forall m, m <= n -> sumBelow m (fun i => (if j =? i then 1 else 0) * G i) = if j <? m then G j else 0).
  { induction m using N.peano_ind; intros Hm.
    - cbn. destruct (j <? 0) eqn:E; [lia|reflexivity].
    - rewrite sumBelow_succ, IHm by lia.
      destruct (j <? m) eqn:E1, (j =? m) eqn:E2, (j <? N.succ m) eqn:E3; try lia.
      apply N.eqb_eq in E2. subst. lia. }
  rewrite H by lia. destruct (j <? n) eqn:E; [reflexivity|lia].
Qed.
