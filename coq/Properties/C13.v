(** C13 — Generate fails only when the recipe cannot be honoured: an error, never a panic
    (character recipes; the wordlist part is in C13wl below once WordGen is loaded). *)
From Spg.Base Require Import Prelude Utf8 Bytes.
From Spg.Model Require Import Tables Rand GenM CharSets CharGen Token WordList WordGen.
From Spg.Proofs Require Import RandProofs SetProofs CountProofs GenProofs CharGenProofs AcceptProofs WordGenProofs WordPicksProofs.
From Coq Require Import QArith.

(** The decision: bad length, else empty alphabet, else the pre-flight check,
    else at most MaxTrials whole-candidate attempts. *)
Theorem C13_decision : forall b r,
  char_generate b r =
    if (crLength r <? 1)%Z then Ret (Err EBadLength)
    else if match alphabet r with [] => true | _ => false end then Ret (Err ENoChars)
    else if negb (accepted b r) then Ret (Err EFailRate)
    else retry (Z.to_nat (bTrials b)) (attempt (alphabet r) (len_nat r)) (require_filter (required_sets r)).
Proof. exact char_generate_decision. Qed.

(** What can come out: a satisfying password, or one of four errors each with
    its exact cause; never a panic from the generator itself, never an error
    together with a password (an outcome is one or the other). *)
Theorem C13_outcomes : forall b r o, reach (char_generate b r) o ->
  match o with
  | Done cand => Satisfies r cand /\ accepted b r = true
  | Err EBadLength => (crLength r < 1)%Z
  | Err ENoChars => (1 <= crLength r)%Z /\ alphabet r = []
  | Err EFailRate => (1 <= crLength r)%Z /\ alphabet r <> [] /\ accepted b r = false
  | Err EExhausted => (1 <= crLength r)%Z /\ alphabet r <> [] /\ accepted b r = true
  | Err _ => False
  | Panic _ => False
  end.
Proof. exact char_generate_reach. Qed.

(** No bounded draw is ever asked for 0 or >= 2^32 alternatives, so the only
    panic is the PRNG failure of C09. *)
Theorem C13_never_panics : forall b r, small_alphabet r -> forall ws rest,
  run_words (char_generate b r) ws <> RZero rest.
Proof. intros b r Hs. apply run_words_no_zero. apply char_generate_picks_ok. exact Hs. Qed.

(** SuccessProbability is the exact fraction of unconstrained candidates that
    satisfy the requirements: count / a^L — also for overlapping required sets. *)
Theorem C13_success_probability_exact : forall r, alphabet r <> [] ->
  (prob (attempt (alphabet r) (len_nat r)) (require_filter (required_sets r)) ==
   inject_Z (sp_num r) * Qpow (/ NQ (N.of_nat (length (alphabet r)))) (len_nat r))%Q.
Proof. exact attempt_success_mass. Qed.

(** The guard band of the default budget (200 attempts, 1e-9): success chance
    >= 1/10 is never refused, <= 9/100 always is; and the fast decision the
    executable model uses is the exact one. *)
Theorem C13_guard_band_accept : forall num den, (0 < num)%Z -> (num <= den)%Z -> (den <= 10 * num)%Z ->
  acceptable_exact 200 1 1000000000 num den = true.
Proof. exact guard_band_accept. Qed.
Theorem C13_guard_band_refuse : forall num den, (0 < num)%Z -> (num <= den)%Z -> (100 * num <= 9 * den)%Z ->
  acceptable_exact 200 1 1000000000 num den = false.
Proof. exact guard_band_refuse. Qed.
Theorem C13_decision_exact : forall T fn fd num den,
  acceptable T fn fd num den = acceptable_exact T fn fd num den.
Proof. exact acceptable_fast_correct. Qed.
Theorem C13_impossible_refused : forall T fn fd den, acceptable_exact T fn fd 0 den = false.
Proof. exact zero_success_refused. Qed.

(** Never more than the permitted number of attempts: the retry loop is
    structurally bounded by MaxTrials, and the last outcome is EExhausted. *)
Theorem C13_attempts_bounded : forall (C : Type) (att : gen C) ok,
  retry 0 att ok = Ret (Err EExhausted) /\
  forall T, retry (S T) att ok = bind att (fun c => if ok c then Ret (Done c) else retry T att ok).
Proof. intros. split; reflexivity. Qed.

(** Wordlist recipes: a missing (nil) or empty list, or a non-positive length,
    gives an error; anything else generates; never a panic from the generator
    itself (zero-valued WLRecipe{} is the nil-list instance; known finding F5). *)
Theorem C13_wordlist_outcomes : forall title b r o, reach (wl_generate title b r) o ->
  match o with
  | Err ENoList => wl_size r = 0%nat
  | Err EBadLength => wl_size r <> 0%nat /\ (wrLength r < 1)%Z
  | Done (ts, e) => wl_size r <> 0%nat /\ (1 <= wrLength r)%Z
  | Err _ => False
  | Panic _ => False
  end.
Proof.
  intros title b r o H. apply wl_generate_reach in H. destruct o as [[ts e]|e|p]; [|exact H|exact H].
  destruct H as (wl & caps & idxs & seps & Hl & Hne & HL & _). unfold wl_size. rewrite Hl.
  split; [|exact HL]. destruct (wlWords wl); [congruence|discriminate].
Qed.
Example C13_wordlist_examples :
  wl_generate title_ascii default_budget (mkWLR None 3 (SepChar []) CapNone) = Ret (Err ENoList) /\
  wl_generate title_ascii default_budget (mkWLR (Some (mkWL [] 0)) 3 (SepChar []) CapNone) = Ret (Err ENoList) /\
  wl_generate title_ascii default_budget (mkWLR (Some (mkWL [[97]%N] 0)) 0 (SepChar []) CapNone) = Ret (Err EBadLength).
Proof. repeat split. Qed.

(** Non-vacuity: the recipe of known finding F1 is accepted and generates; an
    impossible one is refused; zero-valued recipes give the length error. *)
Example C13_examples :
  accepted default_budget (mkCR 8 Letters Digits 0 [] [[51;53;55]%N] []) = true /\
  char_generate default_budget (mkCR 3 0 0 0 [] [[49;50;51]; [88;89;90]; [97;98;99]; [43;42;33]]%N []) = Ret (Err EFailRate) /\
  char_generate default_budget (mkCR 0 0 0 0 [] [] []) = Ret (Err EBadLength) /\
  char_generate default_budget (mkCR 5 0 0 0 [97;98;99]%N [] [97;98;99]%N) = Ret (Err ENoChars).
Proof. vm_compute. repeat split. Qed.

(** ... and on no stream of raw words does it draw from zero alternatives (the
    randomUint32n(0) panic): every bound it draws over is in [1, 2^32). *)
Theorem C13_wordlist_never_draws_from_zero : forall title b r ws rest,
  (N.of_nat (wl_size r) < W32)%N -> (wrLength r < Z.of_N W32)%Z -> sep_small (wrSep r) ->
  run_words (wl_generate title b r) ws <> RZero rest.
Proof. exact wl_generate_no_zero. Qed.

Print Assumptions C13_decision.
Print Assumptions C13_outcomes.
Print Assumptions C13_never_panics.
Print Assumptions C13_success_probability_exact.
Print Assumptions C13_guard_band_accept.
Print Assumptions C13_guard_band_refuse.
Print Assumptions C13_decision_exact.
Print Assumptions C13_impossible_refused.
Print Assumptions C13_attempts_bounded.
Print Assumptions C13_wordlist_outcomes.
Print Assumptions C13_wordlist_never_draws_from_zero.
