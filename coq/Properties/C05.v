(** C05 — Wordlist password structure matches the recipe (atoms, caps, separators). *)
From Spg.Base Require Import Prelude Utf8 Bytes.
From Spg.Model Require Import Tables Rand GenM CharSets CharGen Token WordList WordGen.
From Spg.Proofs Require Import GenProofs WordGenProofs WordShapeProofs.
Close Scope N_scope.

(** On every stream of raw words, for every title function, budget and recipe: a
    returned wordlist password is [assemble atoms seps] — the atoms interleaved
    with the separators, empty ones giving no token — where the i-th atom is
    word idx_i of the list or, exactly at the positions the capitalisation
    scheme selected, its title-cased form; there are Length atoms chosen and
    Length-1 separator values, each a value its separator function can return. *)
Theorem C05_shape : forall title b r ws ts e rest,
  run_words (wl_generate title b r) ws = RDone (Done (ts, e)) rest ->
  exists wl caps (idxs : list N) (seps : list bytes),
        wrList r = Some wl /\ wlWords wl <> [] /\ (1 <= wrLength r)%Z /\
        caps_allowed (wrCap r) (Z.to_nat (wrLength r)) caps /\
        length idxs = Z.to_nat (wrLength r) /\ Forall (fun i => (i < N.of_nat (length (wlWords wl)))%N) idxs /\
        length seps = pred (Z.to_nat (wrLength r)) /\ Forall (sep_value_ok (wrSep r)) seps /\
        ts = assemble (map (fun ci : bool * N => let w0 := nth (N.to_nat (snd ci)) (wlWords wl) [] in if fst ci then title w0 else w0)
                           (combine caps idxs)) seps /\
        reach (wl_entropy_gen b r wl) e.
Proof. exact wl_generate_sound. Qed.

(** The capitalisation patterns: none (also for unknown scheme strings), the
    first, all, exactly one, any subset. *)
Theorem C05_caps : forall c L caps, reach (caps_gen c L) caps ->
  length caps = L /\
  match c with
  | CapFirst => forall i, nth i caps false = Nat.eqb i 0 \/ L <= i
  | CapAll => forall i, i < L -> nth i caps false = true
  | CapOne => exists w, w < L /\ forall i, i < L -> nth i caps false = Nat.eqb i w
  | CapRandom => True
  | _ => forall i, nth i caps false = false
  end.
Proof. exact reach_caps_gen. Qed.

(** Consequences for non-empty atoms (premise: no kept word, and no title form,
    is the empty string — see known finding F7): Atoms() returns exactly the
    Length atoms in order; with non-empty separators Separators() returns exactly
    the Length-1 separators, one per gap; with empty separators there are no
    separator tokens at all; the first token is an atom. *)
Theorem C05_atoms : forall (atoms seps : list bytes), Forall (fun a : bytes => a <> []) atoms ->
  of_type AtomType (assemble atoms seps) = atoms.
Proof. exact atoms_of_assemble. Qed.
Theorem C05_separators : forall (atoms seps : list bytes), length seps = pred (length atoms) ->
  Forall (fun s : bytes => s <> []) seps -> of_type SeparatorType (assemble atoms seps) = seps.
Proof. exact seps_of_assemble. Qed.
Theorem C05_no_separator_tokens : forall (atoms seps : list bytes), Forall (fun s : bytes => s = []) seps ->
  of_type SeparatorType (assemble atoms seps) = [].
Proof. exact assemble_no_seps. Qed.
Theorem C05_starts_with_atom : forall (atoms seps : list bytes) a, atoms <> [] -> Forall (fun a : bytes => a <> []) atoms ->
  hd_error (assemble atoms seps) = Some a -> ttype a = AtomType.
Proof. exact assemble_head. Qed.


(** The same in observable form, for lists without an empty word (every kept
    word and its title form non-empty; see F7): Atoms() returns exactly Length
    values, the i-th being the word drawn for position i, title-cased exactly
    where the scheme's pattern says; with a constant separator Separators()
    returns exactly Length-1 copies of it (none when it is empty); the first
    and the last token are atoms. *)
Theorem C05_atoms_exact : forall title b r ws ts e rest wl,
  run_words (wl_generate title b r) ws = RDone (Done (ts, e)) rest ->
  wrList r = Some wl -> no_empty_word title wl ->
  exists caps (idxs : list N),
    caps_allowed (wrCap r) (Z.to_nat (wrLength r)) caps /\
    length idxs = Z.to_nat (wrLength r) /\ Forall (fun i => (i < N.of_nat (length (wlWords wl)))%N) idxs /\
    length (of_type AtomType ts) = Z.to_nat (wrLength r) /\
    of_type AtomType ts =
      map (fun ci : bool * N => let w0 := nth (N.to_nat (snd ci)) (wlWords wl) [] in if fst ci then title w0 else w0) (combine caps idxs) /\
    Forall (fun a => exists w, In w (wlWords wl) /\ (a = w \/ a = title w)) (of_type AtomType ts).
Proof. exact wl_atoms_exact. Qed.
Theorem C05_separators_exact : forall title b r ws ts e rest wl c,
  run_words (wl_generate title b r) ws = RDone (Done (ts, e)) rest ->
  wrList r = Some wl -> no_empty_word title wl -> (wrSep r = SepChar c \/ wrSep r = SepConst c) ->
  of_type SeparatorType ts = match c with [] => [] | _ => repeat c (pred (Z.to_nat (wrLength r))) end.
Proof. exact wl_separators_const. Qed.
Theorem C05_no_leading_or_trailing_separator : forall title b r ws ts e rest wl,
  run_words (wl_generate title b r) ws = RDone (Done (ts, e)) rest ->
  wrList r = Some wl -> no_empty_word title wl ->
  (forall t, hd_error ts = Some t -> ttype t = AtomType) /\
  (forall t, hd_error (rev ts) = Some t -> ttype t = AtomType) /\ ts <> [].
Proof. exact wl_ends_are_atoms. Qed.

(** String() is the concatenation of the token values; Atoms()/Separators() are
    the values of that type in order: these are the definitions [pw_string] and
    [of_type] of Model/Token.v, compared with the implementation in every family. *)
Theorem C05_string_is_concat : forall ts, pw_string ts = concat (map value ts).
Proof. reflexivity. Qed.

Example C05_example :
  let wl := mkWL [[97]; [98;99]]%N 0 in
  run_words (wl_generate title_ascii default_budget (mkWLR (Some wl) 2 (SepChar [45]%N) CapFirst)) [1; 0]%N
  = RDone (Done ([Tok [66;99]%N AtomType; Tok [45]%N SeparatorType; Tok [97]%N AtomType],
                 mkWLE 2 2 BonusNone None)) [].
Proof. vm_compute. reflexivity. Qed.

Print Assumptions C05_shape.
Print Assumptions C05_caps.
Print Assumptions C05_atoms.
Print Assumptions C05_separators.
Print Assumptions C05_no_separator_tokens.
Print Assumptions C05_starts_with_atom.
Print Assumptions C05_string_is_concat.
Print Assumptions C05_atoms_exact.
Print Assumptions C05_separators_exact.
Print Assumptions C05_no_leading_or_trailing_separator.
