(** C07 — Character-recipe entropy = log2 of the exact number of satisfying passwords. *)
From Spg.Base Require Import Prelude Utf8 Bytes.
From Spg.Model Require Import Tables CharSets CharGen.
From Spg.Proofs Require Import SetProofs CountProofs.

(** The counting algorithm is exact for any alphabet, any family of required
    sets (arbitrary overlaps, any number of sets) and every length. *)
Theorem C07_count_exact : forall Rs A L,
  count_code A Rs L = Z.of_nat (length (filter (hits_all Rs) (strings_over A L))).
Proof. exact count_code_correct. Qed.

(** For a recipe: the integer whose log2 Entropy() reports (on either path) is
    the number of strings counted below ... *)
Theorem C07_entropy_is_count : forall r, (0 <= crLength r)%Z ->
  entropy_count (char_entropy r)
  = Z.of_nat (length (filter (satisfiesb r) (strings_over (alphabet r) (len_nat r)))).
Proof. intros r H. rewrite char_entropy_count by exact H. apply recipe_count_correct. Qed.

(** ... which lists, without repetition, exactly the strings that satisfy the recipe. *)
Theorem C07_counted_are_satisfying : forall r s, (0 <= crLength r)%Z ->
  In s (filter (satisfiesb r) (strings_over (alphabet r) (len_nat r))) <-> Satisfies r s.
Proof. exact counted_iff_satisfies. Qed.
Theorem C07_counted_distinct : forall r,
  NoDup (filter (satisfiesb r) (strings_over (alphabet r) (len_nat r))).
Proof. exact counted_NoDup. Qed.

(** Never NaN (the count is never negative); -Inf (count 0) exactly when no
    string can satisfy the recipe. *)
Theorem C07_never_negative : forall r, (0 <= recipe_count r)%Z.
Proof. exact recipe_count_nonneg. Qed.
Theorem C07_zero_iff_unsatisfiable : forall r, (0 <= crLength r)%Z ->
  (recipe_count r = 0%Z <-> forall s, ~ Satisfies r s).
Proof. exact recipe_count_zero_iff. Qed.

(** Non-vacuity, and the witness on which the pinned algorithm was wrong
    (known_findings F1: it returned -3): *)
Example C07_example_overlap : recipe_count (mkCR 1 Letters Digits 0 [] [[51;53;55]%N] []) = 3%Z.
Proof. vm_compute. reflexivity. Qed.

Print Assumptions C07_count_exact.
Print Assumptions C07_entropy_is_count.
Print Assumptions C07_counted_are_satisfying.
Print Assumptions C07_counted_distinct.
Print Assumptions C07_never_negative.
Print Assumptions C07_zero_iff_unsatisfiable.
