(** C02 — Character passwords are uniform over exactly the strings the recipe allows. *)
From Spg.Base Require Import Prelude Utf8 Bytes.
From Spg.Model Require Import Tables Rand GenM CharSets CharGen.
From Spg.Proofs Require Import RandProofs SetProofs CountProofs GenProofs CharGenProofs RawProofs LimitProofs.
From Coq Require Import QArith.

(** One candidate: every string of the requested length over the alphabet has
    probability exactly (1/a)^L, every other string probability 0.  (The
    alphabet has no duplicates, so no character is favoured, and index a-1 is
    as likely as index 0.) *)
Theorem C02_candidate_uniform : forall A L cand, A <> [] -> NoDup A ->
  (prob (attempt A L) (fun c => lbeqb c cand) ==
   if existsb (fun y => lbeqb y cand) (strings_over A L) then Qpow (/ NQ (N.of_nat (length A))) L else 0)%Q.
Proof. exact attempt_point. Qed.

(** The generator: for every recipe that Generate accepts there is ONE number
    q = (1/a)^L * (1 + f + ... + f^(T-1)), f the mass of rejected candidates,
    such that every string is returned with probability q if it satisfies the
    recipe and 0 otherwise.  Whole-candidate redraw favours no valid string. *)
Theorem C02_generate_uniform : forall b r cand,
  (1 <= crLength r)%Z -> alphabet r <> [] -> accepted b r = true ->
  (prob (char_generate b r) (is_pw cand) ==
   if require_filter (required_sets r) cand && existsb (fun y => lbeqb y cand) (strings_over (alphabet r) (len_nat r))
   then q_of b r else 0)%Q.
Proof. exact char_generate_uniform. Qed.

(** ... where the boolean condition is exactly "cand satisfies the recipe". *)
Theorem C02_condition_is_satisfies : forall r cand, (0 <= crLength r)%Z ->
  (require_filter (required_sets r) cand && existsb (fun y => lbeqb y cand) (strings_over (alphabet r) (len_nat r)) = true
   <-> Satisfies r cand).
Proof. exact satisfies_bool. Qed.

(** No other string is ever returned, on any stream of raw words. *)
Theorem C02_support : forall b r ws cand rest,
  run_words (char_generate b r) ws = RDone (Done cand) rest -> Satisfies r cand.
Proof. intros b r ws cand rest H. exact (proj1 (char_generate_sound b r ws cand rest H)). Qed.

(** The ideal distribution [prob] is the one induced by uniform raw 32-bit
    words: it satisfies the law of total probability with respect to the first
    raw word with the exact raw counts of C01, and that equation has a unique
    solution. *)
Theorem C02_raw_word_first_step : forall (A : Type) n (k : N -> gen A) phi, (1 <= n)%N -> (n < W32)%N ->
  (expect (Pick n k) phi ==
   (NQ (rej n) / NQ W32) * expect (Pick n k) phi
   + sumQ n (fun i => (NQ (fib n i) / NQ W32) * expect (k i) phi))%Q.
Proof. exact @prob_first_step. Qed.
Theorem C02_first_step_unique : forall n x y (s : Q), (1 <= n)%N -> (n < W32)%N ->
  (x == (NQ (rej n) / NQ W32) * x + s)%Q -> (y == (NQ (rej n) / NQ W32) * y + s)%Q -> (x == y)%Q.
Proof. exact first_step_unique. Qed.

(** From raw bytes to the ideal distribution, with no informal step.
    (1) The number of m-word tapes of raw 32-bit words on which the tape
    interpreter — the function that is differential-tested against the Go code —
    returns a having consumed exactly those m words is given by a recursion whose
    coefficients are the raw-word counts of C01. *)
Theorem C02_tape_counts : forall (A : Type) (aeqb : A -> A -> bool) m (g : gen A) a,
  rawcount32 aeqb g m a = NR32 aeqb m g a.
Proof. exact @rawcount_NR32. Qed.
(** (2) The fraction of uniform raw tapes on which the interpreter has returned a
    within the first M words never exceeds the ideal probability and is within
    u (depth g) M of it, where u d M is the chance of fewer than d heads in M fair
    coin flips ... *)
Theorem C02_frequency_sandwich : forall (A : Type) (aeqb : A -> A -> bool) (a : A) M (g : gen A), picks_ok g ->
  (freq32 aeqb a M g <= ideal aeqb a g /\ ideal aeqb a g - freq32 aeqb a M g <= u (depth g) M)%Q.
Proof. exact @frequency_sandwich. Qed.
Theorem C02_frequency_is_tape_count : forall (A : Type) (aeqb : A -> A -> bool) (a : A) m (g : gen A), picks_ok g ->
  (mass32 aeqb a m g * Qpow (NQ W32) m == NQ (rawcount32 aeqb g m a))%Q.
Proof. exact @mass32_is_tape_count. Qed.
(** (3) ... which tends to 0: the ideal probability IS the limit of the frequencies over actual byte tapes. *)
Theorem C02_frequency_converges : forall (A : Type) (aeqb : A -> A -> bool) (a : A) (g : gen A), picks_ok g ->
  forall eps, (0 < eps)%Q ->
  exists M0, forall M, (M0 <= M)%nat -> (ideal aeqb a g - eps <= freq32 aeqb a M g /\ freq32 aeqb a M g <= ideal aeqb a g)%Q.
Proof. exact @frequency_converges. Qed.
(** every character generator has well-formed picks (alphabets below 2^32) *)
Theorem C02_generator_picks_ok : forall b r, small_alphabet r -> picks_ok (char_generate b r).
Proof. exact char_generate_picks_ok. Qed.

(** The alphabet order forced by the verif hook loses no generality: the
    distribution over strings is the same for any duplicate-free ordering,
    because it is (1/a)^L on exactly the strings over the same set. *)
Theorem C02_order_irrelevant : forall A B L cand, A <> [] -> B <> [] -> NoDup A -> NoDup B ->
  (forall g, In g A <-> In g B) -> length A = length B ->
  (prob (attempt A L) (fun c => lbeqb c cand) == prob (attempt B L) (fun c => lbeqb c cand))%Q.
Proof.
  intros A B L cand HA HB NA NB Hset Hlen.
  rewrite !attempt_point by assumption. rewrite Hlen.
  assert (E : existsb (fun y => lbeqb y cand) (strings_over A L) = existsb (fun y => lbeqb y cand) (strings_over B L)).
  { apply Bool.eq_true_iff_eq. rewrite !in_strings_existsb. split; intros [H1 H2]; split; auto; intros g Hg; apply Hset; auto. }
  rewrite E. reflexivity.
Qed.

(** Non-vacuity: Allow "ab", Require "a", Length 2: three valid strings, each q; "bb" never. *)
Example C02_example :
  let r := mkCR 2 0 0 0 [97;98]%N [[97]%N] [] in
  accepted default_budget r = true /\ recipe_count r = 3%Z /\
  require_filter (required_sets r) [[98];[98]]%N = false.
Proof. vm_compute. repeat split. Qed.

Print Assumptions C02_candidate_uniform.
Print Assumptions C02_generate_uniform.
Print Assumptions C02_condition_is_satisfies.
Print Assumptions C02_support.
Print Assumptions C02_raw_word_first_step.
Print Assumptions C02_first_step_unique.
Print Assumptions C02_order_irrelevant.
Print Assumptions C02_tape_counts.
Print Assumptions C02_frequency_sandwich.
Print Assumptions C02_frequency_is_tape_count.
Print Assumptions C02_frequency_converges.
Print Assumptions C02_generator_picks_ok.
