(** C18 — Generated secrets leave the library only through the returned Password. *)
From Spg.Base Require Import Prelude Utf8 Bytes.
From Spg.Model Require Import Tables Rand GenM CharSets CharGen Token WordList WordGen Diag.
From Spg.Proofs Require Import DiagProofs.
Close Scope N_scope.

(** Non-interference: what a generation writes to standard output, standard
    error and the process log is given by a function of the recipe alone; two
    runs on ANY two random sources — any candidates, accepted or rejected, any
    words, any separators — emit identical diagnostics.  (That the real code's
    output equals these functions' rendering byte for byte is what every
    correspondence family of every property compares, on refused, failing and
    retried generations too.) *)
Theorem C18_nonintereference_char : forall b r src1 src2,
  snd (char_run_with_diag b r src1) = snd (char_run_with_diag b r src2).
Proof. exact diag_tape_independent_char. Qed.
Theorem C18_nonintereference_wordlist : forall title b r src1 src2,
  snd (wl_run_with_diag title b r src1) = snd (wl_run_with_diag title b r src2).
Proof. exact diag_tape_independent_wl. Qed.

(** Every emitted line is one of the fixed templates with a decimal integer in
    the hole: no byte comes from an alphabet, word list, separator or token. *)
Theorem C18_grammar : forall d,
  exists s pre post num, In (s, pre, post) templates /\ is_decimal num = true /\ render d = (s, pre ++ num ++ post).
Proof. exact diag_grammar. Qed.

(** ... and the integers are counts: the (empty) alphabet's size and the number
    of duplicate words. *)
Theorem C18_char_values : forall r d, In d (char_generate_diag r) -> d = DEntropySimpleNot 0.
Proof. exact char_diag_values. Qed.
Theorem C18_wordlist_values : forall r d, In d (wl_generate_diag r) -> d = DEntropySimpleNot 0.
Proof. exact wl_diag_values. Qed.
Theorem C18_new_word_list_values : forall title emit l o ds d,
  new_word_list title emit l = (o, ds) -> In d ds ->
  d = DDuplicates (Z.of_nat (length l - length (kept title l))).
Proof. exact new_word_list_diag_values. Qed.

(** ---- every output statement of the CURRENT source (coq/Gen/OutputSites.v, regenerated on every run) ---- *)
From Spg.Gen Require OutputSites.
From Coq Require Import String Permutation.
From Spg.Base Require Import Multiset.
Open Scope string_scope.
(** boolean equality on statement signatures, and its soundness *)
Definition sig_eqb (a c : string * string * string * list string) : bool :=
  String.eqb (fst (fst (fst a))) (fst (fst (fst c))) && String.eqb (snd (fst (fst a))) (snd (fst (fst c))) &&
  String.eqb (snd (fst a)) (snd (fst c)) && list_eqb String.eqb (snd a) (snd c).
Lemma sig_eqb_eq a c : sig_eqb a c = true -> a = c.
Proof.
  destruct a as [[[a1 a2] a3] a4]. destruct c as [[[c1 c2] c3] c4]. unfold sig_eqb. cbn [fst snd]. intros H.
  apply andb_prop in H. destruct H as [H H4]. apply andb_prop in H. destruct H as [H H3]. apply andb_prop in H. destruct H as [H1 H2].
  apply String.eqb_eq in H1. apply String.eqb_eq in H2. apply String.eqb_eq in H3.
  apply (list_eqb_eq String.eqb (fun x y E => proj1 (String.eqb_eq x y) E)) in H4. subst. reflexivity.
Qed.
Definition site_sig (s : OutputSites.out_site) :=
  (OutputSites.site_func s, OutputSites.site_callee s, OutputSites.site_stream s, map OutputSites.arg_kind (OutputSites.site_args s)).
(** the package has exactly these statements that can write to standard output, standard error, the process log or a panic
    message (as a set with multiplicity: the order in which the translator meets them — file order, position in the file —
    carries no meaning) ... *)
Theorem C18_output_sites :
  Permutation (map site_sig OutputSites.src_output_sites)
  [("CharRecipe.SuccessProbability", "log.Println", "log", ["conststring"]);
   ("CharRecipe.SuccessProbability", "log.Println", "log", ["conststring"]);
   ("randomUint32", "panic", "panic", ["conststring"; "error-method-string"]);
   ("entropySimple", "fmt.Printf", "stdout", ["int"]);
   ("randomUint32n", "panic", "panic", ["conststring"]);
   ("NewWordList", "log.Printf", "log", ["int"])].
Proof. apply (same_multiset_perm sig_eqb sig_eqb_eq). vm_compute. reflexivity. Qed.
(** ... every argument of which is a constant string, an integer, a float or the text of a read error:
    no value of token, password, word or separator type reaches an output statement *)
Theorem C18_output_sites_numeric :
  forallb (fun s => forallb (fun a => existsb (String.eqb (OutputSites.arg_kind a)) ["conststring"; "int"; "float"; "error-method-string"])
                            (OutputSites.site_args s)) OutputSites.src_output_sites = true.
Proof. vm_compute. reflexivity. Qed.
(** the two formatted statements are the two templates of the model (Model/Diag.v) *)
Theorem C18_templates_are_the_formats :
  Permutation
    (map (fun s => bos (OutputSites.site_format s))
         (filter (fun s => String.eqb (OutputSites.site_callee s) "fmt.Printf" || String.eqb (OutputSites.site_callee s) "log.Printf") OutputSites.src_output_sites))
    [(tpl_entropy_simple ++ bos "%d" ++ nl)%list; (bos "%d" ++ tpl_duplicates ++ nl)%list].
Proof.
  apply (same_multiset_perm (list_eqb N.eqb) (list_eqb_eq N.eqb (fun x y E => proj1 (N.eqb_eq x y) E))). vm_compute. reflexivity.
Qed.
Close Scope string_scope.

Print Assumptions C18_nonintereference_char.
Print Assumptions C18_nonintereference_wordlist.
Print Assumptions C18_grammar.
Print Assumptions C18_char_values.
Print Assumptions C18_wordlist_values.
Print Assumptions C18_new_word_list_values.
Print Assumptions C18_output_sites.
Print Assumptions C18_output_sites_numeric.
Print Assumptions C18_templates_are_the_formats.
