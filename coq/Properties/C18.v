(** C18 — Generated secrets leave the library only through the returned Password. *)
From Spg.Base Require Import Prelude Utf8 Bytes.
From Spg.Model Require Import Tables Rand GenM CharSets CharGen Token WordList WordGen Diag.
From Spg.Proofs Require Import DiagProofs.
Close Scope N_scope.

(** Non-interference: what a generation writes to standard output, standard
    error and the process log is given by a function of the recipe alone; two
    runs on ANY two random sources — any candidates, accepted or rejected, any
    words, any separators — emit identical diagnostics.  (That the real code's
    output equals these functions' rendering byte for byte is what every
    correspondence family of every property compares, on refused, failing and
    retried generations too.) *)
Theorem C18_nonintereference_char : forall b r src1 src2,
  snd (char_run_with_diag b r src1) = snd (char_run_with_diag b r src2).
Proof. exact diag_tape_independent_char. Qed.
Theorem C18_nonintereference_wordlist : forall title b r src1 src2,
  snd (wl_run_with_diag title b r src1) = snd (wl_run_with_diag title b r src2).
Proof. exact diag_tape_independent_wl. Qed.

(** Every emitted line is one of the fixed templates with a decimal integer in
    the hole: no byte comes from an alphabet, word list, separator or token. *)
Theorem C18_grammar : forall d,
  exists s pre post num, In (s, pre, post) templates /\ is_decimal num = true /\ render d = (s, pre ++ num ++ post).
Proof. exact diag_grammar. Qed.

(** ... and the integers are counts: the (empty) alphabet's size and the number
    of duplicate words. *)
Theorem C18_char_values : forall r d, In d (char_generate_diag r) -> d = DEntropySimpleNot 0.
Proof. exact char_diag_values. Qed.
Theorem C18_wordlist_values : forall r d, In d (wl_generate_diag r) -> d = DEntropySimpleNot 0.
Proof. exact wl_diag_values. Qed.
Theorem C18_new_word_list_values : forall title emit l o ds d,
  new_word_list title emit l = (o, ds) -> In d ds ->
  d = DDuplicates (Z.of_nat (length l - length (kept title l))).
Proof. exact new_word_list_diag_values. Qed.

Print Assumptions C18_nonintereference_char.
Print Assumptions C18_nonintereference_wordlist.
Print Assumptions C18_grammar.
Print Assumptions C18_char_values.
Print Assumptions C18_wordlist_values.
Print Assumptions C18_new_word_list_values.
