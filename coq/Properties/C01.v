(** C01 — Bounded random draws are exactly uniform for every bound (no modulo bias).
    Statements only; each is closed by [exact] of a lemma proved in Proofs/. *)
From Spg.Base Require Import Prelude SumCount.
From Spg.Model Require Import Rand.
From Spg.Proofs Require Import RandProofs.
Open Scope N_scope.

(** The result is in [0,n). *)
Theorem C01_range : forall n v i, 1 <= n -> step n v = Some i -> i < n.
Proof. exact step_in_range. Qed.

(** Every alternative is selected by exactly the same number of the 2^32 raw
    words: (number of words mapped to i) * n = number of accepted words. *)
Theorem C01_uniform : forall n i, 1 <= n -> n < W32 -> i < n -> fib n i * n = acc n.
Proof. exact step_uniform. Qed.
(** where [fib n i] counts the raw words v < 2^32 with step n v = Some i and
    [acc n] those with step n v <> None (definitions in Proofs/RandProofs.v,
    unfolded here so that the statement can be read without them): *)
Theorem C01_fib_acc_defs : forall n i,
  fib n i = countBelow W32 (fun v => match stepW W32 n v with Some j => j =? i | None => false end) /\
  acc n = countBelow W32 (fun v => match stepW W32 n v with Some _ => true | None => false end) /\
  rej n = countBelow W32 (fun v => match stepW W32 n v with Some _ => false | None => true end) /\
  (forall v, step n v = stepW W32 n v).
Proof. intros n i. repeat split. Qed.

(** More than half of all raw words are accepted. *)
Theorem C01_majority : forall n, 1 <= n -> n < W32 -> W32 < 2 * acc n.
Proof. exact step_majority. Qed.
Theorem C01_acc_rej : forall n, acc n + rej n = W32.
Proof. exact step_acc_rej. Qed.

(** A rejected value is discarded and the next fresh word of the stream decides;
    an accepted one ends the draw and leaves the rest of the stream untouched. *)
Theorem C01_restart : forall n v ws, step n v = None -> draw n (v :: ws) = draw n ws.
Proof. exact draw_restart. Qed.
Theorem C01_accept : forall n v i ws, step n v = Some i -> draw n (v :: ws) = Some (i, ws).
Proof. exact draw_accept. Qed.

(** Of the W^t streams of t >= 1 raw words, fewer than (W/2)^t leave the draw
    undecided: selection terminates with probability one. *)
Theorem C01_termination : forall n t, 1 <= n -> n < W32 -> (1 <= t)%nat ->
  2 ^ N.of_nat t * count_tapes W32 t (all_rejected n) < W32 ^ N.of_nat t.
Proof. exact all_reject_small. Qed.

(** A raw word is exactly four bytes, big endian: a bijection. *)
Theorem C01_bytes_to_word : forall b0 b1 b2 b3, b0 < 256 -> b1 < 256 -> b2 < 256 -> b3 < 256 ->
  be32 b0 b1 b2 b3 < W32 /\ word_bytes (be32 b0 b1 b2 b3) = (b0, b1, b2, b3).
Proof. intros; split; [apply be32_range | apply word_bytes_be32]; assumption. Qed.
Theorem C01_word_to_bytes : forall v, v < W32 ->
  let '(b0, b1, b2, b3) := word_bytes v in
  be32 b0 b1 b2 b3 = v /\ b0 < 256 /\ b1 < 256 /\ b2 < 256 /\ b3 < 256.
Proof. exact be32_word_bytes. Qed.

Print Assumptions C01_range.
Print Assumptions C01_uniform.
Print Assumptions C01_majority.
Print Assumptions C01_acc_rej.
Print Assumptions C01_fib_acc_defs.
Print Assumptions C01_restart.
Print Assumptions C01_accept.
Print Assumptions C01_termination.
Print Assumptions C01_bytes_to_word.
Print Assumptions C01_word_to_bytes.
