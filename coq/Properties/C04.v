(** C04 — Wordlist passwords: word, capitalisation, separator choices uniform, independent. *)
From Spg.Base Require Import Prelude Utf8 Bytes.
From Spg.Model Require Import Tables Rand GenM CharSets CharGen Token WordList WordGen.
From Spg.Proofs Require Import RandProofs GenProofs CharGenProofs WordGenProofs ProdProofs WordProdProofs WordDecodeProofs
  WordEntropyProofs WordFinalProofs WordPicksProofs RawProofs LimitProofs.
From Coq Require Import QArith.
Close Scope N_scope. Close Scope Q_scope. Open Scope nat_scope.

(** Independence, for EVERY separator function, list, length and scheme: the law
    of what Generate returns is the image, under the rendering map, of the
    PRODUCT of four independent draws — the capitalisation pattern drawn by the
    scheme, one word index per position drawn uniformly from [0,size), one fresh
    call of the separator function per gap, and the separator call inside
    Entropy().  ([expect g phi] is the exact expectation of phi under g; taking
    phi an indicator gives probabilities.) *)
Theorem C04_product : forall title b wl L s c phi,
  wlWords wl <> [] -> (1 <= L)%Z ->
  let r := mkWLR (Some wl) L s c in
  (expect (wl_generate title b r) phi ==
   expect (caps_gen c (Z.to_nat L)) (fun caps =>
   expect (picks (length caps) (N.of_nat (length (wlWords wl)))) (fun idxs =>
   expect (draws (sep_val b s) (pred (length caps))) (fun seps =>
   expect (wl_entropy_gen b r wl) (fun e => phi (Done (render title (wlWords wl) caps idxs seps, e)))))))%Q.
Proof. exact wl_generate_product. Qed.

(** each word: every in-range index vector has probability exactly (1/size)^L,
    for any list size (power of two or not) *)
Theorem C04_words_uniform : forall a L v, (1 <= a)%N -> length v = L -> Forall (fun i => (i < a)%N) v ->
  (pm (list_eq_dec N.eq_dec) (picks L a) v == Qpow (/ NQ a) L)%Q.
Proof. exact pm_picks. Qed.

(** 'one': every position has probability exactly 1/Length; 'random': every
    subset of positions has probability exactly (1/2)^Length; the other schemes
    draw nothing *)
Theorem C04_caps_uniform : forall c L caps, 1 <= L -> reach (caps_gen c L) caps ->
  (pm caps_dec (caps_gen c L) caps == caps_bound c L)%Q.
Proof. exact (pm_caps_eq (fun w => w)). Qed.
Theorem C04_caps_patterns : forall c L caps, reach (caps_gen c L) caps -> caps_allowed c L caps.
Proof. exact reach_caps_gen. Qed.

(** separators: a vector of separator values has the product of the single-call
    probabilities — each gap is a fresh independent call *)
Theorem C04_separators_independent : forall b s n v, length v = n ->
  (pm seps_dec (draws (sep_val b s) n) v == Qprod (map (pm bytes_dec (sep_val b s)) v))%Q.
Proof. intros b s n v. exact (pm_draws bytes_dec (sep_val b s) n v). Qed.

(** The probability of the password rendered by a choice tuple is exactly the
    product of the probabilities of its choices, whenever the capitalisation
    pattern can be read off the password (schemes none/first/all, or every word
    changes under title-casing) *)
Theorem C04_point_probability : forall title b wl L s c M e0 x,
  good_words title (wlWords wl) -> caps_readable title c (wlWords wl) -> size_ok (wlWords wl) ->
  (1 <= L)%Z -> (Z.to_N L < W32)%N -> sep_ok b s M e0 ->
  reach (full_choices b (wlWords wl) s c (Z.to_nat L)) x ->
  (pm out_dec (wl_generate title b (mkWLR (Some wl) L s c))
      (Done (render_full title (wlWords wl) x, ent_of wl L c (match s with SepChar _ => None | _ => e0 end))) ==
   caps_bound c (Z.to_nat L) * (Qpow (/ NQ (N.of_nat (length (wlWords wl)))) (Z.to_nat L) *
                                 Qprod (map (pm bytes_dec (sep_val b s)) (snd (snd x)))))%Q.
Proof. exact wl_point_eq. Qed.

(** Hence, when every word is capitalisable (or the scheme draws nothing) and the
    separator is uniform, all possible passwords are exactly equally likely. *)
Theorem C04_equally_likely : forall title b wl L s c M e0 x1 x2,
  good_words title (wlWords wl) -> caps_readable title c (wlWords wl) -> size_ok (wlWords wl) ->
  (1 <= L)%Z -> (Z.to_N L < W32)%N -> sep_ok b s M e0 -> sep_uniform b s M ->
  reach (full_choices b (wlWords wl) s c (Z.to_nat L)) x1 -> reach (full_choices b (wlWords wl) s c (Z.to_nat L)) x2 ->
  let e := ent_of wl L c (match s with SepChar _ => None | _ => e0 end) in
  (pm out_dec (wl_generate title b (mkWLR (Some wl) L s c)) (Done (render_full title (wlWords wl) x1, e)) ==
   pm out_dec (wl_generate title b (mkWLR (Some wl) L s c)) (Done (render_full title (wlWords wl) x2, e)))%Q.
Proof. exact wl_equally_likely. Qed.

(** The premises hold of every list NewWordList builds from an input that meets
    the property's own premise (no two entries share a title-cased form unless
    one of them is that form) and has no empty entry (known finding F7). *)
Theorem C04_premises_from_NewWordList : forall (title : bytes -> bytes), (forall w, title (title w) = title w) ->
  forall emit l wl d, title_premise title l -> no_empty title l ->
  new_word_list title emit l = (Done (Some wl), d) ->
  good_words title (wlWords wl) /\ (wlUncap wl = 0 -> all_cap title (wlWords wl)).
Proof. exact kept_words_good. Qed.

(** every separator opgen or the presets can build satisfies the separator premises *)
Theorem C04_sep_char : forall b c, sep_ok b (SepChar c) 1 None /\ sep_uniform b (SepChar c) 1.
Proof. intros b c. split; [exact (sep_ok_char (fun w => w) b c)|exact (sep_uniform_char b c)]. Qed.
Theorem C04_sep_const : forall b c, sep_ok b (SepConst c) 1 None /\ sep_uniform b (SepConst c) 1.
Proof. intros b c. split; [exact (sep_ok_const (fun w => w) b c)|exact (sep_uniform_const b c)]. Qed.
Theorem C04_sep_recipe : forall b r, infallible b r ->
  sep_ok b (SepRecipe r) (Z.to_N (recipe_count r)) (Some (char_entropy r)) /\ sep_uniform b (SepRecipe r) (Z.to_N (recipe_count r)).
Proof. intros b r H. split; [exact (sep_ok_recipe (fun w => w) b r H)|exact (sep_uniform_recipe (fun w => w) b r H)]. Qed.

(** non-vacuity: the digit preset is infallible under the default budget *)
Example C04_digits_infallible : exists r, SFDigits1 = SepRecipe r /\
  (1 <= crLength r)%Z /\ alphabet r <> [] /\ live_sets r = [] /\ accepted default_budget r = true /\ recipe_count r = 10%Z.
Proof. eexists. split; [reflexivity|]. vm_compute. repeat split; discriminate. Qed.

(** From raw bytes to these probabilities.  The wordlist generator's draws are
    well formed — fewer than 2^32 words (NewWordList refuses more), Length below
    2^32, separator alphabets below 2^32 (true of every preset) — so it falls
    under the raw-word layer of C01/C02: the fraction of uniform tapes of raw
    32-bit words on which the tape interpreter (the function compared with the Go
    code) has returned a given result within M words never exceeds its ideal
    probability, is within u (depth g) M of it, and converges to it. *)
Theorem C04_generator_picks_ok : forall title b r,
  (N.of_nat (wl_size r) < W32)%N -> (wrLength r < Z.of_N W32)%Z -> sep_small (wrSep r) ->
  picks_ok (wl_generate title b r).
Proof. exact wl_generate_picks_ok. Qed.
Theorem C04_presets_small : sep_small SFNone /\ sep_small SFDigits1 /\ sep_small SFDigits2 /\ sep_small SFDigitsNoAmbiguous1 /\
  sep_small SFDigitsNoAmbiguous2 /\ sep_small SFSymbols /\ sep_small SFDigitsSymbols.
Proof. exact presets_small. Qed.
Theorem C04_frequencies_over_byte_tapes : forall title b r (aeqb : _ -> _ -> bool) a,
  (N.of_nat (wl_size r) < W32)%N -> (wrLength r < Z.of_N W32)%Z -> sep_small (wrSep r) ->
  let g := wl_generate title b r in
  (forall M, (freq32 aeqb a M g <= ideal aeqb a g /\ ideal aeqb a g - freq32 aeqb a M g <= u (depth g) M)%Q) /\
  (forall eps, (0 < eps)%Q -> exists M0, forall M, (M0 <= M)%nat ->
     (ideal aeqb a g - eps <= freq32 aeqb a M g /\ freq32 aeqb a M g <= ideal aeqb a g)%Q).
Proof.
  intros title b r aeqb a H1 H2 H3 g.
  assert (Hok : picks_ok g) by (apply wl_generate_picks_ok; assumption).
  split; [intros M; apply frequency_sandwich; exact Hok|apply frequency_converges; exact Hok].
Qed.

Print Assumptions C04_product.
Print Assumptions C04_words_uniform.
Print Assumptions C04_caps_uniform.
Print Assumptions C04_caps_patterns.
Print Assumptions C04_separators_independent.
Print Assumptions C04_point_probability.
Print Assumptions C04_equally_likely.
Print Assumptions C04_premises_from_NewWordList.
Print Assumptions C04_sep_char.
Print Assumptions C04_sep_const.
Print Assumptions C04_sep_recipe.
Print Assumptions C04_generator_picks_ok.
Print Assumptions C04_presets_small.
Print Assumptions C04_frequencies_over_byte_tapes.
