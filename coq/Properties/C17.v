(** C17 — The opgen CLI is faithful to the library recipe its flags describe. *)
From Spg.Base Require Import Prelude Utf8 Bytes.
From Spg.Model Require Import Tables Rand GenM CharSets CharGen Token WordList WordGen Cli.
From Spg.Proofs Require Import GenProofs CharGenProofs WordGenProofs CliProofs BuiltinProofs.
From Spg.Gen Require Cli.
From Coq Require Import String Permutation.
From Spg.Base Require Import Multiset.
Close Scope N_scope.
Open Scope string_scope.

(** boolean equalities on the tuples the translator emits, with their soundness: the facts below are compared as sets with
    multiplicity (Permutation) — the order of declarations and statements in opgen.go carries no meaning *)
Definition s4_eqb (a c : string * string * string * string) : bool :=
  String.eqb (fst (fst (fst a))) (fst (fst (fst c))) && String.eqb (snd (fst (fst a))) (snd (fst (fst c))) &&
  String.eqb (snd (fst a)) (snd (fst c)) && String.eqb (snd a) (snd c).
Lemma s4_eqb_eq a c : s4_eqb a c = true -> a = c.
Proof.
  destruct a as [[[a1 a2] a3] a4]. destruct c as [[[c1 c2] c3] c4]. unfold s4_eqb. cbn [fst snd]. intros H.
  apply andb_prop in H. destruct H as [H H4]. apply andb_prop in H. destruct H as [H H3]. apply andb_prop in H. destruct H as [H1 H2].
  apply String.eqb_eq in H1. apply String.eqb_eq in H2. apply String.eqb_eq in H3. apply String.eqb_eq in H4. subst. reflexivity.
Qed.
Definition s3_eqb (a c : string * string * string) : bool :=
  String.eqb (fst (fst a)) (fst (fst c)) && String.eqb (snd (fst a)) (snd (fst c)) && String.eqb (snd a) (snd c).
Lemma s3_eqb_eq a c : s3_eqb a c = true -> a = c.
Proof.
  destruct a as [[a1 a2] a3]. destruct c as [[c1 c2] c3]. unfold s3_eqb. cbn [fst snd]. intros H.
  apply andb_prop in H. destruct H as [H H3]. apply andb_prop in H. destruct H as [H1 H2].
  apply String.eqb_eq in H1. apply String.eqb_eq in H2. apply String.eqb_eq in H3. subst. reflexivity.
Qed.
Definition s2_eqb (a c : string * string) : bool := String.eqb (fst a) (fst c) && String.eqb (snd a) (snd c).
Lemma s2_eqb_eq a c : s2_eqb a c = true -> a = c.
Proof.
  destruct a as [a1 a2]. destruct c as [c1 c2]. unfold s2_eqb. cbn [fst snd]. intros H.
  apply andb_prop in H. destruct H as [H1 H2]. apply String.eqb_eq in H1. apply String.eqb_eq in H2. subst. reflexivity.
Qed.
Definition bytes_eqb_eq := list_eqb_eq N.eqb (fun x y E => proj1 (N.eqb_eq x y) E).

(** ---- the tables, defaults and exit statuses of the CURRENT source are the documented ones
        and the ones the model uses ---- *)
Theorem C17_class_words :
  list_eqb (fun a c => String.eqb (fst a) (fst c) && N.eqb (snd a) (snd c)) Gen.Cli.cli_cc_map
    [("ambiguous", Ambiguous); ("digits", Digits); ("lowercase", Lowers); ("symbols", Symbols); ("uppercase", Uppers)] = true /\
  forallb (fun p => match assoc (bos (fst p)) cc_map with Some f => N.eqb f (snd p) | None => false end) Gen.Cli.cli_cc_map = true /\
  List.length cc_map = List.length Gen.Cli.cli_cc_map.
Proof. vm_compute. repeat split; reflexivity. Qed.

Definition sep_of_source (kind value : string) : option sep_fun :=
  if String.eqb kind "const" then Some (SepConst (bos value))
  else if String.eqb kind "preset" then
    (if String.eqb value "SFDigits1" then Some SFDigits1 else if String.eqb value "SFNone" then Some SFNone else None)
  else None.
Definition sep_fun_eqb (a c : sep_fun) : bool :=
  match a, c with
  | SepConst x, SepConst y => beqb x y
  | SepRecipe r1, SepRecipe r2 =>
      Z.eqb (crLength r1) (crLength r2) && N.eqb (crAllow r1) (crAllow r2) && N.eqb (crRequire r1) (crRequire r2) &&
      N.eqb (crExclude r1) (crExclude r2) && beqb (crAllowChars r1) (crAllowChars r2) && beqb (crExcludeChars r1) (crExcludeChars r2) &&
      list_eqb beqb (crRequireSets r1) (crRequireSets r2)
  | _, _ => false
  end.
Theorem C17_separator_words :
  Gen.Cli.cli_separator_map =
    [("comma", "const", ","); ("digit", "preset", "SFDigits1"); ("hyphen", "const", "-"); ("none", "preset", "SFNone");
     ("period", "const", "."); ("space", "const", " "); ("underscore", "const", "_")] /\
  Gen.Cli.cli_create_separator_func = "returns:(value, 0)" /\
  forallb (fun p => let '(w, kind, value) := p in
             match assoc (bos w) separator_map, sep_of_source kind value with
             | Some f, Some g => sep_fun_eqb f g | _, _ => false end) Gen.Cli.cli_separator_map = true /\
  List.length separator_map = List.length Gen.Cli.cli_separator_map.
Proof. vm_compute. repeat split; reflexivity. Qed.

Definition cap_eqb (a c : cap_scheme) : bool :=
  match a, c with CapNone, CapNone | CapFirst, CapFirst | CapAll, CapAll | CapRandom, CapRandom | CapOne, CapOne | CapOther, CapOther => true | _, _ => false end.
Theorem C17_capitalize_words :
  Gen.Cli.cli_capitalize_map = [("all", "all"); ("first", "first"); ("none", "none"); ("one", "one"); ("random", "random")] /\
  forallb (fun p => match assoc (bos (fst p)) capitalize_map with Some c => cap_eqb c (cap_of_string (bos (snd p))) | None => false end)
          Gen.Cli.cli_capitalize_map = true /\
  List.length capitalize_map = List.length Gen.Cli.cli_capitalize_map.
Proof. vm_compute. repeat split; reflexivity. Qed.

Theorem C17_flags_and_defaults :
  Permutation Gen.Cli.cli_flags
    [("characters", "length", "int", "field:defaultCharRecipe.length"); ("characters", "allow", "string", "const:");
     ("characters", "require", "string", "const:"); ("characters", "exclude", "string", "const:"); ("characters", "entropy", "bool", "const:false");
     ("words", "size", "int", "const:4"); ("words", "list", "string", "const:words"); ("words", "file", "string", "const:");
     ("words", "separator", "string", "const:hyphen"); ("words", "capitalize", "string", "const:none"); ("words", "entropy", "bool", "const:false")] /\
  Gen.Cli.cli_default_char_recipe = [("length", "const:20"); ("allow", "list:uppercase,lowercase,digits,symbols"); ("exclude", "list:ambiguous")] /\
  Permutation Gen.Cli.cli_word_lists [("words", "AgileWords"); ("syllables", "AgileSyllables")].
Proof.
  split; [apply (same_multiset_perm s4_eqb s4_eqb_eq); vm_compute; reflexivity|].
  split; [vm_compute; reflexivity|apply (same_multiset_perm s2_eqb s2_eqb_eq); vm_compute; reflexivity].
Qed.

(** the model's flag sets and defaults are those *)
Theorem C17_model_defaults :
  Permutation (map fst char_defs) (map (fun f => bos (snd (fst (fst f)))) (filter (fun f => String.eqb (fst (fst (fst f))) "characters") Gen.Cli.cli_flags)) /\
  Permutation (map fst word_defs) (map (fun f => bos (snd (fst (fst f)))) (filter (fun f => String.eqb (fst (fst (fst f))) "words") Gen.Cli.cli_flags)) /\
  (default_length, default_size, default_list, default_separator, default_capitalize) = (20%Z, 4%Z, bos "words", bos "hyphen", bos "none") /\
  default_allow = map bos ["uppercase"; "lowercase"; "digits"; "symbols"] /\ default_exclude = [bos "ambiguous"] /\ default_require = [].
Proof.
  split; [apply (same_multiset_perm (list_eqb N.eqb) bytes_eqb_eq); vm_compute; reflexivity|].
  split; [apply (same_multiset_perm (list_eqb N.eqb) bytes_eqb_eq); vm_compute; reflexivity|].
  vm_compute. repeat split; reflexivity.
Qed.

Theorem C17_exit_statuses :
  Permutation Gen.Cli.cli_exit_consts [("ExitSuccess", 0%N); ("ExitCatchall", 1%N); ("ExitUsage", 2%N)] /\
  (* every statement that ends the process does so through os.Exit with the usage status 2 or the catch-all status 1, or through
     log.Fatalln (status 1); both statuses occur; which function the statement sits in, and how often it is written out, is not
     part of the claim *)
  forallb (fun s => let callee := snd (fst s) in let arg := snd s in
                    (String.eqb callee "os.Exit" && (String.eqb arg "const:2" || String.eqb arg "const:1")) ||
                    (String.eqb callee "log.Fatalln" && String.eqb arg "")) Gen.Cli.cli_exit_sites = true /\
  existsb (fun s => String.eqb (snd s) "const:2") Gen.Cli.cli_exit_sites = true /\
  existsb (fun s => String.eqb (snd s) "const:1") Gen.Cli.cli_exit_sites = true /\
  (* what opgen itself writes to standard output: the entropy, the password, the usage text — through fmt.Printf / fmt.Println,
     and the one formatted statement prints the entropy with two decimals *)
  forallb (fun s => String.eqb (snd (fst s)) "fmt.Printf" || String.eqb (snd (fst s)) "fmt.Println") Gen.Cli.cli_stdout_sites = true /\
  map snd (filter (fun s => String.eqb (snd (fst s)) "fmt.Printf") Gen.Cli.cli_stdout_sites) = ["%.2f" ++ String (Ascii.ascii_of_nat 10) ""].
Proof.
  split; [apply (same_multiset_perm _ (pair_eqb_eq String.eqb N.eqb (fun x y E => proj1 (String.eqb_eq x y) E) (fun x y E => proj1 (N.eqb_eq x y) E))); vm_compute; reflexivity|].
  vm_compute. repeat split; reflexivity.
Qed.

(** how the recipe is put together from the flags (source text of the two constructors and of the class-list parser) *)
Theorem C17_recipe_construction :
  Gen.Cli.cli_generators =
    [("charGenerator", ["recipe := spg.NewCharRecipe(*flagLength)";
                        "recipe.Allow = parseCharacterClasses(*flagAllow, defaultCharRecipe.allow)";
                        "recipe.Require = parseCharacterClasses(*flagRequire, defaultCharRecipe.require)";
                        "recipe.Exclude = parseCharacterClasses(*flagExclude, defaultCharRecipe.exclude)";
                        "return recipe"]);
     ("wlGenerator", ["var wl *spg.WordList";
                      "if *flagWordListFile != """" { wl = loadWordListFile(*flagWordListFile) } else { wl = parseWordList(*flagWordList) }";
                      "recipe := spg.NewWLRecipe(*flagSize, wl)";
                      "recipe.SeparatorFunc = parseSeparator(*flagSeparator)";
                      "recipe.Capitalize = parseCapitalize(*flagCapitalize)";
                      "return recipe"])] /\
  Gen.Cli.cli_parse_character_classes =
    ["var ccFlags spg.CTFlag"; "var classes []string";
     "if value != """" { classes = strings.Split( strings.Replace(value, "" "", """", -1), "","", ) } else { classes = defaults }";
     "for _, c := range classes { if ccFlag, ok := ccMap[c]; ok { ccFlags |= ccFlag } }"; "return ccFlags"].
Proof. vm_compute. split; reflexivity. Qed.

(** ---- the plan ---- *)
Close Scope string_scope.
(** defaults: 20 characters from everything minus the ambiguous ones; four words of AgileWords joined by hyphens, no capitalisation *)
Theorem C17_default_plans : forall fs,
  cli_plan fs [bos "characters"%string] = AChar (mkCR 20 FAll 0 Ambiguous [] [] []) false /\
  cli_plan fs [bos "words"%string] = AWords (mkWP BuiltinWords 4 (SepConst (bos "-"%string)) CapNone) false.
Proof. intros fs. split; vm_compute; reflexivity. Qed.

(** a class flag is set exactly when one of the listed words (or, for an empty value, of the defaults) names it *)
Theorem C17_class_lists : forall v defaults f, In f single_flags ->
  has_flag (parse_classes v defaults) f = existsb (names_flag f) (class_words v defaults).
Proof. exact parse_classes_spec. Qed.

(** usage errors: no arguments, an unknown subcommand, an undefined flag, an unknown list — exit status 2 *)
Theorem C17_no_arguments : forall fs, cli_plan fs [] = AUsage.
Proof. exact plan_no_args. Qed.
Theorem C17_unknown_subcommand : forall fs a0 rest, flag_like a0 = false ->
  beqb a0 (bos "characters"%string) = false -> beqb a0 (bos "words"%string) = false -> cli_plan fs (a0 :: rest) = AUsage.
Proof. exact plan_unknown_subcommand. Qed.
Theorem C17_unknown_flag : forall fuel defs name0 rest env x more,
  name0 = x :: more -> N.eqb x 45 = false -> N.eqb x 61 = false ->
  assoc (fst (split_eq name0 [])) defs = None ->
  beqb (fst (split_eq name0 [])) (bos "help"%string) = false -> beqb (fst (split_eq name0 [])) (bos "h"%string) = false ->
  (parse_flags (S fuel) defs ((45%N :: 45%N :: name0) :: rest) env = PError) /\
  (parse_flags (S fuel) defs ((45%N :: name0) :: rest) env = PError).
Proof. exact parse_flags_unknown. Qed.
Theorem C17_unknown_list : forall fs env, get_str env (bos "file"%string) [] = [] ->
  beqb (get_str env (bos "list"%string) default_list) (bos "words"%string) = false ->
  beqb (get_str env (bos "list"%string) default_list) (bos "syllables"%string) = false -> plan_words fs env = AUsage.
Proof. exact plan_words_unknown_list. Qed.

(** ---- what is printed ---- *)
(** usage and flag errors exit 2, fatal errors exit 1, help exits 0; none prints a password or an entropy *)
Theorem C17_no_password_on_error : forall title aw asyl a out, reach (cli_exec title aw asyl a) out ->
  match a with AUsage | AFlagError | AOutside => coExit out = 2%N /\ coPassword out = None /\ coEntropy out = None
             | AHelp => coExit out = 0%N /\ coPassword out = None /\ coEntropy out = None
             | AFatal => coExit out = 1%N /\ coPassword out = None /\ coEntropy out = None
             | _ => True end.
Proof. exact exec_no_password. Qed.
(** characters: exit 0 and exactly one password, which satisfies the planned recipe — or the library refuses: exit 1 and nothing *)
Theorem C17_characters_faithful : forall title aw asyl r out, reach (cli_exec title aw asyl (AChar r false)) out ->
  (coExit out = 0%N /\ coEntropy out = None /\ exists cand, coPassword out = Some (map (fun g => Tok g AtomType) cand) /\ Satisfies r cand) \/
  (coExit out = 1%N /\ coPassword out = None /\ coEntropy out = None).
Proof. exact exec_chars. Qed.
Theorem C17_characters_entropy : forall title aw asyl r out, reach (cli_exec title aw asyl (AChar r true)) out ->
  coExit out = 0%N /\ coPassword out = None /\ coEntropy out = Some (Datatypes.inl (char_entropy r)).
Proof. exact exec_chars_entropy. Qed.
(** words: exit 0 and exactly one password the planned wordlist recipe can generate (C05 says what those are), or exit 1 and nothing *)
Theorem C17_words_faithful : forall title aw asyl p out, reach (cli_exec title aw asyl (AWords p false)) out ->
  (coExit out = 0%N /\ coEntropy out = None /\ exists wl ts e, word_list_of title aw asyl (wpSource p) = Done (Some wl) /\
     coPassword out = Some ts /\ reach (wl_generate title default_budget (mkWLR (Some wl) (wpSize p) (wpSep p) (wpCap p))) (Done (ts, e))) \/
  (coExit out = 1%N /\ coPassword out = None /\ coEntropy out = None).
Proof. exact exec_words. Qed.
Theorem C17_words_entropy : forall title aw asyl p out, reach (cli_exec title aw asyl (AWords p true)) out ->
  (coExit out = 0%N /\ coPassword out = None /\ exists wl e, word_list_of title aw asyl (wpSource p) = Done (Some wl) /\
     coEntropy out = Some (Datatypes.inr e) /\ reach (wl_entropy_gen default_budget (mkWLR (Some wl) (wpSize p) (wpSep p) (wpCap p)) wl) e) \/
  (coExit out = 1%N /\ coPassword out = None /\ coEntropy out = None).
Proof. exact exec_words_entropy. Qed.

Example C17_example_plan :
  cli_plan (fun _ => None) (map bos ["characters"; "--length=12"; "-allow"; "digits, lowercase"; "--exclude="; "--entropy"]%string)
  = AChar (mkCR 12 (N.lor Digits Lowers) 0 Ambiguous [] [] []) true.
Proof. vm_compute. reflexivity. Qed.

Print Assumptions C17_class_words.
Print Assumptions C17_separator_words.
Print Assumptions C17_capitalize_words.
Print Assumptions C17_flags_and_defaults.
Print Assumptions C17_model_defaults.
Print Assumptions C17_exit_statuses.
Print Assumptions C17_recipe_construction.
Print Assumptions C17_default_plans.
Print Assumptions C17_class_lists.
Print Assumptions C17_no_arguments.
Print Assumptions C17_unknown_subcommand.
Print Assumptions C17_unknown_flag.
Print Assumptions C17_unknown_list.
Print Assumptions C17_no_password_on_error.
Print Assumptions C17_characters_faithful.
Print Assumptions C17_characters_entropy.
Print Assumptions C17_words_faithful.
Print Assumptions C17_words_entropy.
