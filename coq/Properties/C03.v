(** C03 — Every character password satisfies its recipe; exclusion always wins;
    Alphabet() is exactly the sorted duplicate-free set of characters drawn from. *)
From Spg.Base Require Import Prelude Utf8 Bytes.
From Spg.Model Require Import Tables Rand GenM CharSets CharGen.
From Spg.Proofs Require Import SetProofs GenProofs CharGenProofs.
From Coq Require Import String.

(** On every stream of raw random words, for every recipe and every budget: a
    returned password has exactly Length single-character tokens (the model
    returns the list of characters; each becomes one atom token), every one
    allowed-or-required and not excluded, and at least one from every required
    family that still has a non-excluded member ([Satisfies], CharSets.v). *)
Theorem C03_password_satisfies_recipe : forall b r ws cand rest,
  run_words (char_generate b r) ws = RDone (Done cand) rest ->
  Satisfies r cand /\ Forall (fun g => In g (alphabet r)) cand.
Proof. exact char_generate_sound. Qed.

(** The alphabet is exactly the allowed characters: mentioned by Allow/Require
    (flag or custom string) and not excluded (flag or custom string). *)
Theorem C03_alphabet_exact : forall r g, In g (alphabet r) <-> Allowed r g.
Proof. exact alphabet_In. Qed.

(** Exclusion always wins. *)
Theorem C03_exclusion_wins : forall r g, Excluded r g -> ~ In g (alphabet r).
Proof. exact alphabet_excludes. Qed.

(** Alphabet() is sorted (bytewise, as sort.Strings) and has no repeats; it is
    the only such list of the allowed characters. *)
Theorem C03_alphabet_sorted : forall r, sorted (alphabet r).
Proof. exact alphabet_sorted. Qed.
Theorem C03_alphabet_nodup : forall r, NoDup (alphabet r).
Proof. exact alphabet_NoDup. Qed.
Theorem C03_alphabet_canonical : forall r l,
  sorted l -> NoDup l -> (forall g, In g l <-> Allowed r g) -> l = alphabet r.
Proof. exact alphabet_canonical. Qed.

(** Every listed character is actually drawn from: it occurs in some candidate. *)
Theorem C03_alphabet_drawn : forall r g, (1 <= crLength r)%Z -> In g (alphabet r) ->
  exists cand, reach (attempt (alphabet r) (len_nat r)) cand /\ In g cand.
Proof. exact alphabet_drawn. Qed.

(** The filter enforces exactly the live required families. *)
Theorem C03_filter_is_requirement : forall r cand,
  require_filter (required_sets r) cand = true <->
  forall F, In F (req_families r) -> Live r F -> exists g, In g cand /\ In g F /\ ~ Excluded r g.
Proof. exact filter_iff_families. Qed.

(** Non-vacuity: a concrete recipe with overlapping allow/require/exclude and a
    multi-byte character, and a password it returns on a concrete tape. *)
Example C03_example :
  let r := mkCR 8 Lowers Digits Ambiguous [195;169]%N [[97;98;99]%N] [97]%N in
  alphabet_string r = (bos "2346789bcdefghijkmnopqrstuvwxyz"%string ++ [195;169])%N /\
  run_words (char_generate default_budget r) [0; 8; 31; 31; 31; 31; 31; 7]%N
  = RDone (Done [[50]; [99]; [195;169]; [195;169]; [195;169]; [195;169]; [195;169]; [98]]%N) [].
Proof. vm_compute. split; reflexivity. Qed.

Print Assumptions C03_password_satisfies_recipe.
Print Assumptions C03_alphabet_exact.
Print Assumptions C03_exclusion_wins.
Print Assumptions C03_alphabet_sorted.
Print Assumptions C03_alphabet_nodup.
Print Assumptions C03_alphabet_canonical.
Print Assumptions C03_alphabet_drawn.
Print Assumptions C03_filter_is_requirement.
