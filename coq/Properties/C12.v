(** C12 — Tokenize is total: malformed indices give an error, never a panic or fake text. *)
From Spg.Base Require Import Prelude Utf8 Bytes.
From Spg.Model Require Import Tables Token Orig.
From Spg.Proofs Require Import TokenProofs.
Close Scope N_scope.

(** For every byte string offered as password and every byte string offered as
    index (invalid UTF-8 included): no panic.  The model carries Go's bounds
    checks explicitly, so this is a theorem that can be false (see below). *)
Theorem C12_never_panics : forall pw ti p, tokenize pw ti <> Panic p.
Proof. exact tokenize_never_panics. Qed.

(** When tokens are returned they are consecutive slices from the start of the
    string: their concatenation is a prefix of it. *)
Theorem C12_prefix : forall pw ti ts, tokenize pw ti = Done ts -> exists tail, pw = pw_string ts ++ tail.
Proof. exact tokenize_prefix. Qed.

(** ... with exactly the character counts (and types) the index specifies, per kind. *)
Theorem C12_character_kind : forall pw rest,
  tokenize pw (CharacterIndexKind :: rest) = Done (map (fun c => Tok c AtomType) (explode pw)).
Proof. exact tokenize_char_spec. Qed.
Theorem C12_length_kinds : forall pw k rest ts,
  (k = VarAtomsIndexKind \/ k = AlternatingIndexKind) -> tokenize pw (k :: rest) = Done ts ->
  exists gs tail, explode pw = concat gs ++ tail /\ map value ts = map join gs /\
                  map (@length bytes) gs = map N.to_nat rest /\
                  (forall j t, nth_error ts j = Some t -> ttype t = type_at (N.eqb k AlternatingIndexKind) j).
Proof. exact tokenize_lens_spec. Qed.
Theorem C12_full_kind : forall pw rest ts,
  tokenize pw (FullIndexKind :: rest) = Done ts ->
  Nat.even (length rest) = true /\
  exists gs tail, explode pw = concat gs ++ tail /\ map value ts = map join gs /\
                  map (@length bytes) gs = pair_lens rest /\ map ttype ts = pair_types rest.
Proof. exact tokenize_full_spec. Qed.

(** Malformed indices are reported as errors. *)
Theorem C12_empty_index : forall pw, tokenize pw [] = Err EEmptyIndex.
Proof. exact tokenize_empty_index. Qed.
Theorem C12_unknown_kind : forall pw k rest, (3 < k)%N -> tokenize pw (k :: rest) = Err EUnknownKind.
Proof. exact tokenize_unknown_kind. Qed.
Theorem C12_truncated_full : forall pw rest, Nat.odd (length rest) = true ->
  tokenize pw (FullIndexKind :: rest) = Err EBadFull.
Proof. exact tokenize_truncated_full. Qed.
Theorem C12_lengths_exceed : forall pw k rest,
  (k = VarAtomsIndexKind \/ k = AlternatingIndexKind) -> glyphs pw < sum_lens rest ->
  tokenize pw (k :: rest) = Err ETooShort.
Proof. exact tokenize_lengths_exceed. Qed.
Theorem C12_full_lengths_exceed : forall pw rest, Nat.even (length rest) = true ->
  glyphs pw < fold_right Nat.add 0 (pair_lens rest) -> tokenize pw (FullIndexKind :: rest) = Err ETooShort.
Proof. exact tokenize_full_lengths_exceed. Qed.

(** The pinned code did panic: Tokenize("abc", Indices{3, 1}, 1)  (known finding F4). *)
Theorem C12_pinned_refuted : tokenize_orig [97;98;99]%N [3;1]%N = Panic PIndex.
Proof. exact tokenize_orig_refuted. Qed.

Example C12_example :
  tokenize [97;195;169;255;98]%N [3; 2;1; 0;7; 1;0]%N
  = Done [Tok [97;195;169]%N 1%N; Tok [] 7%N; Tok [255]%N 0%N].
Proof. vm_compute. reflexivity. Qed.

Print Assumptions C12_never_panics.
Print Assumptions C12_prefix.
Print Assumptions C12_character_kind.
Print Assumptions C12_length_kinds.
Print Assumptions C12_full_kind.
Print Assumptions C12_empty_index.
Print Assumptions C12_unknown_kind.
Print Assumptions C12_truncated_full.
Print Assumptions C12_lengths_exceed.
Print Assumptions C12_full_lengths_exceed.
Print Assumptions C12_pinned_refuted.
