(** C15 — Calls are pure: results reflect the recipe's current fields, not call history. *)
From Spg.Base Require Import Prelude Utf8 Bytes.
From Spg.Model Require Import Tables Rand GenM CharSets CharGen Token WordList WordGen Api.
From Spg.Proofs Require Import ApiProofs.
Close Scope N_scope.

(** The state machine of Model/Api.v: objects are recipes (character recipes
    WITH their two unexported cache fields); operations are caller-side
    assignments of public fields and calls of Generate / Entropy / Alphabet /
    SuccessProbability, each with its own scripted random source.  The methods
    are modelled as the code is written: they rebuild the cache on their private
    copy and then READ it. *)

(** A call never modifies the state: no public field, word list or separator. *)
Theorem C15_calls_preserve_state : forall title b s o,
  match o with SetChar _ _ | SetWL _ _ => True | _ => fst (step title b s o) = s end.
Proof. exact calls_preserve_state. Qed.

(** History independence, for every sequence of operations over any number of
    recipes and any initial contents of the cache fields: the result of every
    call equals the result of that call on the CURRENT public fields — those
    produced by the field assignments preceding it — and on nothing else. *)
Theorem C15_history_independence : forall title b ops s s',
  pub_state s = pub_state s' -> run_ops title b s ops = run_pure title b s' ops.
Proof. intros title b ops s s'. exact (history_independence title b ops s s'). Qed.

(** Hence a changed field is honoured by the next call, and the same call with
    the same random bytes gives the same result after any two histories that
    leave the same public fields. *)
Theorem C15_replay_invariance : forall title b ops1 ops2 s o,
  pub_state (fold_left (apply_set title b) ops1 s) = pub_state (fold_left (apply_set title b) ops2 s) ->
  call title b (fold_left (apply_set title b) ops1 s) o = call title b (fold_left (apply_set title b) ops2 s) o.
Proof. exact replay_invariance. Qed.

(** The methods are functions of the public fields although they read the cache
    fields, and stale cache contents (tests leave them behind) are irrelevant. *)
Theorem C15_methods_pure : forall b c,
  m_generate b c = char_generate b (coPub c) /\ m_entropy c = char_entropy (coPub c) /\
  m_alphabet c = alphabet_string (coPub c).
Proof. intros b c. split; [apply m_generate_pure|split; reflexivity]. Qed.
Theorem C15_cache_irrelevant : forall b r k1 k2,
  m_generate b (mkCO r k1) = m_generate b (mkCO r k2) /\
  m_entropy (mkCO r k1) = m_entropy (mkCO r k2) /\
  m_alphabet (mkCO r k1) = m_alphabet (mkCO r k2).
Proof. exact cache_irrelevant. Qed.

(** (That the code's methods really run on private copies — value receivers, no
    store through shared memory — is read from the source by the translator:
    see Properties/C14.v, api_footprints_clean and receivers_by_value.) *)

Example C15_example :
  let r1 := mkCR 2 0 0 0 [97;98]%N [] [] in
  let r2 := mkCR 1 0 0 0 [99]%N [] [] in
  let tape := [Chunk [0;0;0;1; 0;0;0;0]%N false] in
  run_ops title_ascii default_budget [OChar (mkCO r1 (Some (mkCache [[122]%N] [])))]
          [Generate 0 tape; SetChar 0 r2; Generate 0 tape; Alphabet 0]
  = [RChar (Done [[98]; [97]]%N) 8 (EntSimple 2 2); RNone; RChar (Done [[99]]%N) 4 (EntSimple 1 1); RAlphabet [99]%N].
Proof. vm_compute. reflexivity. Qed.

Print Assumptions C15_calls_preserve_state.
Print Assumptions C15_history_independence.
Print Assumptions C15_replay_invariance.
Print Assumptions C15_methods_pure.
Print Assumptions C15_cache_irrelevant.
