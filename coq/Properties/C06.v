(** C06 — Reported entropy never overstates: no password is likelier than 2^-Entropy. *)
From Spg.Base Require Import Prelude Utf8 Bytes.
From Spg.Model Require Import Tables Rand GenM CharSets CharGen Token WordList WordGen.
From Spg.Proofs Require Import RandProofs SetProofs CountProofs GenProofs CharGenProofs WordGenProofs ProdProofs WordProdProofs
  WordDecodeProofs WordEntropyProofs WordFinalProofs.
From Coq Require Import QArith.
Close Scope N_scope. Close Scope Q_scope. Open Scope nat_scope.

(** Entropies are represented by the exact integer H whose log2 is reported
    ([entropy_count], [wl_entropy_count]; C07 and C08 say what it is), so
    "at most 2^-Entropy" is "at most 1/H". *)

(** ---- character recipes ---- *)
(** the integer behind Entropy() is the exact count, on both code paths *)
Theorem C06_char_entropy_is_count : forall r, (0 <= crLength r)%Z -> entropy_count (char_entropy r) = recipe_count r.
Proof. exact char_entropy_count. Qed.

(** no string is returned with probability above 1/count ... *)
Theorem C06_char_bound : forall b r cand,
  (1 <= crLength r)%Z -> alphabet r <> [] -> small_alphabet r -> accepted b r = true -> (0 < recipe_count r)%Z ->
  (prob (char_generate b r) (is_pw cand) <= 1 / inject_Z (recipe_count r))%Q.
Proof. exact char_entropy_bound. Qed.

(** ... and every satisfying string is returned with the same probability q with
    q * count = 1 - f^T: the bound is met up to the (<= 1e-9 under the default
    budget) mass of "all permitted attempts failed" *)
Theorem C06_char_tight : forall b r, alphabet r <> [] -> small_alphabet r ->
  (q_of b r * inject_Z (recipe_count r) == 1 - Qpow (f_of r) (Z.to_nat (bTrials b)))%Q.
Proof. exact char_entropy_tight. Qed.

(** ---- wordlist recipes ---- *)
(** For every scheme, every list of good words — including lists with words that
    do not change under title-casing, for which the capitalisation bonus is not
    granted and the bound is the min-entropy one — every length and every
    separator function that never returns a value likelier than 1/M and reports
    the entropy log2 M: no (token sequence, entropy) result is likelier than
    1 / (the integer whose log2 Entropy() reports). *)
Theorem C06_wordlist_bound : forall title b wl L s c M e0 ts e,
  good_words title (wlWords wl) -> size_ok (wlWords wl) -> (1 <= L)%Z -> (Z.to_N L < W32)%N ->
  sep_ok b s M e0 -> sep_count e0 = Z.of_N M ->
  (wlUncap wl = 0 -> all_cap title (wlWords wl)) ->
  (pm out_dec (wl_generate title b (mkWLR (Some wl) L s c)) (Done (ts, e)) <=
   / inject_Z (wl_entropy_count (ent_of wl L c (match s with SepChar _ => None | _ => e0 end))))%Q.
Proof. exact wl_entropy_bound. Qed.

(** the Entropy carried by every password returned is that one value (any other has probability 0) ... *)
Theorem C06_wordlist_entropy_field : forall title b wl L s c M e0 ts e,
  size_ok (wlWords wl) -> (1 <= L)%Z -> sep_ok b s M e0 ->
  e <> ent_of wl L c (match s with SepChar _ => None | _ => e0 end) ->
  (pm out_dec (wl_generate title b (mkWLR (Some wl) L s c)) (Done (ts, e)) == 0)%Q.
Proof. exact wl_generate_entropy_det. Qed.
(** ... and it is what Entropy() reports: the same generator term computes both *)
Theorem C06_wordlist_entropy_is_recipe_entropy : forall b wl L s c M e0 e, sep_ok b s M e0 ->
  reach (wl_entropy_gen b (mkWLR (Some wl) L s c) wl) e ->
  e = ent_of wl L c (match s with SepChar _ => None | _ => e0 end).
Proof. exact reach_entropy_det. Qed.

(** where generation is uniform the bound is met with equality: every possible
    password has probability exactly (scheme factor) * (1/size)^L * (1/M)^(L-1) *)
Theorem C06_wordlist_tight : forall title b wl L s c M e0 x,
  good_words title (wlWords wl) -> caps_readable title c (wlWords wl) -> size_ok (wlWords wl) ->
  (1 <= L)%Z -> (Z.to_N L < W32)%N -> sep_ok b s M e0 -> sep_uniform b s M ->
  reach (full_choices b (wlWords wl) s c (Z.to_nat L)) x ->
  (pm out_dec (wl_generate title b (mkWLR (Some wl) L s c))
      (Done (render_full title (wlWords wl) x, ent_of wl L c (match s with SepChar _ => None | _ => e0 end))) ==
   caps_bound c (Z.to_nat L) * base_bound (wlWords wl) M (Z.to_nat L))%Q.
Proof. exact wl_uniform. Qed.
Theorem C06_bound_as_integer : forall ws M L, size_ok ws -> (1 <= M)%N ->
  (base_bound ws M L == / inject_Z (Z.of_nat (length ws) ^ Z.of_nat L * Z.of_N M ^ Z.of_nat (pred L)))%Q.
Proof. exact base_bound_Z. Qed.

(** the separators that satisfy the premises: constants, and every character
    recipe with nothing (left) to require — all presets, everything opgen builds *)
Theorem C06_sep_recipe : forall b r, infallible b r ->
  sep_ok b (SepRecipe r) (Z.to_N (recipe_count r)) (Some (char_entropy r)) /\
  sep_count (Some (char_entropy r)) = recipe_count r.
Proof. intros b r H. split; [exact (sep_ok_recipe (fun w => w) b r H)|exact (infallible_sep_count (fun w => w) b r H)]. Qed.

(** the premises about the words follow from NewWordList under the property's
    title-casing premise, for lists without an empty entry (known finding F7) *)
Theorem C06_premises_from_NewWordList : forall (title : bytes -> bytes), (forall w, title (title w) = title w) ->
  forall emit l wl d, title_premise title l -> no_empty title l ->
  new_word_list title emit l = (Done (Some wl), d) ->
  good_words title (wlWords wl) /\ (wlUncap wl = 0 -> all_cap title (wlWords wl)).
Proof. exact kept_words_good. Qed.

Print Assumptions C06_char_entropy_is_count.
Print Assumptions C06_char_bound.
Print Assumptions C06_char_tight.
Print Assumptions C06_wordlist_bound.
Print Assumptions C06_wordlist_entropy_field.
Print Assumptions C06_wordlist_entropy_is_recipe_entropy.
Print Assumptions C06_wordlist_tight.
Print Assumptions C06_bound_as_integer.
Print Assumptions C06_sep_recipe.
Print Assumptions C06_premises_from_NewWordList.
