(** C09 — All randomness comes from the OS CSPRNG; generation fails closed when it fails. *)
From Spg.Base Require Import Prelude.
From Spg.Model Require Import Rand GenM.
From Spg.Proofs Require Import SourceProofs.
Close Scope N_scope.

(** Every generator of the model is a term of [gen]: its only effect is
    [Pick n] = one bounded draw, interpreted by [run_src] on the scripted
    crypto/rand.Reader.  So by construction a result is a function of (recipe,
    source bytes); the theorems say how the source's behaviour enters. *)

(** However the source chunks its reads, a fault-free source that delivers the
    same bytes yields the same raw words, hence the same choices, outcome and
    byte count — for every generator. *)
Theorem C09_words_from_bytes : forall src pending, fault_free src -> length pending < 4 ->
  parse pending src = (fst (words_of (pending ++ bytes_of src)), length (snd (words_of (pending ++ bytes_of src)))).
Proof. exact parse_fault_free. Qed.
Theorem C09_chunking_invariant : forall (A : Type) (g : gen (outcome A)) src1 src2,
  fault_free src1 -> fault_free src2 -> bytes_of src1 = bytes_of src2 -> run_src g src1 = run_src g src2.
Proof. exact @run_src_chunk_invariant. Qed.

(** A read that fails before its four bytes are complete (0..3 bytes delivered)
    ends the stream of raw words: the bytes of that read and everything after it
    are never used. *)
Theorem C09_fault_ends_stream : forall pre pending bs rest, fault_free pre -> length pending < 4 ->
  let all := pending ++ bytes_of pre ++ bs in
  (snd (words_of all) <> [] \/ (bs = [] /\ snd (words_of (pending ++ bytes_of pre)) = [])) ->
  parse pending (pre ++ Chunk bs true :: rest) = (fst (words_of all), length (snd (words_of all))).
Proof. exact parse_fault. Qed.

(** (As io.ReadFull does, an error arriving with the byte that completes the
    word is not an error.) *)
Theorem C09_error_with_full_read_dropped : forall pending bs rest, length pending < 4 -> bs <> [] ->
  snd (words_of (pending ++ bs)) = [] ->
  parse pending (Chunk bs true :: rest) = parse pending (Chunk bs false :: rest).
Proof. exact parse_fault_dropped. Qed.

(** Fail closed: when the words run out (the next read fails) the outcome is the
    PRNG panic — never a password; and a password is only ever produced by a run
    over complete words that precede the first failing read. *)
Theorem C09_fail_closed : forall (A : Type) (g : gen (outcome A)) src,
  run_words g (fst (words_of_source src)) = RStarved -> fst (run_src g src) = Panic PPrng.
Proof. exact @starved_is_panic. Qed.
Theorem C09_password_only_from_complete_words : forall (A : Type) (g : gen (outcome A)) src a n,
  run_src g src = (Done a, n) ->
  exists rest, run_words g (fst (words_of_source src)) = RDone (Done a) rest.
Proof. exact @done_uses_only_words. Qed.

Example C09_example :
  (* bytes 00 00 00 | fault: three bytes delivered, then an error: no word; the tail is never read *)
  words_of_source [Chunk [0;0;0]%N true; Chunk [7;0;0;0;9]%N false] = ([], 3) /\
  (* the same bytes in 1-byte reads and in one read give the same words *)
  words_of_source [Chunk [1]%N false; Chunk [2]%N false; Chunk [3]%N false; Chunk [4;5]%N false]
  = words_of_source [Chunk [1;2;3;4;5]%N false].
Proof. vm_compute. split; reflexivity. Qed.

(** ---- tie to the CURRENT source (coq/Gen, regenerated on every run) ---- *)
From Spg.Gen Require Source Effects.
From Coq Require Import String.
Open Scope string_scope.
(** packages that carry no randomness, clock, process or runtime state *)
Definition pure_allow : list string :=
  ["encoding/binary"; "fmt"; "math"; "math/big"; "strings"; "sort"; "log"; "errors"; "unicode"; "unicode/utf8"; "strconv"; "bytes";
   "math/bits"; "github.com/deckarep/golang-set"].
Definition in_library (file : string) : bool := negb (String.prefix "cmd/" file).
(** the library imports crypto/rand and otherwise only pure packages: no math/rand, time, os, runtime, unsafe, sync/atomic, ... *)
Theorem C09_only_crypto_rand_is_imported :
  forallb (fun f => negb (in_library (fst f)) ||
             forallb (fun i => String.eqb i "crypto/rand" || existsb (String.eqb i) pure_allow) (snd f)) Source.src_imports = true /\
  map fst (filter (fun f => in_library (fst f) && existsb (String.eqb "crypto/rand") (snd f)) Source.src_imports) = ["util.go"].
Proof. vm_compute. split; reflexivity. Qed.
(** crypto/rand is read in exactly one function, through rand.Read (io.ReadFull semantics), and that function is called by the
    bounded draw randomUint32n only (however many call sites it has there): every draw goes through it *)
Theorem C09_single_entry_point :
  map (fun c => (Effects.c_func c, Effects.c_callee c))
      (filter (fun c => String.prefix "ext:crypto/rand" (Effects.c_callee c) || String.prefix "ext:math/rand" (Effects.c_callee c) ||
                        String.prefix "ext:time." (Effects.c_callee c) || String.prefix "ext:os." (Effects.c_callee c)) Effects.eff_calls)
  = [("randomUint32", "ext:crypto/rand.Read")] /\
  (let callers := map Effects.c_func (filter (fun c => String.eqb (Effects.c_callee c) "randomUint32") Effects.eff_calls) in
   forallb (String.eqb "randomUint32n") callers = true /\ callers <> []).
Proof. vm_compute. split; [reflexivity|split; [reflexivity|discriminate]]. Qed.
(** the buffer the bytes are read into is memory of that one activation (never a buffer another draw or goroutine can see),
    and the functions between the source and the generators write nothing else *)
Theorem C09_private_buffer :
  map Effects.c_args (filter (fun c => String.eqb (Effects.c_callee c) "ext:crypto/rand.Read") Effects.eff_calls) = [[(1%nat, "fresh")]] /\
  forallb (fun s => negb (String.eqb (Effects.s_func s) "randomUint32" || String.eqb (Effects.s_func s) "randomUint32n") ||
                    String.eqb (Effects.s_class s) "fresh") Effects.eff_stores = true.
Proof. vm_compute. split; reflexivity. Qed.
Close Scope string_scope.

Print Assumptions C09_words_from_bytes.
Print Assumptions C09_chunking_invariant.
Print Assumptions C09_fault_ends_stream.
Print Assumptions C09_error_with_full_read_dropped.
Print Assumptions C09_fail_closed.
Print Assumptions C09_password_only_from_complete_words.
Print Assumptions C09_only_crypto_rand_is_imported.
Print Assumptions C09_single_entry_point.
Print Assumptions C09_private_buffer.
