(** C14 — Recipes, word lists and separator functions are safe to share across goroutines.
    PARTIAL (see DESIGN.md §6 C14): the Go memory model, the scheduler and the
    race detector live in the runtime; what is proved here is (1) for threads
    that perform no shared write, EVERY interleaving leaves the shared state
    unchanged, is race free and gives every call its run-alone result, and
    (2) by computation over the facts the translator extracts from the CURRENT
    source, no API entry point performs a shared write.  That the compiled code's
    accesses are within the extracted footprints is trusted to the translator
    and sampled by the race detector on every run. *)
From Spg.Base Require Import Prelude Utf8 Bytes.
From Spg.Model Require Import Tables Rand GenM CharSets CharGen Token WordList WordGen Api Sched.
From Spg.Proofs Require Import SchedProofs.
From Spg.Gen Require Effects Source.
From Coq Require Import String.
Close Scope N_scope.

(** ---- (1) all interleavings ---- *)
Theorem C14_write_free_threads : forall (loc val res : Type) (loc_eqb : loc -> loc -> bool) sched h ts,
  Forall (wfree loc val res) ts ->
  fst (run loc val res loc_eqb sched (h, ts)) = h /\
  Forall (wfree loc val res) (snd (run loc val res loc_eqb sched (h, ts))) /\
  map (run_alone loc val res loc_eqb h) (snd (run loc val res loc_eqb sched (h, ts))) = map (run_alone loc val res loc_eqb h) ts.
Proof. intros loc val res loc_eqb sched h ts. exact (concurrent_equals_sequential loc val res loc_eqb sched h ts). Qed.

Theorem C14_no_race : forall (loc val res : Type) (loc_eqb : loc -> loc -> bool) sched h ts,
  Forall (wfree loc val res) ts -> ~ race loc val res loc_eqb (snd (run loc val res loc_eqb sched (h, ts))).
Proof. intros loc val res loc_eqb sched h ts. exact (no_shared_writes_no_race loc val res loc_eqb sched h ts). Qed.

(** the API: any number of goroutines, each any sequence of Generate / Entropy /
    Alphabet / SuccessProbability calls on shared recipes, word lists and
    separator functions, under any interleaving *)
Theorem C14_api_concurrent : forall title b sched (s : state) (threads : list (list op)),
  let c := run nat (option obj) (list result) Nat.eqb sched (heap_of s, map (fun ops => thread_prog title b ops []) threads) in
  fst c = heap_of s /\
  ~ race nat (option obj) (list result) Nat.eqb (snd c) /\
  forall i rs, nth_error (snd c) i = Some (Return rs) ->
               exists ops, nth_error threads i = Some ops /\ rs = map (call title b s) ops.
Proof. exact api_concurrent. Qed.

(** every password returned under concurrency satisfies its recipe and carries the recipe's entropy *)
Theorem C14_concurrent_password_sound : forall title b s h c src cand n e,
  nth_error s h = Some (OChar c) ->
  call title b s (Generate h src) = RChar (Done cand) n e ->
  Satisfies (coPub c) cand /\ e = char_entropy (coPub c).
Proof. exact concurrent_char_password_sound. Qed.

(** ---- (2) the footprints of the current source ---- *)
Open Scope string_scope.
Definition funcs := map (fun f => (Effects.f_name f, Effects.f_exported f, Effects.f_recv f, Effects.f_params f)) Effects.eff_funcs.
Definition stores := map (fun s => (Effects.s_func s, Effects.s_line s, Effects.s_target s, Effects.s_class s)) Effects.eff_stores.
Definition calls := map (fun c => (Effects.c_func c, Effects.c_callee c, Effects.c_args c)) Effects.eff_calls.
Definition clean_fn (f : string) (priv : list nat) : bool := clean funcs stores calls Effects.eff_param_stores_direct 3000 f priv.

(** the entry points: every exported function and method (a receiver shared by
    goroutines is never private, whatever its kind), the closures behind
    SFFunction values, and package initialisation *)
Definition entry_points : list string :=
  map (fun f => fst (fst (fst f))) (filter (fun f => snd (fst (fst f))) funcs) ++
  map (fun c => fst (fst c)) Effects.eff_closures ++ ["<init>"; "sfWrap"].

Theorem C14_api_footprints_clean :
  explore funcs stores calls Effects.eff_param_stores_direct 3000 (map (fun f => (f, [])) entry_points) [] = true.
Proof. vm_compute. reflexivity. Qed.

(** ... which, by the soundness of that closure computation, means: EVERY (function, private pointer parameters) pair
    reachable from an entry point through the call edges — with the private-parameter sets the call sites determine —
    performs only private stores *)
Theorem C14_every_reachable_store_is_private : forall it,
  reaches funcs calls (map (fun f => (f, @nil nat)) entry_points) it ->
  stores_ok funcs stores Effects.eff_param_stores_direct (fst it) (snd it) = true.
Proof. exact (explore_covers funcs stores calls Effects.eff_param_stores_direct 3000 _ C14_api_footprints_clean). Qed.

(** no closure assigns a captured variable; no goroutine is started; no
    package-level variable is assigned after its declaration *)
Theorem C14_no_shared_state :
  forallb (fun c => forallb (fun v => negb (snd v)) (snd c)) Effects.eff_closures = true /\
  Effects.eff_go_stmts = [] /\
  forallb (fun g => negb (snd g)) Effects.eff_globals = true.
Proof. vm_compute. repeat split; reflexivity. Qed.

(** the methods the property names have VALUE receivers (each call works on a private copy) *)
Theorem C14_receivers_by_value :
  forallb (fun m => existsb (fun x => let '(ty, name, ptr, exported) := x in
                                      String.eqb ty (fst m) && String.eqb name (snd m) && negb ptr) Source.src_methods)
          [("CharRecipe", "Generate"); ("CharRecipe", "Entropy"); ("CharRecipe", "Alphabet"); ("CharRecipe", "SuccessProbability");
           ("WLRecipe", "Generate"); ("WLRecipe", "Entropy"); ("WLRecipe", "Size"); ("WordList", "Size")] = true.
Proof. vm_compute. reflexivity. Qed.

(** the analysis is not vacuous: the one function that writes through its
    receiver is NOT clean when its receiver cell is shared, and is clean when the
    caller hands it the address of a private copy (which every caller does) *)
Example C14_build_needs_private_receiver :
  clean_fn "CharRecipe.buildCharacterList" [] = false /\ clean_fn "CharRecipe.buildCharacterList" [0] = true.
Proof. vm_compute. split; reflexivity. Qed.

Print Assumptions C14_write_free_threads.
Print Assumptions C14_no_race.
Print Assumptions C14_api_concurrent.
Print Assumptions C14_concurrent_password_sound.
Print Assumptions C14_api_footprints_clean.
Print Assumptions C14_no_shared_state.
Print Assumptions C14_receivers_by_value.
Print Assumptions C14_every_reachable_store_is_private.
