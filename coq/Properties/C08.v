(** C08 — Wordlist-recipe entropy is exact and depends on the recipe alone. *)
From Spg.Base Require Import Prelude Utf8 Bytes.
From Spg.Model Require Import Tables Rand GenM CharSets CharGen Token WordList WordGen.
From Spg.Proofs Require Import GenProofs WordListProofs WordGenProofs.
Close Scope N_scope.

(** What Entropy() reports (every value the call can return): Length*log2(size),
    plus the capitalisation bonus [bonus_of], plus (Length-1) times the separator
    function's entropy. *)
Theorem C08_components : forall b r wl e, reach (wl_entropy_gen b r wl) e ->
  weLength e = wrLength r /\ weSize e = N.of_nat (length (wlWords wl)) /\ weBonus e = bonus_of wl (wrCap r) /\
  match wrSep r with
  | SepChar _ | SepConst _ => weSep e = None
  | SepRecipe sr => weSep e = Some (char_entropy sr) \/ weSep e = None
  end.
Proof. exact reach_wl_entropy. Qed.

(** The bonus (Length bits for 'random', log2 Length for 'one') is granted when
    and only when every kept word changes under title-casing. *)
Theorem C08_bonus_iff : forall wl c,
  bonus_of wl c <> BonusNone <-> (wlUncap wl = 0 /\ (c = CapRandom \/ c = CapOne)).
Proof. exact bonus_iff_all_capitalisable. Qed.
Theorem C08_uncap_zero_iff : forall (title : bytes -> bytes) K,
  uncap_count title K = 0 <-> forall w, In w K -> title w <> w.
Proof. exact uncap_zero_iff. Qed.

(** The integer whose log2 that is: size^L * (2^L | L | 1) * sepcount^(L-1). *)
Theorem C08_count : forall e,
  wl_entropy_count e =
  (Z.of_N (weSize e) ^ weLength e * bonus_factor (weBonus e) (weLength e)
   * match weSep e with None => 1 | Some se => entropy_count se ^ (weLength e - 1) end)%Z.
Proof. reflexivity. Qed.

(** Dependence on the set of words only: two constructions from inputs with the
    same elements — any order, any repetition, any map iteration order, any run —
    give the same size and the same bonus for every scheme. *)
Theorem C08_input_invariant : forall (title : bytes -> bytes), (forall w, title (title w) = title w) ->
  forall e1 e2 l1 l2 wl1 wl2 d1 d2 c,
  (forall x, In x l1 <-> In x l2) ->
  new_word_list title e1 l1 = (Done (Some wl1), d1) ->
  new_word_list title e2 l2 = (Done (Some wl2), d2) ->
  length (wlWords wl1) = length (wlWords wl2) /\ bonus_of wl1 c = bonus_of wl2 c.
Proof. exact wl_entropy_input_invariant. Qed.

(** The known finding F2 (pinned code counted un-capitalisable words while
    deleting from the map it ranged over) is replayed by the wlentropy family;
    in the repaired algorithm the count is a function of the kept set: *)
Theorem C08_uncap_of_kept_set : forall (title : bytes -> bytes), (forall w, title (title w) = title w) ->
  forall s1 s2 l1 l2, (forall x, In x l1 <-> In x l2) ->
  (forall w, In w l1 -> In w s1) -> (forall w, In w l2 -> In w s2) ->
  length (kept_with title s1 l1) = length (kept_with title s2 l2) /\
  uncap_count title (kept_with title s1 l1) = uncap_count title (kept_with title s2 l2).
Proof. exact size_uncap_invariant. Qed.

Example C08_example :
  (* {polish, Polish, alpha, beta}: three words kept, all capitalisable *)
  fst (new_word_list title_ascii None [[112;111]; [80;111]; [97]; [98]]%N)
  = Done (Some (mkWL [[112;111]; [97]; [98]]%N 0)).
Proof. vm_compute. reflexivity. Qed.

Print Assumptions C08_components.
Print Assumptions C08_bonus_iff.
Print Assumptions C08_uncap_zero_iff.
Print Assumptions C08_count.
Print Assumptions C08_input_invariant.
Print Assumptions C08_uncap_of_kept_set.
