(** C16 — Built-in classes, defaults, separator presets, shipped lists are as documented.
    Everything here is finite: the theorems are computations over the data the
    translator reads from the CURRENT source (coq/Gen/Source.v, coq/Gen/Lists.v),
    compared with the documented values written out below and with the
    constants the model uses. *)
From Spg.Base Require Import Prelude Utf8 Bytes Multiset.
From Spg.Model Require Import Tables Rand GenM CharSets CharGen Token WordList WordGen.
From Spg.Proofs Require Import CountProofs GenProofs CharGenProofs ProdProofs WordProdProofs WordEntropyProofs WordFinalProofs BuiltinProofs.
From Spg.Gen Require Source Lists.
From Coq Require Import String Ascii QArith Permutation.
Close Scope N_scope. Close Scope Q_scope. Open Scope nat_scope.
Open Scope string_scope.

(** The declarations the translator reads (constants, the flag table, the scheme constants) are compared as sets with
    multiplicity: the order of a const block or of the entries of a map literal carries no meaning. *)
Definition str_eq x y (E : String.eqb x y = true) : x = y := proj1 (String.eqb_eq x y) E.
Definition n_eq x y (E : N.eqb x y = true) : x = y := proj1 (N.eqb_eq x y) E.
Definition bytes_eq := list_eqb_eq N.eqb n_eq.

(** ---- character classes ---- *)
Theorem C16_class_strings : Permutation Source.src_consts
  [("ctUpper", "ABCDEFGHIJKLMNOPQRSTUVWXYZ"); ("ctLower", "abcdefghijklmnopqrstuvwxyz"); ("ctDigits", "0123456789");
   ("ctAmbiguous", "0O1Il5S"); ("ctSymbols", "!@.-_*")].
Proof. apply (same_multiset_perm _ (pair_eqb_eq String.eqb String.eqb str_eq str_eq)). vm_compute. reflexivity. Qed.
Theorem C16_class_flags : Permutation Source.src_flags
  [("Uppers", 1%N); ("Lowers", 2%N); ("Digits", 4%N); ("Symbols", 8%N); ("Ambiguous", 16%N); ("None", 0%N);
   ("Letters", N.lor 1 2); ("All", N.lor (N.lor (N.lor 1 2) 4) 8)].
Proof. apply (same_multiset_perm _ (pair_eqb_eq String.eqb N.eqb str_eq n_eq)). vm_compute. reflexivity. Qed.
(** the flag -> characters table: exactly the five classes *)
Theorem C16_flag_table : Permutation Source.src_flag_table
  [(1%N, "ABCDEFGHIJKLMNOPQRSTUVWXYZ"); (2%N, "abcdefghijklmnopqrstuvwxyz"); (4%N, "0123456789"); (8%N, "!@.-_*"); (16%N, "0O1Il5S")].
Proof. apply (same_multiset_perm _ (pair_eqb_eq N.eqb String.eqb n_eq str_eq)). vm_compute. reflexivity. Qed.
(** the model uses these very constants *)
Theorem C16_model_classes :
  Permutation (map (fun p => (fst p, bos (snd p))) Source.src_flag_table) flag_table /\
  Permutation [Uppers; Lowers; Digits; Symbols; Ambiguous; FNone; Letters; FAll] (map snd Source.src_flags).
Proof.
  split; [apply (same_multiset_perm _ (pair_eqb_eq N.eqb (list_eqb N.eqb) n_eq bytes_eq))|apply (same_multiset_perm N.eqb n_eq)]; vm_compute; reflexivity.
Qed.

(** ---- constructor defaults and the retry budget ---- *)
Theorem C16_new_char_recipe : Source.src_new_char_recipe =
  [("Length", "param:length"); ("Allow", "const:15"); ("Exclude", "const:16")].
Proof. vm_compute. reflexivity. Qed.
Theorem C16_new_wl_recipe : Source.src_new_wl_recipe =
  [("Length", "param:length"); ("Capitalize", "const:none"); ("list", "param:wl")].
Proof. vm_compute. reflexivity. Qed.
Theorem C16_budget : Source.src_max_trials = 200%Z /\ Source.src_max_fail_rate = (1%Z, 1000000000%Z) /\
  default_budget = mkBudget Source.src_max_trials (fst Source.src_max_fail_rate) (snd Source.src_max_fail_rate).
Proof. vm_compute. repeat split; reflexivity. Qed.
Theorem C16_cap_schemes : Permutation Source.src_string_consts
  [("CapScheme", "CSNone", "none"); ("CapScheme", "CSFirst", "first"); ("CapScheme", "CSAll", "all");
   ("CapScheme", "CSRandom", "random"); ("CapScheme", "CSOne", "one")] /\
  forallb (fun p => match cap_of_string (bos (snd p)), snd (fst p) with
                    | CapNone, "CSNone" | CapFirst, "CSFirst" | CapAll, "CSAll" | CapRandom, "CSRandom" | CapOne, "CSOne" => true
                    | _, _ => false end) Source.src_string_consts = true.
Proof.
  split; [apply (same_multiset_perm _ (pair_eqb_eq _ String.eqb (pair_eqb_eq String.eqb String.eqb str_eq str_eq) str_eq))|]; vm_compute; reflexivity.
Qed.

(** ---- separator presets ---- *)
(** the seven presets as the source declares them are the model's presets *)
Theorem C16_presets_declared :
  map (fun p => (fst (fst p), preset_model p)) Source.src_presets =
  [("SFNone", Some SFNone); ("SFDigits1", Some SFDigits1); ("SFDigits2", Some SFDigits2);
   ("SFDigitsNoAmbiguous1", Some SFDigitsNoAmbiguous1); ("SFDigitsNoAmbiguous2", Some SFDigitsNoAmbiguous2);
   ("SFSymbols", Some SFSymbols); ("SFDigitsSymbols", Some SFDigitsSymbols)].
Proof. vm_compute. reflexivity. Qed.
(** NewSFFunction wraps sfWrap, which returns the generated string and the recipe's entropy *)
Theorem C16_sf_wrap : Source.src_new_sf_function = "closure-calls:sfWrap(r)" /\
  Source.src_sf_wrap = ["p, err := r.Generate()"; "if err != nil { return """", 0.0 }"; "return p.String(), FloatE(p.Entropy)"].
Proof. vm_compute. split; reflexivity. Qed.

Definition digits : list bytes := map (fun c => [c]) ctDigits.
Definition pairs (A : list bytes) : list bytes := flat_map (fun a => map (fun c => (a ++ c)%list) A) A.
Definition preset_recipes : list (char_recipe * list bytes) :=
  let rec := fun s => match s with SepRecipe r => r | _ => mkCR 0 0 0 0 [] [] [] end in
  [(rec SFDigits1, digits); (rec SFDigits2, pairs digits);
   (rec SFDigitsNoAmbiguous1, map (fun c => [c]) (bos "2346789"));
   (rec SFDigitsNoAmbiguous2, pairs (map (fun c => [c]) (bos "2346789")));
   (rec SFSymbols, map (fun c => [c]) (bos "!*-.@_"));
   (rec SFDigitsSymbols, map (fun c => [c]) (bos "!*-.0123456789@_"))].

(** what each preset can return is what its name says ... *)
Theorem C16_preset_values : forallb (fun p => list_eqb beqb (preset_values (fst p)) (snd p)) preset_recipes = true.
Proof. vm_compute. reflexivity. Qed.
(** ... each preset recipe is infallible under the default budget, so (C04/C06)
    every value it can return has probability exactly 1/count ... *)
Theorem C16_presets_infallible : forallb (fun p => infallibleb default_budget (fst p)) preset_recipes = true.
Proof. vm_compute. reflexivity. Qed.
Theorem C16_presets_uniform : forall r vals, In (r, vals) preset_recipes ->
  sep_uniform default_budget (SepRecipe r) (Z.to_N (recipe_count r)) /\
  (forall v, reach (sep_val default_budget (SepRecipe r)) v <-> In v vals).
Proof.
  intros r vals Hin.
  assert (Hi : infallible default_budget r).
  { apply infallibleb_sound. pose proof C16_presets_infallible as H. rewrite forallb_forall in H. exact (H _ Hin). }
  assert (Hv : preset_values r = vals).
  { pose proof C16_preset_values as H. rewrite forallb_forall in H. specialize (H _ Hin). cbn [fst snd] in H.
    apply bytes_list_eqb_eq. exact H. }
  split; [exact (sep_uniform_recipe (fun w => w) default_budget r Hi)|].
  intros v. rewrite (infallible_support default_budget r v Hi). subst vals. unfold preset_values. rewrite in_map_iff.
  split; intros (cand & H1 & H2); exists cand; auto.
Qed.
(** ... with the matching count (10, 100, 7, 49, 6, 16) and entropy log2(count) *)
Theorem C16_preset_counts :
  map (fun p => (recipe_count (fst p), entropy_count (char_entropy (fst p)), Z.of_nat (List.length (snd p)))) preset_recipes =
  [(10, 10, 10); (100, 100, 100); (7, 7, 7); (49, 49, 49); (6, 6, 6); (16, 16, 16)]%Z.
Proof. vm_compute. reflexivity. Qed.
(** SFNone returns the empty string with entropy 0 *)
Theorem C16_sfnone : SFNone = SepConst [] /\ sep_ok default_budget SFNone 1 None.
Proof. split; [reflexivity|exact (sep_ok_const (fun w => w) default_budget [])]. Qed.

(** ---- shipped lists ---- *)
Theorem C16_lists_equal_data :
  Lists.src_agile_words = Lists.data_agwordlist /\ Lists.src_agile_syllables = Lists.data_agsyllables.
Proof. split; apply str_list_eqb_eq; vm_compute; reflexivity. Qed.
Theorem C16_words_sorted : strictly_sorted Lists.src_agile_words = true.
Proof. vm_compute. reflexivity. Qed.
Theorem C16_syllables_sorted : strictly_sorted Lists.src_agile_syllables = true.
Proof. vm_compute. reflexivity. Qed.
(** lower-case a-z only, no empty entry *)
Theorem C16_lists_lower_case : forallb lower_word Lists.src_agile_words = true /\ forallb lower_word Lists.src_agile_syllables = true.
Proof. split; vm_compute; reflexivity. Qed.
Theorem C16_lists_sizes :
  (N.of_nat (List.length Lists.src_agile_words), N.of_nat (List.length Lists.src_agile_syllables)) = (18325, 10129)%N.
Proof. vm_compute. reflexivity. Qed.
Theorem C16_lists_duplicate_free : NoDup Lists.src_agile_words /\ NoDup Lists.src_agile_syllables.
Proof. split; [exact (strictly_sorted_NoDup _ C16_words_sorted)|exact (strictly_sorted_NoDup _ C16_syllables_sorted)]. Qed.

Print Assumptions C16_class_strings.
Print Assumptions C16_class_flags.
Print Assumptions C16_flag_table.
Print Assumptions C16_model_classes.
Print Assumptions C16_new_char_recipe.
Print Assumptions C16_new_wl_recipe.
Print Assumptions C16_budget.
Print Assumptions C16_cap_schemes.
Print Assumptions C16_presets_declared.
Print Assumptions C16_sf_wrap.
Print Assumptions C16_preset_values.
Print Assumptions C16_presets_infallible.
Print Assumptions C16_presets_uniform.
Print Assumptions C16_preset_counts.
Print Assumptions C16_sfnone.
Print Assumptions C16_lists_equal_data.
Print Assumptions C16_words_sorted.
Print Assumptions C16_syllables_sorted.
Print Assumptions C16_lists_lower_case.
Print Assumptions C16_lists_sizes.
Print Assumptions C16_lists_duplicate_free.
