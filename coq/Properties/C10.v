(** C10 — Word lists normalise to a duplicate-free set; capitalised twins are removed. *)
From Spg.Base Require Import Prelude Utf8 Bytes.
From Spg.Model Require Import Tables CharGen WordList.
From Spg.Proofs Require Import WordListProofs.
Close Scope N_scope.

(** For every title function that is idempotent (the one fact about
    strings.Title that is used; re-checked by the harness on every word), every
    input list, every visiting order of the twin-removal pass (Go's map
    iteration order) that covers the input: exactly one copy of each distinct
    word is kept, a word is dropped exactly when it is the title-cased form of
    ANOTHER listed word, nothing else is dropped. *)
Theorem C10_kept_exact : forall title, (forall w, title (title w) = title w) ->
  forall sigma l, (forall w, In w l -> In w sigma) ->
  NoDup (kept_with title sigma l) /\
  forall w, In w (kept_with title sigma l) <-> (In w l /\ ~ twin title l w).
Proof. exact kept_with_spec. Qed.

(** The kept set is the same for any order or multiplicity of the input and any
    map iteration order. *)
Theorem C10_order_invariant : forall title, (forall w, title (title w) = title w) ->
  forall s1 s2 l1 l2, (forall x, In x l1 <-> In x l2) ->
  (forall w, In w l1 -> In w s1) -> (forall w, In w l2 -> In w s2) ->
  forall w, In w (kept_with title s1 l1) <-> In w (kept_with title s2 l2).
Proof. exact kept_order_invariant. Qed.

(** What NewWordList returns: its words are exactly the kept set (in whatever
    order the map emitted them), without duplicates; Size() is their number. *)
Theorem C10_new_word_list : forall title, (forall w, title (title w) = title w) ->
  forall emit l wl d, new_word_list title emit l = (Done (Some wl), d) ->
  l <> [] /\
  (forall w, In w (wlWords wl) <-> (In w l /\ ~ twin title l w)) /\
  length (wlWords wl) = length (kept title l) /\
  wlUncap wl = uncap_count title (kept title l).
Proof. exact new_word_list_spec. Qed.
Theorem C10_words_distinct : forall title, (forall w, title (title w) = title w) ->
  forall emit l wl d, new_word_list title emit l = (Done (Some wl), d) -> NoDup (wlWords wl).
Proof. exact new_word_list_nodup. Qed.

(** An empty list is rejected with an error. *)
Theorem C10_empty_rejected : forall title emit, new_word_list title emit [] = (Err EEmptyList, []).
Proof. exact new_word_list_empty. Qed.

(** (The caller's slice is untouched: in the model by immutability; tied to the
    code by the translator's effect summary of NewWordList and the before/after
    comparison in the wordlist correspondence family.) *)

(** Non-vacuity: an idempotent title function exists and the F2 witness list normalises as expected. *)
Theorem C10_title_ascii_idempotent : forall s, title_ascii (title_ascii s) = title_ascii s.
Proof. exact title_ascii_idem. Qed.
Example C10_example :
  kept title_ascii [[112;111]; [80;111]; [97]; [97]; [52]]%N = [[112;111]; [97]; [52]]%N.
Proof. vm_compute. reflexivity. Qed.

(** ---- "leaves the caller's slice untouched": in the model by immutability; in the CURRENT source, every store of
        NewWordList goes to memory it allocated itself (facts extracted by the translator, coq/Gen/Effects.v) ---- *)
From Spg.Gen Require Effects.
From Coq Require Import String.
Open Scope string_scope.
Theorem C10_caller_slice_untouched :
  forallb (fun s => negb (String.eqb (Effects.s_func s) "NewWordList") || String.eqb (Effects.s_class s) "fresh") Effects.eff_stores = true /\
  (* and it hands its parameter to nothing in the package that could write it *)
  forallb (fun c => negb (String.eqb (Effects.c_func c) "NewWordList") ||
                    forallb (fun a => negb (String.prefix "param:" (snd a))) (Effects.c_args c) ||
                    String.prefix "ext:" (Effects.c_callee c)) Effects.eff_calls = true.
Proof. vm_compute. split; reflexivity. Qed.
Close Scope string_scope.

Print Assumptions C10_kept_exact.
Print Assumptions C10_order_invariant.
Print Assumptions C10_new_word_list.
Print Assumptions C10_words_distinct.
Print Assumptions C10_empty_rejected.
Print Assumptions C10_title_ascii_idempotent.
Print Assumptions C10_caller_slice_untouched.
