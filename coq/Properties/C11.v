(** C11 — Token index round-trips every password exactly and is as compact as documented. *)
From Spg.Base Require Import Prelude Utf8 Bytes.
From Spg.Model Require Import Tables Rand GenM CharSets CharGen Token Orig WordList WordGen.
From Spg.Proofs Require Import TokenProofs WordGenProofs ComposeProofs.
Close Scope N_scope.

(** Every non-empty token sequence whose values are text (valid UTF-8) of at
    most 255 characters each — any type bytes, zero-length values included —
    encodes, and Tokenize(String(), index) reconstructs exactly the same values
    and types.  (The entropy is passed through unchanged by construction: the
    model of Tokenize does not touch it; the correspondence check compares it.)
    The index has the documented size. *)
Theorem C11_roundtrip : forall ts,
  ts <> [] -> Forall valid_utf8 (values ts) -> Forall (fun t => glyphs (value t) <= 255) ts ->
  exists idx, make_indices ts = Done idx /\ tokenize (pw_string ts) idx = Done ts /\
    length idx = (if N.eqb (kind ts) CharacterIndexKind then 1
                  else if N.eqb (kind ts) FullIndexKind then 2 * length ts + 1 else length ts + 1).
Proof. exact roundtrip. Qed.

(** A token that cannot be encoded gives an error ... *)
Theorem C11_too_long_is_error : forall ts,
  Exists (fun t => 255 < glyphs (value t)) ts -> make_indices ts = Err ETokenTooLarge.
Proof. exact too_long_is_error. Qed.
(** ... and whenever an index is produced it is never lossy. *)
Theorem C11_never_lossy : forall ts idx, ts <> [] -> Forall valid_utf8 (values ts) ->
  make_indices ts = Done idx -> tokenize (pw_string ts) idx = Done ts.
Proof. exact never_lossy. Qed.

(** Which kind is chosen: one byte for a character password (every token one
    single-character atom); lengths only when all tokens are atoms; lengths only
    for a strictly alternating atom/separator sequence of odd length >= 3;
    (length, type) pairs otherwise. *)
Theorem C11_kind_character : forall ts,
  kind ts = CharacterIndexKind <-> ts <> [] /\ Forall one_char ts.
Proof. exact kind_character_iff. Qed.
Theorem C11_kind_var_atoms : forall ts,
  kind ts = VarAtomsIndexKind <-> all_atoms ts = true /\ ~ Forall one_char ts.
Proof. exact kind_var_atoms_iff. Qed.
Theorem C11_kind_alternating : forall ts,
  kind ts = AlternatingIndexKind <-> all_atoms ts = false /\ is_alternating ts = true.
Proof. exact kind_alternating_iff. Qed.
Theorem C11_alternating_means : forall ts,
  is_alternating ts = true <->
  Nat.odd (length ts) = true /\ 3 <= length ts /\
  forall j t, nth_error ts j = Some t -> ttype t = if Nat.odd j then SeparatorType else AtomType.
Proof. exact is_alternating_spec. Qed.


(** "In particular every password generated from words and separators of that
    size": the round trip composed with the generators.  A recipe over *text*
    ([text_recipe]: AllowChars and every RequireSets entry valid UTF-8; the class
    strings are ASCII) on every stream of raw words returns a character password
    whose index is the single kind byte and decodes to exactly its tokens. *)
Theorem C11_generated_character_password : forall b r ws cand rest,
  text_recipe r -> (1 <= crLength r)%Z ->
  run_words (char_generate b r) ws = RDone (Done cand) rest ->
  kind (char_tokens cand) = CharacterIndexKind /\
  exists idx, make_indices (char_tokens cand) = Done idx /\ length idx = 1 /\
              tokenize (pw_string (char_tokens cand)) idx = Done (char_tokens cand).
Proof. exact char_generated_roundtrip. Qed.

(** Wordlist passwords: every kept word and its title-cased form non-empty text
    of at most 255 characters ([words_text]), separator values text of at most 255
    characters ([sep_text]: a constant, or a character recipe over text with
    Length <= 255): on every stream the password encodes and decodes exactly. *)
Theorem C11_generated_wordlist_password : forall title b r ws ts e rest wl,
  run_words (wl_generate title b r) ws = RDone (Done (ts, e)) rest ->
  wrList r = Some wl -> words_text title wl -> sep_text (wrSep r) ->
  exists idx, make_indices ts = Done idx /\ tokenize (pw_string ts) idx = Done ts /\
    length idx = (if N.eqb (kind ts) CharacterIndexKind then 1
                  else if N.eqb (kind ts) FullIndexKind then 2 * length ts + 1 else length ts + 1).
Proof. exact wl_generated_roundtrip. Qed.

(** ... with a non-empty constant separator and at least two words the compact
    alternating kind is chosen and the index has 2*Length bytes; with the empty
    separator all tokens are atoms and the index has at most Length+1 bytes. *)
Theorem C11_generated_wordlist_alternating : forall title b r ws ts e rest wl c,
  run_words (wl_generate title b r) ws = RDone (Done (ts, e)) rest ->
  wrList r = Some wl -> words_text title wl -> (wrSep r = SepChar c \/ wrSep r = SepConst c) -> text_tok c ->
  c <> [] -> (2 <= wrLength r)%Z ->
  kind ts = AlternatingIndexKind /\
  exists idx, make_indices ts = Done idx /\ tokenize (pw_string ts) idx = Done ts /\
              length idx = 2 * Z.to_nat (wrLength r).
Proof. exact wl_generated_alternating. Qed.
Theorem C11_generated_wordlist_no_separator : forall title b r ws ts e rest wl,
  run_words (wl_generate title b r) ws = RDone (Done (ts, e)) rest ->
  wrList r = Some wl -> words_text title wl -> (wrSep r = SepChar [] \/ wrSep r = SepConst []) ->
  all_atoms ts = true /\ length ts = Z.to_nat (wrLength r) /\
  exists idx, make_indices ts = Done idx /\ tokenize (pw_string ts) idx = Done ts /\
              length idx <= Z.to_nat (wrLength r) + 1.
Proof. exact wl_generated_no_separator. Qed.

(** Non-vacuity of the premises: ASCII strings are text. *)
Theorem C11_ascii_is_text : forall s, Forall (fun b => (b < 128)%N) s -> length s <= 255 -> text_tok s.
Proof. exact ascii_text_tok. Qed.


(** Non-vacuity of the composed theorems: a concrete list meets [words_text]
    under the ASCII title function, and a concrete run gives the 2*Length-byte
    alternating index. *)
Example C11_generated_example :
  let wl := mkWL [[97]; [98;99]]%N 0 in
  let r := mkWLR (Some wl) 2 (SepChar [45]%N) CapFirst in
  words_text title_ascii wl /\ text_tok [45]%N /\
  run_words (wl_generate title_ascii default_budget r) [1; 0]%N
  = RDone (Done ([Tok [66;99]%N AtomType; Tok [45]%N SeparatorType; Tok [97]%N AtomType], mkWLE 2 2 BonusNone None)) [] /\
  make_indices [Tok [66;99]%N AtomType; Tok [45]%N SeparatorType; Tok [97]%N AtomType] = Done [2; 2; 1; 1]%N.
Proof.
  assert (A : forall s, forallb (fun b => N.ltb b 128) s = true -> length s <= 255 -> text_tok s).
  { intros s H Hl. apply ascii_text_tok; [|exact Hl]. apply Forall_forall. intros x Hx. apply N.ltb_lt.
    rewrite forallb_forall in H. apply H. exact Hx. }
  split; [|split; [apply A; [reflexivity|cbn; lia]|split; vm_compute; reflexivity]].
  unfold words_text. cbn [wlWords].
  repeat constructor; try discriminate; try (apply A; [reflexivity|cbn; lia]).
Qed.

(** The pinned code measured lengths in bytes and chose the character kind by
    the maximum alone: both refuted on concrete inputs (known findings F3, F3b). *)
Theorem C11_pinned_bytes_refuted :
  let e := [195;169]%N in
  let ts := [Tok e AtomType; Tok e AtomType; Tok e AtomType] in
  make_indices_orig ts = Done [1;2;2;2]%N /\ tokenize (pw_string ts) [1;2;2;2]%N = Err ETooShort.
Proof. exact roundtrip_orig_refuted. Qed.
Theorem C11_pinned_lossy_refuted :
  let ts := [Tok [97]%N AtomType; Tok [] AtomType] in
  make_indices_orig ts = Done [0]%N /\ tokenize (pw_string ts) [0]%N = Done [Tok [97]%N AtomType].
Proof. exact lossy_orig_refuted. Qed.

(** Non-vacuity: "kettő" ¡ "é" — non-ASCII word, separator and word. *)
Example C11_example :
  let ts := [Tok [107;101;116;116;197;145]%N AtomType; Tok [194;161]%N SeparatorType; Tok [195;169]%N AtomType] in
  make_indices ts = Done [2;5;1;1]%N /\ tokenize (pw_string ts) [2;5;1;1]%N = Done ts.
Proof. vm_compute. split; reflexivity. Qed.

Print Assumptions C11_roundtrip.
Print Assumptions C11_too_long_is_error.
Print Assumptions C11_never_lossy.
Print Assumptions C11_kind_character.
Print Assumptions C11_kind_var_atoms.
Print Assumptions C11_kind_alternating.
Print Assumptions C11_alternating_means.
Print Assumptions C11_generated_character_password.
Print Assumptions C11_generated_wordlist_password.
Print Assumptions C11_generated_wordlist_alternating.
Print Assumptions C11_generated_wordlist_no_separator.
Print Assumptions C11_ascii_is_text.
Print Assumptions C11_pinned_bytes_refuted.
Print Assumptions C11_pinned_lossy_refuted.
