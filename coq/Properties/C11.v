(** C11 — Token index round-trips every password exactly and is as compact as documented. *)
From Spg.Base Require Import Prelude Utf8 Bytes.
From Spg.Model Require Import Tables Token Orig.
From Spg.Proofs Require Import TokenProofs.
Close Scope N_scope.

(** Every non-empty token sequence whose values are text (valid UTF-8) of at
    most 255 characters each — any type bytes, zero-length values included —
    encodes, and Tokenize(String(), index) reconstructs exactly the same values
    and types.  (The entropy is passed through unchanged by construction: the
    model of Tokenize does not touch it; the correspondence check compares it.)
    The index has the documented size. *)
Theorem C11_roundtrip : forall ts,
  ts <> [] -> Forall valid_utf8 (values ts) -> Forall (fun t => glyphs (value t) <= 255) ts ->
  exists idx, make_indices ts = Done idx /\ tokenize (pw_string ts) idx = Done ts /\
    length idx = (if N.eqb (kind ts) CharacterIndexKind then 1
                  else if N.eqb (kind ts) FullIndexKind then 2 * length ts + 1 else length ts + 1).
Proof. exact roundtrip. Qed.

(** A token that cannot be encoded gives an error ... *)
Theorem C11_too_long_is_error : forall ts,
  Exists (fun t => 255 < glyphs (value t)) ts -> make_indices ts = Err ETokenTooLarge.
Proof. exact too_long_is_error. Qed.
(** ... and whenever an index is produced it is never lossy. *)
Theorem C11_never_lossy : forall ts idx, ts <> [] -> Forall valid_utf8 (values ts) ->
  make_indices ts = Done idx -> tokenize (pw_string ts) idx = Done ts.
Proof. exact never_lossy. Qed.

(** Which kind is chosen: one byte for a character password (every token one
    single-character atom); lengths only when all tokens are atoms; lengths only
    for a strictly alternating atom/separator sequence of odd length >= 3;
    (length, type) pairs otherwise. *)
Theorem C11_kind_character : forall ts,
  kind ts = CharacterIndexKind <-> ts <> [] /\ Forall one_char ts.
Proof. exact kind_character_iff. Qed.
Theorem C11_kind_var_atoms : forall ts,
  kind ts = VarAtomsIndexKind <-> all_atoms ts = true /\ ~ Forall one_char ts.
Proof. exact kind_var_atoms_iff. Qed.
Theorem C11_kind_alternating : forall ts,
  kind ts = AlternatingIndexKind <-> all_atoms ts = false /\ is_alternating ts = true.
Proof. exact kind_alternating_iff. Qed.
Theorem C11_alternating_means : forall ts,
  is_alternating ts = true <->
  Nat.odd (length ts) = true /\ 3 <= length ts /\
  forall j t, nth_error ts j = Some t -> ttype t = if Nat.odd j then SeparatorType else AtomType.
Proof. exact is_alternating_spec. Qed.

(** The pinned code measured lengths in bytes and chose the character kind by
    the maximum alone: both refuted on concrete inputs (known findings F3, F3b). *)
Theorem C11_pinned_bytes_refuted :
  let e := [195;169]%N in
  let ts := [Tok e AtomType; Tok e AtomType; Tok e AtomType] in
  make_indices_orig ts = Done [1;2;2;2]%N /\ tokenize (pw_string ts) [1;2;2;2]%N = Err ETooShort.
Proof. exact roundtrip_orig_refuted. Qed.
Theorem C11_pinned_lossy_refuted :
  let ts := [Tok [97]%N AtomType; Tok [] AtomType] in
  make_indices_orig ts = Done [0]%N /\ tokenize (pw_string ts) [0]%N = Done [Tok [97]%N AtomType].
Proof. exact lossy_orig_refuted. Qed.

(** Non-vacuity: "kettő" ¡ "é" — non-ASCII word, separator and word. *)
Example C11_example :
  let ts := [Tok [107;101;116;116;197;145]%N AtomType; Tok [194;161]%N SeparatorType; Tok [195;169]%N AtomType] in
  make_indices ts = Done [2;5;1;1]%N /\ tokenize (pw_string ts) [2;5;1;1]%N = Done ts.
Proof. vm_compute. split; reflexivity. Qed.

Print Assumptions C11_roundtrip.
Print Assumptions C11_too_long_is_error.
Print Assumptions C11_never_lossy.
Print Assumptions C11_kind_character.
Print Assumptions C11_kind_var_atoms.
Print Assumptions C11_kind_alternating.
Print Assumptions C11_alternating_means.
Print Assumptions C11_pinned_bytes_refuted.
Print Assumptions C11_pinned_lossy_refuted.
