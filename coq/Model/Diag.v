(** Everything the library writes to standard output, standard error or the
    process log: one constructor of [diag] per output statement, rendered as the
    exact bytes (fmt's %d on an int). *)
From Spg.Base Require Import Prelude.
From Spg.Model Require Import Tables CharGen.
Close Scope N_scope.

Inductive stream : Type := Stdout | Log.

(** decimal digits of a natural number, most significant first *)
Fixpoint dec_fuel (fuel : nat) (n : N) (acc : bytes) : bytes :=
  match fuel with
  | O => acc
  | S f => let d := (48 + n mod 10)%N in
           if (n <? 10)%N then d :: acc else dec_fuel f (n / 10)%N (d :: acc)
  end.
Definition dec_N (n : N) : bytes := dec_fuel (S (N.to_nat (N.log2 n))) n [].
Definition dec_Z (z : Z) : bytes :=
  match z with
  | Z0 => [48%N]
  | Zpos p => dec_N (Npos p)
  | Zneg p => 45%N :: dec_N (Npos p)
  end.

Definition nl : bytes := [10%N].

Definition render (d : diag) : stream * bytes :=
  match d with
  | DEntropySimpleNot n => (Stdout, tpl_entropy_simple ++ dec_Z n ++ nl)
  | DDuplicates n => (Log, dec_Z n ++ tpl_duplicates ++ nl)
  end.

Definition render_stream (s : stream) (ds : list diag) : bytes :=
  concat (map (fun d => let (s', b) := render d in
                        match s, s' with Stdout, Stdout | Log, Log => b | _, _ => [] end) ds).

(** the templates of the output statements: (stream, text before the number, text after it) *)
Definition templates : list (stream * bytes * bytes) :=
  [(Stdout, tpl_entropy_simple, nl); (Log, [], tpl_duplicates ++ nl)].

Definition is_decimal (b : bytes) : bool :=
  match b with
  | [] => false
  | c :: r => ((N.eqb c 45) && negb (match r with [] => true | _ => false end) && forallb (fun x => (N.leb 48 x) && (N.leb x 57)) r)
              || forallb (fun x => (N.leb 48 x) && (N.leb x 57)) b
  end.
