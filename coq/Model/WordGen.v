(** word_gen.go WLRecipe.Generate / Entropy, separator functions. *)
From Spg.Base Require Import Prelude Utf8 Bytes.
From Spg.Model Require Import Tables Rand GenM CharSets CharGen Token WordList.
Close Scope N_scope.

Inductive cap_scheme : Type := CapNone | CapFirst | CapAll | CapRandom | CapOne | CapOther.

(** What separates the words.  [SepChar s]: SeparatorFunc is nil, SeparatorChar = s.
    [SepConst s]: a function returning the constant s with entropy 0 (SFNone,
    opgen's createSeparatorFunc).  [SepRecipe r]: NewSFFunction(r). *)
Inductive sep_fun : Type :=
| SepChar (s : bytes)
| SepConst (s : bytes)
| SepRecipe (r : char_recipe).

Record wl_recipe : Type := mkWLR {
  wrList : option word_list;     (* None: nil list *)
  wrLength : Z;
  wrSep : sep_fun;
  wrCap : cap_scheme
}.

(** What WLRecipe.Entropy() reports: float(L)*log2(size) [+ L | + log2 L] + (L-1)*sepEnt.
    [weSep = None]: separator entropy 0. *)
Inductive cap_bonus : Type := BonusNone | BonusRandom | BonusOne.
Record wl_entropy : Type := mkWLE { weLength : Z; weSize : N; weBonus : cap_bonus; weSep : option entropy }.

Section WG.
Variable title : bytes -> bytes.
Variable b : budget.

Definition wl_size (r : wl_recipe) : nat :=
  match wrList r with Some wl => length (wlWords wl) | None => 0 end.

(** one call of the separator function: the string and the entropy it reports.
    sfWrap swallows a generation error and returns ("", 0). *)
Definition sep_call (s : sep_fun) : gen (bytes * option entropy) :=
  match s with
  | SepChar c => Ret (c, None)
  | SepConst c => Ret (c, None)
  | SepRecipe r =>
      bind (char_generate b r)
           (fun o => match o with
                     | Done cand => Ret (concat cand, Some (char_entropy r))
                     | _ => Ret ([], None)
                     end)
  end.

(** which positions are capitalised *)
Definition caps_gen (c : cap_scheme) (L : nat) : gen (list bool) :=
  match c with
  | CapFirst => Ret (map (fun i => Nat.eqb i 0) (seq 0 L))
  | CapAll => Ret (repeat true L)
  | CapOne => Pick (N.of_nat L) (fun w => Ret (map (fun i => Nat.eqb i (N.to_nat w)) (seq 0 L)))
  | CapRandom => fmap (map (fun x => N.eqb x 1)) (picks L 2)
  | _ => Ret (repeat false L)
  end.

(** the token assembly loop: for each position a word draw, then (except after
    the last) one separator call; empty words and empty separators give no token *)
Fixpoint words_loop (ws : list bytes) (s : sep_fun) (caps : list bool) : gen (list token) :=
  match caps with
  | [] => Ret []
  | c :: caps' =>
      Pick (N.of_nat (length ws)) (fun i =>
        let w0 := nth (N.to_nat i) ws [] in
        let w := if c then title w0 else w0 in
        let atom := match w with [] => [] | _ => [Tok w AtomType] end in
        match caps' with
        | [] => Ret atom
        | _ => bind (sep_call s) (fun se =>
                 let sept := match fst se with [] => [] | sv => [Tok sv SeparatorType] end in
                 bind (words_loop ws s caps') (fun rest => Ret (atom ++ sept ++ rest)))
        end)
  end.

Definition bonus_of (wl : word_list) (c : cap_scheme) : cap_bonus :=
  match wlUncap wl with
  | O => match c with CapRandom => BonusRandom | CapOne => BonusOne | _ => BonusNone end
  | _ => BonusNone
  end.

(** Entropy(): consumes randomness when the separator is a function built from a recipe *)
Definition wl_entropy_gen (r : wl_recipe) (wl : word_list) : gen wl_entropy :=
  match wrSep r with
  | SepChar _ => Ret (mkWLE (wrLength r) (N.of_nat (length (wlWords wl))) (bonus_of wl (wrCap r)) None)
  | s => bind (sep_call s) (fun se =>
           Ret (mkWLE (wrLength r) (N.of_nat (length (wlWords wl))) (bonus_of wl (wrCap r)) (snd se)))
  end.

Definition wl_generate (r : wl_recipe) : gen (outcome (list token * wl_entropy)) :=
  match wrList r with
  | None => Ret (Err ENoList)
  | Some wl =>
    match wlWords wl with
    | [] => Ret (Err ENoList)
    | ws =>
      if (wrLength r <? 1)%Z then Ret (Err EBadLength)
      else
        let L := Z.to_nat (wrLength r) in
        bind (caps_gen (wrCap r) L) (fun caps =>
        bind (words_loop ws (wrSep r) caps) (fun ts =>
        bind (wl_entropy_gen r wl) (fun e => Ret (Done (ts, e)))))
    end
  end.

(** diagnostics: a separator recipe with an empty alphabet prints the
    entropySimple notice on every call (L-1 gaps + the Entropy() call) *)
Definition sep_diag (s : sep_fun) : list diag :=
  match s with SepRecipe r => char_generate_diag r | _ => [] end.
Definition wl_generate_diag (r : wl_recipe) : list diag :=
  match wrList r with
  | None => []
  | Some wl =>
    match wlWords wl with
    | [] => []
    | _ => if (wrLength r <? 1)%Z then []
           else concat (repeat (sep_diag (wrSep r)) (Z.to_nat (wrLength r)))
    end
  end.
End WG.

(** CapScheme strings *)
Definition cap_of_string (s : bytes) : cap_scheme :=
  if beqb s csNone then CapNone
  else if beqb s csFirst then CapFirst
  else if beqb s csAll then CapAll
  else if beqb s csRandom then CapRandom
  else if beqb s csOne then CapOne
  else CapOther.

(** the package-level separator presets (word_gen.go:269-277) *)
Definition preset_recipe (len : Z) (allow exclude : N) : sep_fun := SepRecipe (mkCR len allow 0 exclude [] [] []).
Definition SFNone : sep_fun := SepConst [].
Definition SFDigits1 : sep_fun := preset_recipe 1 Digits 0.
Definition SFDigits2 : sep_fun := preset_recipe 2 Digits 0.
Definition SFDigitsNoAmbiguous1 : sep_fun := preset_recipe 1 Digits Ambiguous.
Definition SFDigitsNoAmbiguous2 : sep_fun := preset_recipe 2 Digits Ambiguous.
Definition SFSymbols : sep_fun := preset_recipe 1 Symbols 0.
Definition SFDigitsSymbols : sep_fun := preset_recipe 1 (N.lor Symbols Digits) 0.
