(** char_gen.go Generate / Entropy, char_strength.go n / SuccessProbability. *)
From Spg.Base Require Import Prelude Utf8 Bytes.
From Spg.Model Require Import Tables Rand GenM CharSets.
From Coq Require Import QArith.
Open Scope N_scope.

(** ---- counting (char_strength.go n, after the repair) ---- *)
Fixpoint count_code (A : list bytes) (Rs : list (list bytes)) (L : nat) : Z :=
  match Rs with
  | [] => (Z.of_nat (length A) ^ Z.of_nat L)%Z
  | R :: Rs' => (count_code A Rs' L - count_code (diff A R) Rs' L)%Z
  end.

(** square-and-multiply, for running the model on lengths in the thousands
    (equal to [^] : Proofs/CountProofs.v zpow_fast_eq) *)
Fixpoint pow_pos_fast (x : Z) (p : positive) : Z :=
  match p with
  | xH => x
  | xO p' => let y := pow_pos_fast x p' in (y * y)%Z
  | xI p' => let y := pow_pos_fast x p' in (x * (y * y))%Z
  end.
Definition zpow_fast (x n : Z) : Z := match n with Z0 => 1%Z | Zpos p => pow_pos_fast x p | Zneg _ => 0%Z end.
Fixpoint count_fast (A : list bytes) (Rs : list (list bytes)) (L : nat) : Z :=
  match Rs with
  | [] => zpow_fast (Z.of_nat (length A)) (Z.of_nat L)
  | R :: Rs' => (count_fast A Rs' L - count_fast (diff A R) Rs' L)%Z
  end.

(** big.Int.Exp returns 1 for a non-positive exponent *)
Definition len_nat (r : char_recipe) : nat := Z.to_nat (crLength r).

(** r.n(): strings over the alphabet hitting every live required set *)
Definition recipe_count (r : char_recipe) : Z :=
  count_code (alphabet r) (live_sets r) (len_nat r).

(** What Entropy() reports, exactly.  [EntCount c]: log2 of the integer c (the
    path through n(), taken when some required set still has a member);
    [EntSimple L size]: float64(L) * log2(size) (entropySimple). *)
Inductive entropy : Type :=
| EntCount (c : Z)
| EntSimple (L : Z) (size : N).

Definition char_entropy (r : char_recipe) : entropy :=
  match req_union (required_sets r) with
  | [] => EntSimple (crLength r) (N.of_nat (length (alphabet r)))
  | _ => EntCount (recipe_count r)
  end.

(** everything the deterministic methods report, computing the alphabet and the
    count once (used by the executable driver; equal to the separate definitions
    by [recipe_report_spec]) *)
Definition recipe_report (r : char_recipe) : bytes * Z * entropy * Z :=
  let A := alphabet r in
  let c := count_fast A (live_sets r) (len_nat r) in
  let e := match req_union (required_sets r) with
           | [] => EntSimple (crLength r) (N.of_nat (length A))
           | _ => EntCount c
           end in
  (concat A, c, e, zpow_fast (Z.of_nat (length A)) (Z.of_nat (len_nat r))).

(** the integer whose log2 the entropy is, for lengths >= 0 *)
Definition entropy_count (e : entropy) : Z :=
  match e with
  | EntCount c => c
  | EntSimple L size => (Z.of_N size ^ L)%Z
  end.

(** ---- success probability and the pre-flight check ---- *)
(** exact single-attempt success probability, as numerator and denominator *)
Definition sp_num (r : char_recipe) : Z := recipe_count r.
Definition sp_den (r : char_recipe) : Z := (Z.of_nat (length (alphabet r)) ^ Z.of_nat (len_nat r))%Z.

(** hasAcceptableFailRate with exact arithmetic: 0 < p and (1-p)^T <= phi,
    p = num/den, phi = fn/fd; cross-multiplied.  T <= 0 behaves as T = 0. *)
Definition acceptable_exact (T : Z) (fn fd : Z) (num den : Z) : bool :=
  (0 <? num)%Z && (0 <? den)%Z &&
  ((den - num) ^ (Z.max T 0) * fd <=? fn * den ^ (Z.max T 0))%Z.

(** The same decision, avoiding 200th powers of huge numbers when the default
    budget is in force: p >= 1/10 always passes, p <= 9/100 never does
    (Proofs/CharProofs.v: acceptable_fast_correct). *)
Definition acceptable (T : Z) (fn fd : Z) (num den : Z) : bool :=
  if (T =? 200)%Z && (fn =? 1)%Z && (fd =? 1000000000)%Z && (0 <? num)%Z && (0 <? den)%Z && (num <=? den)%Z then
    if (den <=? 10 * num)%Z then true
    else if (100 * num <=? 9 * den)%Z then false
    else acceptable_exact T fn fd num den
  else acceptable_exact T fn fd num den.

(** ---- generation ---- *)
Definition glyph_at (A : list bytes) (i : N) : bytes := nth (N.to_nat i) A [].

(** one candidate: L independent draws into the alphabet *)
Definition attempt (A : list bytes) (L : nat) : gen (list bytes) :=
  fmap (map (glyph_at A)) (picks L (N.of_nat (length A))).

(** budget: MaxTrials, MaxFailRate = fn/fd (package variables, hence parameters) *)
Record budget : Type := mkBudget { bTrials : Z; bFailNum : Z; bFailDen : Z }.
Definition default_budget : budget := mkBudget MaxTrialsDefault MaxFailRateNum MaxFailRateDen.

Definition char_generate (b : budget) (r : char_recipe) : gen (outcome (list bytes)) :=
  if (crLength r <? 1)%Z then Ret (Err EBadLength)
  else let A := alphabet r in
       match A with
       | [] => Ret (Err ENoChars)
       | _ =>
         if negb (acceptable (bTrials b) (bFailNum b) (bFailDen b) (sp_num r) (sp_den r))
         then Ret (Err EFailRate)
         else retry (Z.to_nat (bTrials b)) (attempt A (len_nat r)) (require_filter (required_sets r))
       end.

(** ---- diagnostics written by the library (util.go:63) ---- *)
(** entropySimple prints "entropySimple: There must be a positive number of
    elements. Not %d\n" on stdout when the alphabet is empty; Generate calls
    Entropy() once before the empty-alphabet check. *)
Inductive diag : Type :=
| DEntropySimpleNot (nelem : Z)      (* stdout *)
| DDuplicates (n : Z).               (* process log *)

Definition char_entropy_diag (r : char_recipe) : list diag :=
  match char_entropy r with
  | EntSimple _ 0 => [DEntropySimpleNot 0]
  | _ => []
  end.

Definition char_generate_diag (r : char_recipe) : list diag :=
  if (crLength r <? 1)%Z then [] else char_entropy_diag r.
