(** util.go: randomUint32 (4 bytes from crypto/rand, big endian, panic on error)
    and randomUint32n (mask for powers of two, otherwise rejection sampling). *)
From Spg.Base Require Import Prelude.
Open Scope N_scope.

(** One iteration of randomUint32n on the raw word [v]; [W] is 2^32.
    [None] = the raw word is rejected and a fresh one is drawn. *)
Definition stepW (W n v : N) : option N :=
  if N.land n (n-1) =? 0 then Some (N.land v (n-1))
  else let discard := (W-1) - (W-1) mod n in
       if discard <=? v then None else Some (v mod n).

Definition W32 : N := 4294967296.
Definition step (n v : N) : option N := stepW W32 n v.

(** binary.BigEndian.Uint32 *)
Definition be32 (b0 b1 b2 b3 : N) : N := b0 * 16777216 + b1 * 65536 + b2 * 256 + b3.

(** The scripted crypto/rand.Reader.  A script is a list of chunks; a Read of k
    bytes delivers min(k, |chunk|) bytes of the head chunk; the chunk is popped
    when exhausted and, if it is flagged [fail], that Read also returns an error.
    A Read on an empty script returns (0, error). *)
Inductive chunk : Type := Chunk (bs : bytes) (fail : bool).
Definition source := list chunk.

(** Split a byte string into complete big-endian words and a remainder (< 4 bytes). *)
Fixpoint words_of (bs : bytes) : list N * bytes :=
  match bs with
  | b0 :: b1 :: b2 :: b3 :: rest =>
      let (ws, rem) := words_of rest in (be32 b0 b1 b2 b3 :: ws, rem)
  | _ => ([], bs)
  end.

(** crypto/rand.Read = io.ReadFull(Reader, b) with len b = 4, iterated: the raw
    words the script yields until the first read that fails, and the number of
    bytes that failing read had received (0..3).  An error arriving together
    with the byte that completes a word is dropped, as io.ReadFull does.
    Every script ends in a failing read (exhaustion is a failure). *)
Fixpoint parse (pending : bytes) (src : source) : list N * nat :=
  match src with
  | [] => ([], length pending)
  | Chunk bs fail :: rest =>
      let (ws, rem) := words_of (pending ++ bs) in
      if fail && (match rem with [] => match bs with [] => match pending with [] => true | _ => false end | _ => false end | _ => true end)
      then (ws, length rem)
      else let (ws', p) := parse rem rest in (ws ++ ws', p)
  end.

Definition words_of_source (src : source) : list N * nat := parse [] src.

(** randomUint32n on a stream of raw words. [None]: the stream ran dry, i.e. the
    next 4-byte read fails and randomUint32 panics. *)
Fixpoint draw (n : N) (ws : list N) : option (N * list N) :=
  match ws with
  | [] => None
  | v :: ws' => match step n v with Some i => Some (i, ws') | None => draw n ws' end
  end.
