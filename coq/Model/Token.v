(** token.go: Kind, MakeIndices, Tokenize (after the repairs F3, F3b, F4), and
    password.go String().  Go's bounds checks are explicit: a slice or index
    expression that would be out of range is [Panic PIndex]. *)
From Spg.Base Require Import Prelude Utf8 Bytes.
From Spg.Model Require Import Tables.
Close Scope N_scope.

Record token : Type := Tok { value : bytes; ttype : N }.

Definition values (ts : list token) : list bytes := map value ts.
(** Password.String(): concatenation of the token values *)
Definition pw_string (ts : list token) : bytes := concat (values ts).
(** Tokens.Atoms() / Separators(): values of the given type, in order *)
Definition of_type (ty : N) (ts : list token) : list bytes :=
  map value (filter (fun t => N.eqb (ttype t) ty) ts).

(** ---- Kind ---- *)
Definition all_atoms (ts : list token) : bool :=
  match ts with [] => false | _ => forallb (fun t => N.eqb (ttype t) AtomType) ts end.
Definition max_len (ts : list token) : nat := fold_right (fun t m => Nat.max (glyphs (value t)) m) 0 ts.
Definition has_empty (ts : list token) : bool :=
  existsb (fun t => match value t with [] => true | _ => false end) ts.
Fixpoint alt_from (atom_next : bool) (ts : list token) : bool :=
  match ts with
  | [] => true
  | t :: r => N.eqb (ttype t) (if atom_next then AtomType else SeparatorType) && alt_from (negb atom_next) r
  end.
Definition is_alternating (ts : list token) : bool :=
  Nat.odd (length ts) && existsb (fun t => N.eqb (ttype t) SeparatorType) ts && alt_from true ts.

Definition kind (ts : list token) : N :=
  if all_atoms ts && Nat.eqb (max_len ts) 1 && negb (has_empty ts) then CharacterIndexKind
  else if all_atoms ts then VarAtomsIndexKind
  else if is_alternating ts then AlternatingIndexKind
  else FullIndexKind.

(** ---- MakeIndices: lengths in characters ---- *)
Fixpoint lens (ts : list token) : option (list N) :=
  match ts with
  | [] => Some []
  | t :: r => if Nat.ltb 255 (glyphs (value t)) then None
              else match lens r with Some l => Some (N.of_nat (glyphs (value t)) :: l) | None => None end
  end.
Fixpoint lens_types (ts : list token) : option (list N) :=
  match ts with
  | [] => Some []
  | t :: r => if Nat.ltb 255 (glyphs (value t)) then None
              else match lens_types r with Some l => Some (N.of_nat (glyphs (value t)) :: ttype t :: l) | None => None end
  end.
Definition make_indices (ts : list token) : outcome (list N) :=
  match ts with
  | [] => Done []                       (* "We aren't in a position to calculate this": nil, nil *)
  | _ =>
    let k := kind ts in
    if N.eqb k CharacterIndexKind then Done [CharacterIndexKind]
    else if N.eqb k VarAtomsIndexKind || N.eqb k AlternatingIndexKind
         then match lens ts with Some l => Done (k :: l) | None => Err ETokenTooLarge end
    else match lens_types ts with Some l => Done (FullIndexKind :: l) | None => Err ETokenTooLarge end
  end.

(** ---- Tokenize ---- *)
Definition take (n : nat) (cs : list bytes) : option (list bytes * list bytes) :=
  if Nat.ltb (length cs) n then None else Some (firstn n cs, skipn n cs).
Definition join (cs : list bytes) : bytes := concat cs.

Fixpoint slice_lens (alternating : bool) (i : nat) (ls : list N) (cs : list bytes) : outcome (list token) :=
  match ls with
  | [] => Done []
  | l :: ls' =>
    match take (N.to_nat l) cs with
    | None => Err ETooShort
    | Some (g, cs') =>
      let tt := if alternating && Nat.odd i then SeparatorType else AtomType in
      match slice_lens alternating (S i) ls' cs' with
      | Done r => Done (Tok (join g) tt :: r)
      | o => o
      end
    end
  end.

(** (length, type) pairs; a dangling length byte would be ti[i+1] out of range *)
Fixpoint slice_pairs (ls : list N) (cs : list bytes) {struct ls} : outcome (list token) :=
  match ls with
  | [] => Done []
  | [_] => Panic PIndex
  | l :: ty :: ls' =>
    match take (N.to_nat l) cs with
    | None => Err ETooShort
    | Some (g, cs') =>
      match slice_pairs ls' cs' with
      | Done r => Done (Tok (join g) ty :: r)
      | o => o
      end
    end
  end.

Definition tokenize (pw : bytes) (ti : list N) : outcome (list token) :=
  let chars := explode pw in
  match ti with
  | [] => Err EEmptyIndex
  | k :: rest =>
    if N.eqb k CharacterIndexKind then Done (map (fun c => Tok c AtomType) chars)
    else if N.eqb k VarAtomsIndexKind then slice_lens false 0 rest chars
    else if N.eqb k AlternatingIndexKind then slice_lens true 0 rest chars
    else if N.eqb k FullIndexKind then
      if Nat.even (length ti) then Err EBadFull else slice_pairs rest chars
    else Err EUnknownKind
  end.
