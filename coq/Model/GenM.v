(** Generators are written once, as terms of a free monad whose only effect is
    [Pick n] = randomUint32n(n).  Interpreters: on raw words (what the Go code does
    with crypto/rand bytes), on ideal indices, and as an exact rational expectation. *)
From Spg.Base Require Import Prelude.
From Spg.Model Require Import Rand.
From Coq Require Import QArith.
Open Scope N_scope.

Inductive gen (A : Type) : Type :=
| Ret  (a : A)
| Pick (n : N) (k : N -> gen A).
Arguments Ret {A}. Arguments Pick {A}.

Fixpoint bind {A B} (g : gen A) (f : A -> gen B) : gen B :=
  match g with
  | Ret a => f a
  | Pick n k => Pick n (fun i => bind (k i) f)
  end.

Definition fmap {A B} (f : A -> B) (g : gen A) : gen B := bind g (fun a => Ret (f a)).

(** Result of running on a finite stream of raw words. *)
Inductive run_result (A : Type) : Type :=
| RDone (a : A) (rest : list N)    (* finished; unread words remain *)
| RStarved                         (* a 4-byte read failed: Go panics "PRNG gen error" *)
| RZero (rest : list N).           (* randomUint32n(0): Go panics *)
Arguments RDone {A}. Arguments RStarved {A}. Arguments RZero {A}.

Fixpoint run_words {A} (g : gen A) (ws : list N) : run_result A :=
  match g with
  | Ret a => RDone a ws
  | Pick n k =>
      if n =? 0 then RZero ws else
      match draw n ws with
      | Some (i, ws') => run_words (k i) ws'
      | None => RStarved
      end
  end.

(** Running on a scripted source: outcome and number of bytes consumed. *)
Definition run_src {A} (g : gen (outcome A)) (src : source) : outcome A * N :=
  let (ws, partial) := words_of_source src in
  match run_words g ws with
  | RDone o rest => (o, 4 * (N.of_nat (length ws) - N.of_nat (length rest)))
  | RStarved => (Panic PPrng, 4 * N.of_nat (length ws) + N.of_nat partial)
  | RZero rest => (Panic PDrawZero, 4 * (N.of_nat (length ws) - N.of_nat (length rest)))
  end.

(** Ideal level: one index per pick. *)
Fixpoint run_idx {A} (g : gen A) (is : list N) : option (A * list N) :=
  match g with
  | Ret a => Some (a, is)
  | Pick n k => match is with
                | i :: is' => if i <? n then run_idx (k i) is' else None
                | [] => None
                end
  end.

(** Rational sums over [0,n) and the exact expectation. *)
Definition sumQ (n : N) (f : N -> Q) : Q := N.recursion 0%Q (fun i acc => (acc + f i)%Q) n.
Definition NQ (n : N) : Q := inject_Z (Z.of_N n).

Fixpoint expect {A} (g : gen A) (phi : A -> Q) : Q :=
  match g with
  | Ret a => phi a
  | Pick n k => (/ NQ n * sumQ n (fun i => expect (k i) phi))%Q
  end.

Definition ind (b : bool) : Q := if b then 1%Q else 0%Q.
Definition prob {A} (g : gen A) (P : A -> bool) : Q := expect g (fun a => ind (P a)).

(** L independent picks of the same bound. *)
Fixpoint picks (L : nat) (a : N) : gen (list N) :=
  match L with
  | O => Ret nil
  | S L' => Pick a (fun i => bind (picks L' a) (fun r => Ret (i :: r)))
  end.

(** The bounded retry loop of CharRecipe.Generate: up to T whole-candidate
    attempts; the first one that passes the filter is returned. *)
Fixpoint retry {C} (T : nat) (att : gen C) (ok : C -> bool) : gen (outcome C) :=
  match T with
  | O => Ret (Err EExhausted)
  | S T' => bind att (fun c => if ok c then Ret (Done c) else retry T' att ok)
  end.
