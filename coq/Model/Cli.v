(** cmd/opgen: from the command line to the library call.  [cli_plan] is a pure
    function: Go's flag syntax (the subset documented in DESIGN §6 C17), the
    class / separator / scheme tables, the defaults, and the recipe construction.
    [cli_exec] then runs the LIBRARY MODEL itself on the planned recipe. *)
From Spg.Base Require Import Prelude Utf8 Bytes.
From Spg.Model Require Import Tables Rand GenM CharSets CharGen Token WordList WordGen.
From Coq Require Import String Ascii.
Close Scope N_scope.

(** ---- tables (cmd/opgen/opgen.go:27-51); Properties/C17 proves they are the ones in the source ---- *)
Definition cc_map : list (bytes * N) :=
  [(bos "uppercase", Uppers); (bos "lowercase", Lowers); (bos "digits", Digits); (bos "symbols", Symbols); (bos "ambiguous", Ambiguous)].
Definition separator_map : list (bytes * sep_fun) :=
  [(bos "hyphen", SepConst (bos "-")); (bos "space", SepConst (bos " ")); (bos "comma", SepConst (bos ","));
   (bos "period", SepConst (bos ".")); (bos "underscore", SepConst (bos "_")); (bos "digit", SFDigits1); (bos "none", SFNone)].
Definition capitalize_map : list (bytes * cap_scheme) :=
  [(bos "none", CapNone); (bos "first", CapFirst); (bos "all", CapAll); (bos "random", CapRandom); (bos "one", CapOne)].
(** defaults (flag definitions and cmd/opgen/recipes.go defaultCharRecipe) *)
Definition default_length : Z := 20.
Definition default_allow : list bytes := [bos "uppercase"; bos "lowercase"; bos "digits"; bos "symbols"].
Definition default_require : list bytes := [].
Definition default_exclude : list bytes := [bos "ambiguous"].
Definition default_size : Z := 4.
Definition default_list : bytes := bos "words".
Definition default_separator : bytes := bos "hyphen".
Definition default_capitalize : bytes := bos "none".

Fixpoint assoc {V} (k : bytes) (l : list (bytes * V)) : option V :=
  match l with [] => None | (k', v) :: r => if beqb k k' then Some v else assoc k r end.

(** ---- strings ---- *)
Fixpoint split_on (c : N) (s : bytes) (cur : bytes) : list bytes :=
  match s with
  | [] => [rev cur]
  | x :: r => if N.eqb x c then rev cur :: split_on c r [] else split_on c r (x :: cur)
  end.
(** parseCharacterClasses: spaces removed, split on commas, unknown words ignored; the default list when the value is empty *)
Definition parse_classes (v : bytes) (defaults : list bytes) : N :=
  let classes := match v with [] => defaults | _ => split_on 44 (filter (fun x => negb (N.eqb x 32)) v) [] end in
  fold_left (fun acc c => match assoc c cc_map with Some f => N.lor acc f | None => acc end) classes 0%N.

(** strings.Fields on ASCII white space (space, \t \n \v \f \r) *)
Definition is_space (x : N) : bool := N.eqb x 32 || (N.leb 9 x && N.leb x 13).
Fixpoint fields_from (s : bytes) (cur : bytes) : list bytes :=
  match s with
  | [] => match cur with [] => [] | _ => [rev cur] end
  | x :: r => if is_space x then (match cur with [] => fields_from r [] | _ => rev cur :: fields_from r [] end)
              else fields_from r (x :: cur)
  end.
Definition fields (s : bytes) : list bytes := fields_from s [].

(** ---- Go's flag package: one FlagSet ---- *)
Inductive flag_kind := FInt | FString | FBool.
Inductive flag_val := VInt (z : Z) | VStr (s : bytes) | VBool (b : bool).
Inductive parse_res (A : Type) :=
| POk (a : A)
| PError          (* flag error: message and defaults on standard error, exit status 2 *)
| PHelp           (* -h / -help: defaults on standard error, exit status 0 *)
| POutside.       (* syntax outside the modelled subset (non-decimal integer forms) *)
Arguments POk {A}. Arguments PError {A}. Arguments PHelp {A}. Arguments POutside {A}.

(** strconv.ParseInt(s, 0, 64): optional sign; base from the prefix (0x 16, 0b 2, 0o or a leading 0: 8, else 10);
    underscores only between digits or right after the base prefix; range of int64 *)
Definition is_digit (x : N) : bool := N.leb 48 x && N.leb x 57.
Definition lower (x : N) : N := if N.leb 65 x && N.leb x 90 then (x + 32)%N else x.
Definition digit_val (x : N) : option N :=
  let y := lower x in
  if is_digit x then Some (x - 48)%N else if N.leb 97 y && N.leb y 122 then Some (y - 97 + 10)%N else None.
(** underscoreOK of strconv: [saw] is '^' at the start, '0' after a digit (or the base prefix), '_' after an underscore *)
Fixpoint underscore_ok (s : bytes) (saw : N) : bool :=
  match s with
  | [] => negb (N.eqb saw 95)
  | x :: r =>
      if N.eqb x 95 then (N.eqb saw 48) && underscore_ok r 95
      else if (match digit_val x with Some _ => true | None => false end) then underscore_ok r 48
      else false
  end.
Fixpoint digits_value (base : N) (s : bytes) (acc : Z) : option Z :=
  match s with
  | [] => Some acc
  | x :: r => if N.eqb x 95 then digits_value base r acc
              else match digit_val x with
                   | Some d => if N.ltb d base then digits_value base r (acc * Z.of_N base + Z.of_N d)%Z else None
                   | None => None
                   end
  end.
Definition parse_int (s : bytes) : parse_res Z :=
  let neg := match s with 45%N :: _ => true | _ => false end in
  let body := match s with 43%N :: r => r | 45%N :: r => r | _ => s end in
  let '(base, digits, prefixed) :=
    match body with
    | 48%N :: c :: r =>
        let lc := lower c in
        if N.eqb lc 120 then (16%N, r, true) else if N.eqb lc 98 then (2%N, r, true) else if N.eqb lc 111 then (8%N, r, true)
        else (8%N, c :: r, false)
    | _ => (10%N, body, false)
    end in
  let us_ok := match body with
               | [] => false
               | _ => if prefixed then underscore_ok digits 48 else underscore_ok body 94
               end in
  match digits with
  | [] => PError
  | _ =>
    if negb us_ok then PError
    else match digits_value base digits 0 with
         | None => PError
         | Some v =>
             let v' := if neg then (- v)%Z else v in
             if ((v' <? - 9223372036854775808) || (9223372036854775807 <? v'))%Z then PError else POk v'
         end
  end.
Definition parse_bool (s : bytes) : option bool :=
  if existsb (beqb s) [bos "1"; bos "t"; bos "T"; bos "TRUE"; bos "true"; bos "True"] then Some true
  else if existsb (beqb s) [bos "0"; bos "f"; bos "F"; bos "FALSE"; bos "false"; bos "False"] then Some false
  else None.

Definition flag_defs := list (bytes * flag_kind).
Definition flag_env := list (bytes * flag_val).

Fixpoint split_eq (name : bytes) (acc : bytes) : bytes * option bytes :=   (* first '=' at position >= 1 *)
  match name with
  | [] => (rev acc, None)
  | x :: r => if N.eqb x 61 && negb (match acc with [] => true | _ => false end) then (rev acc, Some r) else split_eq r (x :: acc)
  end.

(** FlagSet.Parse: returns the assignments in order (later ones win) *)
Fixpoint parse_flags (fuel : nat) (defs : flag_defs) (args : list bytes) (env : flag_env) : parse_res flag_env :=
  match fuel with
  | O => POutside
  | S fuel' =>
    match args with
    | [] => POk env
    | s :: rest =>
      match s with
      | d :: c :: more =>
        if negb (N.eqb d 45) then POk env else      (* starts with '-', length >= 2; otherwise the first non-flag argument stops the parsing *)
          let name0 := if N.eqb c 45 then more else c :: more in
          if N.eqb c 45 && match more with [] => true | _ => false end then POk env      (* "--" terminates the flags *)
          else match name0 with
               | [] => PError
               | x :: _ =>
                 if N.eqb x 45 || N.eqb x 61 then PError        (* bad flag syntax *)
                 else
                   let (name, val) := split_eq name0 [] in
                   match assoc name defs with
                   | None => if beqb name (bos "help") || beqb name (bos "h") then PHelp else PError
                   | Some FBool =>
                       match val with
                       | None => parse_flags fuel' defs rest ((name, VBool true) :: env)
                       | Some v => match parse_bool v with
                                   | Some bv => parse_flags fuel' defs rest ((name, VBool bv) :: env)
                                   | None => PError
                                   end
                       end
                   | Some k =>
                       let getv := match val with
                                   | Some v => Some (v, rest)
                                   | None => match rest with v :: rest' => Some (v, rest') | [] => None end
                                   end in
                       match getv with
                       | None => PError             (* flag needs an argument *)
                       | Some (v, rest') =>
                           match k with
                           | FInt => match parse_int v with
                                     | POk z => parse_flags fuel' defs rest' ((name, VInt z) :: env)
                                     | PError => PError | PHelp => PHelp | POutside => POutside
                                     end
                           | _ => parse_flags fuel' defs rest' ((name, VStr v) :: env)
                           end
                       end
                   end
               end
      | _ => POk env                                (* first non-flag argument: parsing stops *)
      end
    end
  end.

Definition get_int (env : flag_env) (n : bytes) (d : Z) : Z := match assoc n env with Some (VInt z) => z | _ => d end.
Definition get_str (env : flag_env) (n : bytes) (d : bytes) : bytes := match assoc n env with Some (VStr s) => s | _ => d end.
Definition get_bool (env : flag_env) (n : bytes) : bool := match assoc n env with Some (VBool b) => b | _ => false end.

Definition char_defs : flag_defs :=
  [(bos "length", FInt); (bos "allow", FString); (bos "require", FString); (bos "exclude", FString); (bos "entropy", FBool)].
Definition word_defs : flag_defs :=
  [(bos "size", FInt); (bos "list", FString); (bos "file", FString); (bos "separator", FString); (bos "capitalize", FString); (bos "entropy", FBool)].

(** ---- the plan ---- *)
Inductive word_source := BuiltinWords | BuiltinSyllables | FromFile (words : list bytes).
Record wl_plan := mkWP { wpSource : word_source; wpSize : Z; wpSep : sep_fun; wpCap : cap_scheme }.

Inductive action :=
| AUsage                    (* usage text on standard output, exit status 2; no password *)
| AFlagError                (* flag error on standard error, exit status 2 *)
| AHelp                     (* -h: exit status 0, nothing on standard output *)
| AFatal                    (* log.Fatalln on standard error, exit status 1 *)
| AOutside
| AChar (r : char_recipe) (entropy_only : bool)
| AWords (p : wl_plan) (entropy_only : bool).

Definition files := bytes -> option bytes.   (* path -> content, None: cannot be read *)

Definition plan_chars (env : flag_env) : action :=
  let r := mkCR (get_int env (bos "length") default_length)
                (parse_classes (get_str env (bos "allow") []) default_allow)
                (parse_classes (get_str env (bos "require") []) default_require)
                (parse_classes (get_str env (bos "exclude") []) default_exclude) [] [] [] in
  AChar r (get_bool env (bos "entropy")).

Definition plan_words (fs : files) (env : flag_env) : action :=
  let file := get_str env (bos "file") [] in
  let src := match file with
             | [] => let l := get_str env (bos "list") default_list in
                     if beqb l (bos "words") then Some (Some BuiltinWords)
                     else if beqb l (bos "syllables") then Some (Some BuiltinSyllables) else None
             | _ => match fs file with Some data => Some (Some (FromFile (fields data))) | None => Some None end
             end in
  match src with
  | None => AUsage                 (* unknown list *)
  | Some None => AFatal            (* file cannot be read *)
  | Some (Some ws) =>
      match ws with
      | FromFile [] => AFatal      (* NewWordList refuses an empty list *)
      | _ =>
        let sep := match assoc (get_str env (bos "separator") default_separator) separator_map with
                   | Some f => f | None => SepChar [] end in          (* unknown word: nil function, empty SeparatorChar *)
        let cap := match assoc (get_str env (bos "capitalize") default_capitalize) capitalize_map with
                   | Some c => c | None => CapOther end in
        AWords (mkWP ws (get_int env (bos "size") default_size) sep cap) (get_bool env (bos "entropy"))
      end
  end.

Definition to_action {A} (p : parse_res A) (k : A -> action) : action :=
  match p with POk a => k a | PError => AFlagError | PHelp => AHelp | POutside => AOutside end.

(** main: [argv] is os.Args[1:] *)
Definition cli_plan (fs : files) (argv : list bytes) : action :=
  match argv with
  | [] => AUsage
  | a0 :: rest =>
      (* flag.Parse() on the global, empty flag set comes first *)
      match parse_flags 1 [] [a0] [] with
      | PError => AFlagError
      | PHelp => AHelp
      | _ =>
        if beqb a0 (bos "characters") then to_action (parse_flags (S (List.length rest)) char_defs rest []) plan_chars
        else if beqb a0 (bos "words") then to_action (parse_flags (S (List.length rest)) word_defs rest []) (plan_words fs)
        else AUsage
      end
  end.

(** what the LIBRARY writes to standard output during the planned call (its empty-alphabet notice;
    the CLI's separators never have an empty alphabet) *)
Definition cli_diag (a : action) : list diag :=
  match a with
  | AChar r false => char_generate_diag r
  | AChar r true => char_entropy_diag r
  | _ => []
  end.

(** ---- execution: the library model on the planned recipe ---- *)
Record cli_out := mkOut { coExit : N; coPassword : option (list token); coEntropy : option (sum entropy wl_entropy) }.

Section Exec.
Variable title : bytes -> bytes.
(** the two shipped lists as NewWordList constructs them (the driver computes them
    ONCE with the model's own new_word_list and hands them in) *)
Variable agile_words agile_syllables : outcome (option word_list).

Definition word_list_of (s : word_source) : outcome (option word_list) :=
  match s with
  | BuiltinWords => agile_words
  | BuiltinSyllables => agile_syllables
  | FromFile ws => fst (new_word_list title None ws)
  end.

Definition cli_exec (a : action) : gen cli_out :=
  match a with
  | AUsage | AFlagError | AOutside => Ret (mkOut 2 None None)
  | AHelp => Ret (mkOut 0 None None)
  | AFatal => Ret (mkOut 1 None None)
  | AChar r true => Ret (mkOut 0 None (Some (Datatypes.inl (char_entropy r))))
  | AChar r false =>
      bind (char_generate default_budget r) (fun o =>
        match o with
        | Done cand => Ret (mkOut 0 (Some (map (fun g => Tok g AtomType) cand)) None)
        | _ => Ret (mkOut 1 None None)
        end)
  | AWords p eo =>
      match word_list_of (wpSource p) with
      | Done (Some wl) =>
          let r := mkWLR (Some wl) (wpSize p) (wpSep p) (wpCap p) in
          if eo then bind (wl_entropy_gen default_budget r wl) (fun e => Ret (mkOut 0 None (Some (Datatypes.inr e))))
          else bind (wl_generate title default_budget r) (fun o =>
                 match o with
                 | Done (ts, _) => Ret (mkOut 0 (Some ts) None)
                 | _ => Ret (mkOut 1 None None)
                 end)
      | _ => Ret (mkOut 1 None None)
      end
  end.
End Exec.
