(** API-level state machine for call histories (C15).  Objects are recipes the
    caller holds; character recipes carry the two unexported cache fields
    (allowedSet, requiredSets) that buildCharacterList writes.  Every exported
    method has a VALUE receiver: it runs on a private copy, which is dropped. *)
From Spg.Base Require Import Prelude Utf8 Bytes.
From Spg.Model Require Import Tables Rand GenM CharSets CharGen Token WordList WordGen.
Close Scope N_scope.

Record cache : Type := mkCache { cAllowed : list bytes; cRequired : list (list bytes) }.
Record char_obj : Type := mkCO { coPub : char_recipe; coCache : option cache }.

Inductive obj : Type := OChar (c : char_obj) | OWL (w : wl_recipe).
Definition state := list obj.

(** buildCharacterList on a (copy of a) recipe: overwrites both cache fields from
    the public fields and returns the character list *)
Definition build (c : char_obj) : char_obj * list bytes :=
  (mkCO (coPub c) (Some (mkCache (allowed_set (coPub c)) (required_sets (coPub c)))), alphabet (coPub c)).

(** the methods, written as the code is: they build, then READ THE CACHE FIELDS *)
Definition cached_required (c : char_obj) : list (list bytes) :=
  match coCache c with Some k => cRequired k | None => [] end.
Definition cached_count (c : char_obj) (L : nat) : Z :=
  match coCache c with
  | Some k => count_code (sort (union (cAllowed k) (req_union (cRequired k))))
                         (filter (fun R => match R with [] => false | _ => true end) (cRequired k)) L
  | None => 0%Z
  end.

Definition m_entropy (c : char_obj) : entropy :=
  let (c', cl) := build c in
  match req_union (cached_required c') with
  | [] => EntSimple (crLength (coPub c')) (N.of_nat (length cl))
  | _ => EntCount (cached_count c' (len_nat (coPub c')))
  end.

Definition m_generate (b : budget) (c : char_obj) : gen (outcome (list bytes)) :=
  let r := coPub c in
  if (crLength r <? 1)%Z then Ret (Err EBadLength)
  else
    let (c', chars) := build c in
    match chars with
    | [] => Ret (Err ENoChars)
    | _ =>
      if negb (acceptable (bTrials b) (bFailNum b) (bFailDen b) (cached_count c' (len_nat r))
                          (Z.of_nat (length chars) ^ Z.of_nat (len_nat r))%Z)
      then Ret (Err EFailRate)
      else retry (Z.to_nat (bTrials b)) (attempt chars (len_nat r)) (require_filter (cached_required c'))
    end.

Definition m_alphabet (c : char_obj) : bytes := concat (snd (build c)).

Inductive op : Type :=
| SetChar (h : nat) (r : char_recipe)            (* the caller assigns public fields *)
| SetWL (h : nat) (w : wl_recipe)
| Generate (h : nat) (src : source)
| Entropy (h : nat) (src : source)
| Alphabet (h : nat)
| SuccessProb (h : nat).

Inductive result : Type :=
| RNone
| RChar (o : outcome (list bytes)) (consumed : N) (e : entropy)
| RWord (o : outcome (list token * wl_entropy)) (consumed : N)
| REntropy (e : entropy)
| RWLEntropy (o : outcome wl_entropy) (consumed : N)
| RAlphabet (a : bytes)
| RSuccess (num den : Z).

Fixpoint set_nth {X} (n : nat) (x : X) (l : list X) : list X :=
  match n, l with
  | O, _ :: t => x :: t
  | S n', y :: t => y :: set_nth n' x t
  | _, [] => []
  end.

Section Step.
Variable title : bytes -> bytes.
Variable b : budget.

(** calls take the object by value: the state is returned unchanged *)
Definition call (s : state) (o : op) : result :=
  match o with
  | Generate h src =>
      match nth_error s h with
      | Some (OChar c) => let (out, n) := run_src (m_generate b c) src in RChar out n (m_entropy c)
      | Some (OWL w) => let (out, n) := run_src (wl_generate title b w) src in RWord out n
      | None => RNone
      end
  | Entropy h src =>
      match nth_error s h with
      | Some (OChar c) => REntropy (m_entropy c)
      | Some (OWL w) =>
          match wrList w with
          | Some wl => let (out, n) := run_src (fmap Done (wl_entropy_gen b w wl)) src in RWLEntropy out n
          | None => RWLEntropy (Panic PNil) 0
          end
      | None => RNone
      end
  | Alphabet h => match nth_error s h with Some (OChar c) => RAlphabet (m_alphabet c) | _ => RNone end
  | SuccessProb h =>
      match nth_error s h with
      | Some (OChar c) => let (c', cl) := build c in
                          RSuccess (cached_count c' (len_nat (coPub c))) (Z.of_nat (length cl) ^ Z.of_nat (len_nat (coPub c)))%Z
      | _ => RNone
      end
  | _ => RNone
  end.

Definition step (s : state) (o : op) : state * result :=
  match o with
  | SetChar h r =>
      (* only the public fields are assigned; whatever the cache fields hold stays *)
      match nth_error s h with
      | Some (OChar c) => (set_nth h (OChar (mkCO r (coCache c))) s, RNone)
      | _ => (s, RNone)
      end
  | SetWL h w => match nth_error s h with Some (OWL _) => (set_nth h (OWL w) s, RNone) | _ => (s, RNone) end
  | _ => (s, call s o)
  end.

Fixpoint run_ops (s : state) (ops : list op) : list result :=
  match ops with
  | [] => []
  | o :: ops' => let (s', r) := step s o in r :: run_ops s' ops'
  end.
End Step.
