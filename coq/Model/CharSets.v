(** char_gen.go buildCharacterList, char_sets.go requireFilter: the set algebra
    that turns a CharRecipe into an alphabet and a family of required sets. *)
From Spg.Base Require Import Prelude Utf8 Bytes.
From Spg.Model Require Import Tables.
Open Scope N_scope.

Record char_recipe : Type := mkCR {
  crLength : Z;
  crAllow : N; crRequire : N; crExclude : N;
  crAllowChars : bytes;
  crRequireSets : list bytes;
  crExcludeChars : bytes
}.

Definition has_flag (m f : N) : bool := negb (N.land m f =? 0).

(** the class strings selected by a flag word, in table order *)
Definition flag_classes (m : N) : list bytes :=
  map snd (filter (fun p => has_flag m (fst p)) flag_table).

(** setFromString: the set of characters of a string *)
Definition gset (s : bytes) : list bytes := dedup (explode s).

(** characters of a custom string together with the selected classes
    (Go concatenates the strings before splitting; the class strings are ASCII,
    so splitting separately gives the same characters) *)
Definition chars_of (custom : bytes) (m : N) : list bytes :=
  dedup (explode custom ++ concat (map explode (flag_classes m))).

Definition excluded_set (r : char_recipe) : list bytes := chars_of (crExcludeChars r) (crExclude r).

(** r.requiredSets after exclusion: custom non-empty strings first, then classes *)
Definition required_sets (r : char_recipe) : list (list bytes) :=
  let ex := excluded_set r in
  map (fun s => diff (gset s) ex)
      (filter (fun s => match s with [] => false | _ => true end) (crRequireSets r)
       ++ flag_classes (crRequire r)).

(** r.allowedSet: allowed, not excluded, not in any required set *)
Definition allowed_set (r : char_recipe) : list bytes :=
  fold_left (fun a R => diff a R) (required_sets r)
            (diff (chars_of (crAllowChars r) (crAllow r)) (excluded_set r)).

Definition req_union (Rs : list (list bytes)) : list bytes := dedup (concat Rs).

(** the alphabet, in the canonical (sorted) order the verif hook imposes *)
Definition alphabet (r : char_recipe) : list bytes :=
  sort (union (allowed_set r) (req_union (required_sets r))).

(** required sets that still have a member: the ones requireFilter enforces *)
Definition live_sets (r : char_recipe) : list (list bytes) :=
  filter (fun R => match R with [] => false | _ => true end) (required_sets r).

Definition hits (cand R : list bytes) : bool := existsb (fun g => mem g R) cand.

(** requireFilter on a candidate given as its list of characters *)
Definition require_filter (Rs : list (list bytes)) (cand : list bytes) : bool :=
  forallb (fun R => match R with [] => true | _ => hits cand R end) Rs.

(** Alphabet(): the sorted characters joined into one string *)
Definition alphabet_string (r : char_recipe) : bytes := concat (alphabet r).

(** ---- specification vocabulary, from the public fields only ---- *)
Definition class_of (f : N) : list bytes :=
  concat (map (fun p => if fst p =? f then explode (snd p) else []) flag_table).
Definition in_flags (m : N) (g : bytes) : Prop :=
  exists f ct, In (f, ct) flag_table /\ has_flag m f = true /\ In g (explode ct).
Definition Excluded (r : char_recipe) (g : bytes) : Prop :=
  In g (explode (crExcludeChars r)) \/ in_flags (crExclude r) g.
Definition Mentioned (r : char_recipe) (g : bytes) : Prop :=
  In g (explode (crAllowChars r)) \/ in_flags (crAllow r) g \/
  (exists s, In s (crRequireSets r) /\ In g (explode s)) \/ in_flags (crRequire r) g.
Definition Allowed (r : char_recipe) (g : bytes) : Prop := Mentioned r g /\ ~ Excluded r g.

(** the required families as given (before exclusion): non-empty custom sets and required classes *)
Definition req_families (r : char_recipe) : list (list bytes) :=
  map explode (filter (fun s => match s with [] => false | _ => true end) (crRequireSets r)
               ++ flag_classes (crRequire r)).
Definition Live (r : char_recipe) (F : list bytes) : Prop := exists g, In g F /\ ~ Excluded r g.

Definition Satisfies (r : char_recipe) (cand : list bytes) : Prop :=
  Z.of_nat (length cand) = crLength r /\
  (forall g, In g cand -> Allowed r g) /\
  (forall F, In F (req_families r) -> Live r F -> exists g, In g cand /\ In g F /\ ~ Excluded r g).
