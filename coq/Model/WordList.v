(** word_gen.go NewWordList (after the repair F2): duplicates collapse, the
    title-cased twin of a listed word is removed, un-capitalisable words are
    counted among the words kept.  Go's map iteration orders are explicit
    parameters: [sigma] (visiting order of the twin-removal pass) and the
    emission order of the final slice. *)
From Spg.Base Require Import Prelude Utf8 Bytes.
From Spg.Model Require Import Tables CharGen.
Close Scope N_scope.

Section WL.
(** strings.Title: an oracle (section variable); only idempotence is assumed, in Proofs/ *)
Variable title : bytes -> bytes.

Definition remove (x : bytes) (l : list bytes) : list bytes := filter (fun y => negb (beqb x y)) l.

(** one iteration of the second pass on the current key set S *)
Definition visit (S : list bytes) (w : bytes) : list bytes :=
  if mem w S then
    let c := title w in
    if mem c S then (if beqb c w then S else remove c S) else S
  else S.
Definition pass2 (sigma : list bytes) (S0 : list bytes) : list bytes := fold_left visit sigma S0.

(** the set of words kept, for a visiting order sigma *)
Definition kept_with (sigma : list bytes) (l : list bytes) : list bytes := pass2 sigma (dedup l).
(** ... and with the order in which the distinct words first occur *)
Definition kept (l : list bytes) : list bytes := kept_with (dedup l) l.

Definition uncap_count (K : list bytes) : nat := length (filter (fun w => beqb (title w) w) K).

Record word_list : Type := mkWL { wlWords : list bytes; wlUncap : nat }.

Definition same_set (a b : list bytes) : bool :=
  forallb (fun x => mem x b) a && forallb (fun x => mem x a) b && Nat.eqb (length a) (length b).

(** NewWordList.  [emit]: the order in which Go's map range emitted the kept
    words (read back from the implementation); it must be a rearrangement of the
    kept set, otherwise the model reports a mismatch by returning [None]. *)
Definition new_word_list (emit : option (list bytes)) (l : list bytes) : outcome (option word_list) * list diag :=
  match l with
  | [] => (Err EEmptyList, [])
  | _ =>
    let K := kept l in
    let ws := match emit with Some e => e | None => K end in
    let d := if Nat.ltb (length K) (length l) then [DDuplicates (Z.of_nat (length l - length K))] else [] in
    if same_set ws K then (Done (Some (mkWL ws (uncap_count K))), d) else (Done None, d)
  end.
End WL.

(** strings.Title as a finite graph supplied by the harness (computed by the
    real strings.Title on the words of the case); identity elsewhere *)
Fixpoint title_of (tbl : list (bytes * bytes)) (w : bytes) : bytes :=
  match tbl with
  | [] => w
  | (x, t) :: tbl' => if beqb x w then t else title_of tbl' w
  end.

(** strings.Title on ASCII: upper-case a letter that starts the string or follows
    a byte that is not a letter, digit or underscore.  Used as the non-vacuity
    instance; fuzzed against strings.Title on ASCII input. *)
Definition is_lower (b : N) : bool := (N.leb 97 b) && (N.leb b 122).
Definition is_alnum_ (b : N) : bool :=
  ((N.leb 97 b) && (N.leb b 122)) || ((N.leb 65 b) && (N.leb b 90)) || ((N.leb 48 b) && (N.leb b 57)) || N.eqb b 95.
Fixpoint title_ascii_from (start : bool) (s : bytes) : bytes :=
  match s with
  | [] => []
  | b :: r => (if start && is_lower b then (b - 32)%N else b) :: title_ascii_from (negb (is_alnum_ b)) r
  end.
Definition title_ascii (s : bytes) : bytes := title_ascii_from true s.
