(** Constants of the package, as the model uses them.  Properties/C16 proves that
    they equal what the translator reads from the current source (coq/Gen). *)
From Spg.Base Require Import Prelude.
From Coq Require Import String Ascii.
Open Scope N_scope.

Definition bos (s : string) : bytes := map N_of_ascii (list_ascii_of_string s).

Definition ctUpper : bytes := bos "ABCDEFGHIJKLMNOPQRSTUVWXYZ".
Definition ctLower : bytes := bos "abcdefghijklmnopqrstuvwxyz".
Definition ctDigits : bytes := bos "0123456789".
Definition ctAmbiguous : bytes := bos "0O1Il5S".
Definition ctSymbols : bytes := bos "!@.-_*".

(** CTFlag bit masks *)
Definition Uppers : N := 1.
Definition Lowers : N := 2.
Definition Digits : N := 4.
Definition Symbols : N := 8.
Definition Ambiguous : N := 16.
Definition FNone : N := 0.
Definition Letters : N := N.lor Uppers Lowers.
Definition FAll : N := N.lor (N.lor Letters Digits) Symbols.

(** charTypeByFlag *)
Definition flag_table : list (N * bytes) :=
  [(Uppers, ctUpper); (Lowers, ctLower); (Digits, ctDigits); (Symbols, ctSymbols); (Ambiguous, ctAmbiguous)].

Definition MaxTrialsDefault : Z := 200%Z.
(** MaxFailRate = 1.0 / 1000000000, as numerator / denominator *)
Definition MaxFailRateNum : Z := 1%Z.
Definition MaxFailRateDen : Z := 1000000000%Z.

(** token types and index kinds *)
Definition SeparatorType : N := 0.
Definition AtomType : N := 1.
Definition CharacterIndexKind : N := 0.
Definition VarAtomsIndexKind : N := 1.
Definition AlternatingIndexKind : N := 2.
Definition FullIndexKind : N := 3.

(** CapScheme constants *)
Definition csNone : bytes := bos "none".
Definition csFirst : bytes := bos "first".
Definition csAll : bytes := bos "all".
Definition csRandom : bytes := bos "random".
Definition csOne : bytes := bos "one".

(** templates of the library's output statements (util.go:63, word_gen.go:119) *)
Definition tpl_entropy_simple : bytes := bos "entropySimple: There must be a positive number of elements. Not ".
Definition tpl_duplicates : bytes := bos " duplicate words found when setting up word list generator".
