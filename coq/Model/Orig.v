(** Faithful models of the algorithms as they were at the pinned commit, where
    reading found them wrong (DESIGN §8).  They are the regression oracle: each
    carries a [..._refuted] theorem with the concrete witness that also replays
    on the real code before the corresponding `fix:` commit. *)
From Spg.Base Require Import Prelude Utf8 Bytes.
From Spg.Model Require Import Tables CharSets CharGen Token.
Close Scope N_scope.

(** ---- F4: Tokenize without the parity check on a full index ---- *)
Definition tokenize_orig (pw : bytes) (ti : list N) : outcome (list token) :=
  let chars := explode pw in
  match ti with
  | [] => Err EEmptyIndex
  | k :: rest =>
    if N.eqb k CharacterIndexKind then Done (map (fun c => Tok c AtomType) chars)
    else if N.eqb k VarAtomsIndexKind then slice_lens false 0 rest chars
    else if N.eqb k AlternatingIndexKind then slice_lens true 0 rest chars
    else if N.eqb k FullIndexKind then slice_pairs rest chars
    else Err EUnknownKind
  end.

Theorem tokenize_orig_refuted : tokenize_orig [97;98;99]%N [3;1]%N = Panic PIndex.
Proof. vm_compute. reflexivity. Qed.

(** ---- F3: MakeIndices with byte lengths ---- *)
Definition max_len_orig (ts : list token) : nat := fold_right (fun t m => Nat.max (length (value t)) m) 0 ts.
Definition kind_orig (ts : list token) : N :=
  if all_atoms ts && Nat.eqb (max_len_orig ts) 1 then CharacterIndexKind
  else if all_atoms ts then VarAtomsIndexKind
  else if is_alternating ts then AlternatingIndexKind
  else FullIndexKind.
Fixpoint lens_orig (ts : list token) : option (list N) :=
  match ts with
  | [] => Some []
  | t :: r => if Nat.ltb 255 (length (value t)) then None
              else match lens_orig r with Some l => Some (N.of_nat (length (value t)) :: l) | None => None end
  end.
Fixpoint lens_types_orig (ts : list token) : option (list N) :=
  match ts with
  | [] => Some []
  | t :: r => if Nat.ltb 255 (length (value t)) then None
              else match lens_types_orig r with Some l => Some (N.of_nat (length (value t)) :: ttype t :: l) | None => None end
  end.
Definition make_indices_orig (ts : list token) : outcome (list N) :=
  match ts with
  | [] => Done []
  | _ =>
    let k := kind_orig ts in
    if N.eqb k CharacterIndexKind then Done [CharacterIndexKind]
    else if N.eqb k VarAtomsIndexKind || N.eqb k AlternatingIndexKind
         then match lens_orig ts with Some l => Done (k :: l) | None => Err ETokenTooLarge end
    else match lens_types_orig ts with Some l => Done (FullIndexKind :: l) | None => Err ETokenTooLarge end
  end.

(** three-character password over "é": index [1;2;2;2], decoding fails *)
Theorem roundtrip_orig_refuted :
  let e := [195;169]%N in
  let ts := [Tok e AtomType; Tok e AtomType; Tok e AtomType] in
  make_indices_orig ts = Done [1;2;2;2]%N /\ tokenize (pw_string ts) [1;2;2;2]%N = Err ETooShort.
Proof. vm_compute. split; reflexivity. Qed.

(** F3b: [atom "a"; atom ""] gets the lossy one-byte index *)
Theorem lossy_orig_refuted :
  let ts := [Tok [97]%N AtomType; Tok [] AtomType] in
  make_indices_orig ts = Done [0]%N /\ tokenize (pw_string ts) [0]%N = Done [Tok [97]%N AtomType].
Proof. vm_compute. split; reflexivity. Qed.

(** ---- F1: n() over the power set of the required sets ----
    n(A, Req) = |A ∪ ⋃Req|^L − Σ_{S ⊊ Req} n(A, S), the required sets keyed by
    identity (position).  [allowed] is the allowed-only set, disjoint from the
    required ones.  Fuel = number of sets + 1. *)
Fixpoint sublists {X} (l : list X) : list (list X) :=
  match l with
  | [] => [[]]
  | x :: l' => let s := sublists l' in map (cons x) s ++ s
  end.
Fixpoint n_orig_fuel (fuel : nat) (allowed : list bytes) (req : list (list bytes)) (L : nat) : Z :=
  match fuel with
  | O => 0%Z
  | S f =>
    let R := dedup (allowed ++ concat req) in
    let total := (Z.of_nat (length R) ^ Z.of_nat L)%Z in
    let proper := filter (fun s => Nat.ltb (length s) (length req)) (sublists req) in
    (total - fold_right Z.add 0%Z (map (fun s => n_orig_fuel f allowed s L) proper))%Z
  end.
Definition n_orig (r : char_recipe) : Z :=
  n_orig_fuel (S (length (required_sets r))) (allowed_set r) (required_sets r) (len_nat r).

(** Allow: Letters, Require: Digits, RequireSets {"357"}, Length 1: the pinned
    algorithm answers -3 (NaN entropy); the true count is 3. *)
Theorem n_orig_refuted :
  let r := mkCR 1 Letters Digits 0 [] [[51;53;55]%N] [] in
  n_orig r = (-3)%Z /\ recipe_count r = 3%Z.
Proof. vm_compute. split; reflexivity. Qed.
(** two equal required sets *)
Theorem n_orig_refuted_equal_sets :
  let r := mkCR 4 0 Digits 0 [] [ctDigits] [] in
  n_orig r = (-10000)%Z /\ recipe_count r = 10000%Z.
Proof. vm_compute. split; reflexivity. Qed.
(** ... and on pairwise disjoint sets it agrees (the only case the shipped vectors exercise) *)
Example n_orig_agrees_disjoint :
  let r := mkCR 3 0 (N.lor Letters Digits) 0 [] [] [] in
  n_orig r = 40560%Z /\ recipe_count r = 40560%Z.
Proof. vm_compute. split; reflexivity. Qed.
