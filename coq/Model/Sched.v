(** C14: concurrent callers.  Threads are programs over a shared heap; a run is
    ANY interleaving of single accesses.  The API methods are instances: a call
    reads the shared object (the by-value receiver copy) and computes on the copy. *)
From Spg.Base Require Import Prelude Utf8 Bytes.
From Spg.Model Require Import Tables Rand GenM CharSets CharGen Token WordList WordGen Api.
Close Scope N_scope.

Section Sched.
Variables loc val res : Type.
Variable loc_eqb : loc -> loc -> bool.
Definition heap := loc -> val.
Definition upd (h : heap) (l : loc) (v : val) : heap := fun l' => if loc_eqb l l' then v else h l'.

(** a thread as a program over the shared heap *)
Inductive prog :=
| Return (r : res)
| Read (l : loc) (k : val -> prog)
| Write (l : loc) (v : val) (k : prog).

Fixpoint wfree (p : prog) : Prop :=
  match p with Return _ => True | Read _ k => forall v, wfree (k v) | Write _ _ _ => False end.

Fixpoint run_alone (h : heap) (p : prog) : res :=
  match p with
  | Return r => r
  | Read l k => run_alone h (k (h l))
  | Write l v k => run_alone (upd h l v) k
  end.

Definition config := (heap * list prog)%type.

(** thread i performs its next single access *)
Definition step1 (h : heap) (p : prog) : heap * prog :=
  match p with
  | Return r => (h, Return r)
  | Read l k => (h, k (h l))
  | Write l v k => (upd h l v, k)
  end.
Fixpoint step_at (i : nat) (h : heap) (ts : list prog) : heap * list prog :=
  match ts, i with
  | [], _ => (h, [])
  | p :: ts', O => let '(h', p') := step1 h p in (h', p' :: ts')
  | p :: ts', S i' => let '(h', ts'') := step_at i' h ts' in (h', p :: ts'')
  end.
Definition sstep (c : config) (i : nat) : config := step_at i (fst c) (snd c).
Definition run (sched : list nat) (c : config) : config := fold_left sstep sched c.

(** a race: two different threads whose NEXT accesses conflict *)
Definition next (p : prog) : option (loc * bool) :=
  match p with Return _ => None | Read l _ => Some (l, false) | Write l _ _ => Some (l, true) end.
Definition race (ts : list prog) : Prop :=
  exists i j p q l l' w w', i <> j /\ nth_error ts i = Some p /\ nth_error ts j = Some q /\
    next p = Some (l, w) /\ next q = Some (l', w') /\ loc_eqb l l' = true /\ (w = true \/ w' = true).
End Sched.
Arguments Return {loc val res}. Arguments Read {loc val res}. Arguments Write {loc val res}.

(** ---- the API as threads: locations are object handles ---- *)
Section ApiThreads.
Variable title : bytes -> bytes.
Variable b : budget.

Definition handle_of (o : op) : nat :=
  match o with SetChar h _ | SetWL h _ | Generate h _ | Entropy h _ | Alphabet h | SuccessProb h => h end.

(** a method call: ONE read of the shared object (Go copies the receiver), then
    the method body on the private copy *)
Definition call_on (ob : option obj) (o : op) : result :=
  call title b (match ob with Some x => [x] | None => [] end)
       (match o with
        | Generate _ src => Generate 0 src | Entropy _ src => Entropy 0 src
        | Alphabet _ => Alphabet 0 | SuccessProb _ => SuccessProb 0
        | SetChar _ r => SetChar 0 r | SetWL _ w => SetWL 0 w
        end).

Fixpoint thread_prog (ops : list op) (acc : list result) : prog nat (option obj) (list result) :=
  match ops with
  | [] => Return (rev acc)
  | o :: ops' => Read (handle_of o) (fun ob => thread_prog ops' (call_on ob o :: acc))
  end.

Definition heap_of (s : state) : heap nat (option obj) := fun h => nth_error s h.
End ApiThreads.

(** ---- deciding, from the facts the translator extracts (coq/Gen/Effects.v),
    that no API entry point writes memory another goroutine can reach ---- *)
From Coq Require Import String.
Section Footprints.
(** the facts, in the translator's vocabulary *)
Variable funcs : list (string * bool * string * list (string * string)).  (* name, exported, receiver kind, params (name, kind) *)
Variable stores : list (string * nat * string * string).                  (* function, line, target, class *)
Variable calls : list (string * string * list (nat * string)).            (* caller, callee, reference arguments (index, origin) *)
Variable direct : list (string * nat * string * nat).                     (* stores that hit the cell a pointer parameter points to *)

Definition param_kind (f : string) (k : nat) : string :=
  match find (fun x => String.eqb (fst (fst (fst x))) f) funcs with
  | Some (_, _, _, ps) => match nth_error ps k with Some (_, kd) => kd | None => "?"%string end
  | None => "?"%string
  end.
Definition is_known (f : string) : bool := existsb (fun x => String.eqb (fst (fst (fst x))) f) funcs.

Definition param_of_class (c : string) : option nat :=
  if String.prefix "param:" c then
    match substring 6 (String.length c - 6) c with
    | "0"%string => Some 0 | "1"%string => Some 1 | "2"%string => Some 2 | "3"%string => Some 3 | "4"%string => Some 4
    | "5"%string => Some 5 | "6"%string => Some 6 | "7"%string => Some 7 | _ => Some 99
    end
  else None.

(** a store is private when it is to fresh memory, or hits the cell a POINTER
    parameter points to and the caller handed over a private cell for it *)
Definition store_private (priv : list nat) (s : string * nat * string * string) : bool :=
  let '(f, line, target, cls) := s in
  if String.eqb cls "fresh" then true
  else match param_of_class cls with
       | Some k => existsb (Nat.eqb k) priv && String.eqb (param_kind f k) "pointer" &&
                   existsb (fun d => let '(f', l', t', k') := d in String.eqb f f' && Nat.eqb line l' && String.eqb target t' && Nat.eqb k k') direct
       | None => false       (* global:, captured:, unknown *)
       end.

(** the pointer parameters of a callee that receive a private cell at a call site *)
Definition private_args (callee : string) (args : list (nat * string)) : list nat :=
  map fst (filter (fun a => (String.eqb (snd a) "fresh" || String.eqb (snd a) "addr-of-value-copy") &&
                            String.eqb (param_kind callee (fst a)) "pointer") args).

Definition is_ext (c : string) : bool := String.prefix "ext:" c.
Definition is_dynamic (c : string) : bool := String.prefix "dynamic:" c.

(** [explore fuel todo seen]: worklist closure over the call graph.  Each item is a
    function together with the pointer parameters for which its caller handed
    over a private cell; the answer is [true] iff no store of any function
    reached this way is shared. *)
Fixpoint nats_eqb (x y : list nat) : bool :=
  match x, y with
  | [], [] => true
  | a :: x', c :: y' => Nat.eqb a c && nats_eqb x' y'
  | _, _ => false
  end.
Definition item_eqb (x y : string * list nat) : bool := String.eqb (fst x) (fst y) && nats_eqb (snd x) (snd y).
Definition stores_ok (f : string) (priv : list nat) : bool :=
  forallb (fun s => negb (String.eqb (fst (fst (fst s))) f) || store_private priv s) stores.
Definition callees (f : string) : option (list (string * list nat)) :=
  fold_right (fun c acc =>
      let '(caller, callee, args) := c in
      if negb (String.eqb caller f) then acc
      else if is_ext callee || is_dynamic callee then acc   (* external mutators are listed as stores; closures are entry points *)
      else if is_known callee then option_map (cons (callee, private_args callee args)) acc
      else None) (Some []) calls.
Fixpoint explore (fuel : nat) (todo seen : list (string * list nat)) : bool :=
  match fuel with
  | O => false
  | S fuel' =>
      match todo with
      | [] => true
      | it :: rest =>
          if existsb (item_eqb it) seen then explore fuel' rest seen
          else if stores_ok (fst it) (snd it) then
            match callees (fst it) with
            | Some cs => explore fuel' (cs ++ rest) (it :: seen)
            | None => false
            end
          else false
      end
  end.
Definition clean (fuel : nat) (f : string) (priv : list nat) : bool := explore fuel [(f, priv)] [].
End Footprints.
