(** C07: the counting algorithm returns the exact number of strings of the given
    length over the alphabet that hit every required set — for arbitrary
    overlaps among the sets and every length. *)
From Spg.Base Require Import Prelude Utf8 Bytes.
From Spg.Model Require Import Tables CharSets CharGen.
From Spg.Proofs Require Import SetProofs.

(** all strings of length L over A (a mathematical enumeration; evaluated only on tiny instances) *)
Fixpoint strings_over {X} (A : list X) (L : nat) : list (list X) :=
  match L with
  | O => [[]]
  | S L' => flat_map (fun x => map (cons x) (strings_over A L')) A
  end.

Definition hits_all (Rs : list (list bytes)) (s : list bytes) : bool := forallb (hits s) Rs.

Definition count_valid (A : list bytes) (Rs : list (list bytes)) (L : nat) : nat :=
  length (filter (hits_all Rs) (strings_over A L)).

Lemma length_flat_map_const {X Y} (f : X -> list Y) l c :
  (forall x, In x l -> length (f x) = c) -> length (flat_map f l) = (length l * c)%nat.
Proof.
  induction l as [|x l IH]; intros H; cbn; [reflexivity|].
  rewrite app_length. rewrite (H x) by (left; reflexivity).
  rewrite IH by (intros y Hy; apply H; right; exact Hy). lia.
Qed.

Lemma strings_over_length {X} (A : list X) L : length (strings_over A L) = (length A ^ L)%nat.
Proof.
  induction L as [|L IH]; [reflexivity|]. cbn [strings_over Nat.pow].
  rewrite (length_flat_map_const _ _ (length A ^ L)%nat); [reflexivity|].
  intros x _. rewrite map_length. exact IH.
Qed.

Lemma strings_over_In {X} (A : list X) L s :
  In s (strings_over A L) <-> length s = L /\ forall x, In x s -> In x A.
Proof.
  revert s. induction L as [|L IH]; intros s; cbn [strings_over].
  - split.
    + intros [<-|[]]. split; [reflexivity|intros ? []].
    + intros [H _]. destruct s; [left; reflexivity|discriminate].
  - rewrite in_flat_map. split.
    + intros (x & Hx & Hs). apply in_map_iff in Hs. destruct Hs as (t & <- & Ht).
      apply IH in Ht. destruct Ht as [Hl Ht]. split; [cbn; congruence|].
      intros y [<-|Hy]; auto.
    + intros [Hl Hs]. destruct s as [|x t]; [discriminate|]. exists x. split; [apply Hs; left; reflexivity|].
      apply in_map. apply IH. split; [cbn in Hl; congruence|]. intros y Hy. apply Hs. right. exact Hy.
Qed.

Lemma NoDup_map_cons {X} (x : X) l : NoDup l -> NoDup (map (cons x) l).
Proof.
  induction 1 as [|s l Hs Hn IH]; cbn; [constructor|]. constructor; [|exact IH].
  intros H. apply in_map_iff in H. destruct H as (t & E & Ht). inversion E; subst. contradiction.
Qed.

Lemma NoDup_app {X} (l1 l2 : list X) :
  NoDup l1 -> NoDup l2 -> (forall x, In x l1 -> ~ In x l2) -> NoDup (l1 ++ l2).
Proof.
  induction 1 as [|x l1 Hx Hn IH]; intros H2 Hd; cbn; [exact H2|].
  constructor.
  - rewrite in_app_iff. intros [H|H]; [contradiction|]. apply (Hd x); [left; reflexivity|exact H].
  - apply IH; [exact H2|]. intros y Hy. apply Hd. right. exact Hy.
Qed.

Lemma NoDup_product {X} (A : list X) (T : list (list X)) :
  NoDup A -> NoDup T -> NoDup (flat_map (fun x => map (cons x) T) A).
Proof.
  intros HA HT. induction HA as [|x A Hx HA IHA]; cbn [flat_map]; [constructor|].
  apply NoDup_app.
  - apply NoDup_map_cons. exact HT.
  - exact IHA.
  - intros s Hs Hs'. apply in_map_iff in Hs. destruct Hs as (t & <- & Ht).
    apply in_flat_map in Hs'. destruct Hs' as (y & Hy & Hs'). apply in_map_iff in Hs'.
    destruct Hs' as (t' & E & _). inversion E; subst. contradiction.
Qed.

Lemma strings_over_NoDup {X} (A : list X) L : NoDup A -> NoDup (strings_over A L).
Proof.
  intros HA. induction L as [|L IH]; cbn [strings_over]; [constructor; [intros []|constructor]|].
  apply NoDup_product; assumption.
Qed.

(** filtering commutes with the product construction *)
Lemma filter_flat_map {X Y} (p : Y -> bool) (f : X -> list Y) l :
  filter p (flat_map f l) = flat_map (fun x => filter p (f x)) l.
Proof. induction l as [|x l IH]; cbn; [reflexivity|]. rewrite filter_app, IH. reflexivity. Qed.

Lemma filter_map_cons {X} (p : list X -> bool) x (l : list (list X)) :
  filter p (map (cons x) l) = map (cons x) (filter (fun s => p (x :: s)) l).
Proof. induction l as [|s l IH]; cbn; [reflexivity|]. destruct (p (x :: s)); cbn; rewrite IH; reflexivity. Qed.

Lemma flat_map_filter_nil {X Y} (q : X -> bool) (f g : X -> list Y) l :
  (forall x, q x = true -> f x = g x) -> (forall x, q x = false -> f x = []) ->
  flat_map f l = flat_map g (filter q l).
Proof.
  intros H1 H2. induction l as [|x l IH]; cbn; [reflexivity|].
  destruct (q x) eqn:E; cbn; rewrite IH; [rewrite H1 by exact E|rewrite H2 by exact E]; reflexivity.
Qed.

Lemma filter_false {X} (l : list X) : filter (fun _ => false) l = [].
Proof. induction l; cbn; auto. Qed.
Lemma filter_true {X} (l : list X) : filter (fun _ => true) l = l.
Proof. induction l; cbn; congruence. Qed.

Lemma avoid_strings A R L :
  filter (fun s => negb (hits s R)) (strings_over A L) = strings_over (diff A R) L.
Proof.
  induction L as [|L IH]; [reflexivity|].
  cbn [strings_over]. rewrite filter_flat_map.
  unfold diff at 1. fold (diff A R).
  apply flat_map_filter_nil with (q := fun x => negb (mem x R)).
  - intros x Hx. rewrite filter_map_cons. f_equal. rewrite <- IH.
    apply filter_ext. intros s. unfold hits. cbn [existsb]. apply negb_true_iff in Hx. rewrite Hx. reflexivity.
  - intros x Hx. rewrite filter_map_cons.
    rewrite (filter_ext _ (fun _ => false)); [rewrite filter_false; reflexivity|].
    intros s. unfold hits. cbn [existsb]. apply negb_false_iff in Hx. rewrite Hx. reflexivity.
Qed.

Lemma filter_filter {X} (p q : X -> bool) l : filter p (filter q l) = filter (fun x => q x && p x) l.
Proof. induction l as [|x l IH]; cbn; [reflexivity|]. destruct (q x); cbn; [destruct (p x)|]; rewrite IH; reflexivity. Qed.

Lemma filter_split_length {X} (p q : X -> bool) l :
  length (filter p l) = (length (filter (fun x => p x && q x) l) + length (filter (fun x => p x && negb (q x)) l))%nat.
Proof. induction l as [|x l IH]; cbn; [reflexivity|]. destruct (p x), (q x); cbn; lia. Qed.

Theorem count_code_correct Rs : forall A L, count_code A Rs L = Z.of_nat (count_valid A Rs L).
Proof.
  induction Rs as [|R Rs IH]; intros A L.
  - cbn [count_code]. unfold count_valid. cbn [hits_all forallb].
    rewrite (filter_ext _ (fun _ => true)) by reflexivity.
    rewrite filter_true, strings_over_length, Nat2Z.inj_pow. reflexivity.
  - cbn [count_code]. rewrite !IH. unfold count_valid.
    rewrite (filter_split_length (hits_all Rs) (fun s => hits s R) (strings_over A L)).
    rewrite <- (avoid_strings A R L). rewrite filter_filter.
    rewrite (filter_ext (hits_all (R :: Rs)) (fun s => hits_all Rs s && hits s R)) by (intros s; cbn; apply andb_comm).
    rewrite (filter_ext (fun s => negb (hits s R) && hits_all Rs s) (fun s => hits_all Rs s && negb (hits s R))) by (intros; apply andb_comm).
    lia.
Qed.

Corollary count_code_nonneg A Rs L : (0 <= count_code A Rs L)%Z.
Proof. rewrite count_code_correct. lia. Qed.

Lemma filter_len_le {X} (p : X -> bool) l : (length (filter p l) <= length l)%nat.
Proof. induction l as [|x l IH]; cbn; [lia|]. destruct (p x); cbn; lia. Qed.

Corollary count_code_le A Rs L : (count_code A Rs L <= Z.of_nat (length A) ^ Z.of_nat L)%Z.
Proof.
  rewrite count_code_correct. unfold count_valid. rewrite <- Nat2Z.inj_pow, <- (strings_over_length A L).
  apply inj_le. apply filter_len_le.
Qed.

(** ---- for recipes ---- *)
Definition satisfiesb (r : char_recipe) (s : list bytes) : bool := require_filter (required_sets r) s.

Theorem recipe_count_correct r :
  recipe_count r = Z.of_nat (length (filter (satisfiesb r) (strings_over (alphabet r) (len_nat r)))).
Proof.
  unfold recipe_count. rewrite count_code_correct. unfold count_valid. f_equal. f_equal.
  apply filter_ext. intros s. unfold satisfiesb, hits_all. symmetry. apply require_filter_live.
Qed.

(** For Length >= 0, the strings counted are exactly the ones that satisfy the recipe. *)
Theorem counted_iff_satisfies r s : (0 <= crLength r)%Z ->
  In s (filter (satisfiesb r) (strings_over (alphabet r) (len_nat r))) <-> Satisfies r s.
Proof.
  intros HL. rewrite filter_In, strings_over_In, satisfies_iff. unfold satisfiesb, len_nat.
  split.
  - intros [[H1 H2] H3]. repeat split; auto. lia.
  - intros (H1 & H2 & H3). repeat split; auto. lia.
Qed.

Theorem counted_NoDup r : NoDup (filter (satisfiesb r) (strings_over (alphabet r) (len_nat r))).
Proof. apply NoDup_filter, strings_over_NoDup, alphabet_NoDup. Qed.

Theorem recipe_count_nonneg r : (0 <= recipe_count r)%Z.
Proof. apply count_code_nonneg. Qed.

(** the count is zero exactly when no string satisfies the recipe (the -Inf case) *)
Theorem recipe_count_zero_iff r : (0 <= crLength r)%Z ->
  (recipe_count r = 0%Z <-> forall s, ~ Satisfies r s).
Proof.
  intros HL. rewrite recipe_count_correct. split.
  - intros H s Hs. apply counted_iff_satisfies in Hs; [|exact HL].
    destruct (filter _ _); [destruct Hs|cbn in H; lia].
  - intros H. destruct (filter (satisfiesb r) _) as [|s l] eqn:E; [reflexivity|].
    exfalso. apply (H s). apply counted_iff_satisfies; [exact HL|]. rewrite E. left. reflexivity.
Qed.

(** no live required set: the simple path, size^Length *)
Theorem recipe_count_simple r : live_sets r = [] ->
  recipe_count r = (Z.of_nat (length (alphabet r)) ^ Z.of_nat (len_nat r))%Z.
Proof. intros H. unfold recipe_count. rewrite H. reflexivity. Qed.

(** Entropy() takes the counting path exactly when some required set is live *)
Lemma req_union_nil_iff Rs : req_union Rs = [] <-> forall R, In R Rs -> R = [].
Proof.
  split.
  - intros H R HR. destruct R as [|g R]; [reflexivity|]. exfalso.
    assert (Hg : In g (req_union Rs)) by (apply req_union_In; exists (g :: R); split; [exact HR|left; reflexivity]).
    rewrite H in Hg. destruct Hg.
  - intros H. destruct (req_union Rs) as [|g l] eqn:E; [reflexivity|]. exfalso.
    assert (Hg : In g (req_union Rs)) by (rewrite E; left; reflexivity).
    apply req_union_In in Hg. destruct Hg as (R & HR & Hg). rewrite (H R HR) in Hg. destruct Hg.
Qed.

Lemma live_sets_nil_iff r : live_sets r = [] <-> req_union (required_sets r) = [].
Proof.
  rewrite req_union_nil_iff. unfold live_sets. split.
  - intros H R HR. destruct R as [|g R]; [reflexivity|]. exfalso.
    assert (Hin : In (g :: R) (filter (fun R => match R with [] => false | _ => true end) (required_sets r)))
      by (apply filter_In; split; [exact HR|reflexivity]).
    rewrite H in Hin. destruct Hin.
  - intros H. destruct (filter _ _) as [|R l] eqn:E; [reflexivity|]. exfalso.
    assert (Hin : In R (filter (fun R => match R with [] => false | _ => true end) (required_sets r)))
      by (rewrite E; left; reflexivity).
    apply filter_In in Hin. destruct Hin as [HR Hne]. rewrite (H R HR) in Hne. discriminate.
Qed.

(** What Entropy() reports is log2 of the exact count, on either path (Length >= 0). *)
Theorem char_entropy_count r : (0 <= crLength r)%Z ->
  entropy_count (char_entropy r) = recipe_count r.
Proof.
  intros HL. unfold char_entropy.
  destruct (req_union (required_sets r)) as [|g l] eqn:E.
  - cbn [entropy_count]. rewrite recipe_count_simple by (apply live_sets_nil_iff; exact E).
    rewrite nat_N_Z. unfold len_nat. rewrite Z2Nat.id by exact HL. reflexivity.
  - reflexivity.
Qed.

Lemma pow_pos_fast_eq x p : pow_pos_fast x p = (x ^ Zpos p)%Z.
Proof.
  induction p as [p IH|p IH|]; cbn [pow_pos_fast].
  - rewrite IH. rewrite Pos2Z.inj_xI, Z.pow_add_r, Z.pow_1_r, Z.pow_twice_r by lia. ring.
  - rewrite IH. rewrite Pos2Z.inj_xO, Z.pow_twice_r. reflexivity.
  - rewrite Z.pow_1_r. reflexivity.
Qed.
Lemma zpow_fast_eq x n : (0 <= n)%Z -> zpow_fast x n = (x ^ n)%Z.
Proof. destruct n as [|p|p]; intros H; [reflexivity|apply pow_pos_fast_eq|lia]. Qed.
Lemma count_fast_eq Rs : forall A L, count_fast A Rs L = count_code A Rs L.
Proof.
  induction Rs as [|R Rs IH]; intros A L; cbn [count_fast count_code]; [apply zpow_fast_eq; lia|]. rewrite !IH. reflexivity.
Qed.

Lemma recipe_report_spec r :
  recipe_report r = (alphabet_string r, recipe_count r, char_entropy r, sp_den r).
Proof.
  unfold recipe_report, recipe_count, char_entropy, sp_den, alphabet_string.
  rewrite count_fast_eq, zpow_fast_eq by lia. reflexivity.
Qed.

Example count_example_overlap :
  (* Allow: Letters, Require: Digits, RequireSets {"357"}, Length 1: three strings *)
  recipe_count (mkCR 1 Letters Digits 0 [] [[51; 53; 55]%N] []) = 3%Z.
Proof. vm_compute. reflexivity. Qed.
