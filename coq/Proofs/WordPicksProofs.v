(** The wordlist generator's picks are well formed (every bound in [1, 2^32)):
    this is what puts it under the raw-word layer (Proofs/RawProofs.v,
    LimitProofs.v) — the ideal probabilities of C04/C06 are the limits of the
    frequencies over actual byte tapes — and what excludes a draw from zero
    alternatives (C13). *)
From Spg.Base Require Import Prelude Utf8 Bytes.
From Spg.Model Require Import Tables Rand GenM CharSets CharGen Token WordList WordGen.
From Spg.Proofs Require Import RandProofs GenProofs CharGenProofs WordGenProofs.
Close Scope N_scope.
Open Scope N_scope.

Definition sep_small (s : sep_fun) : Prop :=
  match s with SepRecipe r => small_alphabet r | _ => True end.

Section WP.
Variable title : bytes -> bytes.
Variable b : budget.

Lemma sep_call_picks_ok s : sep_small s -> picks_ok (sep_call b s).
Proof.
  destruct s as [c|c|r]; cbn [sep_call sep_small picks_ok]; try (intros; exact I).
  intros Hs. apply picks_ok_bind; [apply char_generate_picks_ok; exact Hs|].
  intros o _. destruct o; exact I.
Qed.

Lemma caps_gen_picks_ok c L : (1 <= L)%nat -> N.of_nat L < W32 -> picks_ok (caps_gen c L).
Proof.
  intros H1 H2. destruct c; cbn [caps_gen picks_ok]; try exact I.
  - unfold fmap. apply picks_ok_bind; [|intros; exact I].
    apply picks_ok_picks; [lia|]. vm_compute. reflexivity.
  - repeat split; try lia.
Qed.

Lemma words_loop_picks_ok ws s : ws <> [] -> N.of_nat (length ws) < W32 -> sep_small s ->
  forall caps, picks_ok (words_loop title b ws s caps).
Proof.
  intros Hne Hsz Hs. induction caps as [|c caps IH]; cbn [words_loop picks_ok]; [exact I|].
  split; [destruct ws; [congruence|cbn [length]; lia]|]. split; [exact Hsz|].
  intros i _. destruct caps as [|c' caps']; [exact I|].
  apply picks_ok_bind; [apply sep_call_picks_ok; exact Hs|]. intros se _.
  apply picks_ok_bind; [exact IH|]. intros; exact I.
Qed.

Lemma wl_entropy_gen_picks_ok r wl : sep_small (wrSep r) -> picks_ok (wl_entropy_gen b r wl).
Proof.
  intros Hs. unfold wl_entropy_gen. destruct (wrSep r) as [c|c|r'] eqn:E; [exact I| |].
  - apply picks_ok_bind; [apply sep_call_picks_ok; exact I|]. intros; exact I.
  - apply picks_ok_bind; [apply sep_call_picks_ok; exact Hs|]. intros; exact I.
Qed.

(** Premises: fewer than 2^32 words (NewWordList refuses more), Length below
    2^32 (only the scheme "one" draws a position), separator recipes with
    alphabets below 2^32. *)
Theorem wl_generate_picks_ok r :
  N.of_nat (wl_size r) < W32 -> (wrLength r < Z.of_N W32)%Z -> sep_small (wrSep r) ->
  picks_ok (wl_generate title b r).
Proof.
  intros Hsz HL Hs. unfold wl_generate, wl_size in *. destruct (wrList r) as [wl|]; [|exact I].
  destruct (wlWords wl) as [|w ws] eqn:Ew; [exact I|].
  destruct (wrLength r <? 1)%Z eqn:EL; [exact I|]. apply Z.ltb_ge in EL.
  apply picks_ok_bind; [apply caps_gen_picks_ok; lia|]. intros caps _.
  apply picks_ok_bind; [apply words_loop_picks_ok; [discriminate|exact Hsz|exact Hs]|]. intros ts _.
  apply picks_ok_bind; [apply wl_entropy_gen_picks_ok; exact Hs|]. intros; exact I.
Qed.

(** on no stream of raw words does the wordlist generator draw from zero alternatives *)
Corollary wl_generate_no_zero r ws rest :
  N.of_nat (wl_size r) < W32 -> (wrLength r < Z.of_N W32)%Z -> sep_small (wrSep r) ->
  run_words (wl_generate title b r) ws <> RZero rest.
Proof. intros H1 H2 H3. apply run_words_no_zero. apply wl_generate_picks_ok; assumption. Qed.
End WP.

Lemma W32_gt_100 : 100 < W32.
Proof. vm_compute. reflexivity. Qed.

(** every shipped preset is small *)
Lemma presets_small : sep_small SFNone /\ sep_small SFDigits1 /\ sep_small SFDigits2 /\ sep_small SFDigitsNoAmbiguous1 /\
  sep_small SFDigitsNoAmbiguous2 /\ sep_small SFSymbols /\ sep_small SFDigitsSymbols.
Proof.
  assert (S : forall r, (length (alphabet r) <= 100)%nat -> small_alphabet r).
  { intros r H. unfold small_alphabet. apply N.le_lt_trans with 100; [lia|]. apply W32_gt_100. }
  repeat split; try exact I; apply S; vm_compute; lia.
Qed.
