(** C14: write-free threads — heap constant, every thread's result is its
    run-alone result, no race, under EVERY interleaving; and the API threads. *)
From Spg.Base Require Import Prelude Utf8 Bytes.
From Spg.Model Require Import Tables Rand GenM CharSets CharGen Token WordList WordGen Api Sched.
From Spg.Proofs Require Import GenProofs CharGenProofs ApiProofs.
Close Scope N_scope.

Section Generic.
Variables loc val res : Type.
Variable loc_eqb : loc -> loc -> bool.
Notation prog := (prog loc val res).
Notation wfree := (wfree loc val res).
Notation run_alone := (run_alone loc val res loc_eqb).
Notation step_at := (step_at loc val res loc_eqb).
Notation run := (run loc val res loc_eqb).

Lemma step_at_wfree i : forall h ts, Forall wfree ts ->
  fst (step_at i h ts) = h /\ Forall wfree (snd (step_at i h ts)) /\
  map (run_alone h) (snd (step_at i h ts)) = map (run_alone h) ts.
Proof.
  induction i as [|i IH]; intros h [|p ts] Hw; cbn; auto.
  - inversion Hw as [|? ? Hp Hts]; subst. destruct p as [r|l k|l v k]; cbn in *; try tauto; auto.
  - inversion Hw as [|? ? Hp Hts]; subst. destruct (IH h ts Hts) as (H1 & H2 & H3).
    destruct (step_at i h ts) as [h' ts'']; cbn in *. subst h'. repeat split; auto. rewrite H3. reflexivity.
Qed.

Theorem concurrent_equals_sequential sched : forall h ts, Forall wfree ts ->
  fst (run sched (h, ts)) = h /\ Forall wfree (snd (run sched (h, ts))) /\
  map (run_alone h) (snd (run sched (h, ts))) = map (run_alone h) ts.
Proof.
  induction sched as [|i sched IH]; intros h ts Hw; [cbn; auto|].
  unfold Sched.run. cbn [fold_left]. fold (run sched (sstep loc val res loc_eqb (h, ts) i)).
  unfold sstep. cbn [fst snd].
  destruct (step_at_wfree i h ts Hw) as (H1 & H2 & H3).
  destruct (step_at i h ts) as [h' ts'] eqn:E. cbn [fst snd] in *. subst h'.
  destruct (IH h ts' H2) as (G1 & G2 & G3). repeat split; auto. rewrite G3, H3. reflexivity.
Qed.

Theorem no_shared_writes_no_race sched h ts : Forall wfree ts -> ~ race loc val res loc_eqb (snd (run sched (h, ts))).
Proof.
  intros Hw. destruct (concurrent_equals_sequential sched h ts Hw) as (_ & Hw' & _).
  intros (i & j & p & q & l & l' & w & w' & _ & Hp & Hq & Np & Nq & _ & [-> | ->]).
  - apply nth_error_In in Hp. rewrite Forall_forall in Hw'. specialize (Hw' p Hp). destruct p; cbn in *; try discriminate. inversion Np. contradiction.
  - apply nth_error_In in Hq. rewrite Forall_forall in Hw'. specialize (Hw' q Hq). destruct q; cbn in *; try discriminate. inversion Nq. contradiction.
Qed.

(** a thread that has finished under some interleaving returns its run-alone result *)
Corollary finished_thread_result sched h ts i r : Forall wfree ts ->
  nth_error (snd (run sched (h, ts))) i = Some (Return r) ->
  exists p, nth_error ts i = Some p /\ run_alone h p = r.
Proof.
  intros Hw Hn. destruct (concurrent_equals_sequential sched h ts Hw) as (_ & _ & Hm).
  assert (Hr : nth_error (map (run_alone h) (snd (run sched (h, ts)))) i = Some r)
    by (rewrite nth_error_map, Hn; reflexivity).
  rewrite Hm, nth_error_map in Hr. destruct (nth_error ts i) as [p|]; [|discriminate].
  exists p. split; [reflexivity|]. cbn in Hr. congruence.
Qed.
End Generic.

(** ---- the API threads ---- *)
Section Api.
Variable title : bytes -> bytes.
Variable b : budget.

Lemma call_on_is_call s o : call_on title b (nth_error s (handle_of o)) o = call title b s o.
Proof.
  destruct o as [h r|h w|h src|h src|h|h]; cbn [handle_of call_on call]; try reflexivity;
    destruct (nth_error s h) as [x|]; cbn [nth_error]; reflexivity.
Qed.

Lemma thread_prog_wfree ops : forall acc, wfree nat (option obj) (list result) (thread_prog title b ops acc).
Proof. induction ops as [|o ops IH]; intros acc; cbn [thread_prog wfree]; [exact I|]. intros v. apply IH. Qed.

Lemma thread_prog_alone s ops : forall acc,
  run_alone nat (option obj) (list result) Nat.eqb (heap_of s) (thread_prog title b ops acc) = rev acc ++ map (call title b s) ops.
Proof.
  induction ops as [|o ops IH]; intros acc; cbn [thread_prog run_alone map].
  - rewrite app_nil_r. reflexivity.
  - rewrite IH. cbn [rev]. rewrite <- app_assoc. cbn [app]. unfold heap_of. rewrite call_on_is_call. reflexivity.
Qed.

(** Any number of threads, each any sequence of API calls on shared objects,
    under ANY interleaving of their accesses: the shared state never changes,
    there is no race, and a thread that has finished holds exactly the results
    the calls give when run alone on the initial state. *)
Theorem api_concurrent sched (s : state) (threads : list (list op)) :
  let c := run nat (option obj) (list result) Nat.eqb sched (heap_of s, map (fun ops => thread_prog title b ops []) threads) in
  fst c = heap_of s /\
  ~ race nat (option obj) (list result) Nat.eqb (snd c) /\
  forall i rs, nth_error (snd c) i = Some (Return rs) ->
               exists ops, nth_error threads i = Some ops /\ rs = map (call title b s) ops.
Proof.
  intros c.
  assert (Hw : Forall (wfree nat (option obj) (list result)) (map (fun ops => thread_prog title b ops []) threads)).
  { apply Forall_forall. intros p Hp. apply in_map_iff in Hp. destruct Hp as (ops & <- & _). apply thread_prog_wfree. }
  split; [exact (proj1 (concurrent_equals_sequential _ _ _ Nat.eqb sched _ _ Hw))|].
  split; [exact (no_shared_writes_no_race _ _ _ Nat.eqb sched _ _ Hw)|].
  intros i rs Hn. destruct (finished_thread_result _ _ _ Nat.eqb sched _ _ i rs Hw Hn) as (p & Hp & Hr).
  rewrite nth_error_map in Hp. destruct (nth_error threads i) as [ops|]; [|discriminate]. cbn in Hp. injection Hp as <-.
  exists ops. split; [reflexivity|]. rewrite thread_prog_alone in Hr. cbn [rev app] in Hr. congruence.
Qed.

(** hence a character password returned under concurrency satisfies its recipe
    and carries the recipe's entropy *)
Corollary concurrent_char_password_sound s h c src cand n e :
  nth_error s h = Some (OChar c) ->
  call title b s (Generate h src) = RChar (Done cand) n e ->
  Satisfies (coPub c) cand /\ e = char_entropy (coPub c).
Proof.
  intros Hn. cbn [call]. rewrite Hn. destruct (run_src (m_generate b c) src) as [out k] eqn:E. intros [= -> <- <-].
  split; [|apply m_entropy_pure]. rewrite m_generate_pure in E.
  unfold run_src in E. destruct (words_of_source src) as [ws partial].
  destruct (run_words (char_generate b (coPub c)) ws) as [o rest| |rest] eqn:Er; try discriminate E.
  injection E as -> _. exact (proj1 (char_generate_sound b (coPub c) ws cand rest Er)).
Qed.
End Api.

(** ---- the worklist closure is sound: if [explore] answers true, every (function, private
    parameters) pair reachable from the entry points through the call edges has only private stores ---- *)
From Coq Require Import String.
Section Closure.
Variable funcs : list (string * bool * string * list (string * string)).
Variable stores : list (string * nat * string * string).
Variable calls : list (string * string * list (nat * string)).
Variable direct : list (string * nat * string * nat).
Notation item := (string * list nat)%type.
Notation stores_ok := (stores_ok funcs stores direct).
Notation callees := (callees funcs calls).
Notation explore := (explore funcs stores calls direct).

Lemma nats_eqb_eq x : forall y, nats_eqb x y = true <-> x = y.
Proof.
  induction x as [|a x IH]; intros [|c y]; cbn [nats_eqb]; try (split; [discriminate|discriminate]); [tauto|].
  rewrite andb_true_iff, Nat.eqb_eq, IH. split; [intros [-> ->]; reflexivity|intros [= -> ->]; auto].
Qed.
Lemma item_eqb_eq (x y : item) : item_eqb x y = true <-> x = y.
Proof.
  unfold item_eqb. rewrite andb_true_iff, String.eqb_eq, nats_eqb_eq. destruct x, y; cbn. split; [intros [-> ->]; reflexivity|intros [= -> ->]; auto].
Qed.
Lemma memq_In (it : item) l : existsb (item_eqb it) l = true <-> In it l.
Proof.
  rewrite existsb_exists. split.
  - intros (y & Hy & E). apply item_eqb_eq in E. subst. exact Hy.
  - intros H. exists it. split; [exact H|apply item_eqb_eq; reflexivity].
Qed.

(** an item is settled w.r.t. a set: its stores are private and all its callees are in the set *)
Definition settled (final : list item) (it : item) : Prop :=
  stores_ok (fst it) (snd it) = true /\ exists cs, callees (fst it) = Some cs /\ forall c, In c cs -> In c final.

Lemma explore_sound fuel : forall todo seen,
  explore fuel todo seen = true ->
  (forall it, In it seen -> settled (seen ++ todo) it) ->
  exists final, (forall it, In it (seen ++ todo) -> In it final) /\ forall it, In it final -> settled final it.
Proof.
  induction fuel as [|fuel IH]; intros todo seen He Hpre; [discriminate|].
  cbn [Sched.explore] in He. destruct todo as [|it rest].
  - exists seen. split; [intros x Hx; rewrite app_nil_r in Hx; exact Hx|].
    intros x Hx. destruct (Hpre x Hx) as (H1 & cs & H2 & H3). split; [exact H1|]. exists cs. split; [exact H2|].
    intros c Hc. specialize (H3 c Hc). rewrite app_nil_r in H3. exact H3.
  - destruct (existsb (item_eqb it) seen) eqn:Es.
    + apply memq_In in Es. destruct (IH rest seen He) as (final & Hsub & Hok).
      * intros x Hx. destruct (Hpre x Hx) as (H1 & cs & H2 & H3). split; [exact H1|]. exists cs. split; [exact H2|].
        intros c Hc. specialize (H3 c Hc). apply in_app_iff in H3. apply in_app_iff. destruct H3 as [H3|[<-|H3]]; auto.
      * exists final. split; [|exact Hok]. intros x Hx. apply Hsub. apply in_app_iff in Hx. apply in_app_iff.
        destruct Hx as [Hx|[<-|Hx]]; auto.
    + destruct (stores_ok (fst it) (snd it)) eqn:Eo; [|discriminate].
      destruct (callees (fst it)) as [cs|] eqn:Ec; [|discriminate].
      destruct (IH (cs ++ rest) (it :: seen) He) as (final & Hsub & Hok).
      * intros x [<-|Hx].
        -- split; [exact Eo|]. exists cs. split; [exact Ec|]. intros c Hc. right. apply in_app_iff. right. apply in_app_iff. left. exact Hc.
        -- destruct (Hpre x Hx) as (H1 & cs' & H2 & H3). split; [exact H1|]. exists cs'. split; [exact H2|].
           intros c Hc. specialize (H3 c Hc). apply in_app_iff in H3. destruct H3 as [H3|[<-|H3]].
           ++ right. apply in_app_iff. left. exact H3.
           ++ left. reflexivity.
           ++ right. apply in_app_iff. right. apply in_app_iff. right. exact H3.
      * exists final. split; [|exact Hok]. intros x Hx. apply Hsub. apply in_app_iff in Hx. destruct Hx as [Hx|[<-|Hx]].
        -- right. apply in_app_iff. left. exact Hx.
        -- left. reflexivity.
        -- right. apply in_app_iff. right. apply in_app_iff. right. exact Hx.
Qed.

(** reachability over the call edges, with the private-parameter sets the call sites determine *)
Inductive reaches (entries : list item) : item -> Prop :=
| reach_entry it : In it entries -> reaches entries it
| reach_call it cs c : reaches entries it -> callees (fst it) = Some cs -> In c cs -> reaches entries c.

Theorem explore_covers fuel entries : explore fuel entries [] = true ->
  forall it, reaches entries it -> stores_ok (fst it) (snd it) = true.
Proof.
  intros He. destruct (explore_sound fuel entries [] He) as (final & Hsub & Hok); [intros x []|].
  assert (Hin : forall it, reaches entries it -> In it final).
  { intros it Hr. induction Hr as [it Hi|it cs c _ IH Hc Hcin].
    - apply Hsub. exact Hi.
    - destruct (Hok it IH) as (_ & cs' & Hc' & Hall). rewrite Hc in Hc'. injection Hc' as <-. apply Hall. exact Hcin. }
  intros it Hr. exact (proj1 (Hok it (Hin it Hr))).
Qed.
End Closure.
