(** C04 / C06 (wordlist recipes): separator instances, the integer form of the
    bounds (1 / the integer whose log2 Entropy() reports), the premises about the
    kept words derived from NewWordList, and "all passwords equally likely". *)
From Spg.Base Require Import Prelude Utf8 Bytes.
From Spg.Model Require Import Tables Rand GenM CharSets CharGen Token WordList WordGen.
From Spg.Proofs Require Import RandProofs SetProofs CountProofs GenProofs CharGenProofs WordListProofs WordGenProofs
  ProdProofs WordProdProofs WordDecodeProofs WordEntropyProofs.
From Coq Require Import QArith Lqa.
Close Scope N_scope. Close Scope Q_scope. Open Scope nat_scope.

(** ---- powers: Q vs Z ---- *)
Lemma Qpow_inv_NQ (a : N) (L : nat) : (1 <= a)%N -> (Qpow (/ NQ a) L == / inject_Z (Z.of_N a ^ Z.of_nat L))%Q.
Proof.
  intros Ha. induction L as [|L IH].
  - cbn [Qpow]. change (Z.of_nat 0) with 0%Z. rewrite Z.pow_0_r. reflexivity.
  - cbn [Qpow]. rewrite IH. rewrite Nat2Z.inj_succ, Z.pow_succ_r by lia. rewrite inject_Z_mult. unfold NQ.
    assert (H1 : ~ (inject_Z (Z.of_N a) == 0)%Q) by (unfold Qeq; cbn; lia).
    assert (H2 : ~ (inject_Z (Z.of_N a ^ Z.of_nat L) == 0)%Q).
    { unfold Qeq; cbn. assert (0 < Z.of_N a ^ Z.of_nat L)%Z by (apply Z.pow_pos_nonneg; lia). lia. }
    field. split; assumption.
Qed.

Lemma inject_Z_pos z : (0 < z)%Z -> (0 < inject_Z z)%Q. Proof. intros H. unfold Qlt. cbn. lia. Qed.

Section Final.
Variable title : bytes -> bytes.
Variable b : budget.
Notation sep_call := (sep_call b).
Notation sep_val := (sep_val b).
Notation wl_generate := (wl_generate title b).

(** ---- separator instances ---- *)
Lemma pm_ret_le1 {A} (dec : forall x y : A, {x = y} + {x <> y}) a x : (pm dec (Ret a) x <= 1)%Q.
Proof. rewrite pm_ret. apply at_pt_le1. Qed.

Theorem sep_ok_char c : sep_ok b (SepChar c) 1 None.
Proof.
  repeat split; try exact I; try lia.
  - intros v. unfold WordProdProofs.sep_val. cbn [WordGen.sep_call fmap bind]. change (/ NQ 1)%Q with 1%Q. apply pm_ret_le1.
  - cbn [WordGen.sep_call reach]. intros se <-. reflexivity.
Qed.
Theorem sep_ok_const c : sep_ok b (SepConst c) 1 None.
Proof.
  repeat split; try exact I; try lia.
  - intros v. unfold WordProdProofs.sep_val. cbn [WordGen.sep_call fmap bind]. change (/ NQ 1)%Q with 1%Q. apply pm_ret_le1.
  - cbn [WordGen.sep_call reach]. intros se <-. reflexivity.
Qed.

(** a separator recipe with nothing (left) to require: infallible *)
Definition infallible (r : char_recipe) : Prop :=
  (1 <= crLength r)%Z /\ alphabet r <> [] /\ small_alphabet r /\ live_sets r = [] /\
  accepted b r = true /\ (1 <= bTrials b)%Z /\ Forall valid_glyph (alphabet r).

Lemma filter_true_of_no_live Rs cand :
  filter (fun R : list bytes => match R with [] => false | _ => true end) Rs = [] -> require_filter Rs cand = true.
Proof.
  unfold require_filter. induction Rs as [|R Rs IH]; [reflexivity|]. cbn [filter forallb].
  destruct R; [intros H; rewrite (IH H); reflexivity|discriminate].
Qed.

Lemma reach_retry_all_ok {A} (att : gen A) ok T o : (forall c, ok c = true) -> 1 <= T ->
  reach (retry T att ok) o -> exists c, reach att c /\ o = Done c.
Proof.
  intros Hok HT. destruct T as [|T]; [lia|]. cbn [retry]. intros H. apply reach_bind in H. destruct H as (c & Hc & H).
  rewrite Hok in H. cbn [reach] in H. exists c. auto.
Qed.

Lemma infallible_form r : infallible r ->
  char_generate b r = retry (Z.to_nat (bTrials b)) (attempt (alphabet r) (len_nat r)) (require_filter (required_sets r)).
Proof.
  intros (HL & HA & _ & _ & Hacc & _). rewrite char_generate_decision.
  destruct (crLength r <? 1)%Z eqn:E; [lia|]. destruct (alphabet r); [congruence|]. rewrite Hacc. reflexivity.
Qed.

Lemma infallible_reach r o : infallible r -> reach (char_generate b r) o ->
  exists cand, o = Done cand /\ length cand = len_nat r /\ (forall g, In g cand -> In g (alphabet r)).
Proof.
  intros Hi Hr. rewrite (infallible_form r Hi) in Hr. destruct Hi as (HL & HA & _ & Hlive & _ & HT & _).
  apply reach_retry_all_ok in Hr; [|intros c; apply filter_true_of_no_live; exact Hlive|lia].
  destruct Hr as (c & Hc & ->). apply reach_attempt in Hc; [|exact HA]. exists c. tauto.
Qed.

Lemma infallible_count r : infallible r ->
  recipe_count r = (Z.of_nat (length (alphabet r)) ^ Z.of_nat (len_nat r))%Z /\ (0 < recipe_count r)%Z.
Proof.
  intros (_ & HA & _ & Hlive & _). unfold recipe_count. rewrite Hlive. cbn [count_code]. split; [reflexivity|].
  apply Z.pow_pos_nonneg; [|lia]. destruct (alphabet r); [congruence|cbn [length]; lia].
Qed.

Definition cand_out_dec : forall x y : outcome (list bytes), {x = y} + {x <> y}.
Proof. decide equality; [apply seps_dec|apply err_dec|apply panic_dec]. Defined.

Definition val_of (o : outcome (list bytes)) : bytes := match o with Done cand => concat cand | _ => [] end.

Lemma sep_val_recipe_expect r phi :
  (expect (sep_val (SepRecipe r)) phi == expect (fmap val_of (char_generate b r)) phi)%Q.
Proof.
  unfold WordProdProofs.sep_val. cbn [WordGen.sep_call]. rewrite !expect_fmap, expect_bind. apply expect_ext.
  intros [cand|e|p]; reflexivity.
Qed.

Lemma pm_char_generate_is_prob r cand :
  (pm cand_out_dec (char_generate b r) (Done cand) == prob (char_generate b r) (is_pw cand))%Q.
Proof.
  unfold pm, prob. apply expect_ext. intros o. unfold at_pt, ind, is_pw.
  destruct (cand_out_dec o (Done cand)) as [->|NE].
  - destruct (lbeqb_spec cand cand); [reflexivity|congruence].
  - destruct o as [c|e|p]; try reflexivity. destruct (lbeqb_spec c cand); [congruence|reflexivity].
Qed.

Lemma NQ_to_N z : (0 <= z)%Z -> NQ (Z.to_N z) = inject_Z z.
Proof. intros H. unfold NQ. rewrite Z2N.id by exact H. reflexivity. Qed.

Theorem sep_ok_recipe r : infallible r ->
  sep_ok b (SepRecipe r) (Z.to_N (recipe_count r)) (Some (char_entropy r)).
Proof.
  intros Hi. pose proof (infallible_count r Hi) as [Hrc Hpos].
  assert (Hok : picks_ok (char_generate b r)) by (apply char_generate_picks_ok; apply Hi).
  split; [|split; [|split]].
  - cbn [WordGen.sep_call]. apply picks_ok_bind; [exact Hok|]. intros [c|e|p] _; exact I.
  - lia.
  - intros v. unfold pm. rewrite sep_val_recipe_expect. fold (pm bytes_dec (fmap val_of (char_generate b r)) v).
    rewrite NQ_to_N by lia.
    apply (pm_decode_le cand_out_dec bytes_dec _ _ (fun v => Some (Done (explode v)))).
    + intros o Ho. destruct (infallible_reach r o Hi Ho) as (cand & -> & _ & Hin). cbn [val_of].
      rewrite explode_concat_glyphs; [reflexivity|]. destruct Hi as (_ & _ & _ & _ & _ & _ & Hv).
      rewrite Forall_forall in *. intros g Hg. apply Hv, Hin, Hg.
    + exact Hok.
    + apply Qlt_le_weak, Qinv_lt_0_compat, inject_Z_pos, Hpos.
    + intros o. destruct o as [cand|e|p].
      * rewrite pm_char_generate_is_prob.
        pose proof (char_entropy_bound b r cand) as Hb. destruct Hi as (H1 & H2 & H3 & _ & H5 & _).
        specialize (Hb H1 H2 H3 H5 Hpos). unfold Qdiv in Hb. rewrite Qmult_1_l in Hb. exact Hb.
      * rewrite pm_unreachable; [apply Qlt_le_weak, Qinv_lt_0_compat, inject_Z_pos, Hpos|].
        intros Hr. destruct (infallible_reach r _ Hi Hr) as (cand & E & _). discriminate.
      * rewrite pm_unreachable; [apply Qlt_le_weak, Qinv_lt_0_compat, inject_Z_pos, Hpos|].
        intros Hr. destruct (infallible_reach r _ Hi Hr) as (cand & E & _). discriminate.
  - cbn [WordGen.sep_call]. intros se Hse. apply reach_bind in Hse. destruct Hse as (o & Ho & Hse).
    destruct (infallible_reach r o Hi Ho) as (cand & -> & _). cbn [reach] in Hse. subst se. reflexivity.
Qed.

(** the integer a separator's reported entropy stands for *)
Definition sep_count (e0 : option entropy) : Z := match e0 with None => 1%Z | Some se => entropy_count se end.

Lemma infallible_sep_count r : infallible r -> sep_count (Some (char_entropy r)) = recipe_count r.
Proof.
  intros Hi. pose proof (infallible_count r Hi) as [Hrc _]. destruct Hi as (HL & _ & _ & Hlive & _).
  cbn [sep_count]. unfold char_entropy.
  assert (Hru : req_union (required_sets r) = []).
  { unfold live_sets in Hlive. unfold req_union. induction (required_sets r) as [|R Rs IH]; [reflexivity|].
    cbn [filter] in Hlive. destruct R; [|discriminate]. cbn [concat app]. apply IH. exact Hlive. }
  rewrite Hru. cbn [entropy_count]. rewrite Hrc. unfold len_nat. rewrite nat_N_Z, Z2Nat.id by lia. reflexivity.
Qed.

(** ---- the bounds in integer form ---- *)
Lemma base_bound_Z ws M L : size_ok ws -> (1 <= M)%N ->
  (base_bound ws M L == / inject_Z (Z.of_nat (length ws) ^ Z.of_nat L * Z.of_N M ^ Z.of_nat (pred L)))%Q.
Proof.
  intros [H1 _] HM. unfold base_bound. rewrite !Qpow_inv_NQ by assumption. rewrite nat_N_Z, inject_Z_mult.
  assert (0 < Z.of_nat (length ws) ^ Z.of_nat L)%Z by (apply Z.pow_pos_nonneg; lia).
  assert (0 < Z.of_N M ^ Z.of_nat (pred L))%Z by (apply Z.pow_pos_nonneg; lia).
  field. split; unfold Qeq; cbn; lia.
Qed.

(** C06 for wordlist recipes: no password is likelier than 1 / (the integer whose
    log2 Entropy() reports), for every scheme, every list of good words (words
    that do not change under title-casing included) and every separator that
    satisfies [sep_ok] with the count it reports. *)
Theorem wl_entropy_bound wl L s c M e0 ts e :
  good_words title (wlWords wl) -> size_ok (wlWords wl) -> (1 <= L)%Z -> (Z.to_N L < W32)%N ->
  sep_ok b s M e0 -> sep_count e0 = Z.of_N M ->
  (wlUncap wl = 0 -> all_cap title (wlWords wl)) ->
  (pm out_dec (wl_generate (mkWLR (Some wl) L s c)) (Done (ts, e)) <=
   / inject_Z (wl_entropy_count (ent_of wl L c (match s with SepChar _ => None | _ => e0 end))))%Q.
Proof.
  intros Hg Hsz HL HLw Hs Hcnt Hcap.
  assert (HM : (1 <= M)%N) by (destruct Hs as (_ & HM & _); exact HM).
  assert (Hsepc : (match (match s with SepChar _ => None | _ => e0 end) with None => 1 | Some se => entropy_count se ^ (L - 1) end
                   = Z.of_N M ^ Z.of_nat (pred (Z.to_nat L)))%Z).
  { assert (Hp : Z.of_nat (pred (Z.to_nat L)) = (L - 1)%Z) by lia.
    destruct s as [x|x|sr].
    - destruct Hs as (_ & _ & _ & Hdet). specialize (Hdet (x, None) eq_refl). cbn in Hdet. subst e0. cbn in Hcnt.
      rewrite <- Hcnt. rewrite Z.pow_1_l by lia. reflexivity.
    - destruct e0 as [se|]; cbn [sep_count] in Hcnt; rewrite Hp; [rewrite Hcnt; reflexivity|].
      rewrite <- Hcnt. rewrite Z.pow_1_l by lia. reflexivity.
    - destruct e0 as [se|]; cbn [sep_count] in Hcnt; rewrite Hp; [rewrite Hcnt; reflexivity|].
      rewrite <- Hcnt. rewrite Z.pow_1_l by lia. reflexivity. }
  unfold wl_entropy_count, ent_of. cbn [weSize weLength weBonus weSep]. rewrite Hsepc. rewrite nat_N_Z.
  assert (HLz : Z.of_nat (Z.to_nat L) = L) by lia.
  destruct (bonus_of wl c) eqn:Eb.
  - (* no bonus *)
    cbn [bonus_factor]. rewrite Z.mul_1_r.
    eapply Qle_trans; [apply (wl_point_le_nobonus title b wl L s c M e0 ts e); assumption|].
    rewrite base_bound_Z by assumption. rewrite HLz. apply Qle_refl.
  - (* random: every word capitalisable *)
    assert (Hb : bonus_of wl c <> BonusNone) by congruence. apply bonus_iff_all_capitalisable in Hb. destruct Hb as [Hu Hc].
    assert (c = CapRandom) by (destruct Hc as [->| ->]; [reflexivity|unfold bonus_of in Eb; rewrite Hu in Eb; discriminate]). subst c.
    eapply Qle_trans; [apply (wl_point_le_bonus title b wl L s CapRandom M e0 ts e); try assumption; exact (Hcap Hu)|].
    cbn [caps_bound bonus_factor]. rewrite base_bound_Z by assumption. rewrite Qpow_inv_NQ by lia. rewrite HLz.
    change (Z.of_N 2) with 2%Z. rewrite <- Qinv_mult_distr, <- inject_Z_mult.
    replace (2 ^ L * (Z.of_nat (length (wlWords wl)) ^ L * Z.of_N M ^ Z.of_nat (pred (Z.to_nat L))))%Z
      with (Z.of_nat (length (wlWords wl)) ^ L * 2 ^ L * Z.of_N M ^ Z.of_nat (pred (Z.to_nat L)))%Z by ring.
    apply Qle_refl.
  - assert (Hb : bonus_of wl c <> BonusNone) by congruence. apply bonus_iff_all_capitalisable in Hb. destruct Hb as [Hu Hc].
    assert (c = CapOne) by (destruct Hc as [->| ->]; [unfold bonus_of in Eb; rewrite Hu in Eb; discriminate|reflexivity]). subst c.
    eapply Qle_trans; [apply (wl_point_le_bonus title b wl L s CapOne M e0 ts e); try assumption; exact (Hcap Hu)|].
    cbn [caps_bound bonus_factor]. rewrite base_bound_Z by assumption. unfold NQ. rewrite nat_N_Z, HLz.
    rewrite <- Qinv_mult_distr, <- inject_Z_mult.
    replace (L * (Z.of_nat (length (wlWords wl)) ^ L * Z.of_N M ^ Z.of_nat (pred (Z.to_nat L))))%Z
      with (Z.of_nat (length (wlWords wl)) ^ L * L * Z.of_N M ^ Z.of_nat (pred (Z.to_nat L)))%Z by ring.
    apply Qle_refl.
Qed.

(** ---- uniform separators: the bound is met with equality ---- *)
Definition sep_uniform (s : sep_fun) (M : N) : Prop :=
  forall v, reach (sep_val s) v -> (pm bytes_dec (sep_val s) v == / NQ M)%Q.

Lemma sep_uniform_char c : sep_uniform (SepChar c) 1.
Proof.
  intros v Hv. unfold WordProdProofs.sep_val in *. cbn [WordGen.sep_call fmap bind reach] in *. subst v.
  rewrite pm_ret. unfold at_pt. cbn [fst]. destruct (bytes_dec c c); [reflexivity|congruence].
Qed.
Lemma sep_uniform_const c : sep_uniform (SepConst c) 1.
Proof.
  intros v Hv. unfold WordProdProofs.sep_val in *. cbn [WordGen.sep_call fmap bind reach] in *. subst v.
  rewrite pm_ret. unfold at_pt. cbn [fst]. destruct (bytes_dec c c); [reflexivity|congruence].
Qed.

Lemma Qpow_zero T : 1 <= T -> (Qpow 0 T == 0)%Q.
Proof. destruct T; [lia|]. intros _. cbn [Qpow]. ring. Qed.

Lemma Qpow_comp q q' T : (q == q')%Q -> (Qpow q T == Qpow q' T)%Q.
Proof. intros H. induction T as [|T IH]; cbn [Qpow]; [reflexivity|]. apply Qmult_comp; assumption. Qed.

Lemma infallible_q r : infallible r -> (q_of b r == / inject_Z (recipe_count r))%Q.
Proof.
  intros Hi. pose proof (infallible_count r Hi) as [Hrc Hpos]. destruct Hi as (HL & HA & Hs & Hlive & Hacc & HT & Hv).
  pose proof (char_entropy_tight b r HA Hs) as Ht. pose proof (f_of_eq r HA Hs) as Hf.
  assert (Hu : (inject_Z (recipe_count r) * u_of r == 1)%Q).
  { unfold u_of. rewrite Qpow_inv_NQ by (destruct (alphabet r); [congruence|cbn [length]; lia]).
    rewrite nat_N_Z, <- Hrc. field. pose proof (inject_Z_pos _ Hpos). lra. }
  assert (Hf0 : (f_of r == 0)%Q) by lra.
  assert (Hz : (Qpow (f_of r) (Z.to_nat (bTrials b)) == 0)%Q) by (rewrite (Qpow_comp _ 0 _ Hf0); apply Qpow_zero; lia).
  rewrite Hz in Ht.
  pose proof (inject_Z_pos _ Hpos) as Hp.
  apply Qmult_inj_r with (z := inject_Z (recipe_count r)); [lra|]. rewrite Ht. field. lra.
Qed.

Theorem sep_uniform_recipe r : infallible r -> sep_uniform (SepRecipe r) (Z.to_N (recipe_count r)).
Proof.
  intros Hi v Hv. pose proof (infallible_count r Hi) as [Hrc Hpos].
  assert (Hcand : exists cand, reach (char_generate b r) (Done cand) /\ v = concat cand /\ length cand = len_nat r /\ (forall g, In g cand -> In g (alphabet r))).
  { unfold WordProdProofs.sep_val in Hv. apply reach_fmap in Hv. destruct Hv as (se & Hse & <-).
    cbn [WordGen.sep_call] in Hse. apply reach_bind in Hse. destruct Hse as (o & Ho & Hse).
    destruct (infallible_reach r o Hi Ho) as (cand & -> & Hl & Hin). cbn [reach] in Hse. subst se. exists cand. auto. }
  destruct Hcand as (cand & Hr & -> & Hl & Hin).
  unfold pm. rewrite sep_val_recipe_expect. fold (pm bytes_dec (fmap val_of (char_generate b r)) (concat cand)).
  change (concat cand) with (val_of (Done cand)).
  rewrite (pm_decode_at cand_out_dec bytes_dec _ _ (fun v => Some (Done (explode v)))); [| |exact Hr].
  - rewrite pm_char_generate_is_prob. destruct Hi as (HL & HA & Hs & Hlive & Hacc & HT & Hvg).
    rewrite char_generate_uniform by assumption.
    rewrite (filter_true_of_no_live _ cand Hlive).
    assert (Hex : existsb (fun y => lbeqb y cand) (strings_over (alphabet r) (len_nat r)) = true)
      by (apply in_strings_existsb; auto).
    rewrite Hex. cbn [andb]. rewrite infallible_q by (repeat split; assumption). rewrite NQ_to_N by lia. reflexivity.
  - intros o Ho. destruct (infallible_reach r o Hi Ho) as (c' & -> & _ & Hin'). cbn [val_of].
    rewrite explode_concat_glyphs; [reflexivity|]. destruct Hi as (_ & _ & _ & _ & _ & _ & Hvg).
    rewrite Forall_forall in *. intros g Hg. apply Hvg, Hin', Hg.
Qed.

(** what an infallible separator recipe can return: exactly the strings over its alphabet *)
Theorem infallible_support r v : infallible r ->
  (reach (sep_val (SepRecipe r)) v <-> exists cand, In cand (strings_over (alphabet r) (len_nat r)) /\ v = concat cand).
Proof.
  intros Hi. split.
  - intros Hv. unfold WordProdProofs.sep_val in Hv. apply reach_fmap in Hv. destruct Hv as (se & Hse & <-).
    cbn [WordGen.sep_call] in Hse. apply reach_bind in Hse. destruct Hse as (o & Ho & Hse).
    destruct (infallible_reach r o Hi Ho) as (cand & -> & Hl & Hin). cbn [reach] in Hse. subst se.
    exists cand. split; [apply strings_over_In; auto|reflexivity].
  - intros (cand & Hc & ->). apply strings_over_In in Hc. destruct Hc as [Hl Hin].
    unfold WordProdProofs.sep_val. apply reach_fmap. exists (concat cand, Some (char_entropy r)). split; [|reflexivity].
    cbn [WordGen.sep_call]. apply reach_bind. exists (Done cand). split; [|reflexivity].
    rewrite (infallible_form r Hi). destruct Hi as (HL & HA & _ & Hlive & _ & HT & _).
    destruct (Z.to_nat (bTrials b)) as [|T'] eqn:ET; [lia|]. cbn [retry]. apply reach_bind. exists cand. split.
    + apply reach_attempt; [exact HA|]. auto.
    + rewrite (filter_true_of_no_live _ cand Hlive). reflexivity.
Qed.

Lemma Qprod_const (l : list Q) c : Forall (fun q => q == c)%Q l -> (Qprod l == Qpow c (length l))%Q.
Proof. intros H. induction H as [|q l Hq _ IH]; cbn [Qprod Qpow length]; [reflexivity|]. rewrite Hq, IH. reflexivity. Qed.

(** C04 / C06: with a uniform separator and a readable capitalisation pattern
    EVERY possible password has the same probability, namely 1 / (the integer
    whose log2 Entropy() reports without... see [wl_entropy_bound]): the bound is tight *)
Theorem wl_uniform wl L s c M e0 x :
  good_words title (wlWords wl) -> caps_readable title c (wlWords wl) -> size_ok (wlWords wl) ->
  (1 <= L)%Z -> (Z.to_N L < W32)%N -> sep_ok b s M e0 -> sep_uniform s M ->
  reach (full_choices b (wlWords wl) s c (Z.to_nat L)) x ->
  (pm out_dec (wl_generate (mkWLR (Some wl) L s c))
      (Done (render_full title (wlWords wl) x, ent_of wl L c (match s with SepChar _ => None | _ => e0 end))) ==
   caps_bound c (Z.to_nat L) * base_bound (wlWords wl) M (Z.to_nat L))%Q.
Proof.
  intros Hg Hcr Hsz HL HLw Hs Hu Hx.
  rewrite (wl_point_eq title b wl L s c M e0 x) by assumption.
  apply Qmult_comp; [reflexivity|]. unfold base_bound. apply Qmult_comp; [reflexivity|].
  destruct x as [caps [idxs seps]]. cbn [snd].
  apply reach_gpair in Hx. destruct Hx as [_ Hp]. cbn [snd] in Hp. apply reach_gpair in Hp. destruct Hp as [_ Hd]. cbn [snd] in Hd.
  apply reach_draws in Hd. destruct Hd as [Hl Hf].
  rewrite Qprod_const with (c := (/ NQ M)%Q).
  - rewrite map_length, Hl. reflexivity.
  - apply Forall_forall. intros q Hq. apply in_map_iff in Hq. destruct Hq as (v & <- & Hv).
    rewrite Forall_forall in Hf. apply Hu, Hf, Hv.
Qed.

(** hence any two possible passwords are equally likely *)
Corollary wl_equally_likely wl L s c M e0 x1 x2 :
  good_words title (wlWords wl) -> caps_readable title c (wlWords wl) -> size_ok (wlWords wl) ->
  (1 <= L)%Z -> (Z.to_N L < W32)%N -> sep_ok b s M e0 -> sep_uniform s M ->
  reach (full_choices b (wlWords wl) s c (Z.to_nat L)) x1 -> reach (full_choices b (wlWords wl) s c (Z.to_nat L)) x2 ->
  let e := ent_of wl L c (match s with SepChar _ => None | _ => e0 end) in
  (pm out_dec (wl_generate (mkWLR (Some wl) L s c)) (Done (render_full title (wlWords wl) x1, e)) ==
   pm out_dec (wl_generate (mkWLR (Some wl) L s c)) (Done (render_full title (wlWords wl) x2, e)))%Q.
Proof. intros. subst e. rewrite !(wl_uniform wl L s c M e0) by assumption. reflexivity. Qed.
End Final.

(** ---- the premises about the words, derived from NewWordList ---- *)
Section Kept.
Variable title : bytes -> bytes.
Hypothesis title_idem : forall w, title (title w) = title w.

(** the property's premise on the INPUT list: no two entries share a title-cased
    form unless one of them is that form *)
Definition title_premise (l : list bytes) : Prop :=
  forall w v, In w l -> In v l -> title w = title v -> w = v \/ v = title w \/ w = title v.
Definition no_empty (l : list bytes) : Prop := forall w, In w l -> w <> [] /\ title w <> [].

Lemma NoDup_map_inj_in {X Y} (f : X -> Y) (l : list X) :
  (forall x y, In x l -> In y l -> f x = f y -> x = y) -> NoDup l -> NoDup (map f l).
Proof.
  intros Hinj Hnd. induction Hnd as [|x l Hx Hnd IH]; cbn [map]; constructor.
  - intros Hin. apply in_map_iff in Hin. destruct Hin as (y & Hy & Hyl). apply Hx.
    rewrite (Hinj x y); [exact Hyl|left; reflexivity|right; exact Hyl|symmetry; exact Hy].
  - apply IH. intros a c Ha Hc. apply Hinj; right; assumption.
Qed.

Theorem kept_words_good emit l wl d :
  title_premise l -> no_empty l ->
  new_word_list title emit l = (Done (Some wl), d) ->
  good_words title (wlWords wl) /\ (wlUncap wl = 0 -> all_cap title (wlWords wl)).
Proof.
  intros Hp Hne Hnew.
  pose proof (new_word_list_nodup title title_idem emit l wl d Hnew) as Hnd.
  pose proof (new_word_list_spec title title_idem emit l wl d Hnew) as (_ & Hset & Hlen & Hun).
  assert (Hinj : forall w v, In w (wlWords wl) -> In v (wlWords wl) -> title w = title v -> w = v).
  { intros w v Hw Hv E. apply Hset in Hw, Hv. destruct Hw as [Hw Hnw]. destruct Hv as [Hv Hnv].
    destruct (bytes_dec w v) as [->|NE]; [reflexivity|]. exfalso.
    destruct (Hp w v Hw Hv E) as [->|[->| ->]]; [congruence| |].
    - apply Hnv. exists w. repeat split; auto.
    - apply Hnw. exists v. repeat split; auto. }
  split.
  - split; [exact Hnd|]. split; [apply NoDup_map_inj_in; assumption|].
    apply Forall_forall. intros w Hw. apply Hset in Hw. apply Hne, Hw.
  - intros Hu w v Hw Hv E. rewrite Hun in Hu.
    assert (Hkw : In w (kept title l)) by (apply (kept_spec title title_idem); apply Hset; exact Hw).
    assert (Hkv : In v (kept title l)) by (apply (kept_spec title title_idem); apply Hset; exact Hv).
    pose proof (proj1 (uncap_zero_iff title (kept title l)) Hu w Hkw) as Hne'.
    apply (kept_title_fresh title title_idem l w Hkw Hne'). rewrite E. exact Hkv.
Qed.
End Kept.
