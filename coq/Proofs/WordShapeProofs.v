(** C05 in its observable form: what Atoms() and Separators() of a generated
    wordlist password return, for lists without an empty word (F7). *)
From Spg.Base Require Import Prelude Utf8 Bytes.
From Spg.Model Require Import Tables Rand GenM CharSets CharGen Token WordList WordGen.
From Spg.Proofs Require Import GenProofs WordGenProofs.
Close Scope N_scope.


Lemma hd_error_app_ne {X} (l1 l2 : list X) : l1 <> [] -> hd_error (l1 ++ l2) = hd_error l1.
Proof. destruct l1; [congruence|reflexivity]. Qed.

Lemma assemble_last : forall (atoms seps : list bytes) t, atoms <> [] -> Forall (fun a : bytes => a <> []) atoms ->
  hd_error (rev (assemble atoms seps)) = Some t -> ttype t = AtomType.
Proof.
  induction atoms as [|a atoms IH]; intros seps t Hne Ha Ht; [congruence|].
  inversion Ha as [|? ? Ha1 Har]; subst. cbn [assemble] in Ht.
  destruct atoms as [|a' atoms'].
  - unfold atom_tok in Ht. destruct a; [congruence|]. cbn in Ht. injection Ht as <-. reflexivity.
  - rewrite !rev_app_distr in Ht.
    assert (Hn : rev (assemble (a' :: atoms') (tl seps)) <> []).
    { intros E. apply (f_equal (@rev token)) in E. rewrite rev_involutive in E. cbn [rev] in E.
      revert E. inversion Har; subst. cbn [assemble]. unfold atom_tok. destruct a'; [congruence|]. destruct atoms'; cbn; discriminate. }
    rewrite <- app_assoc in Ht. rewrite hd_error_app_ne in Ht by exact Hn.
    eapply IH; [discriminate|exact Har|exact Ht].
Qed.

Section WS.
Variable title : bytes -> bytes.
Variable b : budget.

Definition no_empty_word (wl : word_list) : Prop :=
  Forall (fun w => w <> [] /\ title w <> []) (wlWords wl).

(** Atoms() returns exactly Length values; the i-th is the word drawn for position
    i, title-cased exactly when the scheme's pattern selected position i. *)
Theorem wl_atoms_exact r ws ts e rest wl :
  run_words (wl_generate title b r) ws = RDone (Done (ts, e)) rest ->
  wrList r = Some wl -> no_empty_word wl ->
  exists caps (idxs : list N),
    caps_allowed (wrCap r) (Z.to_nat (wrLength r)) caps /\
    length idxs = Z.to_nat (wrLength r) /\ Forall (fun i => (i < N.of_nat (length (wlWords wl)))%N) idxs /\
    length (of_type AtomType ts) = Z.to_nat (wrLength r) /\
    of_type AtomType ts =
      map (fun ci : bool * N => let w0 := nth (N.to_nat (snd ci)) (wlWords wl) [] in if fst ci then title w0 else w0) (combine caps idxs) /\
    Forall (fun a => exists w, In w (wlWords wl) /\ (a = w \/ a = title w)) (of_type AtomType ts).
Proof.
  intros H Hwl Hne. apply (wl_generate_sound title b) in H.
  destruct H as (wl' & caps & idxs & seps & Hwl' & _ & HL & Hcaps & Hli & Hidx & Hls & Hsv & -> & _).
  rewrite Hwl in Hwl'. injection Hwl' as <-.
  exists caps, idxs. split; [exact Hcaps|]. split; [exact Hli|]. split; [exact Hidx|].
  set (atoms := map _ (combine caps idxs)).
  assert (Hin : forall c i, In (c, i) (combine caps idxs) ->
             In (nth (N.to_nat i) (wlWords wl) []) (wlWords wl)).
  { intros c i Hci. apply in_combine_r in Hci. rewrite Forall_forall in Hidx. specialize (Hidx _ Hci). apply nth_In. lia. }
  assert (Hat : Forall (fun a : bytes => a <> []) atoms).
  { apply Forall_forall. intros a Ha. unfold atoms in Ha. apply in_map_iff in Ha. destruct Ha as ([c i] & <- & Hci).
    specialize (Hin _ _ Hci). unfold no_empty_word in Hne. rewrite Forall_forall in Hne. specialize (Hne _ Hin).
    cbn [fst snd]. destruct c; tauto. }
  rewrite (atoms_of_assemble atoms seps Hat).
  split; [|split; [reflexivity|]].
  - unfold atoms. destruct Hcaps as [Hcl _]. rewrite map_length, combine_length, Hcl, Hli. apply Nat.min_id.
  - apply Forall_forall. intros a Ha. unfold atoms in Ha. apply in_map_iff in Ha. destruct Ha as ([c i] & <- & Hci).
    exists (nth (N.to_nat i) (wlWords wl) []). split; [eapply Hin; exact Hci|]. cbn [fst snd]. destruct c; auto.
Qed.

(** Separators(): with a non-empty constant separator exactly Length-1 copies of
    it, one per gap; with an empty one, none. *)
Theorem wl_separators_const r ws ts e rest wl c :
  run_words (wl_generate title b r) ws = RDone (Done (ts, e)) rest ->
  wrList r = Some wl -> no_empty_word wl -> (wrSep r = SepChar c \/ wrSep r = SepConst c) ->
  of_type SeparatorType ts = match c with [] => [] | _ => repeat c (pred (Z.to_nat (wrLength r))) end.
Proof.
  intros H Hwl Hne Hsep. apply (wl_generate_sound title b) in H.
  destruct H as (wl' & caps & idxs & seps & Hwl' & _ & HL & Hcaps & Hli & Hidx & Hls & Hsv & -> & _).
  rewrite Hwl in Hwl'. injection Hwl' as <-.
  assert (Hall : Forall (fun v => v = c) seps).
  { eapply Forall_impl; [|exact Hsv]. intros v Hv. destruct Hsep as [E|E]; rewrite E in Hv; exact Hv. }
  assert (Hrep : seps = repeat c (length seps)).
  { clear - Hall. induction seps as [|s seps IH]; [reflexivity|]. inversion Hall; subst. cbn [length repeat]. f_equal. apply IH. assumption. }
  set (atoms := map _ (combine caps idxs)).
  destruct c as [|x c'].
  - apply assemble_no_seps. exact Hall.
  - rewrite seps_of_assemble.
    + rewrite Hrep at 1. rewrite Hls. reflexivity.
    + unfold atoms. destruct Hcaps as [Hcl _]. rewrite map_length, combine_length, Hcl, Hli, Nat.min_id. exact Hls.
    + eapply Forall_impl; [|exact Hall]. intros v ->. discriminate.
Qed.

(** never a leading or trailing separator: first and last tokens are atoms *)
Theorem wl_ends_are_atoms r ws ts e rest wl :
  run_words (wl_generate title b r) ws = RDone (Done (ts, e)) rest ->
  wrList r = Some wl -> no_empty_word wl ->
  (forall t, hd_error ts = Some t -> ttype t = AtomType) /\
  (forall t, hd_error (rev ts) = Some t -> ttype t = AtomType) /\ ts <> [].
Proof.
  intros H Hwl Hne. apply (wl_generate_sound title b) in H.
  destruct H as (wl' & caps & idxs & seps & Hwl' & _ & HL & Hcaps & Hli & Hidx & Hls & Hsv & -> & _).
  rewrite Hwl in Hwl'. injection Hwl' as <-.
  set (atoms := map _ (combine caps idxs)).
  assert (Hat : Forall (fun a : bytes => a <> []) atoms).
  { apply Forall_forall. intros a Ha. unfold atoms in Ha. apply in_map_iff in Ha. destruct Ha as ([c i] & <- & Hci).
    apply in_combine_r in Hci. rewrite Forall_forall in Hidx. specialize (Hidx _ Hci).
    assert (Hin : In (nth (N.to_nat i) (wlWords wl) []) (wlWords wl)) by (apply nth_In; lia).
    unfold no_empty_word in Hne. rewrite Forall_forall in Hne. specialize (Hne _ Hin). cbn [fst snd]. destruct c; tauto. }
  assert (Hn : atoms <> []).
  { unfold atoms. destruct Hcaps as [Hcl _]. destruct caps; destruct idxs; cbn in *; try lia; discriminate. }
  split; [intros t Ht; eapply assemble_head; eassumption|].
  split; [intros t Ht; eapply assemble_last; eassumption|].
  clear - Hat Hn. destruct atoms as [|a atoms]; [congruence|]. inversion Hat; subst. cbn [assemble].
  destruct a; [congruence|]. destruct atoms; cbn; discriminate.
Qed.
End WS.
