(** C04 / C06 (wordlist recipes): the generator's output is the image, under a
    rendering map, of a PRODUCT of independent draws — capitalisation pattern,
    one uniform word index per position, one fresh separator call per gap, and
    the separator call inside Entropy() — for every separator function. *)
From Spg.Base Require Import Prelude Utf8 Bytes.
From Spg.Model Require Import Tables Rand GenM CharSets CharGen Token WordList WordGen.
From Spg.Proofs Require Import RandProofs GenProofs CharGenProofs WordGenProofs ProdProofs.
From Coq Require Import QArith Lqa.
Close Scope N_scope.

Section WP.
Variable title : bytes -> bytes.
Variable b : budget.

Notation sep_call := (sep_call b).
Notation words_loop := (words_loop title b).
Notation wl_generate := (wl_generate title b).
Notation wl_entropy_gen := (wl_entropy_gen b).

(** the value of one separator call *)
Definition sep_val (s : sep_fun) : gen bytes := fmap fst (sep_call s).

Definition word_at (ws : list bytes) (c : bool) (i : N) : bytes :=
  let w0 := nth (N.to_nat i) ws [] in if c then title w0 else w0.
Definition atoms_of (ws : list bytes) (caps : list bool) (idxs : list N) : list bytes :=
  map (fun ci : bool * N => word_at ws (fst ci) (snd ci)) (combine caps idxs).
(** the password that the choices (caps, idxs, seps) yield *)
Definition render (ws : list bytes) (caps : list bool) (idxs : list N) (seps : list bytes) : list token :=
  assemble (atoms_of ws caps idxs) seps.

Lemma expect_words_loop_cons ws s c caps' phi :
  (expect (words_loop ws s (c :: caps')) phi ==
   / NQ (N.of_nat (length ws)) * sumQ (N.of_nat (length ws)) (fun i =>
     match caps' with
     | [] => phi (atom_tok (word_at ws c i))
     | _ => expect (sep_call s) (fun se => expect (words_loop ws s caps') (fun rest =>
              phi (atom_tok (word_at ws c i) ++ sep_tok (fst se) ++ rest)))
     end))%Q.
Proof.
  destruct caps' as [|c' caps''].
  - cbn [WordGen.words_loop expect]. apply Qmult_comp; [reflexivity|]. apply sumQ_ext. intros i _.
    unfold word_at, atom_tok. destruct (if c then _ else _); reflexivity.
  - set (cs := c' :: caps''). cbn [WordGen.words_loop expect]. apply Qmult_comp; [reflexivity|]. apply sumQ_ext. intros i _.
    subst cs. cbv beta iota. rewrite expect_bind. apply expect_ext. intros se. rewrite expect_bind. apply expect_ext. intros rest.
    cbn [expect]. unfold word_at, atom_tok, sep_tok. destruct (if c then _ else _); destruct (fst se); reflexivity.
Qed.

Lemma render_cons1 ws c i : render ws [c] [i] [] = atom_tok (word_at ws c i).
Proof. reflexivity. Qed.

Lemma render_cons ws c caps' i idxs' v seps' : caps' <> [] -> idxs' <> [] ->
  render ws (c :: caps') (i :: idxs') (v :: seps') = atom_tok (word_at ws c i) ++ sep_tok v ++ render ws caps' idxs' seps'.
Proof.
  intros Hc Hi. destruct caps' as [|c' caps'']; [congruence|]. destruct idxs' as [|i' idxs'']; [congruence|]. reflexivity.
Qed.

(** The token loop: independent uniform word indices x independent separator calls *)
Theorem words_loop_product ws s caps phi :
  (expect (words_loop ws s caps) phi ==
   expect (picks (length caps) (N.of_nat (length ws))) (fun idxs =>
     expect (draws (sep_val s) (pred (length caps))) (fun seps => phi (render ws caps idxs seps))))%Q.
Proof.
  revert phi. induction caps as [|c caps' IH]; intros phi; [reflexivity|].
  rewrite expect_words_loop_cons. cbn [length picks expect]. apply Qmult_comp; [reflexivity|]. apply sumQ_ext. intros i _.
  destruct caps' as [|c' caps''].
  - rewrite expect_bind. cbn [length picks pred draws expect]. reflexivity.
  - rewrite expect_bind.
    (* left: sep call, then the rest of the loop (IH); right: remaining indices, then sep call, then remaining seps *)
    rewrite (expect_ext (sep_call s) _ (fun se =>
       expect (picks (length (c' :: caps'')) (N.of_nat (length ws))) (fun idxs' =>
         expect (draws (sep_val s) (pred (length (c' :: caps'')))) (fun seps' =>
           phi (atom_tok (word_at ws c i) ++ sep_tok (fst se) ++ render ws (c' :: caps'') idxs' seps'))))) by (intros se; apply IH).
    rewrite expect_swap. apply expect_ext_reach. intros idxs' Hidx.
    change (pred (S (length (c' :: caps'')))) with (S (length caps'')).
    change (pred (length (c' :: caps''))) with (length caps'').
    cbn [draws expect]. rewrite expect_bind. unfold sep_val at 2. rewrite expect_fmap. apply expect_ext. intros se.
    rewrite expect_bind. apply expect_ext. intros seps'. cbn [expect].
    rewrite render_cons; [reflexivity|discriminate|].
    apply reach_picks in Hidx. destruct Hidx as [Hl _]. destruct idxs'; discriminate.
Qed.

(** The whole generator, for EVERY separator function: the joint law of
    (capitalisation pattern, word indices, separator values, reported entropy)
    is the product of the four independent draws, and the password is their rendering. *)
Theorem wl_generate_product wl L s c phi :
  wlWords wl <> [] -> (1 <= L)%Z ->
  let r := mkWLR (Some wl) L s c in
  (expect (wl_generate r) phi ==
   expect (caps_gen c (Z.to_nat L)) (fun caps =>
   expect (picks (length caps) (N.of_nat (length (wlWords wl)))) (fun idxs =>
   expect (draws (sep_val s) (pred (length caps))) (fun seps =>
   expect (wl_entropy_gen r wl) (fun e => phi (Done (render (wlWords wl) caps idxs seps, e)))))))%Q.
Proof.
  intros Hne HL r. rewrite wl_generate_decision. cbn [wrList wrLength wrSep wrCap r].
  destruct (wlWords wl) as [|w0 ws0] eqn:Ew; [congruence|]. rewrite <- Ew in *.
  destruct (L <? 1)%Z eqn:EL; [lia|].
  rewrite expect_bind. apply expect_ext. intros caps.
  rewrite expect_bind. rewrite words_loop_product. apply expect_ext. intros idxs. apply expect_ext. intros seps.
  rewrite expect_bind. apply expect_ext. intros e. reflexivity.
Qed.
End WP.
