(** C10, C08 (list part): normalisation of word lists under arbitrary map
    iteration orders.  The only assumption on strings.Title is idempotence. *)
From Spg.Base Require Import Prelude Utf8 Bytes.
From Spg.Model Require Import Tables CharGen WordList.
From Coq Require Import Permutation.
Close Scope N_scope.

Section WL.
Variable title : bytes -> bytes.
Hypothesis title_idem : forall w, title (title w) = title w.

Notation visit := (visit title).
Notation pass2 := (pass2 title).

Lemma In_remove x y l : In y (remove x l) <-> In y l /\ y <> x.
Proof. unfold remove. rewrite filter_In. split; intros [H1 H2]; split; auto.
  - destruct (beqb_spec x y); [discriminate|congruence].
  - destruct (beqb_spec x y); [congruence|reflexivity]. Qed.

(** the specification: w is dropped iff it is the title form of ANOTHER listed word *)
Definition twin (S0 : list bytes) (w : bytes) : Prop := exists v, In v S0 /\ v <> w /\ title v = w.

Lemma twin_fixed S0 w : twin S0 w -> title w = w.
Proof. intros (v & _ & _ & <-). apply title_idem. Qed.

Definition Inv (S0 S : list bytes) : Prop :=
  (forall w, In w S -> In w S0) /\ (forall w, In w S0 -> ~ twin S0 w -> In w S).

Lemma visit_inv S0 S w : Inv S0 S -> Inv S0 (visit S w).
Proof.
  intros [H1 H2]. unfold WordList.visit.
  destruct (mem w S) eqn:Ew; [|split; assumption].
  destruct (mem (title w) S) eqn:Ec; [|split; assumption].
  destruct (beqb_spec (title w) w) as [E|E]; [split; assumption|].
  apply mem_In in Ew, Ec. split.
  - intros x Hx. apply In_remove in Hx. apply H1, Hx.
  - intros x Hx Hnt. apply In_remove. split; [apply H2; assumption|].
    intros ->. apply Hnt. exists w. repeat split; auto.
Qed.

Lemma pass2_inv sigma : forall S0 S, Inv S0 S -> Inv S0 (fold_left visit sigma S).
Proof. induction sigma as [|w sigma IH]; intros S0 S H; cbn; [assumption|]. apply IH, visit_inv, H. Qed.

Lemma visit_subset S w x : In x (visit S w) -> In x S.
Proof. unfold WordList.visit. destruct (mem w S); [|auto]. destruct (mem (title w) S); [|auto].
  destruct (beqb (title w) w); [auto|]. intros H. apply In_remove in H. apply H. Qed.
Lemma fold_subset sigma : forall S x, In x (fold_left visit sigma S) -> In x S.
Proof. induction sigma as [|w sigma IH]; intros S x H; cbn in *; [assumption|]. eapply visit_subset, IH, H. Qed.

Lemma visit_NoDup S w : NoDup S -> NoDup (visit S w).
Proof. intros H. unfold WordList.visit. destruct (mem w S); [|assumption]. destruct (mem (title w) S); [|assumption].
  destruct (beqb (title w) w); [assumption|]. apply NoDup_filter. assumption. Qed.
Lemma pass2_NoDup sigma : forall S, NoDup S -> NoDup (pass2 sigma S).
Proof. unfold WordList.pass2. induction sigma as [|w sigma IH]; intros S H; cbn; [assumption|]. apply IH, visit_NoDup, H. Qed.

(** a twin is deleted as soon as the pass visits a witness; a deleted word, being
    a fixed point of title, could never have deleted anything itself *)
Lemma twin_deleted sigma : forall S0 S c v, Inv S0 S ->
  In v S0 -> v <> c -> title v = c -> In v sigma ->
  ~ In c (fold_left visit sigma S).
Proof.
  induction sigma as [|w sigma IH]; intros S0 S c v HI Hv Hne Ht Hin; [destruct Hin|].
  cbn [fold_left]. destruct (beqb_spec w v) as [->|Hwv].
  - assert (Hvn : ~ twin S0 v). { intros Htw. apply twin_fixed in Htw. congruence. }
    assert (HvS : In v S) by (apply HI; assumption).
    intros Hc. apply fold_subset in Hc. unfold WordList.visit in Hc.
    apply mem_In in HvS. rewrite HvS, Ht in Hc.
    destruct (mem c S) eqn:Ec.
    + destruct (beqb_spec c v); [congruence|]. apply In_remove in Hc. tauto.
    + apply mem_In in Hc. congruence.
  - apply (IH S0 _ c v); auto using visit_inv. destruct Hin; [congruence|assumption].
Qed.

Theorem pass2_spec sigma S0 : (forall w, In w S0 -> In w sigma) ->
  forall w, In w (pass2 sigma S0) <-> (In w S0 /\ ~ twin S0 w).
Proof.
  intros Hcov w. assert (HI : Inv S0 S0) by (split; auto).
  pose proof (pass2_inv sigma S0 S0 HI) as [H1 H2]. fold (pass2 sigma S0) in *.
  split.
  - intros Hw. split; [apply H1, Hw|]. intros (v & Hv & Hne & Ht).
    revert Hw. apply (twin_deleted sigma S0 S0 w v); auto.
  - intros [Hw Hnt]. apply H2; assumption.
Qed.

(** ---- NewWordList ---- *)
Lemma twin_dedup l w : twin (dedup l) w <-> twin l w.
Proof. unfold twin. split; intros (v & Hv & H); exists v; (split; [apply dedup_In; exact Hv || (apply dedup_In in Hv; exact Hv)|exact H]). Qed.

(** for every visiting order that covers the distinct words: one copy of each
    distinct word, a word dropped exactly when it is the title-cased form of
    another listed word, nothing else dropped *)
Theorem kept_with_spec sigma l : (forall w, In w l -> In w sigma) ->
  NoDup (kept_with title sigma l) /\
  forall w, In w (kept_with title sigma l) <-> (In w l /\ ~ twin l w).
Proof.
  intros Hcov. unfold kept_with. split; [apply pass2_NoDup, dedup_NoDup|].
  intros w. rewrite pass2_spec by (intros x Hx; apply Hcov; apply dedup_In; exact Hx).
  rewrite dedup_In, twin_dedup. reflexivity.
Qed.

Theorem kept_spec l :
  NoDup (kept title l) /\ forall w, In w (kept title l) <-> (In w l /\ ~ twin l w).
Proof. unfold kept. apply kept_with_spec. intros w Hw. apply dedup_In. exact Hw. Qed.

Lemma twin_ext l1 l2 w : (forall x, In x l1 <-> In x l2) -> (twin l1 w <-> twin l2 w).
Proof. intros H. unfold twin. split; intros (v & Hv & R); exists v; (split; [apply H; exact Hv|exact R]). Qed.

(** the kept set is the same for any order or multiplicity of the input and any
    map iteration order *)
Theorem kept_order_invariant s1 s2 l1 l2 :
  (forall x, In x l1 <-> In x l2) ->
  (forall w, In w l1 -> In w s1) -> (forall w, In w l2 -> In w s2) ->
  forall w, In w (kept_with title s1 l1) <-> In w (kept_with title s2 l2).
Proof.
  intros Hset H1 H2 w.
  rewrite (proj2 (kept_with_spec s1 l1 H1)), (proj2 (kept_with_spec s2 l2 H2)).
  rewrite (Hset w), (twin_ext l1 l2 w Hset). reflexivity.
Qed.

(** counting over a duplicate-free list depends only on the set *)
Lemma NoDup_filter_length_set (p : bytes -> bool) a c :
  NoDup a -> NoDup c -> (forall x, In x a <-> In x c) -> length (filter p a) = length (filter p c).
Proof.
  intros Ha Hc Hset.
  assert (Hp : Permutation a c) by (apply NoDup_Permutation; assumption).
  clear - Hp. induction Hp as [|x a c _ IH|x y a|a c d _ IH1 _ IH2]; cbn; auto.
  - destruct (p x); cbn; congruence.
  - destruct (p x), (p y); reflexivity.
  - congruence.
Qed.
Lemma NoDup_length_set (a c : list bytes) : NoDup a -> NoDup c -> (forall x, In x a <-> In x c) -> length a = length c.
Proof.
  intros Ha Hc Hset. apply Permutation_length. apply NoDup_Permutation; assumption.
Qed.

(** Size and the un-capitalisable count depend only on the set of input words *)
Theorem size_uncap_invariant s1 s2 l1 l2 :
  (forall x, In x l1 <-> In x l2) ->
  (forall w, In w l1 -> In w s1) -> (forall w, In w l2 -> In w s2) ->
  length (kept_with title s1 l1) = length (kept_with title s2 l2) /\
  uncap_count title (kept_with title s1 l1) = uncap_count title (kept_with title s2 l2).
Proof.
  intros Hset H1 H2.
  pose proof (kept_order_invariant s1 s2 l1 l2 Hset H1 H2) as Hk.
  destruct (kept_with_spec s1 l1 H1) as [N1 _]. destruct (kept_with_spec s2 l2 H2) as [N2 _].
  split; [apply NoDup_length_set; assumption|]. unfold uncap_count. apply NoDup_filter_length_set; assumption.
Qed.

(** what NewWordList returns *)
Lemma same_set_spec a c : same_set a c = true ->
  (forall x, In x a <-> In x c) /\ length a = length c.
Proof.
  unfold same_set. intros H. apply andb_prop in H. destruct H as [H H3]. apply andb_prop in H. destruct H as [H1 H2].
  rewrite forallb_forall in H1, H2. apply Nat.eqb_eq in H3. split; [|exact H3].
  intros x. split; intros Hx; apply mem_In; auto.
Qed.

Theorem new_word_list_spec emit l wl d :
  new_word_list title emit l = (Done (Some wl), d) ->
  l <> [] /\
  (forall w, In w (wlWords wl) <-> (In w l /\ ~ twin l w)) /\
  length (wlWords wl) = length (kept title l) /\
  wlUncap wl = uncap_count title (kept title l).
Proof.
  unfold new_word_list. destruct l as [|w0 l0] eqn:El; [discriminate|]. rewrite <- El in *.
  destruct (same_set _ _) eqn:E; [|discriminate]. intros [= <- _]. cbn [wlWords wlUncap].
  apply same_set_spec in E. destruct E as [Hset Hlen].
  split; [rewrite El; discriminate|]. split; [|split; [exact Hlen|reflexivity]].
  intros w. rewrite Hset. apply kept_spec.
Qed.

Theorem new_word_list_empty emit : new_word_list title emit [] = (Err EEmptyList, []).
Proof. reflexivity. Qed.

(** the emitted words have no duplicates (same length and same set as a duplicate-free list) *)
Lemma NoDup_same_set (a c : list bytes) : NoDup c -> (forall x, In x a <-> In x c) -> length a = length c -> NoDup a.
Proof.
  intros Hc Hset Hlen. apply NoDup_incl_NoDup with (l := c) (l' := a) in Hc.
  - exact Hc.
  - lia.
  - intros x Hx. apply Hset. exact Hx.
Qed.

Theorem new_word_list_nodup emit l wl d :
  new_word_list title emit l = (Done (Some wl), d) -> NoDup (wlWords wl).
Proof.
  unfold new_word_list. destruct l as [|w0 l0] eqn:El; [discriminate|]. rewrite <- El in *.
  destruct (same_set _ _) eqn:E; [|discriminate]. intros [= <- _]. cbn [wlWords].
  apply same_set_spec in E. destruct E as [Hset Hlen].
  eapply NoDup_same_set; [apply (proj1 (kept_spec l))|exact Hset|exact Hlen].
Qed.

(** on the kept words title is injective, and a kept word's title form is not
    another kept word (the premise C04/C06 need, derived rather than assumed) *)
Theorem kept_title_fresh l w : In w (kept title l) -> title w <> w -> ~ In (title w) (kept title l).
Proof.
  intros Hw Hne Ht. apply kept_spec in Hw, Ht. destruct Hw as [Hw _]. destruct Ht as [_ Hnt].
  apply Hnt. exists w. repeat split; auto.
Qed.
End WL.

(** non-vacuity: the ASCII title function is idempotent *)
Lemma title_ascii_from_idem : forall s st, title_ascii_from st (title_ascii_from st s) = title_ascii_from st s.
Proof.
  induction s as [|c s IH]; intros st; [reflexivity|]. cbn [title_ascii_from].
  assert (Hal : is_alnum_ (if st && is_lower c then (c - 32)%N else c) = is_alnum_ c).
  { destruct (st && is_lower c) eqn:E; [|reflexivity]. apply andb_prop in E. destruct E as [_ E].
    unfold is_lower in E. unfold is_alnum_. apply andb_prop in E. destruct E as [E1 E2].
    apply N.leb_le in E1, E2.
    assert ((97 <=? c)%N = true) by (apply N.leb_le; lia). assert ((c <=? 122)%N = true) by (apply N.leb_le; lia).
    assert ((65 <=? c - 32)%N = true) by (apply N.leb_le; lia). assert ((c - 32 <=? 90)%N = true) by (apply N.leb_le; lia).
    rewrite H, H0, H1, H2. cbn. repeat rewrite orb_true_r. reflexivity. }
  rewrite Hal, IH. f_equal.
  destruct (st && is_lower c) eqn:E; [|rewrite E; reflexivity].
  assert (is_lower (c - 32)%N = false).
  { apply andb_prop in E. destruct E as [_ E]. unfold is_lower in *. apply andb_prop in E. destruct E as [E1 E2].
    apply N.leb_le in E1, E2. apply andb_false_iff. left. apply N.leb_gt. lia. }
  rewrite H, andb_false_r. reflexivity.
Qed.
Theorem title_ascii_idem s : title_ascii (title_ascii s) = title_ascii s.
Proof. apply title_ascii_from_idem. Qed.
