(** C17: what the command line decides, and what is printed. *)
From Spg.Base Require Import Prelude Utf8 Bytes.
From Spg.Model Require Import Tables Rand GenM CharSets CharGen Token WordList WordGen Cli.
From Spg.Proofs Require Import GenProofs CharGenProofs WordGenProofs.
From Coq Require Import String.
Close Scope string_scope.
Close Scope N_scope.

(** ---- class lists ---- *)
Definition class_words (v : bytes) (defaults : list bytes) : list bytes :=
  match v with [] => defaults | _ => split_on 44 (filter (fun x => negb (N.eqb x 32)) v) [] end.
Definition names_flag (f : N) (w : bytes) : bool :=
  match assoc w cc_map with Some g => N.eqb g f | None => false end.

Lemma has_flag_lor m g f : has_flag (N.lor m g) f = has_flag m f || has_flag g f.
Proof.
  unfold has_flag. rewrite N.land_lor_distr_l.
  destruct (N.eqb_spec (N.land m f) 0) as [E1|E1], (N.eqb_spec (N.land g f) 0) as [E2|E2]; cbn [negb orb].
  - rewrite E1, E2. reflexivity.
  - rewrite E1. rewrite N.lor_0_l. destruct (N.eqb_spec (N.land g f) 0); [contradiction|reflexivity].
  - rewrite E2. rewrite N.lor_0_r. destruct (N.eqb_spec (N.land m f) 0); [contradiction|reflexivity].
  - destruct (N.eqb_spec (N.lor (N.land m f) (N.land g f)) 0) as [E|E]; [|reflexivity].
    apply N.lor_eq_0_iff in E. tauto.
Qed.

Definition single_flags : list N := [Uppers; Lowers; Digits; Symbols; Ambiguous].

(** a class flag is set in the result exactly when one of the listed words names it *)
Theorem parse_classes_spec v defaults f : In f single_flags ->
  has_flag (parse_classes v defaults) f = existsb (names_flag f) (class_words v defaults).
Proof.
  intros Hf. unfold parse_classes. fold (class_words v defaults).
  assert (H : forall ws acc, has_flag (fold_left (fun acc c => match assoc c cc_map with Some g => N.lor acc g | None => acc end) ws acc) f
                             = has_flag acc f || existsb (names_flag f) ws).
  { induction ws as [|w ws IH]; intros acc; cbn [fold_left existsb]; [rewrite orb_false_r; reflexivity|].
    rewrite IH. destruct (assoc w cc_map) as [g|] eqn:E.
    - rewrite has_flag_lor, <- orb_assoc. f_equal. f_equal. unfold names_flag. rewrite E.
      assert (Hg : In g single_flags).
      { clear - E. unfold cc_map in E. cbn [assoc] in E.
        repeat (match type of E with (if ?c then _ else _) = _ => destruct c; [injection E as <-; cbn; tauto|] end). discriminate. }
      cbn [single_flags In] in Hf, Hg.
      destruct Hf as [<-|[<-|[<-|[<-|[<-|[]]]]]]; destruct Hg as [<-|[<-|[<-|[<-|[<-|[]]]]]]; reflexivity.
    - cbn [orb]. f_equal. unfold names_flag. rewrite E. reflexivity. }
  rewrite H. reflexivity.
Qed.

(** ---- usage errors ---- *)
Theorem plan_no_args fs : cli_plan fs [] = AUsage.
Proof. reflexivity. Qed.

(** a first argument that is not a flag and not a subcommand: usage, exit status 2 *)
Definition flag_like (s : bytes) : bool := match s with d :: _ :: _ => N.eqb d 45 | _ => false end.
Theorem plan_unknown_subcommand fs a0 rest :
  flag_like a0 = false ->
  beqb a0 (bos "characters"%string) = false -> beqb a0 (bos "words"%string) = false ->
  cli_plan fs (a0 :: rest) = AUsage.
Proof.
  intros Hd H1 H2. unfold cli_plan. cbn [parse_flags].
  destruct a0 as [|x [|y r]]; cbn [flag_like] in Hd; try (rewrite H1, H2; reflexivity).
  rewrite Hd. cbn [negb]. rewrite H1, H2. reflexivity.
Qed.

(** an undefined flag is a flag error (exit status 2), whatever follows *)
Lemma parse_flags_unknown fuel defs name0 rest env x more :
  name0 = x :: more -> N.eqb x 45 = false -> N.eqb x 61 = false ->
  assoc (fst (split_eq name0 [])) defs = None ->
  beqb (fst (split_eq name0 [])) (bos "help"%string) = false -> beqb (fst (split_eq name0 [])) (bos "h"%string) = false ->
  (parse_flags (S fuel) defs ((45%N :: 45%N :: name0) :: rest) env = PError) /\
  (parse_flags (S fuel) defs ((45%N :: name0) :: rest) env = PError).
Proof.
  intros -> Hx1 Hx2 Ha Hh1 Hh2. split.
  - cbn [parse_flags]. change (N.eqb 45 45) with true. cbn [negb andb]. rewrite Hx1, Hx2. cbn [orb].
    destruct (split_eq (x :: more) []) as [name val]. cbn [fst] in *. rewrite Ha, Hh1, Hh2. reflexivity.
  - cbn [parse_flags]. change (N.eqb 45 45) with true. cbn [negb]. rewrite Hx1. cbn [andb]. rewrite Hx1, Hx2. cbn [orb].
    destruct (split_eq (x :: more) []) as [name val]. cbn [fst] in *. rewrite Ha, Hh1, Hh2. reflexivity.
Qed.

(** an unknown built-in list is a usage error; an unreadable or empty file is fatal *)
Theorem plan_words_unknown_list fs env :
  get_str env (bos "file"%string) [] = [] ->
  beqb (get_str env (bos "list"%string) default_list) (bos "words"%string) = false ->
  beqb (get_str env (bos "list"%string) default_list) (bos "syllables"%string) = false ->
  plan_words fs env = AUsage.
Proof. intros Hf H1 H2. unfold plan_words. rewrite Hf, H1, H2. reflexivity. Qed.

Theorem plan_words_unreadable fs env f : get_str env (bos "file"%string) [] = f -> f <> [] -> fs f = None -> plan_words fs env = AFatal.
Proof. intros Hf Hne Hn. unfold plan_words. rewrite Hf. destruct f; [congruence|]. rewrite Hn. reflexivity. Qed.

(** ---- what is printed: the library model's own result ---- *)
Section Exec.
Variable title : bytes -> bytes.
Variable aw asyl : outcome (option word_list).
Notation cli_exec := (cli_exec title aw asyl).

Theorem exec_no_password a out : reach (cli_exec a) out ->
  match a with AUsage | AFlagError | AOutside => coExit out = 2%N /\ coPassword out = None /\ coEntropy out = None
             | AHelp => coExit out = 0%N /\ coPassword out = None /\ coEntropy out = None
             | AFatal => coExit out = 1%N /\ coPassword out = None /\ coEntropy out = None
             | _ => True end.
Proof. destruct a; cbn [Cli.cli_exec reach]; try (intros <-; auto); auto. Qed.

(** characters: exit 0 with ONE password that satisfies the planned recipe, or exit 1 and nothing *)
Theorem exec_chars r out : reach (cli_exec (AChar r false)) out ->
  (coExit out = 0%N /\ coEntropy out = None /\ exists cand, coPassword out = Some (map (fun g => Tok g AtomType) cand) /\ Satisfies r cand) \/
  (coExit out = 1%N /\ coPassword out = None /\ coEntropy out = None).
Proof.
  cbn [Cli.cli_exec]. intros H. apply reach_bind in H. destruct H as (o & Ho & H).
  destruct o as [cand|e|p]; cbn [reach] in H; subst out; cbn; [left|right; auto|right; auto].
  apply char_generate_reach in Ho. destruct Ho as [Hs _]. repeat split; auto. exists cand. auto.
Qed.
Theorem exec_chars_entropy r out : reach (cli_exec (AChar r true)) out ->
  coExit out = 0%N /\ coPassword out = None /\ coEntropy out = Some (Datatypes.inl (char_entropy r)).
Proof. cbn [Cli.cli_exec reach]. intros <-. auto. Qed.

(** words: exit 0 with ONE password the planned wordlist recipe can generate, or exit 1 and nothing *)
Theorem exec_words p out : reach (cli_exec (AWords p false)) out ->
  (coExit out = 0%N /\ coEntropy out = None /\ exists wl ts e, word_list_of title aw asyl (wpSource p) = Done (Some wl) /\
     coPassword out = Some ts /\ reach (wl_generate title default_budget (mkWLR (Some wl) (wpSize p) (wpSep p) (wpCap p))) (Done (ts, e))) \/
  (coExit out = 1%N /\ coPassword out = None /\ coEntropy out = None).
Proof.
  cbn [Cli.cli_exec]. destruct (word_list_of title aw asyl (wpSource p)) as [[wl|]|e|pn] eqn:E; try (cbn [reach]; intros <-; right; auto).
  intros H. apply reach_bind in H. destruct H as (o & Ho & H).
  destruct o as [[ts e]|e|pn]; cbn [reach] in H; subst out; cbn; [left|right; auto|right; auto].
  repeat split; auto. exists wl, ts, e. auto.
Qed.
Theorem exec_words_entropy p out : reach (cli_exec (AWords p true)) out ->
  (coExit out = 0%N /\ coPassword out = None /\ exists wl e, word_list_of title aw asyl (wpSource p) = Done (Some wl) /\
     coEntropy out = Some (Datatypes.inr e) /\ reach (wl_entropy_gen default_budget (mkWLR (Some wl) (wpSize p) (wpSep p) (wpCap p)) wl) e) \/
  (coExit out = 1%N /\ coPassword out = None /\ coEntropy out = None).
Proof.
  cbn [Cli.cli_exec]. destruct (word_list_of title aw asyl (wpSource p)) as [[wl|]|e|pn] eqn:E; try (cbn [reach]; intros <-; right; auto).
  intros H. apply reach_bind in H. destruct H as (e & He & H). cbn [reach] in H. subst out. left. cbn. repeat split; auto.
  exists wl, e. auto.
Qed.
End Exec.
