(** C18: the diagnostics are a function of the recipe alone, and consist of fixed
    templates with decimal integers in the holes. *)
From Spg.Base Require Import Prelude Utf8 Bytes.
From Spg.Model Require Import Tables Rand GenM CharSets CharGen Token WordList WordGen Diag.
Close Scope N_scope.

Lemma dec_fuel_digits fuel : forall n acc,
  forallb (fun x => (N.leb 48 x) && (N.leb x 57)) acc = true ->
  forallb (fun x => (N.leb 48 x) && (N.leb x 57)) (dec_fuel fuel n acc) = true.
Proof.
  induction fuel as [|f IH]; intros n acc H; cbn [dec_fuel]; [exact H|].
  assert (Hd : ((48 <=? 48 + n mod 10)%N && (48 + n mod 10 <=? 57)%N) = true).
  { apply andb_true_intro. split; apply N.leb_le; [lia|]. pose proof (N.mod_upper_bound n 10). lia. }
  destruct (n <? 10)%N.
  - cbn [forallb]. rewrite Hd. exact H.
  - apply IH. cbn [forallb]. rewrite Hd. exact H.
Qed.

Lemma dec_fuel_nonempty fuel n acc : fuel <> 0 -> dec_fuel fuel n acc <> [].
Proof.
  revert n acc. induction fuel as [|f IH]; intros n acc H; [congruence|]. cbn [dec_fuel].
  destruct (n <? 10)%N; [discriminate|]. destruct f; [cbn; discriminate|]. apply IH. discriminate.
Qed.

Theorem dec_Z_is_decimal z : is_decimal (dec_Z z) = true.
Proof.
  destruct z as [|p|p]; [reflexivity| |].
  - unfold dec_Z, dec_N. unfold is_decimal.
    destruct (dec_fuel _ _ _) as [|c r] eqn:E; [exfalso; revert E; apply dec_fuel_nonempty; discriminate|].
    rewrite <- E. rewrite dec_fuel_digits by reflexivity. apply orb_true_r.
  - unfold dec_Z, is_decimal. cbn [N.eqb Pos.eqb].
    unfold dec_N. destruct (dec_fuel _ _ _) as [|c r] eqn:E; [exfalso; revert E; apply dec_fuel_nonempty; discriminate|].
    cbn [negb andb]. rewrite <- E. rewrite dec_fuel_digits by reflexivity. reflexivity.
Qed.

(** every emitted line is one of the fixed templates with a decimal integer in the hole *)
Theorem diag_grammar d :
  exists s pre post num, In (s, pre, post) templates /\ is_decimal num = true /\ render d = (s, pre ++ num ++ post).
Proof.
  destruct d as [n|n].
  - exists Stdout, tpl_entropy_simple, nl, (dec_Z n). split; [left; reflexivity|]. split; [apply dec_Z_is_decimal|reflexivity].
  - exists Log, [], (tpl_duplicates ++ nl), (dec_Z n). split; [right; left; reflexivity|]. split; [apply dec_Z_is_decimal|].
    reflexivity.
Qed.

(** the numbers are counts: the alphabet size (0) and the number of duplicate words *)
Theorem char_diag_values r d : In d (char_generate_diag r) -> d = DEntropySimpleNot 0.
Proof.
  unfold char_generate_diag. destruct (crLength r <? 1)%Z; [intros []|].
  unfold char_entropy_diag. destruct (char_entropy r) as [c|L [|p]]; cbn; intros H; try destruct H as [H|[]]; try destruct H; auto.
Qed.

Theorem new_word_list_diag_values title emit l o ds d :
  new_word_list title emit l = (o, ds) -> In d ds ->
  d = DDuplicates (Z.of_nat (length l - length (kept title l))).
Proof.
  unfold new_word_list. destruct l as [|w0 l0] eqn:El; [intros [= _ <-] []|]. rewrite <- El.
  destruct (same_set _ _); intros [= _ <-]; destruct (Nat.ltb _ _); cbn; intros H; try destruct H as [H|[]]; try destruct H; auto.
Qed.

(** Non-interference.  The diagnostics of a generation are given by functions
    of the recipe alone ([char_generate_diag r], [wl_generate_diag r]): they take
    no random source, so no byte drawn — hence no candidate, accepted or
    rejected, no word and no separator — can influence a single emitted byte.
    Stated as: two runs on ANY two sources emit the same diagnostics. *)
Definition char_run_with_diag (b : budget) (r : char_recipe) (src : source) : (outcome (list bytes) * N) * list diag :=
  (run_src (char_generate b r) src, char_generate_diag r).
Definition wl_run_with_diag (title : bytes -> bytes) (b : budget) (r : wl_recipe) (src : source) :=
  (run_src (wl_generate title b r) src, wl_generate_diag r).

Theorem diag_tape_independent_char b r src1 src2 :
  snd (char_run_with_diag b r src1) = snd (char_run_with_diag b r src2).
Proof. reflexivity. Qed.
Theorem diag_tape_independent_wl title b r src1 src2 :
  snd (wl_run_with_diag title b r src1) = snd (wl_run_with_diag title b r src2).
Proof. reflexivity. Qed.

(** the wordlist diagnostics are those of the separator recipe, once per separator call *)
Theorem wl_diag_values r d : In d (wl_generate_diag r) -> d = DEntropySimpleNot 0.
Proof.
  unfold wl_generate_diag. destruct (wrList r) as [wl|]; [|intros []].
  destruct (wlWords wl); [intros []|]. destruct (wrLength r <? 1)%Z; [intros []|].
  intros H. apply in_concat in H. destruct H as (x & Hx & Hd). apply repeat_spec in Hx. subst x.
  unfold sep_diag in Hd. destruct (wrSep r) as [c|c|sr]; try destruct Hd. eapply char_diag_values. exact Hd.
Qed.

Example render_examples :
  render (DEntropySimpleNot 0) = (Stdout, tpl_entropy_simple ++ [48%N] ++ nl) /\
  render (DDuplicates 12) = (Log, [49; 50]%N ++ tpl_duplicates ++ nl) /\
  dec_Z (-305) = [45; 51; 48; 53]%N /\ dec_Z 1000000000 = [49; 48; 48; 48; 48; 48; 48; 48; 48; 48]%N.
Proof. vm_compute. repeat split. Qed.
