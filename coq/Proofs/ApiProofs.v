(** C15: calls are pure; results reflect the recipe's current public fields. *)
From Spg.Base Require Import Prelude Utf8 Bytes.
From Spg.Model Require Import Tables Rand GenM CharSets CharGen Token WordList WordGen Api.
Close Scope N_scope.

(** the methods, although they read the cache fields, are functions of the public fields *)
Lemma m_entropy_pure c : m_entropy c = char_entropy (coPub c).
Proof. reflexivity. Qed.
Lemma m_generate_pure b c : m_generate b c = char_generate b (coPub c).
Proof.
  unfold m_generate, char_generate. destruct (crLength (coPub c) <? 1)%Z; [reflexivity|].
  cbn [build]. unfold sp_num, sp_den, recipe_count, cached_count, cached_required, live_sets.
  cbn [coCache coPub cAllowed cRequired]. fold (alphabet (coPub c)).
  destruct (alphabet (coPub c)); reflexivity.
Qed.
Lemma m_alphabet_pure c : m_alphabet c = alphabet_string (coPub c).
Proof. reflexivity. Qed.

(** the initial contents of the cache fields are irrelevant *)
Theorem cache_irrelevant b r k1 k2 :
  m_generate b (mkCO r k1) = m_generate b (mkCO r k2) /\
  m_entropy (mkCO r k1) = m_entropy (mkCO r k2) /\
  m_alphabet (mkCO r k1) = m_alphabet (mkCO r k2).
Proof. rewrite !m_generate_pure. repeat split. Qed.

Section Hist.
Variable title : bytes -> bytes.
Variable b : budget.

(** a call never changes the state: no public field, list, or separator is modified *)
Theorem calls_preserve_state s o :
  match o with SetChar _ _ | SetWL _ _ => True | _ => fst (step title b s o) = s end.
Proof. destruct o; cbn; auto. Qed.

(** the public view of a state *)
Definition pub_of (o : obj) : obj :=
  match o with OChar c => OChar (mkCO (coPub c) None) | OWL w => OWL w end.
Definition pub_state (s : state) : state := map pub_of s.

Lemma nth_error_pub s h : nth_error (pub_state s) h = option_map pub_of (nth_error s h).
Proof. unfold pub_state. apply nth_error_map. Qed.

(** a call's result depends only on the public fields *)
Lemma call_pub s o : call title b s o = call title b (pub_state s) o.
Proof.
  destruct o as [h r|h w|h src|h src|h|h]; cbn [call]; try reflexivity; rewrite nth_error_pub;
    destruct (nth_error s h) as [[c|w]|]; cbn [option_map pub_of]; reflexivity.
Qed.

Lemma set_nth_map {X Y} (f : X -> Y) n x l : map f (set_nth n x l) = set_nth n (f x) (map f l).
Proof. revert l. induction n as [|n IH]; intros [|y l]; cbn; try reflexivity. rewrite IH. reflexivity. Qed.

Lemma step_pub s o :
  pub_state (fst (step title b s o)) = fst (step title b (pub_state s) o) /\
  snd (step title b s o) = snd (step title b (pub_state s) o).
Proof.
  destruct o as [h r|h w|h src|h src|h|h]; cbn [step];
    try (split; [reflexivity|apply call_pub]).
  - rewrite nth_error_pub. destruct (nth_error s h) as [[c|w]|]; cbn [option_map pub_of fst snd]; auto.
    split; [|reflexivity]. unfold pub_state. rewrite set_nth_map. reflexivity.
  - rewrite nth_error_pub. destruct (nth_error s h) as [[c|w']|]; cbn [option_map pub_of fst snd]; auto.
    split; [|reflexivity]. unfold pub_state. rewrite set_nth_map. reflexivity.
Qed.

(** the state after a history, as far as the public fields go: only the Set operations matter *)
Definition apply_set (s : state) (o : op) : state := fst (step title b s o).

(** history independence: in any sequence of operations on any number of recipes,
    the result of each call is the result of that call on the CURRENT public
    fields — i.e. on the state obtained by replaying only the field assignments
    that precede it, from any starting contents of the cache fields.  No earlier
    call (on this or any other recipe) matters. *)
Fixpoint run_pure (s : state) (ops : list op) : list result :=
  match ops with
  | [] => []
  | o :: ops' =>
      match o with
      | SetChar _ _ | SetWL _ _ => RNone :: run_pure (apply_set s o) ops'
      | _ => call title b (pub_state s) o :: run_pure s ops'
      end
  end.

Theorem history_independence ops : forall s s',
  pub_state s = pub_state s' -> run_ops title b s ops = run_pure s' ops.
Proof.
  induction ops as [|o ops IH]; intros s s' Hs; [reflexivity|].
  cbn [run_ops run_pure].
  destruct (step title b s o) as [s1 r1] eqn:E.
  assert (Hr : r1 = snd (step title b s o)) by (rewrite E; reflexivity).
  assert (Hs1 : s1 = fst (step title b s o)) by (rewrite E; reflexivity).
  destruct (step_pub s o) as [P1 P2]. destruct (step_pub s' o) as [Q1 Q2].
  destruct o as [h r|h w|h src|h src|h|h].
  - f_equal; [rewrite Hr; cbn [step]; destruct (nth_error s h) as [[?|?]|]; reflexivity|].
    apply IH. unfold apply_set. rewrite Hs1, P1, Q1, Hs. reflexivity.
  - f_equal; [rewrite Hr; cbn [step]; destruct (nth_error s h) as [[?|?]|]; reflexivity|].
    apply IH. unfold apply_set. rewrite Hs1, P1, Q1, Hs. reflexivity.
  - f_equal; [rewrite Hr; cbn [step snd]; rewrite call_pub, Hs; reflexivity|].
    apply IH. rewrite Hs1. cbn [step fst]. exact Hs.
  - f_equal; [rewrite Hr; cbn [step snd]; rewrite call_pub, Hs; reflexivity|].
    apply IH. rewrite Hs1. cbn [step fst]. exact Hs.
  - f_equal; [rewrite Hr; cbn [step snd]; rewrite call_pub, Hs; reflexivity|].
    apply IH. rewrite Hs1. cbn [step fst]. exact Hs.
  - f_equal; [rewrite Hr; cbn [step snd]; rewrite call_pub, Hs; reflexivity|].
    apply IH. rewrite Hs1. cbn [step fst]. exact Hs.
Qed.

(** replay invariance: the same call with the same tape after two histories that
    leave the same public fields gives the same result *)
Corollary replay_invariance ops1 ops2 s o :
  pub_state (fold_left apply_set ops1 s) = pub_state (fold_left apply_set ops2 s) ->
  call title b (fold_left apply_set ops1 s) o = call title b (fold_left apply_set ops2 s) o.
Proof. intros H. rewrite call_pub, H, <- call_pub. reflexivity. Qed.
End Hist.
