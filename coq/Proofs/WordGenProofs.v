(** C05, C08, C13 (wordlist part): the wordlist generator. *)
From Spg.Base Require Import Prelude Utf8 Bytes.
From Spg.Model Require Import Tables Rand GenM CharSets CharGen Token WordList WordGen.
From Spg.Proofs Require Import RandProofs SetProofs CountProofs GenProofs CharGenProofs WordListProofs.
Close Scope N_scope.

Section WG.
Variable title : bytes -> bytes.
Variable b : budget.

Notation sep_call := (sep_call b).
Notation words_loop := (words_loop title b).
Notation wl_generate := (wl_generate title b).
Notation wl_entropy_gen := (wl_entropy_gen b).

(** ---- C13: the decision of WLRecipe.Generate ---- *)
Theorem wl_generate_decision r :
  wl_generate r =
    match wrList r with
    | None => Ret (Err ENoList)
    | Some wl =>
      match wlWords wl with
      | [] => Ret (Err ENoList)
      | ws =>
        if (wrLength r <? 1)%Z then Ret (Err EBadLength)
        else bind (caps_gen (wrCap r) (Z.to_nat (wrLength r))) (fun caps =>
             bind (words_loop ws (wrSep r) caps) (fun ts =>
             bind (wl_entropy_gen r wl) (fun e => Ret (Done (ts, e)))))
      end
    end.
Proof. reflexivity. Qed.

(** a separator call returns a string and never fails *)
Lemma reach_sep_call s se : reach (sep_call s) se ->
  match s with
  | SepChar c | SepConst c => se = (c, None)
  | SepRecipe r => (exists cand, Satisfies r cand /\ se = (concat cand, Some (char_entropy r))) \/ se = ([], None)
  end.
Proof.
  destruct s as [c|c|r]; cbn [WordGen.sep_call reach]; try (intros <-; reflexivity).
  intros H. apply reach_bind in H. destruct H as (o & Ho & H).
  destruct o as [cand|e|p]; cbn [reach] in H; subst se; auto.
  left. exists cand. apply char_generate_reach in Ho. destruct Ho as [Hs _]. auto.
Qed.

(** ---- C05: the shape of what the loop assembles ---- *)
Definition atom_tok (w : bytes) : list token := match w with [] => [] | _ => [Tok w AtomType] end.
Definition sep_tok (s : bytes) : list token := match s with [] => [] | _ => [Tok s SeparatorType] end.

(** atoms a_1..a_L and separators s_1..s_(L-1) interleaved; empty ones give no token *)
Fixpoint assemble (atoms seps : list bytes) : list token :=
  match atoms with
  | [] => []
  | a :: atoms' =>
      match atoms' with
      | [] => atom_tok a
      | _ => atom_tok a ++ sep_tok (hd [] seps) ++ assemble atoms' (tl seps)
      end
  end.

Definition sep_value_ok (s : sep_fun) (v : bytes) : Prop :=
  match s with
  | SepChar c | SepConst c => v = c
  | SepRecipe r => (exists cand, Satisfies r cand /\ v = concat cand) \/ v = []
  end.

Theorem reach_words_loop ws s : forall caps ts, reach (words_loop ws s caps) ts ->
  exists (idxs : list N) (seps : list bytes),
    length idxs = length caps /\ Forall (fun i => (i < N.of_nat (length ws))%N) idxs /\
    length seps = pred (length caps) /\ Forall (sep_value_ok s) seps /\
    ts = assemble (map (fun ci : bool * N => let w0 := nth (N.to_nat (snd ci)) ws [] in if fst ci then title w0 else w0)
                       (combine caps idxs)) seps.
Proof.
  induction caps as [|c caps IH]; intros ts; cbn [WordGen.words_loop reach].
  - intros <-. exists [], []. repeat split; constructor.
  - intros (i & Hi & H). destruct caps as [|c' caps'].
    + cbn [reach] in H. subst ts. exists [i], []. cbn. repeat split; auto; constructor; auto.
    + apply reach_bind in H. destruct H as (se & Hse & H). apply reach_bind in H. destruct H as (rest & Hrest & H).
      cbn [reach] in H. subst ts. destruct (IH rest Hrest) as (idxs & seps & Hl1 & Hf1 & Hl2 & Hf2 & ->).
      exists (i :: idxs), (fst se :: seps).
      split; [cbn [length] in *; congruence|].
      split; [constructor; assumption|].
      split; [cbn [length pred] in *; congruence|].
      split.
      * constructor; [|exact Hf2].
        apply reach_sep_call in Hse. destruct s as [x|x|r]; cbn [sep_value_ok].
        -- subst se; reflexivity.
        -- subst se; reflexivity.
        -- destruct Hse as [(cand & Hs & ->)| ->]; [left; exists cand; auto|right; reflexivity].
      * destruct idxs as [|i' idxs']; [cbn in Hl1; discriminate|].
        cbn [combine map assemble fst snd hd tl]. unfold atom_tok, sep_tok.
        set (w := if c then _ else _). destruct w; destruct (fst se); reflexivity.
Qed.

(** which capitalisation patterns a scheme can produce *)
Definition caps_allowed (c : cap_scheme) (L : nat) (caps : list bool) : Prop :=
  length caps = L /\
  match c with
  | CapFirst => forall i, nth i caps false = Nat.eqb i 0 \/ L <= i
  | CapAll => forall i, i < L -> nth i caps false = true
  | CapOne => exists w, w < L /\ forall i, i < L -> nth i caps false = Nat.eqb i w
  | CapRandom => True
  | _ => forall i, nth i caps false = false
  end.

Lemma nth_map_seq {X} (f : nat -> X) d L i : i < L -> nth i (map f (seq 0 L)) d = f i.
Proof. intros H. rewrite (nth_indep _ d (f 0)) by (rewrite map_length, seq_length; exact H).
  rewrite map_nth, seq_nth by exact H. reflexivity. Qed.

Lemma nth_repeat {X} (x d : X) L i : i < L -> nth i (repeat x L) d = x.
Proof. revert i. induction L as [|L IH]; intros i H; [lia|]. destruct i; cbn; [reflexivity|apply IH; lia]. Qed.

Theorem reach_caps_gen c L caps : reach (caps_gen c L) caps -> caps_allowed c L caps.
Proof.
  unfold caps_allowed. destruct c; cbn [caps_gen reach].
  - intros <-. split; [apply repeat_length|]. intros i. destruct (Nat.lt_ge_cases i L); [apply nth_repeat; assumption|].
    apply nth_overflow. rewrite repeat_length. assumption.
  - intros <-. split; [rewrite map_length, seq_length; reflexivity|]. intros i.
    destruct (Nat.lt_ge_cases i L); [left; apply (nth_map_seq (fun i => Nat.eqb i 0)); assumption|right; assumption].
  - intros <-. split; [apply repeat_length|]. intros i Hi. apply nth_repeat. assumption.
  - intros H. apply reach_fmap in H. destruct H as (v & Hv & <-). apply reach_picks in Hv.
    split; [rewrite map_length; apply Hv|exact I].
  - intros (w & Hw & <-). split; [rewrite map_length, seq_length; reflexivity|].
    exists (N.to_nat w). split; [lia|]. intros i Hi. apply (nth_map_seq (fun i => Nat.eqb i (N.to_nat w))). assumption.
  - intros <-. split; [apply repeat_length|]. intros i. destruct (Nat.lt_ge_cases i L); [apply nth_repeat; assumption|].
    apply nth_overflow. rewrite repeat_length. assumption.
Qed.

(** what Entropy() reports *)
Theorem reach_wl_entropy r wl e : reach (wl_entropy_gen r wl) e ->
  weLength e = wrLength r /\ weSize e = N.of_nat (length (wlWords wl)) /\ weBonus e = bonus_of wl (wrCap r) /\
  match wrSep r with
  | SepChar _ | SepConst _ => weSep e = None
  | SepRecipe sr => weSep e = Some (char_entropy sr) \/ weSep e = None
  end.
Proof.
  unfold WordGen.wl_entropy_gen. destruct (wrSep r) as [c|c|sr] eqn:Es.
  - cbn [reach]. intros <-. cbn. auto.
  - intros H. apply reach_bind in H. destruct H as (se & Hse & H). cbn [reach] in H. subst e. cbn.
    apply reach_sep_call in Hse. subst se. auto.
  - intros H. apply reach_bind in H. destruct H as (se & Hse & H). cbn [reach] in H. subst e. cbn.
    apply reach_sep_call in Hse. destruct Hse as [(cand & _ & ->)| ->]; cbn; auto.
Qed.

(** C05: every reachable outcome of Generate *)
Theorem wl_generate_reach r o : reach (wl_generate r) o ->
  match o with
  | Err ENoList => wl_size r = 0
  | Err EBadLength => wl_size r <> 0 /\ (wrLength r < 1)%Z
  | Done (ts, e) =>
      exists wl caps (idxs : list N) (seps : list bytes),
        wrList r = Some wl /\ wlWords wl <> [] /\ (1 <= wrLength r)%Z /\
        caps_allowed (wrCap r) (Z.to_nat (wrLength r)) caps /\
        length idxs = Z.to_nat (wrLength r) /\ Forall (fun i => (i < N.of_nat (length (wlWords wl)))%N) idxs /\
        length seps = pred (Z.to_nat (wrLength r)) /\ Forall (sep_value_ok (wrSep r)) seps /\
        ts = assemble (map (fun ci : bool * N => let w0 := nth (N.to_nat (snd ci)) (wlWords wl) [] in if fst ci then title w0 else w0)
                           (combine caps idxs)) seps /\
        reach (wl_entropy_gen r wl) e
  | Err _ => False
  | Panic _ => False
  end.
Proof.
  rewrite wl_generate_decision. unfold wl_size.
  destruct (wrList r) as [wl|] eqn:El; [|cbn [reach]; intros <-; reflexivity].
  destruct (wlWords wl) as [|w0 ws0] eqn:Ew; [cbn [reach]; intros <-; reflexivity|]. rewrite <- Ew in *.
  assert (Hne : wlWords wl <> []) by (rewrite Ew; discriminate).
  destruct (wrLength r <? 1)%Z eqn:EL.
  - cbn [reach]. intros <-. split; [rewrite Ew; discriminate|lia].
  - intros H. apply reach_bind in H. destruct H as (caps & Hcaps & H).
    apply reach_bind in H. destruct H as (ts & Hts & H). apply reach_bind in H. destruct H as (e & He & H).
    cbn [reach] in H. subst o.
    apply reach_caps_gen in Hcaps. destruct (reach_words_loop _ _ _ _ Hts) as (idxs & seps & H1 & H2 & H3 & H4 & H5).
    destruct Hcaps as [Hcl Hcp].
    exists wl, caps, idxs, seps.
    split; [reflexivity|]. split; [exact Hne|]. split; [lia|]. split; [split; assumption|].
    split; [congruence|]. split; [exact H2|]. split; [congruence|]. split; [exact H4|]. split; [exact H5|exact He].
Qed.

(** on any raw-word stream: a returned wordlist password has that shape *)
Theorem wl_generate_sound r ws ts e rest :
  run_words (wl_generate r) ws = RDone (Done (ts, e)) rest ->
  exists wl caps (idxs : list N) (seps : list bytes),
        wrList r = Some wl /\ wlWords wl <> [] /\ (1 <= wrLength r)%Z /\
        caps_allowed (wrCap r) (Z.to_nat (wrLength r)) caps /\
        length idxs = Z.to_nat (wrLength r) /\ Forall (fun i => (i < N.of_nat (length (wlWords wl)))%N) idxs /\
        length seps = pred (Z.to_nat (wrLength r)) /\ Forall (sep_value_ok (wrSep r)) seps /\
        ts = assemble (map (fun ci : bool * N => let w0 := nth (N.to_nat (snd ci)) (wlWords wl) [] in if fst ci then title w0 else w0)
                           (combine caps idxs)) seps /\
        reach (wl_entropy_gen r wl) e.
Proof. intros H. apply run_words_reach in H. destruct H as [H _]. apply wl_generate_reach in H. exact H. Qed.

(** ---- structure of assembled token lists ---- *)
Lemma atoms_of_assemble (atoms seps : list bytes) : Forall (fun a : bytes => a <> []) atoms ->
  of_type AtomType (assemble atoms seps) = atoms.
Proof.
  revert seps. induction atoms as [|a atoms IH]; intros seps H; [reflexivity|].
  inversion H as [|? ? Ha Hr]; subst. cbn [assemble]. destruct atoms as [|a' atoms'].
  - unfold atom_tok. destruct a; [congruence|reflexivity].
  - unfold of_type in *. rewrite !filter_app, !map_app. rewrite (IH (tl seps) Hr).
    unfold atom_tok, sep_tok. destruct a; [congruence|]. destruct (hd [] seps); reflexivity.
Qed.

Lemma seps_of_assemble (atoms seps : list bytes) : length seps = pred (length atoms) -> Forall (fun s : bytes => s <> []) seps ->
  of_type SeparatorType (assemble atoms seps) = seps.
Proof.
  revert seps. induction atoms as [|a atoms IH]; intros seps Hl H.
  - destruct seps; [reflexivity|discriminate].
  - cbn [assemble]. destruct atoms as [|a' atoms'].
    + destruct seps; [|discriminate]. unfold atom_tok. destruct a; reflexivity.
    + destruct seps as [|s seps]; [discriminate|]. inversion H as [|? ? Hs Hr]; subst.
      unfold of_type in *. rewrite !filter_app, !map_app. cbn [hd tl].
      rewrite (IH seps) by (cbn in *; auto; lia).
      unfold atom_tok, sep_tok. destruct a, s; try congruence; reflexivity.
Qed.

Lemma assemble_no_seps (atoms seps : list bytes) : Forall (fun s : bytes => s = []) seps ->
  of_type SeparatorType (assemble atoms seps) = [].
Proof.
  revert seps. induction atoms as [|a atoms IH]; intros seps H; [reflexivity|].
  cbn [assemble]. destruct atoms as [|a' atoms'].
  - unfold atom_tok. destruct a; reflexivity.
  - unfold of_type in *. rewrite !filter_app, !map_app.
    assert (Hs : hd [] seps = []) by (destruct seps; [reflexivity|inversion H; assumption]).
    rewrite Hs. rewrite (IH (tl seps)) by (destruct seps; [constructor|inversion H; assumption]).
    unfold atom_tok. destruct a; reflexivity.
Qed.

(** first and last token of an assembled list are atoms when the words are non-empty *)
Lemma assemble_head (atoms seps : list bytes) a : atoms <> [] -> Forall (fun a : bytes => a <> []) atoms ->
  hd_error (assemble atoms seps) = Some a -> ttype a = AtomType.
Proof.
  destruct atoms as [|a0 atoms]; [congruence|]. intros _ H. inversion H; subst.
  cbn [assemble]. destruct atoms; unfold atom_tok; destruct a0; try congruence; cbn; intros [= <-]; reflexivity.
Qed.
End WG.

(** ---- C08: the entropy depends only on the recipe and the set of words ---- *)
(** the integer whose log2 a wordlist entropy is, for Length >= 1 *)
Definition bonus_factor (bn : cap_bonus) (L : Z) : Z :=
  match bn with BonusNone => 1 | BonusRandom => 2 ^ L | BonusOne => L end.
Definition wl_entropy_count (e : wl_entropy) : Z :=
  (Z.of_N (weSize e) ^ weLength e * bonus_factor (weBonus e) (weLength e)
   * match weSep e with None => 1 | Some se => entropy_count se ^ (weLength e - 1) end)%Z.

Theorem bonus_iff_all_capitalisable wl c :
  bonus_of wl c <> BonusNone <-> (wlUncap wl = 0 /\ (c = CapRandom \/ c = CapOne)).
Proof.
  unfold bonus_of. destruct (wlUncap wl); destruct c; split; intros H; try congruence; try tauto; try (split; [reflexivity|]; auto);
    try (destruct H as [H1 [H2|H2]]; congruence).
Qed.

Lemma uncap_zero_iff (title : bytes -> bytes) K : uncap_count title K = 0 <-> forall w, In w K -> title w <> w.
Proof.
  unfold uncap_count. split.
  - intros H w Hw E. assert (Hin : In w (filter (fun w => beqb (title w) w) K)).
    { apply filter_In. split; [exact Hw|]. rewrite E. apply beqb_refl. }
    destruct (filter _ K); [destruct Hin|discriminate].
  - intros H. destruct (filter (fun w => beqb (title w) w) K) as [|w l] eqn:E; [reflexivity|]. exfalso.
    assert (Hin : In w (filter (fun w => beqb (title w) w) K)) by (rewrite E; left; reflexivity).
    apply filter_In in Hin. destruct Hin as [Hw Hb]. apply beqb_eq in Hb. exact (H w Hw Hb).
Qed.

(** two constructions from the same set of words (any order, multiplicity, map
    iteration order) give word lists of the same size and the same
    un-capitalisable count, hence the same entropy components *)
Theorem wl_entropy_input_invariant (title : bytes -> bytes) (Hidem : forall w, title (title w) = title w)
  e1 e2 l1 l2 wl1 wl2 d1 d2 c :
  (forall x, In x l1 <-> In x l2) ->
  new_word_list title e1 l1 = (Done (Some wl1), d1) ->
  new_word_list title e2 l2 = (Done (Some wl2), d2) ->
  length (wlWords wl1) = length (wlWords wl2) /\ bonus_of wl1 c = bonus_of wl2 c.
Proof.
  intros Hset H1 H2.
  apply (new_word_list_spec title Hidem) in H1, H2.
  destruct H1 as (_ & _ & Hl1 & Hu1). destruct H2 as (_ & _ & Hl2 & Hu2).
  assert (Hc1 : forall w, In w l1 -> In w (dedup l1)) by (intros w Hw; apply dedup_In; exact Hw).
  assert (Hc2 : forall w, In w l2 -> In w (dedup l2)) by (intros w Hw; apply dedup_In; exact Hw).
  destruct (size_uncap_invariant title Hidem (dedup l1) (dedup l2) l1 l2 Hset Hc1 Hc2) as [Hs Hu].
  fold (kept title l1) in Hs, Hu. fold (kept title l2) in Hs, Hu.
  split; [congruence|]. unfold bonus_of. rewrite Hu1, Hu2, Hu. reflexivity.
Qed.
