(** DESIGN §3.3, the sandwich that removes the one informal sentence: the exact
    frequency, among uniform raw 32-bit tapes, with which the tape interpreter has
    returned [a] within the first M words is below the ideal probability [prob g (=a)]
    and within [u (depth g) M] of it — and [u d M] (the chance of fewer than d heads in
    M fair coin flips) tends to 0.  So the ideal distribution the C02/C04/C06 theorems
    are about IS the limit of the frequencies over the actual byte tapes. *)
From Spg.Base Require Import Prelude SumCount.
From Spg.Model Require Import Rand GenM.
From Spg.Proofs Require Import RandProofs GenProofs RawProofs.
From Coq Require Import QArith Lqa.
Open Scope N_scope.

(** ---- the binomial tail u ---- *)
Fixpoint u (d M : nat) : Q :=
  match d with
  | O => 0%Q
  | S d' => match M with
            | O => 1%Q
            | S M' => ((1 # 2) * (u d M' + u d' M'))%Q
            end
  end.

Lemma u_0 M : u 0 M = 0%Q. Proof. destruct M; reflexivity. Qed.
Lemma u_S0 d : u (S d) 0 = 1%Q. Proof. reflexivity. Qed.
Lemma u_SS d M : u (S d) (S M) = ((1 # 2) * (u (S d) M + u d M))%Q. Proof. reflexivity. Qed.

Lemma u_bounds d : forall M, (0 <= u d M /\ u d M <= 1)%Q.
Proof.
  induction d as [|d IHd]; intros M; [rewrite u_0; lra|].
  induction M as [|M IHM]; [rewrite u_S0; lra|]. rewrite u_SS. destruct (IHd M) as [? ?]. destruct IHM as [? ?]. split; lra.
Qed.

Lemma u_mono_succ M : forall d, (u d M <= u (S d) M)%Q.
Proof.
  induction M as [|M IH]; intros d.
  - rewrite u_S0. apply u_bounds.
  - destruct d as [|d]; [rewrite u_0; apply u_bounds|]. rewrite !u_SS. pose proof (IH (S d)). pose proof (IH d). lra.
Qed.
Lemma u_mono d1 d2 M : (d1 <= d2)%nat -> (u d1 M <= u d2 M)%Q.
Proof. induction 1 as [|d2 _ IH]; [lra|]. pose proof (u_mono_succ M d2). lra. Qed.
Lemma u_decr d M : (u d (S M) <= u d M)%Q.
Proof. destruct d as [|d]; [rewrite !u_0; lra|]. rewrite u_SS. pose proof (u_mono_succ M d). lra. Qed.
Lemma u_decr_le d M1 M2 : (M1 <= M2)%nat -> (u d M2 <= u d M1)%Q.
Proof. induction 1 as [|M2 _ IH]; [lra|]. pose proof (u_decr d M2). lra. Qed.

Lemma inject_ge1 z : (1 <= z)%Z -> (1 <= inject_Z z)%Q.
Proof. intros H. unfold Qle. cbn. lia. Qed.
Lemma inject_le z1 z2 : (z1 <= z2)%Z -> (inject_Z z1 <= inject_Z z2)%Q.
Proof. intros H. rewrite <- Zle_Qle. exact H. Qed.

Lemma half_pow_le k : (Qpow (1 # 2) k * inject_Z (Z.of_nat (S k)) <= 1)%Q.
Proof.
  induction k as [|k IH]; [cbn [Qpow]; change (inject_Z (Z.of_nat 1)) with 1%Q; lra|]. cbn [Qpow].
  assert (Hp : (0 <= Qpow (1 # 2) k)%Q) by (apply Qpow_nonneg; lra).
  assert (Hn : (1 <= inject_Z (Z.of_nat (S k)))%Q) by (apply inject_ge1; lia).
  assert (E : (inject_Z (Z.of_nat (S (S k))) == inject_Z (Z.of_nat (S k)) + 1)%Q).
  { change 1%Q with (inject_Z 1). rewrite <- inject_Z_plus. apply inject_Z_injective. lia. }
  rewrite E. set (P := Qpow (1 # 2) k) in *. set (n := inject_Z (Z.of_nat (S k))) in *. nra.
Qed.

Lemma half_pow_small (eps : Q) : (0 < eps)%Q -> exists k, (Qpow (1 # 2) k <= eps)%Q.
Proof.
  intros He. destruct eps as [p q]. unfold Qlt in He. cbn in He.
  exists (Pos.to_nat q). pose proof (half_pow_le (Pos.to_nat q)) as H.
  assert (Hp : (0 <= Qpow (1 # 2) (Pos.to_nat q))%Q) by (apply Qpow_nonneg; lra).
  rewrite (Qmake_Qdiv p q). apply Qle_shift_div_l; [unfold Qlt; cbn; lia|].
  assert (Hq : (inject_Z (Zpos q) <= inject_Z (Z.of_nat (S (Pos.to_nat q))))%Q) by (apply inject_le; lia).
  assert (H1 : (1 <= inject_Z p)%Q) by (apply inject_ge1; lia).
  set (P := Qpow (1 # 2) (Pos.to_nat q)) in *. set (a := inject_Z (Zpos q)) in *. set (c := inject_Z (Z.of_nat (S (Pos.to_nat q)))) in *. nra.
Qed.

(** the tail vanishes: for every depth and every tolerance there is a tape length beyond which u stays below it *)
Theorem u_vanishes d : forall eps, (0 < eps)%Q -> exists M0, forall M, (M0 <= M)%nat -> (u d M <= eps)%Q.
Proof.
  induction d as [|d IH]; intros eps He.
  - exists 0%nat. intros M _. rewrite u_0. lra.
  - destruct (IH ((1 # 2) * eps)%Q ltac:(lra)) as (M1 & H1).
    destruct (half_pow_small ((1 # 2) * eps)%Q ltac:(lra)) as (k & Hk).
    assert (Hb : forall j, (u (S d) (M1 + j) <= Qpow (1 # 2) j + (1 # 2) * eps)%Q).
    { induction j as [|j IHj].
      - cbn [Qpow]. pose proof (u_bounds (S d) (M1 + 0)). lra.
      - replace (M1 + S j)%nat with (S (M1 + j)) by lia. rewrite u_SS. cbn [Qpow].
        pose proof (H1 (M1 + j)%nat ltac:(lia)). lra. }
    exists (M1 + k)%nat. intros M HM. eapply Qle_trans; [apply (u_decr_le (S d) (M1 + k) M HM)|].
    specialize (Hb k). lra.
Qed.

(** ---- masses in Q, with the modulus and the raw counts abstract ---- *)
Section Sandwich.
Variable Wq : N.
Variables (rj : N -> N) (fb : N -> N -> N).
Context {A : Type}.
Variable aeqb : A -> A -> bool.
Variable a : A.

(** what C01 says of a bound n: all alternatives have the same count c, c*n + rej = W, rej < W/2 *)
Definition good (n : N) : Prop :=
  1 <= n /\ exists c, (forall i, i < n -> fb n i = c) /\ c * n + rj n = Wq /\ 2 * rj n < Wq.
Fixpoint nodes_ok (g : gen A) : Prop :=
  match g with Ret _ => True | Pick n k => good n /\ forall i, i < n -> nodes_ok (k i) end.

Definition rho (n : N) : Q := (NQ (rj n) / NQ Wq)%Q.
Definition beta (n : N) : Q := ((1 - rho n) / NQ n)%Q.

Fixpoint massQ (m : nat) (g : gen A) : Q :=
  match m with
  | O => match g with Ret b => if aeqb a b then 1%Q else 0%Q | Pick _ _ => 0%Q end
  | S m' => match g with
            | Ret _ => 0%Q
            | Pick n k => (rho n * massQ m' g + beta n * sumQ n (fun i => massQ m' (k i)))%Q
            end
  end.
Fixpoint cum (M : nat) (g : gen A) : Q :=
  match M with O => massQ 0 g | S M' => (cum M' g + massQ (S M') g)%Q end.
Definition pa (g : gen A) : Q := expect g (fun b => if aeqb a b then 1%Q else 0%Q).

Fixpoint depth (g : gen A) : nat :=
  match g with
  | Ret _ => 0%nat
  | Pick n k => S (N.recursion 0%nat (fun i acc => Nat.max acc (depth (k i))) n)
  end.

Lemma depth_child n (k : N -> gen A) i : i < n ->
  (depth (k i) <= N.recursion 0%nat (fun i acc => Nat.max acc (depth (k i))) n)%nat.
Proof.
  induction n as [|n IH] using N.peano_ind; [lia|]. intros Hi.
  assert (E : N.recursion 0%nat (fun i acc => Nat.max acc (depth (k i))) (N.succ n) =
              Nat.max (N.recursion 0%nat (fun i acc => Nat.max acc (depth (k i))) n) (depth (k n))).
  { apply (N.recursion_succ (@eq nat)); [reflexivity|]. intros ? ? -> ? ? ->. reflexivity. }
  rewrite E. clear E.
  destruct (N.eq_dec i n) as [->|NE]; [lia|]. specialize (IH ltac:(lia)). lia.
Qed.

Hypothesis HW : 1 <= Wq.

Lemma Wq_pos : (0 < NQ Wq)%Q. Proof. apply NQ_pos. exact HW. Qed.

Lemma NQ_nonneg x : (0 <= NQ x)%Q. Proof. unfold NQ, Qle. cbn. lia. Qed.
Lemma NQ_lt x y : x < y -> (NQ x < NQ y)%Q. Proof. intros H. unfold NQ. rewrite <- Zlt_Qlt. lia. Qed.
Lemma NQ_le x y : x <= y -> (NQ x <= NQ y)%Q. Proof. intros H. unfold NQ. rewrite <- Zle_Qle. lia. Qed.

Lemma rho_bounds n : good n -> (0 <= rho n /\ rho n < 1 # 2)%Q.
Proof.
  intros (Hn & c & _ & Hs & Hh). unfold rho. pose proof Wq_pos as Hp. split.
  - apply Qle_shift_div_l; [exact Hp|]. rewrite Qmult_0_l. apply NQ_nonneg.
  - apply Qlt_shift_div_r; [exact Hp|]. pose proof (NQ_lt _ _ Hh) as H. rewrite NQ_mul in H.
    change (NQ 2) with 2%Q in H. lra.
Qed.

Lemma beta_n n : good n -> (beta n * NQ n == 1 - rho n)%Q.
Proof. intros (Hn & _). unfold beta. field. apply NQ_nonzero. exact Hn. Qed.

Lemma rho_W n : (rho n * NQ Wq == NQ (rj n))%Q.
Proof. unfold rho. field. pose proof Wq_pos. lra. Qed.

Lemma beta_W n c : 1 <= n -> c * n + rj n = Wq -> (beta n * NQ Wq == NQ c)%Q.
Proof.
  intros Hn Hs. unfold beta, rho. pose proof Wq_pos as Hp. pose proof (NQ_pos n Hn) as Hn'.
  assert (E : (NQ Wq == NQ c * NQ n + NQ (rj n))%Q) by (rewrite <- Hs, NQ_add, NQ_mul; reflexivity).
  rewrite E at 2. field_simplify; try lra. rewrite E. field. split; lra.
Qed.

Lemma NQ_sumBelow n (f : N -> N) : (NQ (sumBelow n f) == sumQ n (fun i => NQ (f i)))%Q.
Proof.
  induction n as [|n IH] using N.peano_ind; [reflexivity|].
  rewrite sumBelow_succ, sumQ_succ, NQ_add, IH. reflexivity.
Qed.

(** massQ is the number of raw tapes divided by W^m (stated multiplicatively) *)
Theorem massQ_counts m : forall g, nodes_ok g ->
  (massQ m g * Qpow (NQ Wq) m == NQ (NR rj fb aeqb m g a))%Q.
Proof.
  induction m as [|m IH]; intros g Hok.
  - destruct g as [b|n k]; cbn [massQ NR Qpow].
    + destruct (aeqb a b); vm_compute; reflexivity.
    + vm_compute; reflexivity.
  - destruct g as [b|n k]; cbn [massQ NR Qpow].
    + change (NQ 0) with 0%Q. ring.
    + destruct Hok as [(Hn & c & Hc & Hs & Hh) Hch].
      destruct (N.eqb_spec n 0) as [E|_]; [lia|].
      rewrite NQ_add, NQ_mul, NQ_sumBelow.
      rewrite (sumQ_ext n (fun i => NQ (fb n i * NR rj fb aeqb m (k i) a)) (fun i => NQ c * (massQ m (k i) * Qpow (NQ Wq) m))%Q).
      * rewrite sumQ_scale.
        rewrite <- (IH (Pick n k)) by (split; [repeat split; [exact Hn|exists c; auto]|exact Hch]).
        rewrite <- (rho_W n), <- (beta_W n c Hn Hs).
        rewrite (sumQ_ext n (fun i => massQ m (k i) * Qpow (NQ Wq) m)%Q (fun i => Qpow (NQ Wq) m * massQ m (k i))%Q) by (intros; ring).
        rewrite sumQ_scale. ring.
      * intros i Hi. rewrite NQ_mul, (Hc i Hi), (IH (k i) (Hch i Hi)). reflexivity.
Qed.

(** ---- the recurrences ---- *)
Lemma cum_ret M b : (cum M (Ret b) == if aeqb a b then 1 else 0)%Q.
Proof. induction M as [|M IH]; cbn [cum massQ]; [reflexivity|]. rewrite IH. ring. Qed.

Lemma massQ_S_pick m n k :
  massQ (S m) (Pick n k) = (rho n * massQ m (Pick n k) + beta n * sumQ n (fun i => massQ m (k i)))%Q.
Proof. reflexivity. Qed.
Lemma cum_S M g : cum (S M) g = (cum M g + massQ (S M) g)%Q.
Proof. reflexivity. Qed.

Lemma cum_pick M n k :
  (cum (S M) (Pick n k) == rho n * cum M (Pick n k) + beta n * sumQ n (fun i => cum M (k i)))%Q.
Proof.
  induction M as [|M IH].
  - rewrite cum_S, massQ_S_pick. cbn [cum]. change (massQ 0 (Pick n k)) with 0%Q. ring.
  - rewrite (cum_S (S M) (Pick n k)). rewrite IH at 1. rewrite (massQ_S_pick (S M) n k).
    rewrite (sumQ_ext n (fun i => cum (S M) (k i)) (fun i => cum M (k i) + massQ (S M) (k i))%Q) by (intros; rewrite cum_S; reflexivity).
    rewrite sumQ_plus. rewrite (cum_S M (Pick n k)).
    set (X := sumQ n (fun i => cum M (k i))). set (Y := sumQ n (fun i => massQ (S M) (k i))).
    set (c := cum M (Pick n k)). set (q := massQ (S M) (Pick n k)). ring.
Qed.

Lemma pa_pick n k : (pa (Pick n k) == / NQ n * sumQ n (fun i => pa (k i)))%Q.
Proof. reflexivity. Qed.

Lemma pa_bounds g : nodes_ok g -> (0 <= pa g /\ pa g <= 1)%Q.
Proof.
  induction g as [b|n k IH]; intros Hok.
  - unfold pa. cbn [expect]. destruct (aeqb a b); lra.
  - destruct Hok as [(Hn & _) Hch]. rewrite pa_pick. pose proof (NQ_pos n Hn) as Hp.
    assert (H0 : (0 <= sumQ n (fun i => pa (k i)))%Q) by (apply sumQ_nonneg; intros i Hi; apply IH, Hch, Hi).
    assert (H1 : (sumQ n (fun i => pa (k i)) <= NQ n * 1)%Q).
    { rewrite <- sumQ_const. apply sumQ_le. intros i Hi. apply IH, Hch, Hi. }
    split.
    + apply Qmult_le_0_compat; [apply Qlt_le_weak, Qinv_lt_0_compat, Hp|exact H0].
    + apply Qle_trans with (/ NQ n * (NQ n * 1))%Q.
      * apply Qmult_le_l; [apply Qinv_lt_0_compat; exact Hp|exact H1].
      * assert (E : (/ NQ n * (NQ n * 1) == 1)%Q) by (field; lra). rewrite E. lra.
Qed.

Definition D (M : nat) (g : gen A) : Q := (pa g - cum M g)%Q.

Lemma D_ret M b : (D M (Ret b) == 0)%Q.
Proof. unfold D, pa. rewrite cum_ret. cbn [expect]. ring. Qed.

Lemma D_pick M n k : good n ->
  (D (S M) (Pick n k) == rho n * D M (Pick n k) + beta n * sumQ n (fun i => D M (k i)))%Q.
Proof.
  intros Hg. unfold D. rewrite cum_pick.
  rewrite (sumQ_ext n (fun i => pa (k i) - cum M (k i))%Q (fun i => pa (k i) + (-1) * cum M (k i))%Q) by (intros; ring).
  rewrite sumQ_plus, sumQ_scale.
  assert (E : (beta n * sumQ n (fun i => pa (k i)) == (1 - rho n) * pa (Pick n k))%Q).
  { rewrite pa_pick. unfold beta. destruct Hg as (Hn & _). field. apply NQ_nonzero. exact Hn. }
  rewrite Qmult_plus_distr_r, E. ring.
Qed.

(** lower bound: the finite-tape frequency never exceeds the ideal probability *)
Theorem sandwich_lower M : forall g, nodes_ok g -> (0 <= D M g)%Q.
Proof.
  induction M as [|M IH]; intros g Hok.
  - destruct g as [b|n k]; [rewrite D_ret; lra|]. unfold D. cbn [cum massQ]. pose proof (pa_bounds _ Hok). lra.
  - destruct g as [b|n k]; [rewrite D_ret; lra|]. destruct Hok as [Hg Hch]. rewrite (D_pick M n k Hg).
    pose proof (rho_bounds n Hg) as [Hr0 Hr1].
    assert (Hb : (0 <= beta n)%Q).
    { unfold beta. destruct Hg as (Hn & _). apply Qle_shift_div_l; [apply NQ_pos, Hn|]. lra. }
    assert (H1 : (0 <= D M (Pick n k))%Q) by (apply IH; split; assumption).
    assert (H2 : (0 <= sumQ n (fun i => D M (k i)))%Q) by (apply sumQ_nonneg; intros i Hi; apply IH, Hch, Hi).
    pose proof (Qmult_le_0_compat _ _ Hr0 H1). pose proof (Qmult_le_0_compat _ _ Hb H2). lra.
Qed.

Lemma Qmult_le_l_weak x y z : (0 <= z)%Q -> (x <= y)%Q -> (z * x <= z * y)%Q.
Proof. intros Hz H. rewrite !(Qmult_comm z). apply Qmult_le_compat_r; assumption. Qed.

(** upper bound: and is within u (depth g) M of it *)
Theorem sandwich_upper M : forall g, nodes_ok g -> (D M g <= u (depth g) M)%Q.
Proof.
  induction M as [|M IH]; intros g Hok.
  - destruct g as [b|n k]; [rewrite D_ret; cbn [depth]; rewrite u_0; lra|].
    cbn [depth]. rewrite u_S0. unfold D. cbn [cum massQ]. pose proof (pa_bounds _ Hok). lra.
  - destruct g as [b|n k]; [rewrite D_ret; cbn [depth]; rewrite u_0; lra|].
    destruct Hok as [Hg Hch]. rewrite (D_pick M n k Hg). cbn [depth].
    set (d := N.recursion 0%nat (fun i acc => Nat.max acc (depth (k i))) n).
    rewrite u_SS.
    pose proof (rho_bounds n Hg) as [Hr0 Hr1].
    assert (Hx : (D M (Pick n k) <= u (S d) M)%Q) by (apply (IH (Pick n k)); split; assumption).
    assert (Hy : (sumQ n (fun i => D M (k i)) <= NQ n * u d M)%Q).
    { rewrite <- sumQ_const. apply sumQ_le. intros i Hi. eapply Qle_trans; [apply IH, Hch, Hi|].
      apply u_mono. apply depth_child. exact Hi. }
    assert (Hd0 : (0 <= D M (Pick n k))%Q) by (apply sandwich_lower; split; assumption).
    assert (Hb : (0 <= beta n)%Q).
    { unfold beta. destruct Hg as (Hn & _). apply Qle_shift_div_l; [apply NQ_pos, Hn|]. lra. }
    pose proof (beta_n n Hg) as Hbn.
    pose proof (u_mono_succ M d) as Hm. pose proof (u_bounds d M) as [Hu0 _].
    assert (H1 : (rho n * D M (Pick n k) <= rho n * u (S d) M)%Q) by (apply Qmult_le_l_weak; assumption).
    assert (H2 : (beta n * sumQ n (fun i => D M (k i)) <= beta n * (NQ n * u d M))%Q) by (apply Qmult_le_l_weak; assumption).
    assert (H3 : (beta n * (NQ n * u d M) == (1 - rho n) * u d M)%Q) by (rewrite Qmult_assoc, Hbn; reflexivity).
    set (x := u (S d) M) in *. set (y := u d M) in *. set (r := rho n) in *. nra.
Qed.
End Sandwich.

(** ---- the instance: 2^32, the counts of C01, every generator with well-formed picks ---- *)
Lemma good32 n : 1 <= n -> n < W32 -> good W32 rej fib n.
Proof.
  intros Hn HnW. split; [exact Hn|]. exists (acc n / n). split; [|split].
  - intros i Hi. destruct (fib_common n i Hn HnW Hi) as [E _]. exact E.
  - destruct (fib_common n 0 Hn HnW ltac:(lia)) as [_ E]. rewrite E. apply step_acc_rej.
  - exact (rej_lt_half W32 eq_refl n Hn HnW).
Qed.

Lemma picks_ok_nodes_ok {A} (g : gen A) : picks_ok g -> nodes_ok W32 rej fib g.
Proof.
  induction g as [b|n k IH]; cbn [picks_ok nodes_ok]; [auto|].
  intros (H1 & H2 & H3). split; [apply good32; assumption|]. intros i Hi. apply IH, H3, Hi.
Qed.

Section Instance.
Context {A : Type}.
Variable aeqb : A -> A -> bool.
Variable a : A.

(** the fraction of m-word tapes of uniform raw 32-bit words on which the tape
    interpreter returns a having consumed exactly those m words ... *)
Definition mass32 (m : nat) (g : gen A) : Q := massQ W32 rej aeqb a m g.
(** ... and the fraction on which it has returned a within the first M words *)
Definition freq32 (M : nat) (g : gen A) : Q := cum W32 rej aeqb a M g.
Definition ideal (g : gen A) : Q := pa aeqb a g.

Theorem mass32_is_tape_count m g : picks_ok g ->
  (mass32 m g * Qpow (NQ W32) m == NQ (rawcount32 aeqb g m a))%Q.
Proof.
  intros Hok. rewrite rawcount_NR32. apply massQ_counts; [discriminate|apply picks_ok_nodes_ok; exact Hok].
Qed.

Theorem frequency_sandwich M g : picks_ok g ->
  (freq32 M g <= ideal g /\ ideal g - freq32 M g <= u (depth g) M)%Q.
Proof.
  intros Hok. pose proof (picks_ok_nodes_ok g Hok) as Hn. split.
  - pose proof (sandwich_lower W32 rej fib aeqb a ltac:(discriminate) M g Hn) as H. unfold D in H. unfold freq32, ideal. lra.
  - exact (sandwich_upper W32 rej fib aeqb a ltac:(discriminate) M g Hn).
Qed.

(** hence the ideal probability is the limit of the tape frequencies *)
Corollary frequency_converges g : picks_ok g -> forall eps, (0 < eps)%Q ->
  exists M0, forall M, (M0 <= M)%nat -> (ideal g - eps <= freq32 M g /\ freq32 M g <= ideal g)%Q.
Proof.
  intros Hok eps He. destruct (u_vanishes (depth g) eps He) as (M0 & H). exists M0. intros M HM.
  destruct (frequency_sandwich M g Hok) as [H1 H2]. specialize (H M HM). split; lra.
Qed.
End Instance.
