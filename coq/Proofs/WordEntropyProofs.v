(** C04 / C06 (wordlist recipes): point probabilities of wordlist passwords.
    - for every scheme and every list of good words, no password is likelier
      than (1/size)^L (1/M)^(L-1)            (the min-entropy bound, no bonus);
    - when the capitalisation pattern can be read off the password (scheme
      none/first/all, or every word changes under title-casing), the probability
      of the password rendered by a choice tuple is EXACTLY the product of the
      probabilities of the choices, and is bounded by the bound with the bonus. *)
From Spg.Base Require Import Prelude Utf8 Bytes.
From Spg.Model Require Import Tables Rand GenM CharSets CharGen Token WordList WordGen.
From Spg.Proofs Require Import RandProofs GenProofs CharGenProofs WordGenProofs ProdProofs WordProdProofs WordDecodeProofs.
From Coq Require Import QArith Lqa.
Close Scope N_scope. Close Scope Q_scope. Open Scope nat_scope.

(** decidable equalities (proof-level only) *)
Definition bytes_dec : forall x y : bytes, {x = y} + {x <> y} := list_eq_dec N.eq_dec.
Definition tok_dec : forall x y : token, {x = y} + {x <> y}.
Proof. decide equality; [apply N.eq_dec|apply bytes_dec]. Defined.
Definition toks_dec : forall x y : list token, {x = y} + {x <> y} := list_eq_dec tok_dec.
Definition entropy_dec : forall x y : entropy, {x = y} + {x <> y}.
Proof. decide equality; try apply Z.eq_dec; apply N.eq_dec. Defined.
Definition wle_dec : forall x y : wl_entropy, {x = y} + {x <> y}.
Proof.
  decide equality.
  - decide equality. apply entropy_dec.
  - decide equality.
  - apply N.eq_dec.
  - apply Z.eq_dec.
Defined.
Definition err_dec : forall x y : err, {x = y} + {x <> y}. Proof. decide equality. Defined.
Definition panic_dec : forall x y : panic, {x = y} + {x <> y}. Proof. decide equality. Defined.
Definition out_dec : forall x y : outcome (list token * wl_entropy), {x = y} + {x <> y}.
Proof. decide equality; [apply (pair_dec toks_dec wle_dec)|apply err_dec|apply panic_dec]. Defined.
Definition caps_dec : forall x y : list bool, {x = y} + {x <> y} := list_eq_dec Bool.bool_dec.
Definition idxs_dec : forall x y : list N, {x = y} + {x <> y} := list_eq_dec N.eq_dec.
Definition seps_dec : forall x y : list bytes, {x = y} + {x <> y} := list_eq_dec bytes_dec.

Section WE.
Variable title : bytes -> bytes.
Variable b : budget.

Notation sep_call := (sep_call b).
Notation sep_val := (sep_val b).
Notation wl_generate := (wl_generate title b).
Notation wl_entropy_gen := (wl_entropy_gen b).
Notation render := (render title).

(** What is assumed of the separator function [s]: its draws are well formed,
    no value is likelier than 1/M, and it always reports the entropy [ent0]. *)
Definition sep_ok (s : sep_fun) (M : N) (ent0 : option entropy) : Prop :=
  picks_ok (sep_call s) /\ (1 <= M)%N /\
  (forall v, (pm bytes_dec (sep_val s) v <= / NQ M)%Q) /\
  (forall se, reach (sep_call s) se -> snd se = ent0).

Lemma picks_ok_sep_val s M e0 : sep_ok s M e0 -> picks_ok (sep_val s).
Proof. intros (H & _). unfold WordProdProofs.sep_val, fmap. apply picks_ok_bind; [exact H|]. intros; exact I. Qed.

(** the choices for a known capitalisation pattern, and their rendering *)
Definition choices (ws : list bytes) (s : sep_fun) (L : nat) : gen (list N * list bytes) :=
  gpair (picks L (N.of_nat (length ws))) (draws (sep_val s) (pred L)).
Definition render_at (ws : list bytes) (caps : list bool) (p : list N * list bytes) : list token :=
  render ws caps (fst p) (snd p).

Lemma reach_choices ws s L p : reach (choices ws s L) p ->
  length (fst p) = L /\ Forall (fun i => (i < N.of_nat (length ws))%N) (fst p) /\ length (snd p) = pred L.
Proof.
  intros H. apply reach_gpair in H. destruct H as [H1 H2]. apply reach_picks in H1. apply reach_draws in H2. tauto.
Qed.

Definition size_ok (ws : list bytes) : Prop := (1 <= N.of_nat (length ws) < W32)%N.

Lemma picks_ok_choices ws s L M e0 : size_ok ws -> sep_ok s M e0 -> picks_ok (choices ws s L).
Proof.
  intros [H1 H2] Hs. apply picks_ok_gpair; [apply picks_ok_picks; assumption|].
  apply picks_ok_draws. eapply picks_ok_sep_val; exact Hs.
Qed.

Definition base_bound (ws : list bytes) (M : N) (L : nat) : Q :=
  (Qpow (/ NQ (N.of_nat (length ws))) L * Qpow (/ NQ M) (pred L))%Q.

Lemma base_bound_nonneg ws M L : size_ok ws -> (1 <= M)%N -> (0 <= base_bound ws M L)%Q.
Proof.
  intros [H1 _] HM. unfold base_bound. apply Qmult_le_0_compat; apply Qpow_nonneg, Qlt_le_weak, Qinv_lt_0_compat, NQ_pos; assumption.
Qed.

(** point mass of a choice pair *)
Lemma pm_choices_le ws s L M e0 p : size_ok ws -> sep_ok s M e0 ->
  (pm (pair_dec idxs_dec seps_dec) (choices ws s L) p <= base_bound ws M L)%Q.
Proof.
  intros [H1 H2] Hs. destruct p as [idxs seps]. unfold choices. rewrite pm_gpair. unfold base_bound.
  pose proof (picks_ok_sep_val s M e0 Hs) as Hok. destruct Hs as (_ & HM & Hle & _).
  assert (Ha : (0 <= pm idxs_dec (picks L (N.of_nat (length ws))) idxs)%Q) by (apply pm_nonneg, picks_ok_picks; assumption).
  assert (Hb : (pm idxs_dec (picks L (N.of_nat (length ws))) idxs <= Qpow (/ NQ (N.of_nat (length ws))) L)%Q) by (apply pm_picks_le; assumption).
  assert (Hc : (0 <= pm seps_dec (draws (sep_val s) (pred L)) seps)%Q) by (apply pm_nonneg, picks_ok_draws; exact Hok).
  assert (Hd : (pm seps_dec (draws (sep_val s) (pred L)) seps <= Qpow (/ NQ M) (pred L))%Q).
  { destruct (Nat.eq_dec (length seps) (pred L)) as [El|Nl].
    - unfold seps_dec. rewrite pm_draws by exact El. rewrite <- El. rewrite <- (map_length (pm bytes_dec (sep_val s)) seps).
      apply Qprod_le_pow; [apply Qlt_le_weak, Qinv_lt_0_compat, NQ_pos; exact HM|].
      apply Forall_forall. intros q Hq. apply in_map_iff in Hq. destruct Hq as (v & <- & _).
      split; [apply pm_nonneg; exact Hok|apply Hle].
    - unfold seps_dec. rewrite pm_draws_wrong_length by exact Nl.
      apply Qpow_nonneg, Qlt_le_weak, Qinv_lt_0_compat, NQ_pos; exact HM. }
  apply Qle_trans with (Qpow (/ NQ (N.of_nat (length ws))) L * pm seps_dec (draws (sep_val s) (pred L)) seps)%Q.
  - apply Qmult_le_compat_r; assumption.
  - rewrite !(Qmult_comm (Qpow (/ NQ (N.of_nat (length ws))) L)). apply Qmult_le_compat_r; [exact Hd|].
    apply Qpow_nonneg, Qlt_le_weak, Qinv_lt_0_compat, NQ_pos; exact H1.
Qed.

(** for a fixed capitalisation pattern the password determines the choices *)
Theorem pm_render_at_le ws s caps M e0 ts : good_words title ws -> size_ok ws -> sep_ok s M e0 ->
  (pm toks_dec (fmap (render_at ws caps) (choices ws s (length caps))) ts <= base_bound ws M (length caps))%Q.
Proof.
  intros Hg Hsz Hs.
  apply (pm_decode_le (pair_dec idxs_dec seps_dec) toks_dec _ _ (decode_at title ws caps)).
  - intros p Hp. apply reach_choices in Hp. destruct Hp as (H1 & H2 & H3). destruct p as [idxs seps].
    apply decode_at_render; assumption.
  - eapply picks_ok_choices; eassumption.
  - apply base_bound_nonneg; [exact Hsz|]. destruct Hs as (_ & HM & _). exact HM.
  - intros p. eapply pm_choices_le; eassumption.
Qed.

Theorem pm_render_at_eq ws s caps p : good_words title ws -> reach (choices ws s (length caps)) p ->
  (pm toks_dec (fmap (render_at ws caps) (choices ws s (length caps))) (render_at ws caps p) ==
   pm (pair_dec idxs_dec seps_dec) (choices ws s (length caps)) p)%Q.
Proof.
  intros Hg Hp.
  apply (pm_decode_at (pair_dec idxs_dec seps_dec) toks_dec _ _ (decode_at title ws caps)); [|exact Hp].
  intros q Hq. apply reach_choices in Hq. destruct Hq as (H1 & H2 & H3). destruct q as [idxs seps].
  apply decode_at_render; assumption.
Qed.

(** ---- the entropy reported ---- *)
Definition ent_of (wl : word_list) (L : Z) (c : cap_scheme) (e0 : option entropy) : wl_entropy :=
  mkWLE L (N.of_nat (length (wlWords wl))) (bonus_of wl c) e0.

Lemma reach_entropy_det wl L s c M e0 e : sep_ok s M e0 ->
  reach (wl_entropy_gen (mkWLR (Some wl) L s c) wl) e ->
  e = ent_of wl L c (match s with SepChar _ => None | _ => e0 end).
Proof.
  intros (_ & _ & _ & Hdet). unfold WordGen.wl_entropy_gen. cbn [wrSep wrLength wrCap]. destruct s as [x|x|sr].
  - cbn [reach]. intros <-. reflexivity.
  - intros H. apply reach_bind in H. destruct H as (se & Hse & H). cbn [reach] in H. subst e.
    rewrite (Hdet se Hse). reflexivity.
  - intros H. apply reach_bind in H. destruct H as (se & Hse & H). cbn [reach] in H. subst e.
    rewrite (Hdet se Hse). reflexivity.
Qed.

Lemma picks_ok_entropy_gen wl L s c M e0 : sep_ok s M e0 -> picks_ok (wl_entropy_gen (mkWLR (Some wl) L s c) wl).
Proof.
  intros (H & _). unfold WordGen.wl_entropy_gen. cbn [wrSep]. destruct s; try exact I; (apply picks_ok_bind; [exact H|intros; exact I]).
Qed.

(** the generator in product form, with constant lengths *)
Lemma wl_generate_product' wl L s c phi :
  wlWords wl <> [] -> (1 <= L)%Z ->
  let r := mkWLR (Some wl) L s c in
  (expect (wl_generate r) phi ==
   expect (caps_gen c (Z.to_nat L)) (fun caps =>
   expect (choices (wlWords wl) s (Z.to_nat L)) (fun p =>
   expect (wl_entropy_gen r wl) (fun e => phi (Done (render_at (wlWords wl) caps p, e))))))%Q.
Proof.
  intros Hne HL r. subst r. pose proof (wl_generate_product title b wl L s c phi Hne HL) as H. cbv zeta in H. rewrite H. clear H.
  apply expect_ext_reach. intros caps Hc. apply reach_caps_gen in Hc. destruct Hc as [Hc _]. rewrite Hc.
  unfold choices. rewrite expect_gpair. reflexivity.
Qed.

(** C06, every scheme, every list of good words: the min-entropy bound *)
Theorem wl_point_le_nobonus wl L s c M e0 ts e :
  good_words title (wlWords wl) -> size_ok (wlWords wl) -> (1 <= L)%Z -> (Z.to_N L < W32)%N -> sep_ok s M e0 ->
  (pm out_dec (wl_generate (mkWLR (Some wl) L s c)) (Done (ts, e)) <= base_bound (wlWords wl) M (Z.to_nat L))%Q.
Proof.
  intros Hg Hsz HL HLw Hs. set (ws := wlWords wl) in *.
  assert (Hne : ws <> []) by (destruct Hsz as [H _]; destruct ws; [cbn in H; lia|discriminate]).
  unfold pm. pose proof (wl_generate_product' wl L s c (at_pt out_dec (Done (ts, e))) Hne HL) as Hprod. cbv zeta in Hprod.
  rewrite Hprod. clear Hprod. fold ws.
  assert (Hcaps : picks_ok (caps_gen c (Z.to_nat L))).
  { destruct c; cbn [caps_gen]; try exact I.
    - unfold fmap. apply picks_ok_bind; [apply picks_ok_picks; [lia|reflexivity]|intros; exact I].
    - cbn [picks_ok]. repeat split; try lia. }
  rewrite <- (expect_const (caps_gen c (Z.to_nat L)) (base_bound ws M (Z.to_nat L)) Hcaps).
  apply expect_le_reach; [exact Hcaps|]. intros caps Hc. apply reach_caps_gen in Hc. destruct Hc as [Hc _].
  apply Qle_trans with (pm toks_dec (fmap (render_at ws caps) (choices ws s (length caps))) ts).
  - unfold pm at 1. rewrite expect_fmap. rewrite Hc. apply expect_le; [eapply picks_ok_choices; eassumption|].
    intros p. rewrite <- (expect_const (wl_entropy_gen (mkWLR (Some wl) L s c) wl) (at_pt toks_dec ts (render_at ws caps p)))
      by (eapply picks_ok_entropy_gen; exact Hs).
    apply expect_le; [eapply picks_ok_entropy_gen; exact Hs|]. intros e'. unfold at_pt.
    destruct (out_dec (Done (render_at ws caps p, e')) (Done (ts, e))) as [E|NE];
      destruct (toks_dec (render_at ws caps p) ts) as [E'|NE']; try lra. congruence.
  - rewrite <- Hc. apply (pm_render_at_le ws s caps M e0 ts); assumption.
Qed.

(** ---- capitalisation patterns ---- *)
Definition caps_bound (c : cap_scheme) (L : nat) : Q :=
  match c with CapOne => (/ NQ (N.of_nat L))%Q | CapRandom => Qpow (/ NQ 2) L | _ => 1%Q end.

Definition one_pat (L : nat) (w : N) : list bool := map (fun i => Nat.eqb i (N.to_nat w)) (seq 0 L).
Fixpoint find_true (l : list bool) (k : N) : option N :=
  match l with [] => None | x :: r => if x then Some k else find_true r (N.succ k) end.

Lemma find_true_pat n : forall start k w, (start <= w < start + n) ->
  find_true (map (fun i => Nat.eqb i w) (seq start n)) k = Some (k + N.of_nat (w - start))%N.
Proof.
  induction n as [|n IH]; intros start k w Hw; [lia|]. cbn [seq map find_true].
  destruct (Nat.eqb_spec start w) as [->|NE].
  - f_equal. replace (w - w) with 0 by lia. lia.
  - rewrite IH by lia. f_equal. replace (w - start) with (S (w - S start)) by lia. lia.
Qed.

Lemma caps_one_is_fmap L : caps_gen CapOne L = fmap (one_pat L) (Pick (N.of_nat L) (fun i => Ret i)).
Proof. reflexivity. Qed.

Lemma pm_caps_one_le L caps : 1 <= L -> (pm caps_dec (caps_gen CapOne L) caps <= / NQ (N.of_nat L))%Q.
Proof.
  intros HL. rewrite caps_one_is_fmap.
  assert (Hpos : (0 <= / NQ (N.of_nat L))%Q) by (apply Qlt_le_weak, Qinv_lt_0_compat, NQ_pos; lia).
  rewrite (pm_decode N.eq_dec caps_dec _ (one_pat L) (fun l => find_true l 0%N)).
  - destruct (find_true caps 0%N) as [w|]; [|exact Hpos]. destruct (caps_dec (one_pat L w) caps); [|exact Hpos].
    rewrite pm_pick by lia. destruct (w <? N.of_nat L)%N; [apply Qle_refl|exact Hpos].
  - intros w (i & Hi & Hr). cbn [reach] in Hr. subst i. unfold one_pat.
    rewrite (find_true_pat L 0 0%N (N.to_nat w)) by lia. f_equal. lia.
Qed.

Lemma pm_caps_one_eq L w : 1 <= L -> (w < N.of_nat L)%N ->
  (pm caps_dec (caps_gen CapOne L) (one_pat L w) == / NQ (N.of_nat L))%Q.
Proof.
  intros HL Hw. rewrite caps_one_is_fmap.
  rewrite (pm_decode_at N.eq_dec caps_dec _ (one_pat L) (fun l => find_true l 0%N)).
  - rewrite pm_pick by lia. destruct (N.ltb_spec w (N.of_nat L)); [reflexivity|lia].
  - intros w' (i & Hi & Hr). cbn [reach] in Hr. subst i. unfold one_pat.
    rewrite (find_true_pat L 0 0%N (N.to_nat w')) by lia. f_equal. lia.
  - exists w. split; [exact Hw|reflexivity].
Qed.

Definition bits_of (caps : list bool) : list N := map (fun x : bool => if x then 1%N else 0%N) caps.
Lemma bits_of_pat v : Forall (fun i => (i < 2)%N) v -> bits_of (map (fun x => N.eqb x 1) v) = v.
Proof.
  intros H. induction H as [|x v Hx _ IH]; [reflexivity|]. cbn [map bits_of]. fold (bits_of (map (fun x => N.eqb x 1) v)).
  rewrite IH. f_equal. destruct (N.eqb_spec x 1); lia.
Qed.

Lemma pm_caps_random_le L caps : (pm caps_dec (caps_gen CapRandom L) caps <= Qpow (/ NQ 2) L)%Q.
Proof.
  cbn [caps_gen].
  apply (pm_decode_le idxs_dec caps_dec _ _ (fun l => Some (bits_of l))).
  - intros v Hv. apply reach_picks in Hv. rewrite bits_of_pat by apply Hv. reflexivity.
  - apply picks_ok_picks; [lia|reflexivity].
  - apply Qpow_nonneg, Qlt_le_weak, Qinv_lt_0_compat, NQ_pos; lia.
  - intros v. apply pm_picks_le; [lia|reflexivity].
Qed.

Lemma pm_caps_random_eq L v : length v = L -> Forall (fun i => (i < 2)%N) v ->
  (pm caps_dec (caps_gen CapRandom L) (map (fun x => N.eqb x 1) v) == Qpow (/ NQ 2) L)%Q.
Proof.
  intros Hl Hf. cbn [caps_gen].
  rewrite (pm_decode_at idxs_dec caps_dec _ _ (fun l => Some (bits_of l))).
  - apply pm_picks; [lia|exact Hl|exact Hf].
  - intros v' Hv. apply reach_picks in Hv. rewrite bits_of_pat by apply Hv. reflexivity.
  - apply reach_picks. auto.
Qed.

Lemma pm_caps_le c L caps : 1 <= L -> (pm caps_dec (caps_gen c L) caps <= caps_bound c L)%Q.
Proof.
  intros HL. destruct c; cbn [caps_bound]; try (cbn [caps_gen]; rewrite pm_ret; apply at_pt_le1).
  - apply pm_caps_random_le.
  - apply pm_caps_one_le. exact HL.
Qed.

Lemma pm_caps_eq c L caps : 1 <= L -> reach (caps_gen c L) caps -> (pm caps_dec (caps_gen c L) caps == caps_bound c L)%Q.
Proof.
  intros HL Hr. destruct c; cbn [caps_bound]; try (cbn [caps_gen reach] in *; subst caps; rewrite pm_ret; unfold at_pt;
    match goal with |- context [caps_dec ?x ?x] => destruct (caps_dec x x); [reflexivity|congruence] end).
  - cbn [caps_gen] in Hr. apply reach_fmap in Hr. destruct Hr as (v & Hv & <-). apply reach_picks in Hv.
    apply pm_caps_random_eq; apply Hv.
  - destruct Hr as (w & Hw & Hr). cbn [reach] in Hr. subst caps. apply (pm_caps_one_eq L w HL Hw).
Qed.

Lemma picks_ok_caps c L : 1 <= L -> (N.of_nat L < W32)%N -> picks_ok (caps_gen c L).
Proof.
  intros H1 H2. destruct c; cbn [caps_gen]; try exact I.
  - unfold fmap. apply picks_ok_bind; [apply picks_ok_picks; [lia|reflexivity]|intros; exact I].
  - cbn [picks_ok]. repeat split; try lia.
Qed.

(** ---- reading the capitalisation pattern off the password ---- *)
(** every word changes under title-casing and no title-cased form is itself a word *)
Definition all_cap (ws : list bytes) : Prop := forall w v, In w ws -> In v ws -> title w <> v.
Definition caps_readable (c : cap_scheme) (ws : list bytes) : Prop :=
  match c with CapRandom | CapOne => all_cap ws | _ => True end.

Definition decode_caps (ws : list bytes) (ts : list token) : list bool :=
  map (fun a => negb (mem a ws)) (of_type AtomType ts).
Definition det_caps (c : cap_scheme) (L : nat) : list bool :=
  match c with
  | CapFirst => map (fun i => Nat.eqb i 0) (seq 0 L)
  | CapAll => repeat true L
  | _ => repeat false L
  end.
Definition decode_full (ws : list bytes) (c : cap_scheme) (L : nat) (ts : list token) : option (list bool * (list N * list bytes)) :=
  let caps := match c with CapRandom | CapOne => decode_caps ws ts | _ => det_caps c L end in
  match decode_at title ws caps ts with Some p => Some (caps, p) | None => None end.

Lemma decode_caps_atoms ws caps : all_cap ws -> forall idxs, length idxs = length caps ->
  Forall (fun i => (i < N.of_nat (length ws))%N) idxs ->
  map (fun a => negb (mem a ws)) (atoms_of title ws caps idxs) = caps.
Proof.
  intros Hac. induction caps as [|c caps' IH]; intros idxs Hl Hf.
  - destruct idxs; [reflexivity|discriminate].
  - destruct idxs as [|i idxs']; [discriminate|]. inversion Hf; subst.
    unfold atoms_of. cbn [combine map fst snd]. fold (atoms_of title ws caps' idxs').
    rewrite IH by (cbn in Hl; auto; congruence). f_equal.
    assert (Hin : In (nth (N.to_nat i) ws []) ws) by (apply nth_In; lia).
    unfold word_at. destruct c.
    + destruct (mem (title (nth (N.to_nat i) ws [])) ws) eqn:E; [|reflexivity].
      apply mem_In in E. exfalso. exact (Hac _ _ Hin E eq_refl).
    + destruct (mem (nth (N.to_nat i) ws []) ws) eqn:E; [reflexivity|]. apply mem_false in E. contradiction.
Qed.

Definition full_choices (ws : list bytes) (s : sep_fun) (c : cap_scheme) (L : nat) : gen (list bool * (list N * list bytes)) :=
  gpair (caps_gen c L) (choices ws s L).
Definition render_full (ws : list bytes) (x : list bool * (list N * list bytes)) : list token :=
  render_at ws (fst x) (snd x).

Lemma decode_full_render ws s c L x : good_words title ws -> caps_readable c ws ->
  reach (full_choices ws s c L) x -> decode_full ws c L (render_full ws x) = Some x.
Proof.
  intros Hg Hcr Hx. apply reach_gpair in Hx. destruct Hx as [Hc Hp]. destruct x as [caps [idxs seps]]. cbn [fst snd] in *.
  pose proof (reach_caps_gen _ _ _ Hc) as [Hcl _].
  apply reach_choices in Hp. cbn [fst snd] in Hp. destruct Hp as (H1 & H2 & H3).
  unfold decode_full, render_full, render_at. cbn [fst snd].
  assert (Hcaps : match c with CapRandom | CapOne => decode_caps ws (render ws caps idxs seps) | _ => det_caps c L end = caps).
  { destruct c; cbn [caps_gen reach det_caps] in *; try exact Hc; try (symmetry; exact Hc).
    - unfold decode_caps, WordProdProofs.render. rewrite atoms_of_assemble by (apply atoms_of_nonempty; assumption).
      apply decode_caps_atoms; [exact Hcr|congruence|exact H2].
    - unfold decode_caps, WordProdProofs.render. rewrite atoms_of_assemble by (apply atoms_of_nonempty; assumption).
      apply decode_caps_atoms; [exact Hcr|congruence|exact H2]. }
  rewrite Hcaps. rewrite decode_at_render; [reflexivity|exact Hg|congruence|exact H2|congruence].
Qed.

Lemma picks_ok_full ws s c L M e0 : size_ok ws -> sep_ok s M e0 -> 1 <= L -> (N.of_nat L < W32)%N -> picks_ok (full_choices ws s c L).
Proof. intros. apply picks_ok_gpair; [apply picks_ok_caps; assumption|eapply picks_ok_choices; eassumption]. Qed.

(** probability of a password = probability of the choice tuple that renders to it *)
Theorem pm_render_full_eq ws s c L x : good_words title ws -> caps_readable c ws -> 1 <= L ->
  reach (full_choices ws s c L) x ->
  (pm toks_dec (fmap (render_full ws) (full_choices ws s c L)) (render_full ws x) ==
   caps_bound c L * pm (pair_dec idxs_dec seps_dec) (choices ws s L) (snd x))%Q.
Proof.
  intros Hg Hcr HL Hx.
  rewrite (pm_decode_at (pair_dec caps_dec (pair_dec idxs_dec seps_dec)) toks_dec _ _ (decode_full ws c L)); [| |exact Hx].
  - destruct x as [caps p]. unfold full_choices. rewrite pm_gpair. cbn [snd].
    apply reach_gpair in Hx. destruct Hx as [Hc _]. cbn [fst] in Hc. rewrite (pm_caps_eq c L caps HL Hc). reflexivity.
  - intros y Hy. eapply decode_full_render; eassumption.
Qed.

Theorem pm_render_full_le ws s c L M e0 ts : good_words title ws -> caps_readable c ws -> size_ok ws -> sep_ok s M e0 ->
  1 <= L -> (N.of_nat L < W32)%N ->
  (pm toks_dec (fmap (render_full ws) (full_choices ws s c L)) ts <= caps_bound c L * base_bound ws M L)%Q.
Proof.
  intros Hg Hcr Hsz Hs HL HLw.
  assert (HM : (1 <= M)%N) by (destruct Hs as (_ & HM & _); exact HM).
  assert (Hcb : (0 <= caps_bound c L)%Q).
  { destruct c; cbn [caps_bound]; try lra.
    - apply Qpow_nonneg, Qlt_le_weak, Qinv_lt_0_compat, NQ_pos; lia.
    - apply Qlt_le_weak, Qinv_lt_0_compat, NQ_pos; lia. }
  apply (pm_decode_le (pair_dec caps_dec (pair_dec idxs_dec seps_dec)) toks_dec _ _ (decode_full ws c L)).
  - intros y Hy. eapply decode_full_render; eassumption.
  - eapply picks_ok_full; eassumption.
  - apply Qmult_le_0_compat; [exact Hcb|apply base_bound_nonneg; assumption].
  - intros [caps p]. unfold full_choices. rewrite pm_gpair.
    apply Qle_trans with (caps_bound c L * pm (pair_dec idxs_dec seps_dec) (choices ws s L) p)%Q.
    + apply Qmult_le_compat_r; [apply pm_caps_le; exact HL|]. apply pm_nonneg. eapply picks_ok_choices; eassumption.
    + rewrite !(Qmult_comm (caps_bound c L)). apply Qmult_le_compat_r; [eapply pm_choices_le; eassumption|exact Hcb].
Qed.

(** the generator's output law in terms of the full choice tuple *)
Theorem wl_generate_as_choices wl L s c M e0 ts :
  size_ok (wlWords wl) -> (1 <= L)%Z -> (Z.to_N L < W32)%N -> sep_ok s M e0 ->
  let e := ent_of wl L c (match s with SepChar _ => None | _ => e0 end) in
  (pm out_dec (wl_generate (mkWLR (Some wl) L s c)) (Done (ts, e)) ==
   pm toks_dec (fmap (render_full (wlWords wl)) (full_choices (wlWords wl) s c (Z.to_nat L))) ts)%Q.
Proof.
  intros Hsz HL HLw Hs e. set (ws := wlWords wl) in *.
  assert (Hne : ws <> []) by (destruct Hsz as [H _]; destruct ws; [cbn in H; lia|discriminate]).
  unfold pm. pose proof (wl_generate_product' wl L s c (at_pt out_dec (Done (ts, e))) Hne HL) as Hprod. cbv zeta in Hprod.
  rewrite Hprod. clear Hprod. fold ws. rewrite expect_fmap. unfold full_choices. rewrite expect_gpair.
  apply expect_ext. intros caps. apply expect_ext. intros p.
  rewrite (expect_ext_reach _ _ (fun _ => at_pt toks_dec ts (render_full ws (caps, p)))).
  - apply expect_const. eapply picks_ok_entropy_gen; exact Hs.
  - intros e' He'. apply (reach_entropy_det wl L s c M e0 e' Hs) in He'. subst e'. fold e. unfold at_pt, render_full. cbn [fst snd].
    destruct (out_dec (Done (render_at ws caps p, e)) (Done (ts, e))) as [E|NE];
      destruct (toks_dec (render_at ws caps p) ts) as [E'|NE']; try reflexivity; congruence.
Qed.

(** any other reported entropy has probability 0 *)
Theorem wl_generate_entropy_det wl L s c M e0 ts e :
  size_ok (wlWords wl) -> (1 <= L)%Z -> sep_ok s M e0 ->
  e <> ent_of wl L c (match s with SepChar _ => None | _ => e0 end) ->
  (pm out_dec (wl_generate (mkWLR (Some wl) L s c)) (Done (ts, e)) == 0)%Q.
Proof.
  intros Hsz HL Hs Hne. apply pm_unreachable. intros Hr. apply wl_generate_reach in Hr.
  destruct Hr as (wl' & caps & idxs & seps & Hwl & _ & _ & _ & _ & _ & _ & _ & _ & He). cbn [wrList] in Hwl.
  injection Hwl as <-. apply (reach_entropy_det wl L s c M e0 e Hs) in He. contradiction.
Qed.

(** C04: the probability of the password rendered by a reachable choice tuple is
    exactly (scheme factor) x (1/size)^L x product of the separator point masses *)
Theorem wl_point_eq wl L s c M e0 x :
  good_words title (wlWords wl) -> caps_readable c (wlWords wl) -> size_ok (wlWords wl) ->
  (1 <= L)%Z -> (Z.to_N L < W32)%N -> sep_ok s M e0 ->
  reach (full_choices (wlWords wl) s c (Z.to_nat L)) x ->
  (pm out_dec (wl_generate (mkWLR (Some wl) L s c))
      (Done (render_full (wlWords wl) x, ent_of wl L c (match s with SepChar _ => None | _ => e0 end))) ==
   caps_bound c (Z.to_nat L) * (Qpow (/ NQ (N.of_nat (length (wlWords wl)))) (Z.to_nat L) *
                                 Qprod (map (pm bytes_dec (sep_val s)) (snd (snd x)))))%Q.
Proof.
  intros Hg Hcr Hsz HL HLw Hs Hx.
  pose proof (wl_generate_as_choices wl L s c M e0 (render_full (wlWords wl) x) Hsz HL HLw Hs) as H. cbv zeta in H. rewrite H. clear H.
  rewrite pm_render_full_eq by (try assumption; lia).
  apply Qmult_comp; [reflexivity|]. destruct x as [caps [idxs seps]]. cbn [snd].
  apply reach_gpair in Hx. destruct Hx as [_ Hp]. cbn [snd] in Hp. apply reach_choices in Hp. cbn [fst snd] in Hp.
  destruct Hp as (H1 & H2 & H3). unfold choices. rewrite pm_gpair.
  unfold idxs_dec. rewrite pm_picks by (try assumption; destruct Hsz; assumption).
  unfold seps_dec. rewrite pm_draws by exact H3. reflexivity.
Qed.

(** C06 with the capitalisation bonus *)
Theorem wl_point_le_bonus wl L s c M e0 ts e :
  good_words title (wlWords wl) -> caps_readable c (wlWords wl) -> size_ok (wlWords wl) ->
  (1 <= L)%Z -> (Z.to_N L < W32)%N -> sep_ok s M e0 ->
  (pm out_dec (wl_generate (mkWLR (Some wl) L s c)) (Done (ts, e)) <=
   caps_bound c (Z.to_nat L) * base_bound (wlWords wl) M (Z.to_nat L))%Q.
Proof.
  intros Hg Hcr Hsz HL HLw Hs.
  destruct (wle_dec e (ent_of wl L c (match s with SepChar _ => None | _ => e0 end))) as [->|NE].
  - pose proof (wl_generate_as_choices wl L s c M e0 ts Hsz HL HLw Hs) as H. cbv zeta in H. rewrite H. clear H.
    eapply pm_render_full_le; try eassumption; lia.
  - rewrite (wl_generate_entropy_det wl L s c M e0 ts e Hsz HL Hs NE).
    destruct Hs as (_ & HM & _).
    apply Qmult_le_0_compat; [|apply base_bound_nonneg; assumption].
    destruct c; cbn [caps_bound]; try lra.
    + apply Qpow_nonneg, Qlt_le_weak, Qinv_lt_0_compat, NQ_pos; lia.
    + apply Qlt_le_weak, Qinv_lt_0_compat, NQ_pos; lia.
Qed.
End WE.
