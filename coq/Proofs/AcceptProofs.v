(** C13: the guard band.  With the default budget (200 attempts, limit 1e-9) a
    recipe whose single-attempt success chance is at least 1/10 is always
    accepted and one with at most 9/100 never is; the fast decision used by the
    executable model equals the exact one. *)
From Spg.Base Require Import Prelude.
From Spg.Model Require Import CharGen.
Open Scope Z_scope.

Lemma fact_hi : 9 ^ 200 * 10 ^ 9 <= 10 ^ 200.
Proof. apply Z.leb_le. vm_compute. reflexivity. Qed.
Lemma fact_lo : 100 ^ 200 < 91 ^ 200 * 10 ^ 9.
Proof. apply Z.ltb_lt. vm_compute. reflexivity. Qed.

(** arithmetic cores, with the big powers abstracted (lia must never see 10^200) *)
Lemma hi_abs A B X D : 0 < A -> 0 <= X -> 0 <= D -> A * X <= B * D -> B * 1000000000 <= A ->
  X * 1000000000 <= 1 * D.
Proof.
  intros HA HX HD H1 F.
  apply Z.mul_le_mono_pos_l with (p := A); [exact HA|].
  assert (E0 : A * (X * 1000000000) = (A * X) * 1000000000) by ring. rewrite E0.
  assert (E1 : (A * X) * 1000000000 <= (B * D) * 1000000000) by (apply Z.mul_le_mono_nonneg_r; lia).
  assert (E2 : (B * D) * 1000000000 = (B * 1000000000) * D) by ring.
  assert (E3 : (B * 1000000000) * D <= A * D) by (apply Z.mul_le_mono_nonneg_r; lia).
  lia.
Qed.

Lemma lo_abs A B X D : 0 < A -> 0 <= X -> 0 < D -> B * D <= A * X -> A < B * 1000000000 ->
  ~ (X * 1000000000 <= 1 * D).
Proof.
  intros HA HX HD H1 F Hc.
  assert (E1 : (B * D) * 1000000000 <= (A * X) * 1000000000) by (apply Z.mul_le_mono_nonneg_r; lia).
  assert (E2 : A * (X * 1000000000) <= A * D) by (apply Z.mul_le_mono_nonneg_l; lia).
  assert (E3 : A * D < (B * 1000000000) * D) by (apply Z.mul_lt_mono_pos_r; lia).
  assert (E4 : (B * D) * 1000000000 = (B * 1000000000) * D) by ring.
  assert (E5 : A * (X * 1000000000) = (A * X) * 1000000000) by ring.
  lia.
Qed.

Lemma guard_hi num den : 0 < num -> num <= den -> den <= 10 * num ->
  (den - num) ^ 200 * 1000000000 <= 1 * den ^ 200.
Proof.
  intros Hn Hle H.
  apply (hi_abs (10 ^ 200) (9 ^ 200)).
  - apply Z.pow_pos_nonneg; lia.
  - apply Z.pow_nonneg; lia.
  - apply Z.pow_nonneg; lia.
  - rewrite <- !Z.pow_mul_l. apply Z.pow_le_mono_l; lia.
  - exact fact_hi.
Qed.

Lemma guard_lo num den : 0 < num -> num <= den -> 100 * num <= 9 * den ->
  ~ ((den - num) ^ 200 * 1000000000 <= 1 * den ^ 200).
Proof.
  intros Hn Hle H.
  apply (lo_abs (100 ^ 200) (91 ^ 200)).
  - apply Z.pow_pos_nonneg; lia.
  - apply Z.pow_nonneg; lia.
  - apply Z.pow_pos_nonneg; lia.
  - rewrite <- !Z.pow_mul_l. apply Z.pow_le_mono_l; lia.
  - exact fact_lo.
Qed.

Theorem acceptable_fast_correct T fn fd num den :
  acceptable T fn fd num den = acceptable_exact T fn fd num den.
Proof.
  unfold acceptable.
  destruct ((T =? 200) && (fn =? 1) && (fd =? 1000000000) && (0 <? num) && (0 <? den) && (num <=? den)) eqn:G;
    [|reflexivity].
  repeat (apply andb_prop in G; destruct G as [G ?]).
  apply Z.eqb_eq in G. subst T.
  repeat match goal with
         | H : (_ =? _) = true |- _ => apply Z.eqb_eq in H
         | H : (_ <? _) = true |- _ => apply Z.ltb_lt in H
         | H : (_ <=? _) = true |- _ => apply Z.leb_le in H
         end. subst fn fd.
  unfold acceptable_exact. change (Z.max 200 0) with 200.
  destruct (den <=? 10 * num) eqn:E1.
  - apply Z.leb_le in E1. symmetry.
    rewrite !andb_true_iff. repeat split; try (apply Z.ltb_lt; assumption).
    apply Z.leb_le. apply guard_hi; assumption.
  - destruct (100 * num <=? 9 * den) eqn:E2; [|reflexivity].
    apply Z.leb_le in E2. symmetry.
    apply andb_false_iff. right. apply Z.leb_nle. apply guard_lo; assumption.
Qed.

(** the guard band, stated on the exact decision *)
Theorem guard_band_accept num den : 0 < num -> num <= den -> den <= 10 * num ->
  acceptable_exact 200 1 1000000000 num den = true.
Proof.
  intros H1 H2 H3. unfold acceptable_exact. change (Z.max 200 0) with 200.
  rewrite !andb_true_iff. repeat split; try (apply Z.ltb_lt; lia). apply Z.leb_le. apply guard_hi; assumption.
Qed.
Theorem guard_band_refuse num den : 0 < num -> num <= den -> 100 * num <= 9 * den ->
  acceptable_exact 200 1 1000000000 num den = false.
Proof.
  intros H1 H2 H3. unfold acceptable_exact. change (Z.max 200 0) with 200.
  apply andb_false_iff. right. apply Z.leb_nle. apply guard_lo; assumption.
Qed.
(** a recipe that cannot succeed is refused whatever the budget *)
Theorem zero_success_refused T fn fd den : acceptable_exact T fn fd 0 den = false.
Proof. reflexivity. Qed.
