(** C02, C03, C06 (character part), C13: the character generator. *)
From Spg.Base Require Import Prelude Utf8 Bytes.
From Spg.Model Require Import Tables Rand GenM CharSets CharGen.
From Spg.Proofs Require Import RandProofs SetProofs CountProofs GenProofs.
From Coq Require Import QArith Lqa.
Open Scope N_scope.

(** ---- one attempt ---- *)
Lemma glyph_at_nseq A : map (glyph_at A) (nseq (N.of_nat (length A))) = A.
Proof.
  unfold nseq, glyph_at. rewrite Nat2N.id, map_map.
  rewrite (map_ext _ (fun i => nth i A [])) by (intros; rewrite Nat2N.id; reflexivity).
  induction A as [|x A IH] using rev_ind; [reflexivity|].
  rewrite app_length. cbn [length]. rewrite Nat.add_1_r, seq_S, map_app. cbn [map Nat.add].
  rewrite app_nth2, Nat.sub_diag by lia. cbn [nth]. f_equal.
  rewrite <- IH at 2. apply map_ext_in. intros i Hi. apply in_seq in Hi. rewrite app_nth1 by lia. reflexivity.
Qed.

Lemma vectors_strings A L :
  map (map (glyph_at A)) (vectors (N.of_nat (length A)) L) = strings_over A L.
Proof.
  induction L as [|L IH]; [reflexivity|].
  cbn [vectors strings_over]. rewrite <- (glyph_at_nseq A) at 3.
  rewrite flat_map_concat_map, concat_map, map_map, flat_map_concat_map, map_map. f_equal.
  apply map_ext. intros i. rewrite !map_map. rewrite <- IH, map_map. reflexivity.
Qed.

Theorem expect_attempt A L phi : A <> [] ->
  (expect (attempt A L) phi == Qpow (/ NQ (N.of_nat (length A))) L * lsumQ (strings_over A L) phi)%Q.
Proof.
  intros HA. unfold attempt. rewrite expect_fmap, expect_picks by (destruct A; [congruence|cbn [length]; lia]).
  rewrite <- vectors_strings, lsumQ_map. reflexivity.
Qed.

Lemma reach_attempt A L cand : A <> [] ->
  (reach (attempt A L) cand <-> length cand = L /\ forall g, In g cand -> In g A).
Proof.
  intros HA. unfold attempt. rewrite reach_fmap. split.
  - intros (v & Hv & <-). apply reach_picks in Hv. destruct Hv as [Hl Hf]. split; [rewrite map_length; exact Hl|].
    intros g Hg. apply in_map_iff in Hg. destruct Hg as (i & <- & Hi).
    rewrite Forall_forall in Hf. specialize (Hf i Hi). unfold glyph_at. apply nth_In. lia.
  - intros [Hl Hc].
    assert (Hin : In cand (strings_over A L)) by (apply strings_over_In; auto).
    rewrite <- vectors_strings in Hin. apply in_map_iff in Hin. destruct Hin as (v & Hv & Hin).
    exists v. split; [|exact Hv]. apply reach_picks.
    clear - Hin. revert v Hin. induction L as [|L IH]; intros v Hin; cbn [vectors] in Hin.
    + destruct Hin as [<-|[]]. split; [reflexivity|constructor].
    + apply in_flat_map in Hin. destruct Hin as (i & Hi & Hin). apply in_map_iff in Hin.
      destruct Hin as (t & <- & Ht). apply IH in Ht. destruct Ht as [Hl Hf]. apply nseq_In in Hi.
      split; [cbn; congruence|constructor; assumption].
Qed.

(** the modelled domain: alphabets of fewer than 2^32 characters (always true of
    a Go slice index that fits uint32; stated, not assumed silently) *)
Definition small_alphabet (r : char_recipe) : Prop := N.of_nat (length (alphabet r)) < W32.

Lemma picks_ok_attempt A L : A <> [] -> N.of_nat (length A) < W32 -> picks_ok (attempt A L).
Proof.
  intros HA Hs. unfold attempt, fmap. apply picks_ok_bind.
  - apply picks_ok_picks; [destruct A; [congruence|cbn [length]; lia]|exact Hs].
  - intros; exact I.
Qed.

(** ---- C13: the decision procedure of Generate ---- *)
Definition accepted (b : budget) (r : char_recipe) : bool :=
  acceptable (bTrials b) (bFailNum b) (bFailDen b) (sp_num r) (sp_den r).

Theorem char_generate_decision b r :
  char_generate b r =
    if (crLength r <? 1)%Z then Ret (Err EBadLength)
    else if match alphabet r with [] => true | _ => false end then Ret (Err ENoChars)
    else if negb (accepted b r) then Ret (Err EFailRate)
    else retry (Z.to_nat (bTrials b)) (attempt (alphabet r) (len_nat r)) (require_filter (required_sets r)).
Proof. unfold char_generate, accepted. destruct (crLength r <? 1)%Z; [reflexivity|]. destruct (alphabet r); reflexivity. Qed.

(** every pick is in range, so the only panic is the PRNG one (C09) *)
Theorem char_generate_picks_ok b r : small_alphabet r -> picks_ok (char_generate b r).
Proof.
  intros Hs. rewrite char_generate_decision.
  destruct (crLength r <? 1)%Z; [exact I|].
  destruct (alphabet r) as [|g A] eqn:EA; [exact I|].
  destruct (negb (accepted b r)); [exact I|].
  apply picks_ok_retry. apply picks_ok_attempt; [discriminate|]. unfold small_alphabet in Hs. rewrite EA in Hs. exact Hs.
Qed.

(** ---- C03: soundness ---- *)
Theorem char_generate_reach b r o : reach (char_generate b r) o ->
  match o with
  | Done cand => Satisfies r cand /\ accepted b r = true
  | Err EBadLength => (crLength r < 1)%Z
  | Err ENoChars => (1 <= crLength r)%Z /\ alphabet r = []
  | Err EFailRate => (1 <= crLength r)%Z /\ alphabet r <> [] /\ accepted b r = false
  | Err EExhausted => (1 <= crLength r)%Z /\ alphabet r <> [] /\ accepted b r = true
  | Err _ => False
  | Panic _ => False
  end.
Proof.
  rewrite char_generate_decision.
  destruct (crLength r <? 1)%Z eqn:EL; [cbn [reach]; intros <-; lia|].
  destruct (alphabet r) as [|g A] eqn:EA; [cbn [reach]; intros <-; split; [lia|reflexivity]|].
  destruct (accepted b r) eqn:Eacc; cbn [negb]; [|cbn [reach]; intros <-; repeat split; [lia|discriminate]].
  intros H. apply reach_retry in H. destruct o as [cand|e|p]; [|subst e; repeat split; [lia|discriminate]|exact H].
  destruct H as [Hr Hf]. apply reach_attempt in Hr; [|discriminate]. destruct Hr as [Hl Hc].
  split; [|reflexivity]. apply satisfies_iff. rewrite EA. repeat split; auto.
  unfold len_nat in Hl. lia.
Qed.

(** on any stream of raw words: a returned password satisfies its recipe *)
Theorem char_generate_sound b r ws cand rest :
  run_words (char_generate b r) ws = RDone (Done cand) rest ->
  Satisfies r cand /\ Forall (fun g => In g (alphabet r)) cand.
Proof.
  intros H. apply run_words_reach in H. destruct H as [H _]. apply char_generate_reach in H.
  destruct H as [Hs _]. split; [exact Hs|]. apply satisfies_iff in Hs. apply Forall_forall. apply Hs.
Qed.

(** every character of the alphabet is actually drawn: it occurs in some candidate *)
Theorem alphabet_drawn r g : (1 <= crLength r)%Z -> In g (alphabet r) ->
  exists cand, reach (attempt (alphabet r) (len_nat r)) cand /\ In g cand.
Proof.
  intros HL Hg. exists (repeat g (len_nat r)). split.
  - apply reach_attempt; [intros E; rewrite E in Hg; destruct Hg|].
    split; [apply repeat_length|]. intros x Hx. apply repeat_spec in Hx. subst. exact Hg.
  - unfold len_nat. destruct (Z.to_nat (crLength r)) eqn:E; [lia|]. left. reflexivity.
Qed.

(** ---- distribution ---- *)
Fixpoint lbeqb (x y : list bytes) : bool :=
  match x, y with
  | [], [] => true
  | a :: x', b :: y' => beqb a b && lbeqb x' y'
  | _, _ => false
  end.
Lemma lbeqb_spec x y : reflect (x = y) (lbeqb x y).
Proof.
  revert y. induction x as [|a x IH]; intros [|b y]; cbn; try (constructor; congruence).
  destruct (beqb_spec a b); cbn; [|constructor; congruence]. destruct (IH y); constructor; congruence.
Qed.

Lemma lsumQ_point (l : list (list bytes)) x : NoDup l ->
  (lsumQ l (fun y => ind (lbeqb y x)) == if existsb (fun y => lbeqb y x) l then 1 else 0)%Q.
Proof.
  induction 1 as [|y l Hy Hn IH]; cbn [lsumQ existsb]; [reflexivity|].
  rewrite IH. destruct (lbeqb_spec y x) as [->|Hne]; cbn [orb]; unfold ind.
  - destruct (existsb (fun y => lbeqb y x) l) eqn:E; [|ring].
    exfalso. apply existsb_exists in E. destruct E as (z & Hz & Ez). destruct (lbeqb_spec z x); [subst; contradiction|discriminate].
  - destruct (existsb (fun y => lbeqb y x) l); ring.
Qed.

(** probability that one attempt produces exactly [cand] *)
Theorem attempt_point A L cand : A <> [] -> NoDup A ->
  (prob (attempt A L) (fun c => lbeqb c cand) ==
   if existsb (fun y => lbeqb y cand) (strings_over A L) then Qpow (/ NQ (N.of_nat (length A))) L else 0)%Q.
Proof.
  intros HA HN. unfold prob. rewrite expect_attempt by exact HA.
  rewrite lsumQ_point by (apply strings_over_NoDup; exact HN).
  destruct (existsb _ _); ring.
Qed.

Lemma in_strings_existsb A L cand :
  existsb (fun y => lbeqb y cand) (strings_over A L) = true <-> (length cand = L /\ forall g, In g cand -> In g A).
Proof.
  rewrite existsb_exists, <- strings_over_In. split.
  - intros (y & Hy & E). destruct (lbeqb_spec y cand); [subst; exact Hy|discriminate].
  - intros H. exists cand. split; [exact H|]. destruct (lbeqb_spec cand cand); congruence.
Qed.

(** single-attempt success mass = count / a^L  (sp_is_success_mass, C13) *)
Theorem attempt_success_mass r : alphabet r <> [] ->
  (prob (attempt (alphabet r) (len_nat r)) (require_filter (required_sets r)) ==
   inject_Z (recipe_count r) * Qpow (/ NQ (N.of_nat (length (alphabet r)))) (len_nat r))%Q.
Proof.
  intros HA. unfold prob. rewrite expect_attempt by exact HA.
  rewrite lsumQ_ind_count. rewrite recipe_count_correct. unfold satisfiesb. apply Qmult_comm.
Qed.

Definition is_pw (cand : list bytes) (o : outcome (list bytes)) : bool :=
  match o with Done c => lbeqb c cand | _ => false end.

(** C02: on an accepted recipe, the probability of returning [cand] is
    u * geom f T for every satisfying string — one and the same number —
    and 0 for every other string; u = (1/a)^L, f = 1 - count/a^L. *)
Definition u_of (r : char_recipe) : Q := Qpow (/ NQ (N.of_nat (length (alphabet r)))) (len_nat r).
Definition f_of (r : char_recipe) : Q :=
  f_mass (attempt (alphabet r) (len_nat r)) (require_filter (required_sets r)).
Definition q_of (b : budget) (r : char_recipe) : Q := (u_of r * geom (f_of r) (Z.to_nat (bTrials b)))%Q.

Lemma u_mass_point r cand : alphabet r <> [] ->
  (u_mass (attempt (alphabet r) (len_nat r)) (require_filter (required_sets r)) (fun c => ind (lbeqb c cand)) ==
   if require_filter (required_sets r) cand && existsb (fun y => lbeqb y cand) (strings_over (alphabet r) (len_nat r))
   then u_of r else 0)%Q.
Proof.
  intros HA. unfold u_mass.
  rewrite (expect_ext _ _ (fun c => ind (require_filter (required_sets r) cand) * ind (lbeqb c cand))%Q).
  - rewrite (expect_ext _ _ (fun c => ind (require_filter (required_sets r) cand) * ind (lbeqb c cand) + 0)%Q) by (intros; ring).
    rewrite expect_linear.
    pose proof (attempt_point (alphabet r) (len_nat r) cand HA (alphabet_NoDup r)) as Hp. unfold prob in Hp.
    rewrite Hp. rewrite expect_zero by reflexivity. unfold u_of, ind.
    destruct (require_filter (required_sets r) cand), (existsb _ _); cbn [andb]; ring.
  - intros c. unfold ind. destruct (lbeqb_spec c cand) as [->|Hne].
    + destruct (require_filter (required_sets r) cand); ring.
    + destruct (require_filter (required_sets r) c), (require_filter (required_sets r) cand); ring.
Qed.

Theorem char_generate_uniform b r cand :
  (1 <= crLength r)%Z -> alphabet r <> [] -> accepted b r = true ->
  (prob (char_generate b r) (is_pw cand) ==
   if require_filter (required_sets r) cand && existsb (fun y => lbeqb y cand) (strings_over (alphabet r) (len_nat r))
   then q_of b r else 0)%Q.
Proof.
  intros HL HA Hacc. rewrite char_generate_decision.
  destruct (crLength r <? 1)%Z eqn:EL; [lia|].
  destruct (alphabet r) as [|g A] eqn:EA; [congruence|]. rewrite Hacc. cbn [negb]. rewrite <- EA in *.
  unfold prob.
  rewrite (expect_ext _ _ (on_done (fun c => ind (lbeqb c cand)))) by (intros [c|e|p]; reflexivity).
  rewrite expect_retry, u_mass_point by exact HA.
  unfold q_of, f_of. destruct (_ && _); ring.
Qed.

(** the boolean condition above is [Satisfies] *)
Lemma satisfies_bool r cand : (0 <= crLength r)%Z ->
  (require_filter (required_sets r) cand && existsb (fun y => lbeqb y cand) (strings_over (alphabet r) (len_nat r)) = true
   <-> Satisfies r cand).
Proof.
  intros HL. rewrite andb_true_iff, in_strings_existsb, satisfies_iff. unfold len_nat. split.
  - intros (H1 & H2 & H3). repeat split; auto. lia.
  - intros (H1 & H2 & H3). repeat split; auto. lia.
Qed.

(** ---- C06 (character recipes): no password is likelier than 1/count ---- *)
Lemma f_of_eq r : alphabet r <> [] -> small_alphabet r ->
  (1 - f_of r == inject_Z (recipe_count r) * u_of r)%Q.
Proof.
  intros HA Hs. unfold f_of, f_mass.
  pose proof (prob_compl (attempt (alphabet r) (len_nat r)) (require_filter (required_sets r))
                (picks_ok_attempt _ _ HA Hs)) as H.
  rewrite attempt_success_mass in H by exact HA. fold (u_of r) in H.
  unfold prob in H.
  rewrite (expect_ext _ (fun c => if require_filter (required_sets r) c then 0 else 1)%Q
             (fun a => ind (negb (require_filter (required_sets r) a)))).
  - lra.
  - intros c. destruct (require_filter _ c); reflexivity.
Qed.

Lemma f_of_nonneg r : alphabet r <> [] -> small_alphabet r -> (0 <= f_of r)%Q.
Proof.
  intros HA Hs. unfold f_of, f_mass. apply expect_nonneg; [apply picks_ok_attempt; assumption|].
  intros c. destruct (require_filter _ c); lra.
Qed.

Theorem char_entropy_bound b r cand :
  (1 <= crLength r)%Z -> alphabet r <> [] -> small_alphabet r -> accepted b r = true ->
  (0 < recipe_count r)%Z ->
  (prob (char_generate b r) (is_pw cand) <= 1 / inject_Z (recipe_count r))%Q.
Proof.
  intros HL HA Hs Hacc Hc.
  rewrite char_generate_uniform by assumption.
  assert (Hcq : (0 < inject_Z (recipe_count r))%Q) by (unfold Qlt; cbn; lia).
  destruct (_ && _).
  - unfold q_of. apply Qle_shift_div_l; [exact Hcq|].
    pose proof (geom_bound (f_of r) (Z.to_nat (bTrials b)) (f_of_nonneg r HA Hs)) as Hg.
    rewrite f_of_eq in Hg by assumption. lra.
  - apply Qle_shift_div_l; [exact Hcq|]. lra.
Qed.

(** and the bound is met up to the failure mass: q * count = 1 - f^T *)
Theorem char_entropy_tight b r :
  alphabet r <> [] -> small_alphabet r ->
  (q_of b r * inject_Z (recipe_count r) == 1 - Qpow (f_of r) (Z.to_nat (bTrials b)))%Q.
Proof.
  intros HA Hs. unfold q_of. rewrite <- geom_closed, f_of_eq by assumption. ring.
Qed.
