(** C16: helpers to relate the data the translator reads from the source to the
    model's constants, and checkers for the shipped lists. *)
From Spg.Base Require Import Prelude Utf8 Bytes Multiset.
From Spg.Model Require Import Tables Rand GenM CharSets CharGen Token WordList WordGen.
From Spg.Proofs Require Import RandProofs SetProofs CountProofs GenProofs CharGenProofs WordGenProofs ProdProofs WordProdProofs
  WordDecodeProofs WordEntropyProofs WordFinalProofs.
From Coq Require Import String Ascii QArith.
Close Scope N_scope. Close Scope Q_scope. Open Scope nat_scope.

(** ---- reading the translator's "const:<decimal>" fields ---- *)
Fixpoint dec_val (s : string) (acc : N) : option N :=
  match s with
  | EmptyString => Some acc
  | String c r => let d := N_of_ascii c in
                  if (48 <=? d)%N && (d <=? 57)%N then dec_val r (acc * 10 + (d - 48))%N else None
  end.
Definition const_N (s : string) : option N :=
  if String.prefix "const:" s then
    match substring 6 (String.length s - 6) s with EmptyString => None | d => dec_val d 0%N end
  else None.

Fixpoint field (k : string) (l : list (string * string)) : option string :=
  match l with [] => None | (k', v) :: r => if String.eqb k k' then Some v else field k r end.
Definition fieldN (k : string) (l : list (string * string)) : option N :=
  match field k l with None => Some 0%N | Some v => const_N v end.
Definition known_fields (l : list (string * string)) : bool :=
  forallb (fun p => existsb (String.eqb (fst p)) ["Length"; "Allow"; "Require"; "Exclude"]%string) l.

(** the model's separator function for a preset as the source declares it *)
Definition preset_model (p : string * string * list (string * string)) : option sep_fun :=
  let '(_, kind, fs) := p in
  if String.eqb kind "NewSFFunction" then
    if known_fields fs then
      match fieldN "Length" fs, fieldN "Allow" fs, fieldN "Require" fs, fieldN "Exclude" fs with
      | Some l, Some a, Some rq, Some e => Some (SepRecipe (mkCR (Z.of_N l) a rq e [] [] []))
      | _, _, _, _ => None
      end
    else None
  else if String.eqb kind "func-literal-constant" then
    match field "ret0" fs, field "ret1" fs with
    | Some v, Some "const:0"%string => Some (SepConst (bos v))
    | _, _ => None
    end
  else None.

(** ---- checkers for the shipped lists ---- *)
Fixpoint str_ltb (a b : string) : bool :=
  match a, b with
  | EmptyString, EmptyString => false
  | EmptyString, String _ _ => true
  | String _ _, EmptyString => false
  | String x a', String y b' =>
      let nx := N_of_ascii x in let ny := N_of_ascii y in
      if (nx <? ny)%N then true else if (ny <? nx)%N then false else str_ltb a' b'
  end.
Fixpoint strictly_sorted (l : list string) : bool :=
  match l with
  | [] => true
  | a :: r => match r with [] => true | b :: _ => str_ltb a b && strictly_sorted r end
  end.

Lemma str_ltb_irrefl a : str_ltb a a = false.
Proof. induction a as [|x a IH]; [reflexivity|]. cbn [str_ltb]. rewrite N.ltb_irrefl. exact IH. Qed.
Lemma str_ltb_trans a : forall b c, str_ltb a b = true -> str_ltb b c = true -> str_ltb a c = true.
Proof.
  induction a as [|x a IH]; intros b c Hab Hbc.
  - destruct b; [discriminate|]. destruct c; [discriminate|reflexivity].
  - destruct b as [|y b]; [discriminate|]. destruct c as [|z c]; [cbn in Hbc; discriminate|].
    cbn [str_ltb] in *.
    destruct (N.ltb_spec (N_of_ascii x) (N_of_ascii y)), (N.ltb_spec (N_of_ascii y) (N_of_ascii x)),
             (N.ltb_spec (N_of_ascii y) (N_of_ascii z)), (N.ltb_spec (N_of_ascii z) (N_of_ascii y)),
             (N.ltb_spec (N_of_ascii x) (N_of_ascii z)), (N.ltb_spec (N_of_ascii z) (N_of_ascii x));
      try reflexivity; try discriminate; try lia. eapply IH; eassumption.
Qed.

Lemma strictly_sorted_lt a l : strictly_sorted (a :: l) = true -> forall b, In b l -> str_ltb a b = true.
Proof.
  revert a. induction l as [|x l IH]; intros a H b Hb; [destruct Hb|].
  cbn [strictly_sorted] in H. apply andb_prop in H. destruct H as [H1 H2]. destruct Hb as [<-|Hb]; [exact H1|].
  eapply str_ltb_trans; [exact H1|]. apply IH; assumption.
Qed.

(** a strictly increasing list has no repeated entry *)
Theorem strictly_sorted_NoDup l : strictly_sorted l = true -> NoDup l.
Proof.
  induction l as [|a l IH]; intros H; [constructor|]. constructor.
  - intros Hin. pose proof (strictly_sorted_lt a l H a Hin) as E. rewrite str_ltb_irrefl in E. discriminate.
  - apply IH. cbn [strictly_sorted] in H. destruct l; [reflexivity|]. apply andb_prop in H. apply H.
Qed.

Definition lower_word (s : string) : bool :=
  match s with EmptyString => false | _ => forallb (fun c => let n := N_of_ascii c in (97 <=? n)%N && (n <=? 122)%N) (list_ascii_of_string s) end.

(** ---- the presets are infallible separator recipes ---- *)
Lemma ascii_alphabet_valid (A : list bytes) :
  forallb (fun g => match g with [x] => (x <? 128)%N | _ => false end) A = true -> Forall valid_glyph A.
Proof.
  intros H. apply Forall_forall. intros g Hg. rewrite forallb_forall in H. specialize (H g Hg).
  destruct g as [|x [|y r]]; try discriminate. apply ascii_valid_glyph. apply N.ltb_lt. exact H.
Qed.

Definition infallibleb (bd : budget) (r : char_recipe) : bool :=
  (1 <=? crLength r)%Z && negb (match alphabet r with [] => true | _ => false end) &&
  (N.of_nat (List.length (alphabet r)) <? W32)%N && (match live_sets r with [] => true | _ => false end) &&
  accepted bd r && (1 <=? bTrials bd)%Z &&
  forallb (fun g => match g with [x] => (x <? 128)%N | _ => false end) (alphabet r).

Theorem infallibleb_sound bd r : infallibleb bd r = true -> infallible bd r.
Proof.
  unfold infallibleb. intros H. repeat (apply andb_prop in H; destruct H as [H ?]).
  unfold infallible, small_alphabet. repeat split.
  - apply Z.leb_le. assumption.
  - destruct (alphabet r); [discriminate|discriminate].
  - apply N.ltb_lt. assumption.
  - destruct (live_sets r); [reflexivity|discriminate].
  - assumption.
  - apply Z.leb_le. assumption.
  - apply ascii_alphabet_valid. assumption.
Qed.

(** values a preset recipe can return, as a list *)
Definition preset_values (r : char_recipe) : list bytes := map (@List.concat N) (strings_over (alphabet r) (len_nat r)).

(** boolean list equality with its specification: Base/Multiset.v ([list_eqb], [list_eqb_eq]) *)
Lemma str_list_eqb_eq l1 l2 : list_eqb String.eqb l1 l2 = true -> l1 = l2.
Proof. apply list_eqb_eq. intros x y H. apply String.eqb_eq. exact H. Qed.
Lemma bytes_list_eqb_eq l1 l2 : list_eqb beqb l1 l2 = true -> l1 = l2.
Proof. apply list_eqb_eq. intros x y H. apply beqb_eq. exact H. Qed.
