(** The gen monad: reachability (support), the expectation toolkit (Layer P),
    and the tie between running on raw 32-bit words and the ideal distribution
    (first-step equation with the raw coefficients of C01; Layer T rawcount). *)
From Spg.Base Require Import Prelude SumCount.
From Spg.Model Require Import Rand GenM.
From Spg.Proofs Require Import RandProofs.
From Coq Require Import QArith Lqa Setoid Morphisms.
Open Scope N_scope.

(** ---- support: the values a generator can return ---- *)
Fixpoint reach {A} (g : gen A) (a : A) : Prop :=
  match g with
  | Ret b => b = a
  | Pick n k => exists i, i < n /\ reach (k i) a
  end.

Lemma reach_bind {A B} (g : gen A) (f : A -> gen B) b :
  reach (bind g f) b <-> exists a, reach g a /\ reach (f a) b.
Proof.
  induction g as [a|n k IH]; cbn [bind reach].
  - split; [intros H; exists a; auto|intros (a' & <- & H); exact H].
  - split.
    + intros (i & Hi & H). apply IH in H. destruct H as (a & Ha & Hb). exists a. split; [exists i; auto|exact Hb].
    + intros (a & (i & Hi & Ha) & Hb). exists i. split; [exact Hi|]. apply IH. exists a. auto.
Qed.

Lemma reach_fmap {A B} (f : A -> B) (g : gen A) b :
  reach (fmap f g) b <-> exists a, reach g a /\ f a = b.
Proof. unfold fmap. rewrite reach_bind. cbn [reach]. reflexivity. Qed.

(** every pick of the generator has a bound in [1, 2^32) *)
Fixpoint picks_ok {A} (g : gen A) : Prop :=
  match g with
  | Ret _ => True
  | Pick n k => 1 <= n /\ n < W32 /\ forall i, i < n -> picks_ok (k i)
  end.

Lemma picks_ok_bind {A B} (g : gen A) (f : A -> gen B) :
  picks_ok g -> (forall a, reach g a -> picks_ok (f a)) -> picks_ok (bind g f).
Proof.
  induction g as [a|n k IH]; cbn [bind picks_ok reach]; intros Hg Hf.
  - apply Hf. reflexivity.
  - destruct Hg as (H1 & H2 & H3). repeat split; auto.
    intros i Hi. apply IH; [apply H3; exact Hi|]. intros a Ha. apply Hf. exists i. auto.
Qed.

(** whatever the raw words, a finished run returns a value in the support, and
    it consumed a prefix of the words *)
Theorem run_words_reach {A} (g : gen A) : forall ws a rest,
  run_words g ws = RDone a rest -> reach g a /\ exists pre, ws = pre ++ rest.
Proof.
  induction g as [b|n k IH]; intros ws a rest; cbn [run_words reach].
  - intros [= <- <-]. split; [reflexivity|exists []; reflexivity].
  - destruct (n =? 0) eqn:En; [discriminate|]. apply N.eqb_neq in En.
    destruct (draw n ws) as [[i ws']|] eqn:Ed; [|discriminate].
    intros H. apply IH in H. destruct H as (Hr & pre & ->).
    split.
    + exists i. split; [eapply draw_range; [lia|exact Ed]|exact Hr].
    + apply draw_suffix in Ed. destruct Ed as (pre' & -> & _). exists (pre' ++ pre). rewrite app_assoc. reflexivity.
Qed.

(** no draw with bound 0 when every pick is in range *)
Theorem run_words_no_zero {A} (g : gen A) : picks_ok g -> forall ws rest, run_words g ws <> RZero rest.
Proof.
  induction g as [b|n k IH]; intros Hok ws rest; cbn [run_words]; [discriminate|].
  destruct Hok as (H1 & H2 & H3).
  destruct (n =? 0) eqn:En; [apply N.eqb_eq in En; lia|].
  destruct (draw n ws) as [[i ws']|] eqn:Ed; [|discriminate].
  apply IH. apply H3. eapply draw_range; [exact H1|exact Ed].
Qed.

(** ---- rational sums ---- *)
Lemma sumQ_0 f : sumQ 0 f = 0%Q. Proof. reflexivity. Qed.
Lemma sumQ_succ n f : sumQ (N.succ n) f = (sumQ n f + f n)%Q.
Proof. unfold sumQ. rewrite N.recursion_succ; try reflexivity. intros ? ? -> ? ? ->. reflexivity. Qed.

Lemma sumQ_ext n f g : (forall i, i < n -> (f i == g i)%Q) -> (sumQ n f == sumQ n g)%Q.
Proof.
  induction n using N.peano_ind; intros H; [reflexivity|].
  rewrite !sumQ_succ. rewrite IHn by (intros; apply H; lia). rewrite (H n) by lia. reflexivity.
Qed.
Lemma sumQ_scale n c f : (sumQ n (fun i => c * f i) == c * sumQ n f)%Q.
Proof. induction n using N.peano_ind; [cbn; ring|]. rewrite !sumQ_succ, IHn. ring. Qed.
Lemma sumQ_plus n f g : (sumQ n (fun i => f i + g i) == sumQ n f + sumQ n g)%Q.
Proof. induction n using N.peano_ind; [cbn; ring|]. rewrite !sumQ_succ, IHn. ring. Qed.
Lemma sumQ_const n c : (sumQ n (fun _ => c) == NQ n * c)%Q.
Proof. unfold NQ. induction n using N.peano_ind; [cbn; ring|]. rewrite sumQ_succ, IHn, N2Z.inj_succ. unfold Z.succ. rewrite inject_Z_plus. ring. Qed.
Lemma sumQ_zero n g : (forall i, i < n -> (g i == 0)%Q) -> (sumQ n g == 0)%Q.
Proof. intros H. rewrite (sumQ_ext n g (fun _ => 0%Q)) by exact H. rewrite sumQ_const. ring. Qed.
Lemma sumQ_nonneg n g : (forall i, i < n -> (0 <= g i)%Q) -> (0 <= sumQ n g)%Q.
Proof.
  induction n using N.peano_ind; intros H; [rewrite sumQ_0; lra|].
  rewrite sumQ_succ. assert (0 <= sumQ n g)%Q by (apply IHn; intros; apply H; lia).
  assert (0 <= g n)%Q by (apply H; lia). lra.
Qed.
Lemma sumQ_le n f g : (forall i, i < n -> (f i <= g i)%Q) -> (sumQ n f <= sumQ n g)%Q.
Proof.
  induction n using N.peano_ind; intros H; [rewrite !sumQ_0; lra|].
  rewrite !sumQ_succ. assert (sumQ n f <= sumQ n g)%Q by (apply IHn; intros; apply H; lia).
  assert (f n <= g n)%Q by (apply H; lia). lra.
Qed.
Lemma sumQ_delta n j (c : Q) : j < n -> (sumQ n (fun i => if i =? j then c else 0) == c)%Q.
Proof.
  intros Hj.
  assert (H : forall m, m <= n -> (sumQ m (fun i => if i =? j then c else 0) == if j <? m then c else 0)%Q).
  { induction m using N.peano_ind; intros Hm.
    - cbn. destruct (j <? 0) eqn:E; [lia|reflexivity].
    - rewrite sumQ_succ, IHm by lia.
      destruct (j <? m) eqn:E1, (m =? j) eqn:E2, (j <? N.succ m) eqn:E3; try lia; ring. }
  rewrite H by lia. destruct (j <? n) eqn:E; [reflexivity|lia].
Qed.

Lemma NQ_pos n : 1 <= n -> (0 < NQ n)%Q.
Proof. intros H. unfold NQ, Qlt. cbn. lia. Qed.
Lemma NQ_nonzero n : 1 <= n -> ~ (NQ n == 0)%Q.
Proof. intros H E. pose proof (NQ_pos n H). lra. Qed.
Lemma NQ_mul a b : (NQ (a * b) == NQ a * NQ b)%Q.
Proof. unfold NQ. rewrite N2Z.inj_mul, inject_Z_mult. reflexivity. Qed.
Lemma NQ_add a b : (NQ (a + b) == NQ a + NQ b)%Q.
Proof. unfold NQ. rewrite N2Z.inj_add, inject_Z_plus. reflexivity. Qed.

(** ---- expectation ---- *)
Lemma expect_ext {A} (g : gen A) phi psi : (forall a, (phi a == psi a)%Q) -> (expect g phi == expect g psi)%Q.
Proof.
  induction g as [a|n k IH]; intros H; cbn; [apply H|].
  apply Qmult_comp; [reflexivity|]. apply sumQ_ext. intros i _. apply IH, H.
Qed.

(** functions need only agree on the support *)
Lemma expect_ext_reach {A} (g : gen A) phi psi :
  (forall a, reach g a -> (phi a == psi a)%Q) -> (expect g phi == expect g psi)%Q.
Proof.
  induction g as [a|n k IH]; intros H; cbn [expect]; [apply H; reflexivity|].
  apply Qmult_comp; [reflexivity|]. apply sumQ_ext. intros i Hi. apply IH.
  intros a Ha. apply H. exists i. auto.
Qed.

Lemma expect_bind {A B} (g : gen A) (h : A -> gen B) phi :
  (expect (bind g h) phi == expect g (fun a => expect (h a) phi))%Q.
Proof.
  induction g as [a|n k IH]; cbn; [reflexivity|].
  apply Qmult_comp; [reflexivity|]. apply sumQ_ext. intros i _. apply IH.
Qed.

Lemma expect_fmap {A B} (f : A -> B) (g : gen A) phi :
  (expect (fmap f g) phi == expect g (fun a => phi (f a)))%Q.
Proof. unfold fmap. rewrite expect_bind. reflexivity. Qed.

Lemma expect_linear {A} (g : gen A) c phi psi :
  (expect g (fun a => c * phi a + psi a) == c * expect g phi + expect g psi)%Q.
Proof.
  induction g as [a|n k IH]; cbn; [reflexivity|].
  rewrite (sumQ_ext n _ (fun i => c * expect (k i) phi + expect (k i) psi)%Q) by (intros; apply IH).
  rewrite sumQ_plus, sumQ_scale. ring.
Qed.

Lemma expect_zero {A} (g : gen A) phi : (forall a, (phi a == 0)%Q) -> (expect g phi == 0)%Q.
Proof.
  induction g as [a|n k IH]; intros H; cbn; [apply H|].
  rewrite sumQ_zero; [ring|]. intros i _. apply IH, H.
Qed.

Lemma expect_nonneg {A} (g : gen A) phi : picks_ok g -> (forall a, (0 <= phi a)%Q) -> (0 <= expect g phi)%Q.
Proof.
  induction g as [a|n k IH]; intros Hok H; cbn [expect]; [apply H|].
  destruct Hok as (H1 & H2 & H3).
  apply Qmult_le_0_compat.
  - apply Qlt_le_weak, Qinv_lt_0_compat, NQ_pos. exact H1.
  - apply sumQ_nonneg. intros i Hi. apply IH; [apply H3; exact Hi|exact H].
Qed.

Lemma expect_le {A} (g : gen A) phi psi : picks_ok g ->
  (forall a, (phi a <= psi a)%Q) -> (expect g phi <= expect g psi)%Q.
Proof.
  induction g as [a|n k IH]; intros Hok H; cbn [expect]; [apply H|].
  destruct Hok as (H1 & H2 & H3).
  apply Qmult_le_l; [apply Qinv_lt_0_compat, NQ_pos; exact H1|].
  apply sumQ_le. intros i Hi. apply IH; [apply H3; exact Hi|exact H].
Qed.

Lemma expect_const {A} (g : gen A) c : picks_ok g -> (expect g (fun _ => c) == c)%Q.
Proof.
  induction g as [a|n k IH]; intros Hok; cbn [expect]; [reflexivity|].
  destruct Hok as (H1 & H2 & H3).
  rewrite (sumQ_ext n _ (fun _ => c)) by (intros i Hi; apply IH, H3, Hi).
  rewrite sumQ_const. field. apply NQ_nonzero. exact H1.
Qed.

(** total probability: complementary events *)
Lemma prob_compl {A} (g : gen A) P : picks_ok g ->
  (prob g P + prob g (fun a => negb (P a)) == 1)%Q.
Proof.
  intros Hok. unfold prob.
  rewrite <- (expect_const g 1%Q Hok).
  rewrite <- (Qmult_1_l (expect g (fun a => ind (P a)))).
  rewrite <- expect_linear. apply expect_ext. intros a. unfold ind. destruct (P a); cbn; ring.
Qed.

(** ---- the retry loop ---- *)
Fixpoint geom (f : Q) (T : nat) : Q := match T with O => 0%Q | S T' => (1 + f * geom f T')%Q end.

Section Retry.
Context {A : Type}.
Variable attempt : gen A.
Variable valid : A -> bool.
Variable phi : A -> Q.
(** mass of accepted candidates weighted by phi, and mass of rejected candidates, in one attempt *)
Definition u_mass : Q := expect attempt (fun c => if valid c then phi c else 0%Q).
Definition f_mass : Q := expect attempt (fun c => if valid c then 0%Q else 1%Q).
Definition on_done (o : outcome A) : Q := match o with Done c => phi c | _ => 0%Q end.

(** whole-candidate redraw: the same geometric factor for every accepted value *)
Theorem expect_retry T : (expect (retry T attempt valid) on_done == u_mass * geom f_mass T)%Q.
Proof.
  induction T as [|T IH]; [cbn; ring|].
  cbn [retry geom]. rewrite expect_bind.
  rewrite (expect_ext attempt _ (fun c => (expect (retry T attempt valid) on_done) * (if valid c then 0 else 1) + (if valid c then phi c else 0))%Q).
  - rewrite expect_linear. fold f_mass. fold u_mass. rewrite IH. ring.
  - intros c. destruct (valid c); cbn [expect on_done]; ring.
Qed.
End Retry.

Lemma reach_retry {A} (att : gen A) ok T o :
  reach (retry T att ok) o ->
  match o with
  | Done c => reach att c /\ ok c = true
  | Err e => e = EExhausted
  | Panic _ => False
  end.
Proof.
  induction T as [|T IH]; cbn [retry reach].
  - intros <-. reflexivity.
  - intros H. apply reach_bind in H. destruct H as (c & Hc & H).
    destruct (ok c) eqn:E; [|apply IH; exact H].
    cbn [reach] in H. subst o. auto.
Qed.

Lemma picks_ok_retry {A} (att : gen A) ok T : picks_ok att -> picks_ok (retry T att ok).
Proof.
  intros H. induction T as [|T IH]; cbn [retry picks_ok]; [exact I|].
  apply picks_ok_bind; [exact H|]. intros c _. destruct (ok c); [exact I|exact IH].
Qed.

Fixpoint Qpow (q : Q) (L : nat) : Q := match L with O => 1%Q | S L' => (q * Qpow q L')%Q end.

Lemma Qpow_nonneg q L : (0 <= q)%Q -> (0 <= Qpow q L)%Q.
Proof. intros Hq. induction L as [|L IH]; cbn [Qpow]; [lra|]. apply Qmult_le_0_compat; assumption. Qed.
Lemma Qpow_pos q L : (0 < q)%Q -> (0 < Qpow q L)%Q.
Proof. intros Hq. induction L as [|L IH]; cbn [Qpow]; [lra|]. apply Qmult_lt_0_compat; assumption. Qed.

Lemma geom_closed f T : ((1 - f) * geom f T == 1 - Qpow f T)%Q.
Proof.
  induction T as [|T IH]; [cbn; ring|].
  cbn [geom Qpow].
  assert (H : ((1 - f) * (1 + f * geom f T) == (1 - f) + f * ((1 - f) * geom f T))%Q) by ring.
  rewrite H, IH. ring.
Qed.

Lemma geom_nonneg f T : (0 <= f)%Q -> (0 <= geom f T)%Q.
Proof. intros Hf. induction T as [|T IH]; cbn [geom]; [lra|]. assert (0 <= f * geom f T)%Q by (apply Qmult_le_0_compat; assumption). lra. Qed.

(** (1-f) * geom f T <= 1 for 0 <= f *)
Lemma geom_bound f T : (0 <= f)%Q -> ((1 - f) * geom f T <= 1)%Q.
Proof. intros Hf. rewrite geom_closed. pose proof (Qpow_nonneg f T Hf). lra. Qed.

(** ---- L independent picks: uniform over index vectors ---- *)
Fixpoint lsumQ {X} (l : list X) (f : X -> Q) : Q :=
  match l with [] => 0%Q | x :: l' => (f x + lsumQ l' f)%Q end.
Lemma lsumQ_app {X} (l1 l2 : list X) f : (lsumQ (l1 ++ l2) f == lsumQ l1 f + lsumQ l2 f)%Q.
Proof. induction l1 as [|x l1 IH]; cbn; [ring|]. rewrite IH. ring. Qed.
Lemma lsumQ_map {X Y} (h : X -> Y) l f : lsumQ (map h l) f = lsumQ l (fun x => f (h x)).
Proof. induction l as [|x l IH]; cbn; [reflexivity|]. rewrite IH. reflexivity. Qed.
Lemma lsumQ_ext {X} (l : list X) f g : (forall x, In x l -> (f x == g x)%Q) -> (lsumQ l f == lsumQ l g)%Q.
Proof. induction l as [|x l IH]; intros H; cbn; [reflexivity|]. rewrite (H x) by (left; reflexivity). rewrite IH by (intros; apply H; right; assumption). reflexivity. Qed.
Lemma lsumQ_scale {X} (l : list X) c f : (lsumQ l (fun x => c * f x) == c * lsumQ l f)%Q.
Proof. induction l as [|x l IH]; cbn; [ring|]. rewrite IH. ring. Qed.
Lemma lsumQ_flat_map {X Y} (h : X -> list Y) l f : (lsumQ (flat_map h l) f == lsumQ l (fun x => lsumQ (h x) f))%Q.
Proof. induction l as [|x l IH]; cbn; [reflexivity|]. rewrite lsumQ_app, IH. reflexivity. Qed.
Lemma lsumQ_ind_count {X} (l : list X) (p : X -> bool) :
  (lsumQ l (fun x => ind (p x)) == inject_Z (Z.of_nat (length (filter p l))))%Q.
Proof.
  induction l as [|x l IH]; cbn [lsumQ filter]; [reflexivity|]. rewrite IH. unfold ind.
  destruct (p x); cbn [length]; [rewrite Nat2Z.inj_succ; unfold Z.succ; rewrite inject_Z_plus; ring|ring].
Qed.

(** [0; 1; ...; n-1] *)
Definition nseq (n : N) : list N := map N.of_nat (seq 0 (N.to_nat n)).
Lemma nseq_succ n : nseq (N.succ n) = nseq n ++ [n].
Proof. unfold nseq. rewrite N2Nat.inj_succ, seq_S, map_app. cbn. rewrite N2Nat.id. reflexivity. Qed.
Lemma sumQ_nseq n f : (sumQ n f == lsumQ (nseq n) f)%Q.
Proof.
  induction n using N.peano_ind; [reflexivity|].
  rewrite sumQ_succ, nseq_succ, lsumQ_app, IHn. cbn. ring.
Qed.
Lemma nseq_In n i : In i (nseq n) <-> i < n.
Proof. unfold nseq. rewrite in_map_iff. split.
  - intros (k & <- & Hk). apply in_seq in Hk. lia.
  - intros H. exists (N.to_nat i). split; [apply N2Nat.id|]. apply in_seq. lia. Qed.
Lemma nseq_length n : length (nseq n) = N.to_nat n.
Proof. unfold nseq. rewrite map_length, seq_length. reflexivity. Qed.
Lemma nseq_NoDup n : NoDup (nseq n).
Proof. unfold nseq. apply NoDup_map_inv with (f := N.to_nat). rewrite map_map. rewrite (map_ext _ (fun x => x)) by (intros; apply Nat2N.id). rewrite map_id. apply seq_NoDup. Qed.

(** all index vectors of length L over [0,a) *)
Fixpoint vectors (a : N) (L : nat) : list (list N) :=
  match L with
  | O => [[]]
  | S L' => flat_map (fun i => map (cons i) (vectors a L')) (nseq a)
  end.

Theorem expect_picks a L phi : 1 <= a ->
  (expect (picks L a) phi == Qpow (/ NQ a) L * lsumQ (vectors a L) phi)%Q.
Proof.
  intros Ha. revert phi. induction L as [|L IH]; intros phi.
  - cbn. ring.
  - cbn [picks expect Qpow vectors].
    rewrite (sumQ_ext a _ (fun i => Qpow (/ NQ a) L * lsumQ (vectors a L) (fun r => phi (i :: r)))%Q).
    + rewrite sumQ_scale, sumQ_nseq, lsumQ_flat_map.
      rewrite (lsumQ_ext (nseq a) (fun x => lsumQ (map (cons x) (vectors a L)) phi)
                 (fun i => lsumQ (vectors a L) (fun r => phi (i :: r)))).
      * ring.
      * intros i _. rewrite lsumQ_map. reflexivity.
    + intros i _. rewrite expect_bind. cbn [expect]. apply IH.
Qed.

Lemma picks_ok_picks a L : 1 <= a -> a < W32 -> picks_ok (picks L a).
Proof.
  intros H1 H2. induction L as [|L IH]; cbn [picks picks_ok]; [exact I|].
  repeat split; auto. intros i Hi. apply picks_ok_bind; [exact IH|]. intros r _. exact I.
Qed.

Lemma reach_picks a L v : reach (picks L a) v <-> length v = L /\ Forall (fun i => i < a) v.
Proof.
  revert v. induction L as [|L IH]; intros v; cbn [picks reach].
  - split; [intros <-; split; [reflexivity|constructor]|]. intros [H _]. destruct v; [reflexivity|discriminate].
  - split.
    + intros (i & Hi & H). apply reach_bind in H. destruct H as (r & Hr & <-).
      apply IH in Hr. destruct Hr as [Hl Hf]. split; [cbn; congruence|constructor; assumption].
    + intros [Hl Hf]. destruct v as [|i v]; [discriminate|]. inversion Hf; subst.
      exists i. split; [assumption|]. apply reach_bind. exists v. split; [|reflexivity].
      apply IH. split; [cbn in Hl; congruence|assumption].
Qed.

(** ---- Layer R meets Layer P: first-step equation with the raw coefficients ---- *)
(** The counts of C01 are abstracted as variables here: tactics must never see
    [countBelow 2^32 ...] next to arithmetic. *)
Section FirstStep.
Variables (Wq rejn accn c n : N).
Hypothesis Hn : 1 <= n.
Hypothesis Hacc : c * n = accn.
Hypothesis Hsum : accn + rejn = Wq.
Hypothesis HWpos : 1 <= Wq.
Lemma first_step_generic {A} (k : N -> gen A) phi :
  (expect (Pick n k) phi ==
   (NQ rejn / NQ Wq) * expect (Pick n k) phi + sumQ n (fun i => (NQ c / NQ Wq) * expect (k i) phi))%Q.
Proof.
  cbn [expect]. set (S := sumQ n (fun i => expect (k i) phi)).
  rewrite sumQ_scale. fold S.
  assert (HW : ~ (NQ Wq == 0)%Q) by (apply NQ_nonzero; exact HWpos).
  assert (Hnq : ~ (NQ n == 0)%Q) by (apply NQ_nonzero; exact Hn).
  assert (E1 : (NQ c * NQ n == NQ accn)%Q) by (rewrite <- NQ_mul, Hacc; reflexivity).
  assert (E2 : (NQ accn + NQ rejn == NQ Wq)%Q) by (rewrite <- NQ_add, Hsum; reflexivity).
  rewrite <- E2. rewrite <- E1. field. split; [|exact Hnq].
  rewrite E1, E2. exact HW.
Qed.

End FirstStep.

Section FirstStepUnique.
Variables (Wq rejn : N).
Hypothesis HWpos : 1 <= Wq.
Hypothesis Hhalf : 2 * rejn < Wq.
Lemma first_step_unique_generic x y (s : Q) :
  (x == (NQ rejn / NQ Wq) * x + s)%Q -> (y == (NQ rejn / NQ Wq) * y + s)%Q -> (x == y)%Q.
Proof.
  intros Hx Hy.
  assert (Hr : (NQ rejn / NQ Wq < 1 # 2)%Q).
  { apply Qlt_shift_div_r; [apply NQ_pos; exact HWpos|].
    unfold NQ, Qlt, Qmult, inject_Z. cbn [Qnum Qden]. lia. }
  set (q := (NQ rejn / NQ Wq)%Q) in *.
  assert (H : ((1 - q) * (x - y) == (x - (q * x + s)) - (y - (q * y + s)))%Q) by ring.
  rewrite <- Hx, <- Hy in H.
  assert (H' : ((1 - q) * (x - y) == 0)%Q) by (rewrite H; ring).
  apply Qmult_integral in H'. destruct H' as [H'|H']; lra.
Qed.
End FirstStepUnique.

(** the common fibre size: every alternative i < n has fib n i = acc n / n *)
Lemma fib_common n i : 1 <= n -> n < W32 -> i < n -> fib n i = acc n / n /\ (acc n / n) * n = acc n.
Proof.
  intros Hn HnW Hi. pose proof (step_uniform n i Hn HnW Hi) as H. revert H.
  generalize (fib n i) (acc n). intros a b H. subst b. rewrite N.div_mul by lia. auto.
Qed.

Theorem prob_first_step {A} n (k : N -> gen A) phi : 1 <= n -> n < W32 ->
  (expect (Pick n k) phi ==
   (NQ (rej n) / NQ W32) * expect (Pick n k) phi
   + sumQ n (fun i => (NQ (fib n i) / NQ W32) * expect (k i) phi))%Q.
Proof.
  intros Hn HnW.
  rewrite (sumQ_ext n _ (fun i => (NQ (acc n / n) / NQ W32) * expect (k i) phi)%Q).
  - apply (first_step_generic W32 (rej n) (acc n) (acc n / n) n Hn).
    + apply (fib_common n 0 Hn HnW). lia.
    + apply step_acc_rej.
    + discriminate.
  - intros i Hi. destruct (fib_common n i Hn HnW Hi) as [-> _]. reflexivity.
Qed.

(** the self-loop coefficient is below one half, so the first-step equation
    determines its left-hand side: the ideal distribution is the only one
    compatible with uniform raw words *)
Theorem first_step_unique n x y (s : Q) : 1 <= n -> n < W32 ->
  (x == (NQ (rej n) / NQ W32) * x + s)%Q -> (y == (NQ (rej n) / NQ W32) * y + s)%Q -> (x == y)%Q.
Proof.
  intros Hn HnW. apply (first_step_unique_generic W32 (rej n)); [discriminate|].
  exact (rej_lt_half W32 eq_refl n Hn HnW).
Qed.
