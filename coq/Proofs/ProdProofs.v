(** Product structure of independent draws (Fubini for the finite expectation),
    point masses, and the "decoder" lemma: when a rendering of the choices can be
    decoded back, the probability of an output is the probability of its choices. *)
From Spg.Base Require Import Prelude.
From Spg.Model Require Import Rand GenM.
From Spg.Proofs Require Import RandProofs GenProofs.
From Coq Require Import QArith Lqa.
Open Scope N_scope.

Lemma expect_scale {A} (g : gen A) c phi : (expect g (fun a => c * phi a) == c * expect g phi)%Q.
Proof.
  rewrite (expect_ext g _ (fun a => c * phi a + 0)%Q) by (intros; ring).
  rewrite expect_linear. rewrite (expect_zero g (fun _ => 0%Q)) by reflexivity. ring.
Qed.

Lemma expect_plus {A} (g : gen A) phi psi : (expect g (fun a => phi a + psi a) == expect g phi + expect g psi)%Q.
Proof.
  rewrite (expect_ext g _ (fun a => 1 * phi a + psi a)%Q) by (intros; ring).
  rewrite expect_linear. ring.
Qed.

Lemma expect_sumQ {A} (g : gen A) n (F : N -> A -> Q) :
  (expect g (fun a => sumQ n (fun i => F i a)) == sumQ n (fun i => expect g (F i)))%Q.
Proof.
  induction n as [|n IH] using N.peano_ind.
  - rewrite sumQ_0. apply expect_zero. intros a. rewrite sumQ_0. reflexivity.
  - rewrite sumQ_succ. rewrite <- IH, <- expect_plus. apply expect_ext. intros a. rewrite sumQ_succ. reflexivity.
Qed.

(** Fubini: independent generators commute *)
Theorem expect_swap {A B} (g : gen A) (h : gen B) (phi : A -> B -> Q) :
  (expect g (fun a => expect h (fun b => phi a b)) == expect h (fun b => expect g (fun a => phi a b)))%Q.
Proof.
  induction g as [a|n k IH]; cbn [expect]; [reflexivity|].
  rewrite (sumQ_ext n _ (fun i => expect h (fun b => expect (k i) (fun a => phi a b)))) by (intros i _; apply IH).
  rewrite <- expect_sumQ, <- expect_scale. reflexivity.
Qed.

Lemma expect_le_reach {A} (g : gen A) phi psi : picks_ok g ->
  (forall a, reach g a -> (phi a <= psi a)%Q) -> (expect g phi <= expect g psi)%Q.
Proof.
  induction g as [a|n k IH]; intros Hok H; cbn [expect]; [apply H; reflexivity|].
  destruct Hok as (H1 & H2 & H3).
  apply Qmult_le_l; [apply Qinv_lt_0_compat, NQ_pos; exact H1|].
  apply sumQ_le. intros i Hi. apply IH; [apply H3; exact Hi|]. intros a Ha. apply H. exists i. auto.
Qed.

(** ---- point masses ---- *)
Section Point.
Context {A : Type} (dec : forall x y : A, {x = y} + {x <> y}).
Definition at_pt (x a : A) : Q := if dec a x then 1%Q else 0%Q.
Definition pm (g : gen A) (x : A) : Q := expect g (at_pt x).

Lemma at_pt_nonneg x a : (0 <= at_pt x a)%Q. Proof. unfold at_pt. destruct (dec a x); lra. Qed.
Lemma at_pt_le1 x a : (at_pt x a <= 1)%Q. Proof. unfold at_pt. destruct (dec a x); lra. Qed.
Lemma pm_nonneg g x : picks_ok g -> (0 <= pm g x)%Q.
Proof. intros H. apply expect_nonneg; [exact H|]. intros a. apply at_pt_nonneg. Qed.
Lemma pm_le1 g x : picks_ok g -> (pm g x <= 1)%Q.
Proof. intros H. rewrite <- (expect_const g 1%Q H). apply expect_le; [exact H|]. intros a. apply at_pt_le1. Qed.
Lemma pm_unreachable g x : ~ reach g x -> (pm g x == 0)%Q.
Proof.
  intros H. unfold pm. rewrite (expect_ext_reach g _ (fun _ => 0%Q)); [apply expect_zero; reflexivity|].
  intros a Ha. unfold at_pt. destruct (dec a x); [subst; contradiction|reflexivity].
Qed.
Lemma pm_ret a x : (pm (Ret a) x == at_pt x a)%Q. Proof. reflexivity. Qed.
End Point.

(** a function of the outcome: weight concentrated on the event *)
Lemma expect_at_pt_mul {A} (dec : forall x y : A, {x = y} + {x <> y}) (g : gen A) x (F : A -> Q) :
  (expect g (fun a => at_pt dec x a * F a) == pm dec g x * F x)%Q.
Proof.
  unfold pm.
  rewrite (expect_ext g (fun a => at_pt dec x a * F a)%Q (fun a => F x * at_pt dec x a)%Q); [|].
  - rewrite expect_scale. ring.
  - intros a. unfold at_pt. destruct (dec a x); [subst; ring|ring].
Qed.

(** ---- the decoder lemma ---- *)
Section Decode.
Context {X Y : Type} (decX : forall x y : X, {x = y} + {x <> y}) (decY : forall x y : Y, {x = y} + {x <> y}).
Variable g : gen X.
Variable f : X -> Y.
Variable d : Y -> option X.
Hypothesis d_left_inverse : forall x, reach g x -> d (f x) = Some x.

(** probability of an output = probability of the one choice that renders to it *)
Theorem pm_decode y :
  (pm decY (fmap f g) y == match d y with Some x => if decY (f x) y then pm decX g x else 0 | None => 0 end)%Q.
Proof.
  unfold pm at 1. rewrite expect_fmap.
  destruct (d y) as [x0|] eqn:Ed.
  - destruct (decY (f x0) y) as [E|NE].
    + apply expect_ext_reach. intros x Hx. unfold at_pt.
      destruct (decY (f x) y) as [E1|N1]; destruct (decX x x0) as [E2|N2]; try reflexivity.
      * exfalso. apply N2. pose proof (d_left_inverse x Hx) as H. rewrite E1, Ed in H. congruence.
      * exfalso. apply N1. subst x. exact E.
    + rewrite (expect_ext_reach g _ (fun _ => 0%Q)); [apply expect_zero; reflexivity|].
      intros x Hx. unfold at_pt. destruct (decY (f x) y) as [E1|]; [|reflexivity].
      exfalso. apply NE. pose proof (d_left_inverse x Hx) as H. rewrite E1, Ed in H. congruence.
  - rewrite (expect_ext_reach g _ (fun _ => 0%Q)); [apply expect_zero; reflexivity|].
    intros x Hx. unfold at_pt. destruct (decY (f x) y) as [E1|]; [|reflexivity].
    exfalso. pose proof (d_left_inverse x Hx) as H. rewrite E1, Ed in H. discriminate.
Qed.

Corollary pm_decode_le y B : picks_ok g -> (0 <= B)%Q -> (forall x, (pm decX g x <= B)%Q) -> (pm decY (fmap f g) y <= B)%Q.
Proof.
  intros Hok HB H. rewrite pm_decode. destruct (d y) as [x|]; [|exact HB]. destruct (decY (f x) y); [apply H|exact HB].
Qed.

Corollary pm_decode_at x : reach g x -> (pm decY (fmap f g) (f x) == pm decX g x)%Q.
Proof.
  intros Hx. rewrite pm_decode, (d_left_inverse x Hx). destruct (decY (f x) (f x)); [reflexivity|congruence].
Qed.
End Decode.

(** ---- pairs of independent draws ---- *)
Definition gpair {A B} (g : gen A) (h : gen B) : gen (A * B) := bind g (fun a => bind h (fun b => Ret (a, b))).

Lemma expect_gpair {A B} (g : gen A) (h : gen B) phi :
  (expect (gpair g h) phi == expect g (fun a => expect h (fun b => phi (a, b))))%Q.
Proof. unfold gpair. rewrite expect_bind. apply expect_ext. intros a. rewrite expect_bind. reflexivity. Qed.

Lemma reach_gpair {A B} (g : gen A) (h : gen B) p : reach (gpair g h) p <-> reach g (fst p) /\ reach h (snd p).
Proof.
  unfold gpair. rewrite reach_bind. split.
  - intros (a & Ha & H). apply reach_bind in H. destruct H as (b0 & Hb & H). cbn [reach] in H. subst p. auto.
  - intros [Ha Hb]. exists (fst p). split; [exact Ha|]. apply reach_bind. exists (snd p). split; [exact Hb|].
    cbn [reach]. destruct p; reflexivity.
Qed.

Lemma picks_ok_gpair {A B} (g : gen A) (h : gen B) : picks_ok g -> picks_ok h -> picks_ok (gpair g h).
Proof.
  intros Hg Hh. unfold gpair. apply picks_ok_bind; [exact Hg|]. intros a _. apply picks_ok_bind; [exact Hh|]. intros; exact I.
Qed.

Definition pair_dec {A B} (dA : forall x y : A, {x = y} + {x <> y}) (dB : forall x y : B, {x = y} + {x <> y})
  : forall x y : A * B, {x = y} + {x <> y}.
Proof. decide equality. Defined.

(** independence: the point mass of a pair is the product of the point masses *)
Theorem pm_gpair {A B} dA dB (g : gen A) (h : gen B) a b :
  (pm (pair_dec dA dB) (gpair g h) (a, b) == pm dA g a * pm dB h b)%Q.
Proof.
  unfold pm at 1. rewrite expect_gpair.
  rewrite (expect_ext g _ (fun a' => at_pt dA a a' * pm dB h b)%Q).
  - rewrite expect_at_pt_mul. reflexivity.
  - intros a'. unfold at_pt at 2. destruct (dA a' a) as [->|NE].
    + unfold pm. rewrite Qmult_1_l. apply expect_ext. intros b'. unfold at_pt.
      destruct (pair_dec dA dB (a, b') (a, b)) as [E|N], (dB b' b) as [E'|N']; try reflexivity; congruence.
    + rewrite Qmult_0_l. apply expect_zero. intros b'. unfold at_pt.
      destruct (pair_dec dA dB (a', b') (a, b)) as [E|N]; [congruence|reflexivity].
Qed.

(** ---- n independent copies of one generator ---- *)
Fixpoint draws {A} (g : gen A) (n : nat) : gen (list A) :=
  match n with
  | O => Ret []
  | S n' => bind g (fun v => bind (draws g n') (fun r => Ret (v :: r)))
  end.

Lemma reach_draws {A} (g : gen A) n v : reach (draws g n) v <-> length v = n /\ Forall (reach g) v.
Proof.
  revert v. induction n as [|n IH]; intros v; cbn [draws reach].
  - split; [intros <-; split; [reflexivity|constructor]|]. intros [H _]. destruct v; [reflexivity|discriminate].
  - rewrite reach_bind. split.
    + intros (a & Ha & H). apply reach_bind in H. destruct H as (r & Hr & H). cbn [reach] in H. subst v.
      apply IH in Hr. destruct Hr as [Hl Hf]. split; [cbn; congruence|constructor; assumption].
    + intros [Hl Hf]. destruct v as [|a v]; [discriminate|]. inversion Hf; subst.
      exists a. split; [assumption|]. apply reach_bind. exists v. split; [|reflexivity].
      apply IH. split; [cbn in Hl; congruence|assumption].
Qed.

Lemma picks_ok_draws {A} (g : gen A) n : picks_ok g -> picks_ok (draws g n).
Proof.
  intros Hg. induction n as [|n IH]; cbn [draws]; [exact I|].
  apply picks_ok_bind; [exact Hg|]. intros a _. apply picks_ok_bind; [exact IH|]. intros; exact I.
Qed.

(** the point mass of a vector of independent draws is the product of the point masses *)
Fixpoint Qprod (l : list Q) : Q := match l with [] => 1%Q | q :: r => (q * Qprod r)%Q end.

Theorem pm_draws {A} (dA : forall x y : A, {x = y} + {x <> y}) (g : gen A) n v : length v = n ->
  (pm (list_eq_dec dA) (draws g n) v == Qprod (map (pm dA g) v))%Q.
Proof.
  revert v. induction n as [|n IH]; intros v Hl.
  - destruct v; [|discriminate]. cbn. unfold at_pt. destruct (list_eq_dec dA [] []); [reflexivity|congruence].
  - destruct v as [|a v]; [discriminate|]. cbn [draws map Qprod]. unfold pm at 1. rewrite expect_bind.
    rewrite (expect_ext g _ (fun a' => at_pt dA a a' * pm (list_eq_dec dA) (draws g n) v)%Q).
    + rewrite expect_at_pt_mul. rewrite IH by (cbn in Hl; congruence). reflexivity.
    + intros a'. rewrite expect_bind. cbn [expect]. unfold at_pt at 2. destruct (dA a' a) as [->|NE].
      * rewrite Qmult_1_l. unfold pm. apply expect_ext. intros r. unfold at_pt.
        destruct (list_eq_dec dA (a :: r) (a :: v)) as [E|N], (list_eq_dec dA r v) as [E'|N']; try reflexivity; congruence.
      * rewrite Qmult_0_l. apply expect_zero. intros r. unfold at_pt.
        destruct (list_eq_dec dA (a' :: r) (a :: v)) as [E|N]; [congruence|reflexivity].
Qed.

Lemma pm_draws_wrong_length {A} (dA : forall x y : A, {x = y} + {x <> y}) (g : gen A) n v : length v <> n ->
  (pm (list_eq_dec dA) (draws g n) v == 0)%Q.
Proof. intros H. apply pm_unreachable. rewrite reach_draws. tauto. Qed.

Lemma Qprod_nonneg (l : list Q) : Forall (fun q => 0 <= q)%Q l -> (0 <= Qprod l)%Q.
Proof. intros H. induction H as [|q l Hq _ IH]; cbn [Qprod]; [lra|]. apply Qmult_le_0_compat; assumption. Qed.

Lemma Qprod_le_pow (l : list Q) B : (0 <= B)%Q -> Forall (fun q => 0 <= q /\ q <= B)%Q l -> (Qprod l <= Qpow B (length l))%Q.
Proof.
  intros HB H. induction H as [|q l [H0 H1] Hl IH]; cbn [Qprod Qpow length]; [lra|].
  assert (Hp : (0 <= Qprod l)%Q).
  { apply Qprod_nonneg. eapply Forall_impl; [|exact Hl]. cbn. intros a [Ha _]. exact Ha. }
  apply Qle_trans with (q * Qpow B (length l))%Q.
  - rewrite (Qmult_comm q (Qprod l)), (Qmult_comm q (Qpow B (length l))). apply Qmult_le_compat_r; assumption.
  - apply Qmult_le_compat_r; [assumption|apply Qpow_nonneg; assumption].
Qed.

(** picks = draws of a single pick *)
Lemma expect_picks_draws L a phi : (expect (picks L a) phi == expect (draws (Pick a (fun i => Ret i)) L) phi)%Q.
Proof.
  revert phi. induction L as [|L IH]; intros phi; [reflexivity|].
  cbn [picks draws bind expect]. apply Qmult_comp; [reflexivity|]. apply sumQ_ext. intros i _.
  rewrite !expect_bind. rewrite IH. apply expect_ext. intros r. reflexivity.
Qed.

Lemma pm_pick a i : 1 <= a -> (pm N.eq_dec (Pick a (fun i => Ret i)) i == if i <? a then / NQ a else 0)%Q.
Proof.
  intros Ha. unfold pm. cbn [expect]. destruct (N.ltb_spec i a) as [Hi|Hi].
  - rewrite (sumQ_ext a _ (fun j => if j =? i then 1 else 0)%Q).
    + rewrite sumQ_delta by exact Hi. ring.
    + intros j _. unfold at_pt. destruct (N.eq_dec j i) as [->|NE]; [rewrite N.eqb_refl; reflexivity|].
      destruct (N.eqb_spec j i); [contradiction|reflexivity].
  - rewrite sumQ_zero; [ring|]. intros j Hj. unfold at_pt. destruct (N.eq_dec j i); [lia|reflexivity].
Qed.

(** every in-range index vector has probability exactly (1/a)^L; no vector has more *)
Theorem pm_picks a L v : 1 <= a -> length v = L -> Forall (fun i => i < a) v ->
  (pm (list_eq_dec N.eq_dec) (picks L a) v == Qpow (/ NQ a) L)%Q.
Proof.
  intros Ha Hl Hf. unfold pm. rewrite expect_picks_draws. fold (pm (list_eq_dec N.eq_dec) (draws (Pick a (fun i => Ret i)) L) v).
  rewrite pm_draws by exact Hl. subst L. induction Hf as [|i v Hi _ IH]; cbn [map Qprod Qpow length]; [reflexivity|].
  rewrite IH, pm_pick by exact Ha. destruct (N.ltb_spec i a); [reflexivity|lia].
Qed.

Theorem pm_picks_le a L v : 1 <= a -> a < W32 -> (pm (list_eq_dec N.eq_dec) (picks L a) v <= Qpow (/ NQ a) L)%Q.
Proof.
  intros Ha Hw. destruct (Nat.eq_dec (length v) L) as [Hl|Hl].
  - unfold pm. rewrite expect_picks_draws. fold (pm (list_eq_dec N.eq_dec) (draws (Pick a (fun i => Ret i)) L) v).
    rewrite pm_draws by exact Hl. subst L. rewrite <- (map_length (pm N.eq_dec (Pick a (fun i => Ret i))) v).
    apply Qprod_le_pow.
    + apply Qlt_le_weak, Qinv_lt_0_compat, NQ_pos, Ha.
    + apply Forall_forall. intros q Hq. apply in_map_iff in Hq. destruct Hq as (i & <- & _).
      rewrite pm_pick by exact Ha. pose proof (Qinv_lt_0_compat _ (NQ_pos a Ha)). destruct (i <? a); split; lra.
  - rewrite pm_unreachable.
    + apply Qpow_nonneg, Qlt_le_weak, Qinv_lt_0_compat, NQ_pos, Ha.
    + rewrite reach_picks. tauto.
Qed.
