(** C04 / C06 (wordlist recipes): the password determines the choices (a decoder
    that is a left inverse of the rendering), hence point probabilities. *)
From Spg.Base Require Import Prelude Utf8 Bytes.
From Spg.Model Require Import Tables Rand GenM CharSets CharGen Token WordList WordGen.
From Spg.Proofs Require Import RandProofs GenProofs CharGenProofs WordGenProofs ProdProofs WordProdProofs.
From Coq Require Import QArith Lqa.
Close Scope N_scope. Close Scope Q_scope. Open Scope nat_scope.

(** ---- tokens -> separators ---- *)
Fixpoint seps_of (ts : list token) : list bytes :=
  match ts with
  | [] => []
  | _ :: ts' =>
      match ts' with
      | [] => []
      | t2 :: ts'' => if N.eqb (ttype t2) SeparatorType then value t2 :: seps_of ts'' else [] :: seps_of ts'
      end
  end.

Lemma assemble_starts_atom (a : bytes) (atoms seps : list bytes) : a <> [] -> exists rest, assemble (a :: atoms) seps = Tok a AtomType :: rest.
Proof.
  intros Ha. cbn [assemble]. unfold atom_tok. destruct a as [|x a']; [congruence|].
  destruct atoms; eexists; reflexivity.
Qed.

Lemma seps_of_assemble_all atoms : forall seps, Forall (fun a : bytes => a <> []) atoms ->
  length seps = pred (length atoms) -> seps_of (assemble atoms seps) = seps.
Proof.
  induction atoms as [|a atoms' IH]; intros seps Hf Hl.
  - destruct seps; [reflexivity|discriminate].
  - inversion Hf as [|? ? Ha Hf']; subst. destruct atoms' as [|a' atoms''].
    + destruct seps; [|discriminate]. cbn [assemble]. unfold atom_tok. destruct a; [congruence|reflexivity].
    + destruct seps as [|v seps']; [discriminate|]. cbn [length pred] in Hl.
      assert (Hl' : length seps' = pred (length (a' :: atoms''))) by (cbn [length pred]; lia).
      specialize (IH seps' Hf' Hl').
      inversion Hf' as [|? ? Ha' _]; subst.
      change (assemble (a :: a' :: atoms'') (v :: seps')) with (atom_tok a ++ sep_tok v ++ assemble (a' :: atoms'') seps').
      destruct (assemble_starts_atom a' atoms'' seps' Ha') as (rest & Er).
      set (X := assemble (a' :: atoms'') seps') in *. clearbody X. subst X.
      unfold atom_tok. destruct a as [|x0 a0]; [congruence|]. unfold sep_tok. destruct v as [|y v0].
      * cbn [app seps_of ttype]. change (N.eqb AtomType SeparatorType) with false. cbn iota. f_equal. exact IH.
      * cbn [app seps_of ttype value]. change (N.eqb SeparatorType SeparatorType) with true. cbn iota. f_equal. exact IH.
Qed.

(** ---- atoms -> word indices, for a known capitalisation flag ---- *)
Fixpoint find_idx (p : bytes -> bool) (ws : list bytes) (k : N) : option N :=
  match ws with
  | [] => None
  | w :: r => if p w then Some k else find_idx p r (N.succ k)
  end.

Lemma find_idx_nth (f : bytes -> bytes) ws : NoDup (map f ws) -> forall k i, i < length ws ->
  find_idx (fun w => beqb (f w) (f (nth i ws []))) ws k = Some (k + N.of_nat i)%N.
Proof.
  induction ws as [|w ws' IH]; intros Hnd k i Hi; [cbn in Hi; lia|].
  cbn [map] in Hnd. inversion Hnd as [|? ? Hnotin Hnd']; subst. cbn [find_idx]. destruct i as [|i'].
  - cbn [nth]. rewrite beqb_refl. f_equal. lia.
  - cbn [nth]. cbn [length] in Hi. destruct (beqb_spec (f w) (f (nth i' ws' []))) as [E|NE].
    + exfalso. apply Hnotin. rewrite E. apply in_map. apply nth_In. lia.
    + rewrite IH by (auto; lia). f_equal. lia.
Qed.

Section Dec.
Variable title : bytes -> bytes.

Definition form (c : bool) (w : bytes) : bytes := if c then title w else w.
Definition idx_of (ws : list bytes) (c : bool) (a : bytes) : option N :=
  find_idx (fun w => beqb (form c w) a) ws 0%N.

(** premises about the (kept) words: distinct, distinct title-cased forms, no empty atom *)
Definition good_words (ws : list bytes) : Prop :=
  NoDup ws /\ NoDup (map title ws) /\ Forall (fun w => w <> [] /\ title w <> []) ws.

Lemma word_at_form ws c i : word_at title ws c i = form c (nth (N.to_nat i) ws []).
Proof. reflexivity. Qed.

Lemma idx_of_word_at ws c i : good_words ws -> (i < N.of_nat (length ws))%N ->
  idx_of ws c (word_at title ws c i) = Some i.
Proof.
  intros (H1 & H2 & _) Hi. unfold idx_of. rewrite word_at_form.
  assert (Hnd : NoDup (map (form c) ws)).
  { destruct c; unfold form; [exact H2|]. rewrite map_id. exact H1. }
  rewrite (find_idx_nth (form c) ws Hnd 0%N (N.to_nat i)) by lia. f_equal. lia.
Qed.

Lemma word_at_nonempty ws c i : good_words ws -> (i < N.of_nat (length ws))%N -> word_at title ws c i <> [].
Proof.
  intros (_ & _ & H3) Hi. rewrite word_at_form. rewrite Forall_forall in H3.
  destruct (H3 (nth (N.to_nat i) ws [])) as [Ha Hb]; [apply nth_In; lia|]. destruct c; assumption.
Qed.

(** decode the indices, position by position *)
Fixpoint idxs_of (ws : list bytes) (caps : list bool) (atoms : list bytes) : option (list N) :=
  match caps, atoms with
  | c :: caps', a :: atoms' =>
      match idx_of ws c a, idxs_of ws caps' atoms' with
      | Some i, Some r => Some (i :: r)
      | _, _ => None
      end
  | [], [] => Some []
  | _, _ => None
  end.

Lemma idxs_of_atoms ws caps : good_words ws -> forall idxs, length idxs = length caps ->
  Forall (fun i => (i < N.of_nat (length ws))%N) idxs ->
  idxs_of ws caps (atoms_of title ws caps idxs) = Some idxs.
Proof.
  intros Hg. induction caps as [|c caps' IH]; intros idxs Hl Hf.
  - destruct idxs; [reflexivity|discriminate].
  - destruct idxs as [|i idxs']; [discriminate|]. inversion Hf; subst.
    unfold atoms_of. cbn [combine map fst snd idxs_of]. rewrite idx_of_word_at by assumption.
    fold (atoms_of title ws caps' idxs'). rewrite IH by (cbn in Hl; auto; congruence). reflexivity.
Qed.

Lemma atoms_of_nonempty ws caps idxs : good_words ws ->
  Forall (fun i => (i < N.of_nat (length ws))%N) idxs ->
  Forall (fun a : bytes => a <> []) (atoms_of title ws caps idxs).
Proof.
  intros Hg. revert idxs. induction caps as [|c caps' IH]; intros idxs Hf; [constructor|].
  destruct idxs as [|i idxs']; [constructor|]. inversion Hf; subst.
  unfold atoms_of. cbn [combine map fst snd]. constructor; [apply word_at_nonempty; assumption|apply IH; assumption].
Qed.

Lemma atoms_of_length ws caps idxs : length idxs = length caps -> length (atoms_of title ws caps idxs) = length caps.
Proof. intros H. unfold atoms_of. rewrite map_length, combine_length. lia. Qed.

(** the decoder for a known capitalisation pattern *)
Definition decode_at (ws : list bytes) (caps : list bool) (ts : list token) : option (list N * list bytes) :=
  match idxs_of ws caps (of_type AtomType ts) with
  | Some idxs => Some (idxs, seps_of ts)
  | None => None
  end.

Theorem decode_at_render ws caps idxs seps : good_words ws ->
  length idxs = length caps -> Forall (fun i => (i < N.of_nat (length ws))%N) idxs ->
  length seps = pred (length caps) ->
  decode_at ws caps (render title ws caps idxs seps) = Some (idxs, seps).
Proof.
  intros Hg Hl Hf Hs. unfold decode_at, render.
  pose proof (atoms_of_nonempty ws caps idxs Hg Hf) as Hne.
  rewrite atoms_of_assemble by exact Hne. rewrite idxs_of_atoms by assumption.
  rewrite seps_of_assemble_all; [reflexivity|exact Hne|]. rewrite atoms_of_length by exact Hl. exact Hs.
Qed.
End Dec.
