(** C01: the bounded draw is exactly uniform for every bound 1 <= n < 2^32. *)
From Spg.Base Require Import Prelude SumCount.
From Spg.Model Require Import Rand.
Open Scope N_scope.

Lemma land_double_succ_double a b : N.land (N.double a) (N.succ_double b) = N.double (N.land a b).
Proof. destruct a, b; reflexivity. Qed.
Lemma land_succ_double_double a b : N.land (N.succ_double a) (N.double b) = N.double (N.land a b).
Proof. destruct a, b; reflexivity. Qed.

Lemma land_pred_pow2_pos p : N.land (Npos p) (Npos p - 1) = 0 -> exists k, Npos p = 2 ^ k.
Proof.
  induction p as [p IH|p IH|]; intros H.
  - exfalso. change (Npos p~1) with (N.succ_double (Npos p)) in H.
    replace (N.succ_double (Npos p) - 1) with (N.double (Npos p)) in H by (cbn; lia).
    rewrite land_succ_double_double, N.land_diag in H. cbn in H. discriminate.
  - change (Npos p~0) with (N.double (Npos p)) in H.
    replace (N.double (Npos p) - 1) with (N.succ_double (Npos p - 1)) in H
      by (rewrite N.double_spec, N.succ_double_spec; lia).
    rewrite land_double_succ_double in H.
    assert (Hq : N.land (Npos p) (Npos p - 1) = 0) by (destruct (N.land _ _); [reflexivity|discriminate]).
    destruct (IH Hq) as [k Hk]. exists (N.succ k). rewrite N.pow_succ_r', <- Hk. reflexivity.
  - exists 0. reflexivity.
Qed.

Lemma land_pred_pow2 n : 1 <= n -> N.land n (n-1) = 0 -> exists k, n = 2 ^ k.
Proof. intros Hn H. destruct n as [|p]; [lia|]. apply land_pred_pow2_pos. exact H. Qed.

Lemma land_mask k v : N.land v (2 ^ k - 1) = v mod 2 ^ k.
Proof. rewrite N.sub_1_r, <- N.ones_equiv. apply N.land_ones. Qed.

(** Conversely a power of two passes the mask test, so the fast path is taken
    exactly for powers of two. *)
Lemma pow2_land_pred k : N.land (2 ^ k) (2 ^ k - 1) = 0.
Proof. rewrite land_mask. apply N.mod_same. apply N.pow_nonzero. lia. Qed.

Section Draw.
(** The modulus is a section variable: with the literal 2^32 in scope the
    unifier may decide to evaluate N.recursion over it. *)
Variable W : N.
Hypothesis HW : W = 4294967296.
Notation stp := (stepW W).

(** number of raw words mapped to alternative i / accepted at all *)
Definition fibW n i := countBelow W (fun v => match stp n v with Some j => j =? i | None => false end).
Definition accW n := countBelow W (fun v => match stp n v with Some _ => true | None => false end).
Definition rejW n := countBelow W (fun v => match stp n v with Some _ => false | None => true end).

Lemma W_pow : W = 2 ^ 32. Proof. rewrite HW. reflexivity. Qed.

Lemma step_range n v i : 1 <= n -> stp n v = Some i -> i < n.
Proof.
  intros Hn. unfold stepW. destruct (N.land n (n-1) =? 0) eqn:E.
  - intros [= <-]. apply N.eqb_eq in E. destruct (land_pred_pow2 n Hn E) as [k ->].
    rewrite land_mask. apply N.mod_lt. apply N.pow_nonzero. lia.
  - cbv zeta. destruct (_ <=? v); [discriminate|]. intros [= <-]. apply N.mod_lt. lia.
Qed.

Lemma mask_path n i : 1 <= n -> n < W -> N.land n (n-1) = 0 -> i < n ->
  fibW n i * n = W /\ accW n = W.
Proof.
  intros Hn HnW E Hi. destruct (land_pred_pow2 n Hn E) as [k Hk].
  assert (Hk32 : k <= 32).
  { destruct (N.le_gt_cases k 32) as [|H]; [assumption|]. exfalso.
    assert (H0 : 2 ^ 33 <= 2 ^ k) by (apply N.pow_le_mono_r; lia).
    rewrite <- Hk in H0. change (2^33) with 8589934592 in H0. rewrite HW in HnW. lia. }
  assert (Hdiv : W = 2 ^ (32 - k) * n).
  { rewrite Hk, <- N.pow_add_r. replace (32 - k + k) with 32 by lia. apply W_pow. }
  split.
  - unfold fibW. rewrite (countBelow_ext W _ (fun v => v mod n =? i)).
    + rewrite Hdiv at 1. rewrite count_mod_blocks by exact Hi. lia.
    + intros v _. unfold stepW. apply N.eqb_eq in E. rewrite E. subst n. rewrite land_mask. reflexivity.
  - unfold accW. rewrite (countBelow_ext W _ (fun _ => true)).
    + apply countBelow_true.
    + intros v _. unfold stepW. apply N.eqb_eq in E. rewrite E. reflexivity.
Qed.

Definition discardW n := (W-1) - (W-1) mod n.

Lemma discard_mul n : 1 <= n -> discardW n = ((W-1) / n) * n.
Proof.
  intros Hn. unfold discardW.
  assert (Hn0 : n <> 0) by lia.
  pose proof (N.div_mod (W-1) n Hn0) as Hdm.
  pose proof (N.mod_le (W-1) n Hn0) as Hle.
  rewrite (N.mul_comm ((W-1)/n) n). lia.
Qed.

Lemma reject_path n i : 1 <= n -> n < W -> N.land n (n-1) <> 0 -> i < n ->
  fibW n i = (W-1) / n /\ accW n = discardW n.
Proof.
  intros Hn HnW E Hi. apply N.eqb_neq in E.
  assert (Hd : discardW n <= W - 1) by (unfold discardW; lia).
  assert (HWs : W = discardW n + (W - discardW n)) by lia.
  split.
  - unfold fibW. rewrite HWs at 1. rewrite countBelow_split.
    rewrite (countBelow_ext (discardW n) _ (fun v => v mod n =? i)).
    + rewrite (countBelow_false (W - discardW n)).
      * rewrite discard_mul at 1 by exact Hn. rewrite count_mod_blocks by exact Hi. lia.
      * intros v Hv. unfold stepW. rewrite E. cbv zeta. fold (discardW n).
        destruct (discardW n <=? discardW n + v) eqn:E2; [reflexivity|lia].
    + intros v Hv. unfold stepW. rewrite E. cbv zeta. fold (discardW n).
      destruct (discardW n <=? v) eqn:E2; [lia|reflexivity].
  - unfold accW. rewrite HWs at 1. rewrite countBelow_split.
    rewrite (countBelow_ext (discardW n) _ (fun _ => true)).
    + rewrite countBelow_true. rewrite (countBelow_false (W - discardW n)); [lia|].
      intros v Hv. unfold stepW. rewrite E. cbv zeta. fold (discardW n).
      destruct (discardW n <=? discardW n + v) eqn:E2; [reflexivity|lia].
    + intros v Hv. unfold stepW. rewrite E. cbv zeta. fold (discardW n).
      destruct (discardW n <=? v) eqn:E2; [lia|reflexivity].
Qed.

Theorem stepW_uniform n i : 1 <= n -> n < W -> i < n -> fibW n i * n = accW n.
Proof.
  intros Hn HnW Hi. destruct (N.eq_dec (N.land n (n-1)) 0) as [E|E].
  - destruct (mask_path n i Hn HnW E Hi) as [-> ->]. reflexivity.
  - destruct (reject_path n i Hn HnW E Hi) as [-> ->]. symmetry. apply discard_mul. exact Hn.
Qed.

Theorem stepW_majority n : 1 <= n -> n < W -> W < 2 * accW n.
Proof.
  intros Hn HnW. destruct (N.eq_dec (N.land n (n-1)) 0) as [E|E].
  - destruct (mask_path n 0 Hn HnW E) as [_ ->]; [lia|]. rewrite HW. lia.
  - destruct (reject_path n 0 Hn HnW E) as [_ ->]; [lia|].
    unfold discardW.
    destruct (N.le_gt_cases n 2147483648) as [Hle|Hgt].
    + assert (n <> 2147483648) by (intros ->; apply E; reflexivity).
      pose proof (N.mod_upper_bound (W-1) n). rewrite HW in *. lia.
    + assert ((W-1) / n = 1). { rewrite HW in *. symmetry. apply N.div_unique with (r := 4294967295 - n); lia. }
      pose proof (N.div_mod (W-1) n). rewrite HW in *. lia.
Qed.

Lemma acc_rej n : accW n + rejW n = W.
Proof.
  unfold accW, rejW.
  pose proof (countBelow_compl W (fun v => match stp n v with Some _ => true | None => false end)) as H.
  rewrite <- H at 3. f_equal. apply countBelow_ext. intros v _. destruct (stp n v); reflexivity.
Qed.

Lemma acc_pos n : 1 <= n -> n < W -> 0 < accW n.
Proof. intros Hn HnW. pose proof (stepW_majority n Hn HnW). rewrite HW in *. lia. Qed.

Lemma rej_lt_half n : 1 <= n -> n < W -> 2 * rejW n < W.
Proof. intros Hn HnW. pose proof (stepW_majority n Hn HnW). pose proof (acc_rej n). lia. Qed.

(** The accepted raw words are exactly those below the threshold, and the
    threshold is the largest multiple of n not exceeding 2^32-1 (rejection
    path); a rejected word is never mapped to an alternative. *)
Lemma step_reject_iff n v : N.land n (n-1) <> 0 -> (stp n v = None <-> discardW n <= v).
Proof.
  intros E. apply N.eqb_neq in E. unfold stepW. rewrite E. cbv zeta. fold (discardW n).
  destruct (discardW n <=? v) eqn:E2; split; intros H; try discriminate; try reflexivity; lia.
Qed.

Lemma discard_largest_multiple n : 1 <= n ->
  n * ((W-1)/n) = discardW n /\ discardW n <= W - 1 /\ W - 1 < discardW n + n.
Proof.
  intros Hn. rewrite discard_mul by exact Hn. assert (Hn0 : n <> 0) by lia.
  pose proof (N.div_mod (W-1) n Hn0). pose proof (N.mod_upper_bound (W-1) n Hn0).
  repeat split; lia.
Qed.

End Draw.

(** Instances at W = 2^32 (related to the model's [step] by eq_refl). *)
Definition fib := fibW W32.
Definition acc := accW W32.
Definition rej := rejW W32.

Theorem step_in_range n v i : 1 <= n -> step n v = Some i -> i < n.
Proof. first [exact (step_range W32 n v i) | exact (step_range W32 eq_refl n v i)]. Qed.
Theorem step_uniform n i : 1 <= n -> n < W32 -> i < n -> fib n i * n = acc n.
Proof. exact (stepW_uniform W32 eq_refl n i). Qed.
Theorem step_majority n : 1 <= n -> n < W32 -> W32 < 2 * acc n.
Proof. exact (stepW_majority W32 eq_refl n). Qed.
Theorem step_acc_rej n : acc n + rej n = W32.
Proof. first [exact (acc_rej W32 n) | exact (acc_rej W32 eq_refl n)]. Qed.

(** A rejected value is discarded and the next fresh word decides. *)
Theorem draw_restart n v ws : step n v = None -> draw n (v :: ws) = draw n ws.
Proof. intros H. cbn [draw]. rewrite H. reflexivity. Qed.
Theorem draw_accept n v i ws : step n v = Some i -> draw n (v :: ws) = Some (i, ws).
Proof. intros H. cbn [draw]. rewrite H. reflexivity. Qed.

Lemma draw_range n ws i ws' : 1 <= n -> draw n ws = Some (i, ws') -> i < n.
Proof.
  intros Hn. induction ws as [|v ws IH]; cbn [draw]; [discriminate|].
  destruct (step n v) as [j|] eqn:E; [|exact IH].
  intros [= <- <-]. eapply step_in_range; eassumption.
Qed.

Lemma draw_suffix n ws i ws' : draw n ws = Some (i, ws') -> exists pre, ws = pre ++ ws' /\ pre <> [].
Proof.
  induction ws as [|v ws IH]; cbn [draw]; [discriminate|].
  destruct (step n v) as [j|] eqn:E.
  - intros [= <- <-]. exists [v]. split; [reflexivity|discriminate].
  - intros H. destruct (IH H) as (pre & -> & _). exists (v :: pre). split; [reflexivity|discriminate].
Qed.

(** Number of t-word streams in [0,W)^t on which every word is rejected: (rej n)^t. *)
Fixpoint count_tapes (W : N) (t : nat) (P : list N -> bool) : N :=
  match t with
  | O => if P [] then 1 else 0
  | S t' => sumBelow W (fun v => count_tapes W t' (fun ws => P (v :: ws)))
  end.

Definition all_rejected (n : N) (ws : list N) : bool :=
  forallb (fun v => match step n v with None => true | Some _ => false end) ws.

Lemma count_tapes_ext W t P Q : (forall ws, P ws = Q ws) -> count_tapes W t P = count_tapes W t Q.
Proof.
  revert P Q. induction t as [|t IH]; intros P Q H; cbn; [rewrite H; reflexivity|].
  apply sumBelow_ext. intros v _. apply IH. intros ws. apply H.
Qed.
Lemma count_tapes_false W t : count_tapes W t (fun _ => false) = 0.
Proof. induction t as [|t IH]; cbn; [reflexivity|].
  rewrite (sumBelow_ext W _ (fun _ => 0)) by (intros; apply IH). apply sumBelow_zero. Qed.

Section Tapes.
Variable W : N.
Hypothesis HW : W = 4294967296.
Theorem all_reject_countW n t :
  count_tapes W t (fun ws => forallb (fun v => match stepW W n v with None => true | Some _ => false end) ws)
  = rejW W n ^ N.of_nat t.
Proof.
  induction t as [|t IH]; [reflexivity|].
  cbn [count_tapes]. rewrite Nat2N.inj_succ, N.pow_succ_r'.
  rewrite (sumBelow_ext W _ (fun v => (if match stepW W n v with None => true | Some _ => false end then 1 else 0) * rejW W n ^ N.of_nat t)).
  - rewrite (sumBelow_ext W _ (fun v => rejW W n ^ N.of_nat t * (if match stepW W n v with None => true | Some _ => false end then 1 else 0)))
      by (intros; lia).
    rewrite sumBelow_scale.
    assert (Hr : sumBelow W (fun v => if match stepW W n v with None => true | Some _ => false end then 1 else 0) = rejW W n).
    { unfold rejW, countBelow. apply sumBelow_ext. intros v _. destruct (stepW W n v); reflexivity. }
    rewrite Hr. lia.
  - intros v _. cbn [forallb]. destruct (stepW W n v).
    + cbn [andb]. rewrite count_tapes_false. lia.
    + cbn [andb]. rewrite IH. lia.
Qed.
End Tapes.

Theorem all_reject_count n t :
  count_tapes W32 t (all_rejected n) = rej n ^ N.of_nat t.
Proof. first [exact (all_reject_countW W32 n t) | exact (all_reject_countW W32 eq_refl n t)]. Qed.

(** Hence fewer than (W/2)^t of the W^t streams of length t >= 1 fail to
    terminate within t words: termination with probability one. *)
Theorem all_reject_small n t : 1 <= n -> n < W32 -> (1 <= t)%nat ->
  2 ^ N.of_nat t * count_tapes W32 t (all_rejected n) < W32 ^ N.of_nat t.
Proof.
  intros Hn HnW Ht. rewrite all_reject_count.
  rewrite <- N.pow_mul_l.
  apply N.pow_lt_mono_l; [lia|]. apply (rej_lt_half W32 eq_refl n Hn HnW).
Qed.

(** Four bytes <-> one word: a bijection [0,256)^4 -> [0,2^32). *)
Definition word_bytes (v : N) : N * N * N * N :=
  (v / 16777216, (v / 65536) mod 256, (v / 256) mod 256, v mod 256).

Theorem be32_range b0 b1 b2 b3 : b0 < 256 -> b1 < 256 -> b2 < 256 -> b3 < 256 -> be32 b0 b1 b2 b3 < W32.
Proof. unfold be32, W32. lia. Qed.
Theorem be32_word_bytes v : v < W32 ->
  let '(b0, b1, b2, b3) := word_bytes v in
  be32 b0 b1 b2 b3 = v /\ b0 < 256 /\ b1 < 256 /\ b2 < 256 /\ b3 < 256.
Proof. unfold word_bytes, be32, W32. intros H. repeat split; lia. Qed.
Theorem word_bytes_be32 b0 b1 b2 b3 : b0 < 256 -> b1 < 256 -> b2 < 256 -> b3 < 256 ->
  word_bytes (be32 b0 b1 b2 b3) = (b0, b1, b2, b3).
Proof. unfold word_bytes, be32. intros. repeat f_equal; lia. Qed.

Example step_examples :
  step 10 4294967289 = Some 9 /\ step 10 4294967290 = None /\ step 10 4294967295 = None /\
  step 8 4294967295 = Some 7 /\ step 1 12345 = Some 0 /\ step 6 4294967291 = Some 5 /\ step 6 4294967292 = None.
Proof. vm_compute. repeat split. Qed.
