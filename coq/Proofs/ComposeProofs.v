(** C11 composed with the generators: every password a recipe over *text*
    (valid UTF-8) produces has tokens the index can carry, so the round trip
    of TokenProofs.roundtrip applies to it, with the documented size. *)
From Spg.Base Require Import Prelude Utf8 Bytes.
From Spg.Model Require Import Tables Rand GenM CharSets CharGen Token WordList WordGen.
From Spg.Proofs Require Import SetProofs GenProofs CharGenProofs WordGenProofs TokenProofs.
Close Scope N_scope.

(** ---- text ---- *)
Definition text_recipe (r : char_recipe) : Prop :=
  valid_utf8 (crAllowChars r) /\ Forall valid_utf8 (crRequireSets r).

Lemma flag_table_ascii : forallb (fun p => forallb (fun b => N.ltb b 128) (snd p)) flag_table = true.
Proof. vm_compute. reflexivity. Qed.

Lemma ascii_valid_utf8 s : Forall (fun b => (b < 128)%N) s -> valid_utf8 s.
Proof.
  intros H. unfold valid_utf8. rewrite (explode_ascii s H). apply Forall_forall. intros g Hg.
  apply in_map_iff in Hg. destruct Hg as (b & <- & Hb). apply ascii_valid_glyph.
  rewrite Forall_forall in H. apply H. exact Hb.
Qed.

Lemma in_flags_valid m g : in_flags m g -> valid_glyph g.
Proof.
  intros (f & ct & Hin & _ & Hg).
  pose proof flag_table_ascii as HT. rewrite forallb_forall in HT. specialize (HT _ Hin). cbn [snd] in HT.
  rewrite forallb_forall in HT.
  assert (Hv : valid_utf8 ct).
  { apply ascii_valid_utf8. apply Forall_forall. intros x Hx. apply N.ltb_lt. apply HT. exact Hx. }
  unfold valid_utf8 in Hv. rewrite Forall_forall in Hv. apply Hv. exact Hg.
Qed.

Lemma mentioned_valid r g : text_recipe r -> Mentioned r g -> valid_glyph g.
Proof.
  intros [Ha Hr] [H|[H|[(s & Hs & H)|H]]].
  - unfold valid_utf8 in Ha. rewrite Forall_forall in Ha. apply Ha. exact H.
  - eapply in_flags_valid. exact H.
  - rewrite Forall_forall in Hr. specialize (Hr _ Hs). unfold valid_utf8 in Hr. rewrite Forall_forall in Hr. apply Hr. exact H.
  - eapply in_flags_valid. exact H.
Qed.

Lemma alphabet_valid r : text_recipe r -> Forall valid_glyph (alphabet r).
Proof.
  intros Ht. apply Forall_forall. intros g Hg. apply alphabet_In in Hg. destruct Hg as [Hm _].
  eapply mentioned_valid; eassumption.
Qed.

Lemma valid_glyph_text g : valid_glyph g -> valid_utf8 g /\ glyphs g = 1.
Proof.
  intros Hg. unfold valid_utf8, glyphs. rewrite (explode_single g Hg). split; [|reflexivity].
  constructor; [exact Hg|constructor].
Qed.

(** ---- character passwords ---- *)
Definition char_tokens (cand : list bytes) : list token := map (fun g => Tok g AtomType) cand.

Lemma char_tokens_one_char cand : Forall valid_glyph cand -> Forall one_char (char_tokens cand).
Proof.
  intros H. unfold char_tokens. apply Forall_forall. intros t Ht. apply in_map_iff in Ht.
  destruct Ht as (g & <- & Hg). rewrite Forall_forall in H. specialize (H _ Hg).
  split; [reflexivity|]. cbn [value]. apply valid_glyph_text. exact H.
Qed.

Theorem char_generated_roundtrip b r ws cand rest :
  text_recipe r -> (1 <= crLength r)%Z ->
  run_words (char_generate b r) ws = RDone (Done cand) rest ->
  kind (char_tokens cand) = CharacterIndexKind /\
  exists idx, make_indices (char_tokens cand) = Done idx /\ length idx = 1 /\
              tokenize (pw_string (char_tokens cand)) idx = Done (char_tokens cand).
Proof.
  intros Ht HL H. apply char_generate_sound in H. destruct H as [[Hlen _] Hin].
  assert (Hv : Forall valid_glyph cand).
  { apply Forall_forall. intros g Hg. rewrite Forall_forall in Hin. specialize (Hin _ Hg).
    pose proof (alphabet_valid r Ht) as HA. rewrite Forall_forall in HA. apply HA. exact Hin. }
  assert (Hne : char_tokens cand <> []).
  { destruct cand; [cbn in Hlen; lia|discriminate]. }
  pose proof (char_tokens_one_char cand Hv) as H1.
  assert (Hk : kind (char_tokens cand) = CharacterIndexKind) by (apply kind_character_iff; split; assumption).
  split; [exact Hk|].
  destruct (roundtrip (char_tokens cand) Hne) as (idx & Hm & Hr & Hl).
  - unfold values, char_tokens. rewrite map_map. cbn [value]. rewrite map_id.
    apply Forall_forall. intros g Hg. rewrite Forall_forall in Hv. apply valid_glyph_text. apply Hv. exact Hg.
  - eapply Forall_impl; [|exact H1]. intros t [_ Hg]. rewrite Hg. lia.
  - exists idx. rewrite Hk in Hl. cbn in Hl. auto.
Qed.

(** ---- wordlist passwords ---- *)
Definition text_tok (v : bytes) : Prop := valid_utf8 v /\ glyphs v <= 255.

Lemma ascii_text_tok s : Forall (fun b => (b < 128)%N) s -> length s <= 255 -> text_tok s.
Proof.
  intros H Hl. split; [apply ascii_valid_utf8; exact H|]. unfold glyphs. rewrite (explode_ascii s H), map_length. exact Hl.
Qed.

Definition sep_text (s : sep_fun) : Prop :=
  match s with
  | SepChar c | SepConst c => text_tok c
  | SepRecipe r => text_recipe r /\ (crLength r <= 255)%Z
  end.

Lemma concat_glyphs_text cand : Forall valid_glyph cand -> valid_utf8 (concat cand) /\ glyphs (concat cand) = length cand.
Proof.
  intros H. split; [apply valid_utf8_concat; exact H|]. unfold glyphs. rewrite explode_concat_glyphs by exact H. reflexivity.
Qed.

Lemma sep_value_text s v : sep_text s -> sep_value_ok s v -> text_tok v.
Proof.
  destruct s as [c|c|r]; cbn [sep_text sep_value_ok]; intros Hs Hv; try (subst v; exact Hs).
  destruct Hs as [Ht HL]. destruct Hv as [(cand & Hsat & ->)| ->].
  - destruct Hsat as (Hlen & Hall & _).
    assert (Hv : Forall valid_glyph cand).
    { apply Forall_forall. intros g Hg. specialize (Hall _ Hg). destruct Hall as [Hm _]. eapply mentioned_valid; eassumption. }
    destruct (concat_glyphs_text cand Hv) as [H1 H2]. split; [exact H1|]. rewrite H2. lia.
  - split; [constructor|cbn; lia].
Qed.

Lemma assemble_text (atoms seps : list bytes) :
  Forall text_tok atoms -> Forall text_tok seps ->
  Forall (fun t => text_tok (value t)) (assemble atoms seps).
Proof.
  revert seps. induction atoms as [|a atoms IH]; intros seps Ha Hs; [constructor|].
  inversion Ha as [|? ? Ha1 Har]; subst. cbn [assemble].
  assert (Hat : Forall (fun t => text_tok (value t)) (atom_tok a)).
  { unfold atom_tok. destruct a; [constructor|]. constructor; [exact Ha1|constructor]. }
  destruct atoms as [|a' atoms']; [exact Hat|].
  apply Forall_app. split; [exact Hat|]. apply Forall_app. split.
  - unfold sep_tok. destruct seps as [|s seps']; cbn [hd]; [constructor|].
    inversion Hs; subst. destruct s; [constructor|]. constructor; [assumption|constructor].
  - apply IH; [exact Har|]. destruct seps; cbn [tl]; [constructor|]. inversion Hs; assumption.
Qed.

Lemma assemble_nonempty (atoms seps : list bytes) :
  atoms <> [] -> Forall (fun a : bytes => a <> []) atoms -> assemble atoms seps <> [].
Proof.
  destruct atoms as [|a atoms]; [congruence|]. intros _ H. inversion H; subst. cbn [assemble].
  destruct a; [congruence|]. destruct atoms; cbn; discriminate.
Qed.


(** ---- which kind a wordlist password gets ---- *)
Lemma assemble_cons2 a a' atoms s seps : a <> [] -> s <> [] ->
  assemble (a :: a' :: atoms) (s :: seps) = Tok a AtomType :: Tok s SeparatorType :: assemble (a' :: atoms) seps.
Proof. intros Ha Hs. cbn [assemble hd tl]. unfold atom_tok, sep_tok. destruct a; [congruence|]. destruct s; [congruence|]. reflexivity. Qed.

Lemma assemble_alt_shape : forall atoms seps, atoms <> [] ->
  Forall (fun a : bytes => a <> []) atoms -> length seps = pred (length atoms) -> Forall (fun s : bytes => s <> []) seps ->
  alt_from true (assemble atoms seps) = true /\ length (assemble atoms seps) = 2 * length atoms - 1.
Proof.
  induction atoms as [|a atoms IH]; intros seps Hne Ha Hl Hs; [congruence|].
  inversion Ha as [|? ? Ha1 Har]; subst.
  destruct atoms as [|a' atoms'].
  - cbn [assemble]. unfold atom_tok. destruct a; [congruence|]. cbn. split; reflexivity.
  - destruct seps as [|s seps']; [cbn in Hl; lia|]. inversion Hs as [|? ? Hs1 Hsr]; subst.
    rewrite assemble_cons2 by assumption.
    destruct (IH seps') as [IH1 IH2]; [discriminate|exact Har|cbn in Hl |- *; lia|exact Hsr|].
    split.
    + cbn [alt_from ttype negb]. rewrite !N.eqb_refl. cbn [andb]. exact IH1.
    + cbn [length] in IH2 |- *. change (list N) with bytes in *. lia.
Qed.

Theorem assemble_alternating atoms seps : 2 <= length atoms ->
  Forall (fun a : bytes => a <> []) atoms -> length seps = pred (length atoms) -> Forall (fun s : bytes => s <> []) seps ->
  kind (assemble atoms seps) = AlternatingIndexKind /\ length (assemble atoms seps) = 2 * length atoms - 1.
Proof.
  intros H2 Ha Hl Hs.
  assert (Hne : atoms <> []) by (destruct atoms; [cbn in H2; lia|discriminate]).
  destruct (assemble_alt_shape atoms seps Hne Ha Hl Hs) as [Halt Hlen]. split; [|exact Hlen].
  apply kind_alternating_iff.
  destruct atoms as [|a [|a' atoms']]; try (cbn in H2; lia).
  destruct seps as [|s seps']; [cbn in Hl; lia|].
  inversion Ha as [|? ? Ha1 _]; subst. inversion Hs as [|? ? Hs1 _]; subst.
  rewrite assemble_cons2 in * by assumption. split.
  - cbn [all_atoms forallb ttype]. replace (N.eqb SeparatorType AtomType) with false by reflexivity.
    rewrite andb_false_r. cbn [andb]. destruct (N.eqb AtomType AtomType); reflexivity.
  - unfold is_alternating. rewrite Halt, andb_true_r. apply andb_true_intro. split.
    + rewrite Hlen. cbn [length]. rewrite <- Nat.negb_even. 
      replace (2 * S (S (length atoms')) - 1) with (S (2 * (S (length atoms')))) by lia.
      rewrite Nat.even_succ, <- Nat.negb_even, Nat.even_mul. reflexivity.
    + cbn [existsb ttype]. rewrite N.eqb_refl. rewrite orb_true_r. reflexivity.
Qed.

Theorem assemble_all_atoms : forall atoms seps, atoms <> [] ->
  Forall (fun a : bytes => a <> []) atoms -> Forall (fun s : bytes => s = []) seps ->
  all_atoms (assemble atoms seps) = true /\ length (assemble atoms seps) = length atoms.
Proof.
  assert (G : forall atoms seps, Forall (fun a : bytes => a <> []) atoms -> Forall (fun s : bytes => s = []) seps ->
     forallb (fun t => N.eqb (ttype t) AtomType) (assemble atoms seps) = true /\ length (assemble atoms seps) = length atoms).
  { induction atoms as [|a atoms IH]; intros seps Ha Hs; [split; reflexivity|].
    inversion Ha as [|? ? Ha1 Har]; subst. cbn [assemble].
    destruct atoms as [|a' atoms'].
    - unfold atom_tok. destruct a; [congruence|]. split; reflexivity.
    - assert (Hh : sep_tok (hd [] seps) = []).
      { destruct seps as [|s seps']; [reflexivity|]. inversion Hs; subst. reflexivity. }
      rewrite Hh. cbn [app]. unfold atom_tok. destruct a as [|x a]; [congruence|].
      destruct (IH (tl seps) Har) as [I1 I2].
      { destruct seps; cbn [tl]; [constructor|]. inversion Hs; assumption. }
      cbn [app forallb ttype length]. rewrite I1, I2. split; reflexivity. }
  intros atoms seps Hne Ha Hs. destruct (G atoms seps Ha Hs) as [G1 G2]. split; [|exact G2].
  unfold all_atoms. pose proof (assemble_nonempty atoms seps Hne Ha) as Hn.
  destruct (assemble atoms seps); [congruence|exact G1].
Qed.

Section WL.
Variable title : bytes -> bytes.
Variable b : budget.

Definition words_text (wl : word_list) : Prop :=
  Forall (fun w => (w <> [] /\ text_tok w) /\ (title w <> [] /\ text_tok (title w))) (wlWords wl).

Lemma wl_generated_shape r ws ts e rest wl :
  run_words (wl_generate title b r) ws = RDone (Done (ts, e)) rest ->
  wrList r = Some wl -> words_text wl ->
  exists atoms seps : list bytes,
    ts = assemble atoms seps /\ length atoms = Z.to_nat (wrLength r) /\ (1 <= wrLength r)%Z /\
    Forall (fun a => a <> [] /\ text_tok a) atoms /\
    length seps = pred (length atoms) /\ Forall (sep_value_ok (wrSep r)) seps.
Proof.
  intros H Hwl Hw. apply (wl_generate_sound title b) in H.
  destruct H as (wl' & caps & idxs & seps & Hwl' & Hne & HL & Hcaps & Hli & Hidx & Hls & Hsv & -> & _).
  rewrite Hwl in Hwl'. injection Hwl' as <-. destruct Hcaps as [Hcl _].
  eexists. exists seps. split; [reflexivity|].
  rewrite map_length, combine_length, Hcl, Hli, Nat.min_id.
  repeat split; try assumption.
  apply Forall_forall. intros a Ha. apply in_map_iff in Ha. destruct Ha as ([c i] & <- & Hci).
  apply in_combine_r in Hci. rewrite Forall_forall in Hidx. specialize (Hidx _ Hci). cbn [fst snd].
  assert (Hin : In (nth (N.to_nat i) (wlWords wl) []) (wlWords wl)) by (apply nth_In; lia).
  unfold words_text in Hw. rewrite Forall_forall in Hw. specialize (Hw _ Hin). destruct c; tauto.
Qed.

(** Every password of a wordlist recipe over text — words, their title forms
    and separator values valid UTF-8 of at most 255 characters, no empty word —
    is encoded, and decodes to exactly its tokens. *)
Theorem wl_generated_roundtrip r ws ts e rest wl :
  run_words (wl_generate title b r) ws = RDone (Done (ts, e)) rest ->
  wrList r = Some wl -> words_text wl -> sep_text (wrSep r) ->
  exists idx, make_indices ts = Done idx /\ tokenize (pw_string ts) idx = Done ts /\
    length idx = (if N.eqb (kind ts) CharacterIndexKind then 1
                  else if N.eqb (kind ts) FullIndexKind then 2 * length ts + 1 else length ts + 1).
Proof.
  intros H Hwl Hw Hs.
  destruct (wl_generated_shape r ws ts e rest wl H Hwl Hw) as (atoms & seps & -> & Hla & HL & Hat & Hls & Hsv).
  assert (Hatn : atoms <> []) by (destruct atoms; [cbn in Hla; lia|discriminate]).
  assert (H1 : Forall text_tok atoms) by (eapply Forall_impl; [|exact Hat]; intros a [_ Ha]; exact Ha).
  assert (H2 : Forall text_tok seps).
  { eapply Forall_impl; [|exact Hsv]. intros v. apply sep_value_text. exact Hs. }
  pose proof (assemble_text atoms seps H1 H2) as Ht.
  apply roundtrip.
  - apply assemble_nonempty; [exact Hatn|]. eapply Forall_impl; [|exact Hat]. intros a [Ha _]. exact Ha.
  - unfold values. apply Forall_forall. intros v Hv. apply in_map_iff in Hv.
    destruct Hv as (t & <- & Hin). rewrite Forall_forall in Ht. apply Ht. exact Hin.
  - eapply Forall_impl; [|exact Ht]. intros t Htt. apply Htt.
Qed.

(** Size of the index with a constant separator: 2*Length bytes (kind byte and
    one length per token, 2*Length-1 tokens) when it is non-empty and there are
    at least two words; Length+1 bytes at most when it is empty. *)
Theorem wl_generated_alternating r ws ts e rest wl c :
  run_words (wl_generate title b r) ws = RDone (Done (ts, e)) rest ->
  wrList r = Some wl -> words_text wl -> (wrSep r = SepChar c \/ wrSep r = SepConst c) -> text_tok c ->
  c <> [] -> (2 <= wrLength r)%Z ->
  kind ts = AlternatingIndexKind /\
  exists idx, make_indices ts = Done idx /\ tokenize (pw_string ts) idx = Done ts /\
              length idx = 2 * Z.to_nat (wrLength r).
Proof.
  intros H Hwl Hw Hsep Hc Hcn HL2.
  assert (Hs : sep_text (wrSep r)) by (destruct Hsep as [-> | ->]; exact Hc).
  destruct (wl_generated_roundtrip r ws ts e rest wl H Hwl Hw Hs) as (idx & Hm & Ht & Hlen).
  destruct (wl_generated_shape r ws ts e rest wl H Hwl Hw) as (atoms & seps & -> & Hla & HL & Hat & Hls & Hsv).
  assert (Hsn : Forall (fun s : bytes => s <> []) seps).
  { eapply Forall_impl; [|exact Hsv]. intros v Hv. destruct Hsep as [E|E]; rewrite E in Hv; cbn [sep_value_ok] in Hv; subst v; exact Hcn. }
  destruct (assemble_alternating atoms seps) as [Hk Hn]; try assumption; [lia| |].
  { eapply Forall_impl; [|exact Hat]. intros a [Ha _]. exact Ha. }
  split; [exact Hk|]. exists idx. repeat split; try assumption.
  rewrite Hk in Hlen. cbn in Hlen. rewrite Hlen, Hn, Hla. lia.
Qed.

Theorem wl_generated_no_separator r ws ts e rest wl :
  run_words (wl_generate title b r) ws = RDone (Done (ts, e)) rest ->
  wrList r = Some wl -> words_text wl -> (wrSep r = SepChar [] \/ wrSep r = SepConst []) ->
  all_atoms ts = true /\ length ts = Z.to_nat (wrLength r) /\
  exists idx, make_indices ts = Done idx /\ tokenize (pw_string ts) idx = Done ts /\
              length idx <= Z.to_nat (wrLength r) + 1.
Proof.
  intros H Hwl Hw Hsep.
  assert (He : text_tok []) by (split; [constructor|cbn; lia]).
  assert (Hs : sep_text (wrSep r)) by (destruct Hsep as [-> | ->]; exact He).
  destruct (wl_generated_roundtrip r ws ts e rest wl H Hwl Hw Hs) as (idx & Hm & Ht & Hlen).
  destruct (wl_generated_shape r ws ts e rest wl H Hwl Hw) as (atoms & seps & -> & Hla & HL & Hat & Hls & Hsv).
  assert (Hsn : Forall (fun s : bytes => s = []) seps).
  { eapply Forall_impl; [|exact Hsv]. intros v Hv. destruct Hsep as [E|E]; rewrite E in Hv; cbn [sep_value_ok] in Hv; exact Hv. }
  destruct (assemble_all_atoms atoms seps) as [Hk Hn]; try assumption.
  { destruct atoms; [cbn in Hla; lia|discriminate]. }
  { eapply Forall_impl; [|exact Hat]. intros a [Ha _]. exact Ha. }
  split; [exact Hk|]. split; [rewrite Hn; exact Hla|]. exists idx. repeat split; try assumption.
  unfold kind in Hlen. rewrite Hk in Hlen. cbn [andb] in Hlen.
  destruct (Nat.eqb _ 1 && negb _); cbn in Hlen; rewrite Hlen; lia.
Qed.
End WL.
