(** C11 (round trip, index size) and C12 (totality) for the token index codec. *)
From Spg.Base Require Import Prelude Utf8 Bytes.
From Spg.Model Require Import Tables Token.
Close Scope N_scope.

(** ================= C12 ================= *)
Lemma slice_lens_no_panic a i ls cs p : slice_lens a i ls cs <> Panic p.
Proof.
  revert i cs. induction ls as [|l ls IH]; intros i cs; cbn [slice_lens]; [discriminate|].
  destruct (take _ cs) as [[g cs']|]; [|discriminate].
  specialize (IH (S i) cs'). destruct (slice_lens a (S i) ls cs'); congruence.
Qed.

(** with an even number of bytes after the kind byte, no dangling length byte is ever read *)
Lemma slice_pairs_no_panic : forall ls cs p, Nat.even (length ls) = true -> slice_pairs ls cs <> Panic p.
Proof.
  fix IH 1. intros [|l [|ty ls]] cs p Hev; cbn [slice_pairs]; try discriminate.
  destruct (take _ cs) as [[g cs']|]; [|discriminate].
  specialize (IH ls cs' p). cbn [length Nat.even] in Hev.
  destruct (slice_pairs ls cs'); [discriminate|discriminate|]. intros [= <-]. apply IH; [exact Hev|reflexivity].
Qed.

Theorem tokenize_never_panics pw ti p : tokenize pw ti <> Panic p.
Proof.
  unfold tokenize. destruct ti as [|k rest]; [discriminate|].
  destruct (N.eqb k CharacterIndexKind); [discriminate|].
  destruct (N.eqb k VarAtomsIndexKind); [apply slice_lens_no_panic|].
  destruct (N.eqb k AlternatingIndexKind); [apply slice_lens_no_panic|].
  destruct (N.eqb k FullIndexKind); [|discriminate].
  destruct (Nat.even (length (k :: rest))) eqn:E; [discriminate|].
  apply slice_pairs_no_panic. cbn [length] in E. rewrite Nat.even_succ in E.
  rewrite <- Nat.negb_odd. rewrite E. reflexivity.
Qed.

Lemma take_spec n cs g cs' : take n cs = Some (g, cs') -> cs = g ++ cs' /\ length g = n.
Proof.
  unfold take. destruct (Nat.ltb_spec (length cs) n); [discriminate|]. intros [= <- <-].
  split; [symmetry; apply firstn_skipn|]. apply firstn_length_le. assumption.
Qed.
Lemma take_none n cs : take n cs = None <-> length cs < n.
Proof. unfold take. destruct (Nat.ltb_spec (length cs) n); split; intros; try discriminate; try lia; reflexivity. Qed.

(** expected type at position i for the length-only kinds *)
Definition type_at (alternating : bool) (i : nat) : N := if alternating && Nat.odd i then SeparatorType else AtomType.

(** tokens returned are consecutive slices of the character list *)
Lemma slice_lens_spec a : forall ls i cs ts, slice_lens a i ls cs = Done ts ->
  exists gs rest, cs = concat gs ++ rest /\ map value ts = map join gs /\
                  map (@length bytes) gs = map N.to_nat ls /\
                  (forall j t, nth_error ts j = Some t -> ttype t = type_at a (i + j)).
Proof.
  induction ls as [|l ls IH]; intros i cs ts; cbn [slice_lens].
  - intros [= <-]. exists [], cs. repeat split; auto. intros j t Hj. destruct j; discriminate.
  - destruct (take _ cs) as [[g cs']|] eqn:E; [|discriminate].
    destruct (slice_lens a (S i) ls cs') eqn:E2; try discriminate. intros [= <-].
    destruct (IH _ _ _ E2) as (gs & rest & -> & Hv & Hl & Hty). apply take_spec in E. destruct E as [-> Hg].
    exists (g :: gs), rest. cbn [concat map]. rewrite app_assoc, Hv, Hl, Hg. repeat split; auto.
    intros [|j] t Hj; cbn in Hj.
    + inversion Hj; subst. cbn [ttype]. rewrite Nat.add_0_r. reflexivity.
    + rewrite (Hty j t Hj). f_equal. lia.
Qed.

Fixpoint pair_lens (ls : list N) : list nat :=
  match ls with l :: _ :: r => N.to_nat l :: pair_lens r | _ => [] end.
Fixpoint pair_types (ls : list N) : list N :=
  match ls with _ :: ty :: r => ty :: pair_types r | _ => [] end.

Lemma slice_pairs_spec : forall ls cs ts, slice_pairs ls cs = Done ts ->
  exists gs rest, cs = concat gs ++ rest /\ map value ts = map join gs /\
                  map (@length bytes) gs = pair_lens ls /\ map ttype ts = pair_types ls.
Proof.
  fix IH 1. intros [|l [|ty ls]] cs ts; cbn [slice_pairs].
  - intros [= <-]. exists [], cs. auto.
  - discriminate.
  - destruct (take _ cs) as [[g cs']|] eqn:E; [|discriminate].
    destruct (slice_pairs ls cs') eqn:E2; try discriminate. intros [= <-].
    destruct (IH _ _ _ E2) as (gs & rest & -> & Hv & Hl & Hty). apply take_spec in E. destruct E as [-> Hg].
    exists (g :: gs), rest. cbn [concat map pair_lens pair_types ttype]. rewrite app_assoc, Hv, Hl, Hg, Hty. auto.
Qed.

(** the concatenation of consecutive slices is a prefix of the string *)
Lemma concat_concat_join (gs : list (list bytes)) : concat (concat gs) = concat (map join gs).
Proof. unfold join. induction gs as [|g gs IH]; [reflexivity|]. cbn [concat map]. rewrite concat_app, IH. reflexivity. Qed.

Lemma slices_prefix pw gs rest ts :
  explode pw = concat gs ++ rest -> map value ts = map join gs ->
  exists tail, pw = pw_string ts ++ tail.
Proof.
  intros He Hv. exists (concat rest). unfold pw_string, values. rewrite Hv.
  rewrite <- (explode_concat pw) at 1. rewrite He, concat_app, concat_concat_join. reflexivity.
Qed.

Theorem tokenize_prefix pw ti ts : tokenize pw ti = Done ts -> exists tail, pw = pw_string ts ++ tail.
Proof.
  unfold tokenize. destruct ti as [|k rest]; [discriminate|].
  destruct (N.eqb k CharacterIndexKind).
  - intros [= <-]. exists []. rewrite app_nil_r. unfold pw_string, values. rewrite map_map. cbn [value].
    rewrite map_id. symmetry. apply explode_concat.
  - destruct (N.eqb k VarAtomsIndexKind).
    { intros H. apply slice_lens_spec in H. destruct H as (gs & tl & He & Hv & _). eapply slices_prefix; eassumption. }
    destruct (N.eqb k AlternatingIndexKind).
    { intros H. apply slice_lens_spec in H. destruct H as (gs & tl & He & Hv & _). eapply slices_prefix; eassumption. }
    destruct (N.eqb k FullIndexKind); [|discriminate].
    destruct (Nat.even _); [discriminate|].
    intros H. apply slice_pairs_spec in H. destruct H as (gs & tl & He & Hv & _). eapply slices_prefix; eassumption.
Qed.

(** exact character counts and types, per kind *)
Theorem tokenize_char_spec pw rest :
  tokenize pw (CharacterIndexKind :: rest) = Done (map (fun c => Tok c AtomType) (explode pw)).
Proof. reflexivity. Qed.

Theorem tokenize_lens_spec pw k rest ts :
  (k = VarAtomsIndexKind \/ k = AlternatingIndexKind) -> tokenize pw (k :: rest) = Done ts ->
  exists gs tail, explode pw = concat gs ++ tail /\ map value ts = map join gs /\
                  map (@length bytes) gs = map N.to_nat rest /\
                  (forall j t, nth_error ts j = Some t -> ttype t = type_at (N.eqb k AlternatingIndexKind) j).
Proof.
  intros [-> | ->] H; cbn in H; apply slice_lens_spec in H; destruct H as (gs & tl & H1 & H2 & H3 & H4);
    exists gs, tl; repeat split; auto.
Qed.

Lemma tokenize_full_unfold pw rest :
  tokenize pw (FullIndexKind :: rest) =
  if Nat.even (S (length rest)) then Err EBadFull else slice_pairs rest (explode pw).
Proof. reflexivity. Qed.

Theorem tokenize_full_spec pw rest ts :
  tokenize pw (FullIndexKind :: rest) = Done ts ->
  Nat.even (length rest) = true /\
  exists gs tail, explode pw = concat gs ++ tail /\ map value ts = map join gs /\
                  map (@length bytes) gs = pair_lens rest /\ map ttype ts = pair_types rest.
Proof.
  rewrite tokenize_full_unfold.
  destruct (Nat.even (S (length rest))) eqn:E; [discriminate|]. intros H. split.
  - rewrite Nat.even_succ in E. rewrite <- Nat.negb_odd, E. reflexivity.
  - apply slice_pairs_spec. exact H.
Qed.

(** malformed indices are errors *)
Theorem tokenize_empty_index pw : tokenize pw [] = Err EEmptyIndex.
Proof. reflexivity. Qed.
Theorem tokenize_unknown_kind pw k rest : (3 < k)%N -> tokenize pw (k :: rest) = Err EUnknownKind.
Proof.
  intros Hk. unfold tokenize.
  destruct (N.eqb_spec k CharacterIndexKind) as [->|_]; [unfold CharacterIndexKind in Hk; lia|].
  destruct (N.eqb_spec k VarAtomsIndexKind) as [->|_]; [unfold VarAtomsIndexKind in Hk; lia|].
  destruct (N.eqb_spec k AlternatingIndexKind) as [->|_]; [unfold AlternatingIndexKind in Hk; lia|].
  destruct (N.eqb_spec k FullIndexKind) as [->|_]; [unfold FullIndexKind in Hk; lia|]. reflexivity.
Qed.
Theorem tokenize_truncated_full pw rest : Nat.odd (length rest) = true ->
  tokenize pw (FullIndexKind :: rest) = Err EBadFull.
Proof. intros H. rewrite tokenize_full_unfold, Nat.even_succ, H. reflexivity. Qed.

Definition sum_lens (ls : list N) : nat := fold_right (fun l s => N.to_nat l + s) 0 ls.

Lemma slice_lens_too_short a : forall ls i cs, length cs < sum_lens ls -> slice_lens a i ls cs = Err ETooShort.
Proof.
  induction ls as [|l ls IH]; intros i cs H; cbn [sum_lens fold_right] in H; [lia|].
  cbn [slice_lens]. destruct (take (N.to_nat l) cs) as [[g cs']|] eqn:E; [|reflexivity].
  apply take_spec in E. destruct E as [-> Hg]. rewrite IH; [reflexivity|].
  rewrite app_length in H. fold (sum_lens ls) in H. lia.
Qed.

Theorem tokenize_lengths_exceed pw k rest :
  (k = VarAtomsIndexKind \/ k = AlternatingIndexKind) -> glyphs pw < sum_lens rest ->
  tokenize pw (k :: rest) = Err ETooShort.
Proof. intros [-> | ->] H; cbn; apply slice_lens_too_short; exact H. Qed.

Lemma slice_pairs_too_short : forall ls cs, Nat.even (length ls) = true ->
  length cs < fold_right Nat.add 0 (pair_lens ls) -> slice_pairs ls cs = Err ETooShort.
Proof.
  fix IH 1. intros [|l [|ty ls]] cs Hev H.
  - cbn in H. lia.
  - discriminate.
  - cbn [pair_lens fold_right] in H. cbn [slice_pairs].
    destruct (take (N.to_nat l) cs) as [[g cs']|] eqn:E; [|reflexivity].
    apply take_spec in E. destruct E as [-> Hg]. rewrite IH; [reflexivity|exact Hev|].
    rewrite app_length in H. lia.
Qed.

Theorem tokenize_full_lengths_exceed pw rest : Nat.even (length rest) = true ->
  glyphs pw < fold_right Nat.add 0 (pair_lens rest) -> tokenize pw (FullIndexKind :: rest) = Err ETooShort.
Proof.
  intros Hev H. rewrite tokenize_full_unfold, Nat.even_succ, <- Nat.negb_even, Hev. cbn [negb].
  apply slice_pairs_too_short; assumption.
Qed.

(** ================= C11 ================= *)
Lemma take_app (g rest : list bytes) : take (length g) (g ++ rest) = Some (g, rest).
Proof.
  unfold take. rewrite app_length. destruct (Nat.ltb_spec (length g + length rest) (length g)); [lia|].
  rewrite firstn_app, Nat.sub_diag, firstn_all, skipn_app, Nat.sub_diag, skipn_all. cbn. rewrite app_nil_r. reflexivity.
Qed.

Lemma slice_lens_roundtrip a : forall ts i l rest,
  lens ts = Some l ->
  (forall j t, nth_error ts j = Some t -> ttype t = type_at a (i + j)) ->
  slice_lens a i l (concat (map (fun t => explode (value t)) ts) ++ rest) = Done ts.
Proof.
  induction ts as [|t ts IH]; intros i l rest Hl Hty; cbn [lens] in Hl.
  - inversion Hl; subst. reflexivity.
  - destruct (Nat.ltb 255 (glyphs (value t))) eqn:E; [discriminate|].
    destruct (lens ts) as [l'|] eqn:E2; [|discriminate]. inversion Hl; subst; clear Hl.
    cbn [map concat slice_lens]. rewrite Nat2N.id. unfold glyphs. rewrite <- app_assoc, take_app.
    rewrite (IH (S i) l' rest eq_refl).
    + unfold join. rewrite explode_concat.
      pose proof (Hty 0 t eq_refl) as H0. rewrite Nat.add_0_r in H0. unfold type_at in H0. rewrite <- H0.
      destruct t; reflexivity.
    + intros j t' Hj. rewrite (Hty (S j) t' Hj). f_equal. lia.
Qed.

Lemma slice_pairs_roundtrip : forall ts l rest,
  lens_types ts = Some l ->
  slice_pairs l (concat (map (fun t => explode (value t)) ts) ++ rest) = Done ts.
Proof.
  induction ts as [|t ts IH]; intros l rest Hl; cbn [lens_types] in Hl.
  - inversion Hl; subst. reflexivity.
  - destruct (Nat.ltb 255 (glyphs (value t))) eqn:E; [discriminate|].
    destruct (lens_types ts) as [l'|] eqn:E2; [|discriminate]. inversion Hl; subst; clear Hl.
    cbn [map concat slice_pairs]. rewrite Nat2N.id. unfold glyphs. rewrite <- app_assoc, take_app.
    rewrite (IH l' rest eq_refl). unfold join. rewrite explode_concat. destruct t; reflexivity.
Qed.

Lemma lens_length ts l : lens ts = Some l -> length l = length ts.
Proof.
  revert l. induction ts as [|t ts IH]; intros l H; cbn [lens] in H; [inversion H; reflexivity|].
  destruct (Nat.ltb 255 _); [discriminate|]. destruct (lens ts) as [l'|]; [|discriminate].
  inversion H; subst. cbn. f_equal. apply IH. reflexivity.
Qed.
Lemma lens_types_length ts l : lens_types ts = Some l -> length l = 2 * length ts.
Proof.
  revert l. induction ts as [|t ts IH]; intros l H; cbn [lens_types] in H; [inversion H; reflexivity|].
  destruct (Nat.ltb 255 _); [discriminate|]. destruct (lens_types ts) as [l'|]; [|discriminate].
  inversion H; subst. cbn [length]. rewrite (IH l' eq_refl). lia.
Qed.
Lemma lens_some ts : Forall (fun t => glyphs (value t) <= 255) ts -> exists l, lens ts = Some l.
Proof.
  induction 1 as [|t ts Ht _ (l & Hl)]; [exists []; reflexivity|].
  cbn [lens]. rewrite Hl. destruct (Nat.ltb_spec 255 (glyphs (value t))); [lia|]. eexists; reflexivity.
Qed.
Lemma lens_types_some ts : Forall (fun t => glyphs (value t) <= 255) ts -> exists l, lens_types ts = Some l.
Proof.
  induction 1 as [|t ts Ht _ (l & Hl)]; [exists []; reflexivity|].
  cbn [lens_types]. rewrite Hl. destruct (Nat.ltb_spec 255 (glyphs (value t))); [lia|]. eexists; reflexivity.
Qed.
Lemma lens_none ts : Exists (fun t => 255 < glyphs (value t)) ts -> lens ts = None.
Proof.
  induction 1 as [t ts Ht|t ts _ IH]; cbn [lens].
  - destruct (Nat.ltb_spec 255 (glyphs (value t))); [reflexivity|lia].
  - destruct (Nat.ltb 255 _); [reflexivity|]. rewrite IH. reflexivity.
Qed.
Lemma lens_types_none ts : Exists (fun t => 255 < glyphs (value t)) ts -> lens_types ts = None.
Proof.
  induction 1 as [t ts Ht|t ts _ IH]; cbn [lens_types].
  - destruct (Nat.ltb_spec 255 (glyphs (value t))); [reflexivity|lia].
  - destruct (Nat.ltb 255 _); [reflexivity|]. rewrite IH. reflexivity.
Qed.

Lemma all_atoms_types ts : all_atoms ts = true ->
  forall j t, nth_error ts j = Some t -> ttype t = type_at false (0 + j).
Proof.
  intros H j t Hj. unfold all_atoms in H. destruct ts as [|t0 ts']; [discriminate|].
  rewrite forallb_forall in H. apply nth_error_In in Hj. apply H in Hj. apply N.eqb_eq in Hj. exact Hj.
Qed.

Lemma alt_from_types : forall ts b i, alt_from b ts = true -> Nat.odd i = negb b ->
  forall j t, nth_error ts j = Some t -> ttype t = type_at true (i + j).
Proof.
  induction ts as [|t0 ts IH]; intros b i H Hi j t Hj; [destruct j; discriminate|].
  cbn [alt_from] in H. apply andb_prop in H. destruct H as [H1 H2]. apply N.eqb_eq in H1.
  destruct j as [|j]; cbn in Hj.
  - inversion Hj; subst. rewrite Nat.add_0_r. unfold type_at. rewrite Hi. cbn [andb]. rewrite H1. destruct b; reflexivity.
  - replace (i + S j) with (S i + j) by lia. apply (IH (negb b) (S i) H2); [|exact Hj].
    rewrite Nat.odd_succ, <- Nat.negb_odd, Hi. reflexivity.
Qed.

Lemma explode_pw_string ts : Forall valid_utf8 (values ts) ->
  explode (pw_string ts) = concat (map (fun t => explode (value t)) ts).
Proof.
  intros H. unfold pw_string. rewrite explode_concat_values by exact H. unfold values. rewrite map_map. reflexivity.
Qed.

(** in the character kind every token is exactly one character *)
Lemma max_len_le ts t : In t ts -> glyphs (value t) <= max_len ts.
Proof. induction ts as [|t0 ts IH]; [intros []|]. intros [->|H]; cbn [max_len fold_right]; [lia|]. specialize (IH H). unfold max_len in IH. lia. Qed.

Lemma glyphs_pos v : v <> [] -> 1 <= glyphs v.
Proof.
  intros H. unfold glyphs. rewrite explode_unfold by exact H. cbn [length]. lia.
Qed.

Lemma single_glyph v : glyphs v = 1 -> explode v = [v].
Proof.
  unfold glyphs. intros H. pose proof (explode_concat v) as Hc.
  destruct (explode v) as [|g [|g' l]]; try discriminate. cbn in Hc. rewrite app_nil_r in Hc. subst. reflexivity.
Qed.

Lemma char_kind_tokens ts : all_atoms ts = true -> max_len ts = 1 -> has_empty ts = false ->
  map (fun t => explode (value t)) ts = map (fun t => [value t]) ts /\ forall t, In t ts -> ttype t = AtomType.
Proof.
  intros Ha Hm He. split.
  - apply map_ext_in. intros t Ht. apply single_glyph.
    pose proof (max_len_le ts t Ht). assert (value t <> []).
    { intros E. unfold has_empty in He. assert (existsb (fun t => match value t with [] => true | _ => false end) ts = true).
      { apply existsb_exists. exists t. split; [exact Ht|rewrite E; reflexivity]. } congruence. }
    pose proof (glyphs_pos (value t) H0). lia.
  - intros t Ht. unfold all_atoms in Ha. destruct ts; [destruct Ht|]. rewrite forallb_forall in Ha. apply N.eqb_eq. apply Ha. exact Ht.
Qed.

Theorem roundtrip ts :
  ts <> [] -> Forall valid_utf8 (values ts) -> Forall (fun t => glyphs (value t) <= 255) ts ->
  exists idx, make_indices ts = Done idx /\ tokenize (pw_string ts) idx = Done ts /\
    length idx = (if N.eqb (kind ts) CharacterIndexKind then 1
                  else if N.eqb (kind ts) FullIndexKind then 2 * length ts + 1 else length ts + 1).
Proof.
  intros Hne Hv Hlen. unfold make_indices. destruct ts as [|t0 ts0] eqn:Ets; [congruence|]. rewrite <- Ets in *.
  unfold kind.
  destruct (all_atoms ts && Nat.eqb (max_len ts) 1 && negb (has_empty ts)) eqn:Echar.
  - (* character kind *)
    apply andb_prop in Echar. destruct Echar as [E12 E3]. apply andb_prop in E12. destruct E12 as [E1 E2].
    apply Nat.eqb_eq in E2. apply negb_true_iff in E3.
    destruct (char_kind_tokens ts E1 E2 E3) as [Hex Hty].
    exists [CharacterIndexKind]. cbn [N.eqb CharacterIndexKind]. split; [reflexivity|]. split; [|reflexivity].
    unfold tokenize. cbn [N.eqb CharacterIndexKind].
    rewrite explode_pw_string by exact Hv. rewrite Hex. f_equal.
    clear - Hty. induction ts as [|t ts IH]; [reflexivity|]. cbn [map concat app].
    rewrite IH by (intros; apply Hty; right; assumption).
    f_equal. rewrite <- (Hty t) by (left; reflexivity). destruct t; reflexivity.
  - destruct (all_atoms ts) eqn:Ea.
    + (* var atoms *)
      destruct (lens_some ts Hlen) as (l & Hl).
      exists (VarAtomsIndexKind :: l). cbn [N.eqb VarAtomsIndexKind CharacterIndexKind FullIndexKind AlternatingIndexKind Pos.eqb orb].
      rewrite Hl. split; [reflexivity|]. split; [|cbn [length]; rewrite (lens_length ts l Hl); lia].
      unfold tokenize. cbn [N.eqb VarAtomsIndexKind CharacterIndexKind Pos.eqb].
      rewrite explode_pw_string by exact Hv. rewrite <- (app_nil_r (concat _)).
      apply slice_lens_roundtrip; [exact Hl|]. apply all_atoms_types, Ea.
    + destruct (is_alternating ts) eqn:Ealt.
      * destruct (lens_some ts Hlen) as (l & Hl).
        exists (AlternatingIndexKind :: l). cbn [N.eqb VarAtomsIndexKind CharacterIndexKind FullIndexKind AlternatingIndexKind Pos.eqb orb].
        rewrite Hl. split; [reflexivity|]. split; [|cbn [length]; rewrite (lens_length ts l Hl); lia].
        unfold tokenize. cbn [N.eqb VarAtomsIndexKind AlternatingIndexKind CharacterIndexKind Pos.eqb].
        rewrite explode_pw_string by exact Hv. rewrite <- (app_nil_r (concat _)).
        apply slice_lens_roundtrip; [exact Hl|].
        unfold is_alternating in Ealt. apply andb_prop in Ealt. destruct Ealt as [_ Halt].
        apply (alt_from_types ts true 0 Halt). reflexivity.
      * destruct (lens_types_some ts Hlen) as (l & Hl).
        exists (FullIndexKind :: l). cbn [N.eqb VarAtomsIndexKind CharacterIndexKind FullIndexKind AlternatingIndexKind Pos.eqb orb].
        rewrite Hl. split; [reflexivity|]. split; [|cbn [length]; rewrite (lens_types_length ts l Hl); lia].
        unfold tokenize. cbn [N.eqb VarAtomsIndexKind AlternatingIndexKind FullIndexKind CharacterIndexKind Pos.eqb].
        cbn [length]. rewrite (lens_types_length ts l Hl).
        replace (Nat.even (S (2 * length ts))) with false
          by (symmetry; rewrite Nat.even_succ, <- Nat.negb_even, Nat.even_mul; reflexivity).
        rewrite explode_pw_string by exact Hv. rewrite <- (app_nil_r (concat _)).
        apply slice_pairs_roundtrip. exact Hl.
Qed.

(** a token that cannot be encoded is an error, never a lossy index *)
Theorem too_long_is_error ts :
  Exists (fun t => 255 < glyphs (value t)) ts -> make_indices ts = Err ETokenTooLarge.
Proof.
  intros H. unfold make_indices. destruct ts as [|t0 ts0] eqn:Ets; [inversion H|]. rewrite <- Ets in *.
  assert (Hk : N.eqb (kind ts) CharacterIndexKind = false).
  { unfold kind. destruct (all_atoms ts && Nat.eqb (max_len ts) 1 && negb (has_empty ts)) eqn:E.
    - exfalso. apply andb_prop in E. destruct E as [E _]. apply andb_prop in E. destruct E as [_ E].
      apply Nat.eqb_eq in E. apply Exists_exists in H. destruct H as (t & Ht & Hl).
      pose proof (max_len_le ts t Ht). lia.
    - destruct (all_atoms ts); [reflexivity|]. destruct (is_alternating ts); reflexivity. }
  rewrite Hk. rewrite (lens_none ts H), (lens_types_none ts H).
  destruct (_ || _); reflexivity.
Qed.

Lemma lens_some_inv ts l : lens ts = Some l -> Forall (fun t => glyphs (value t) <= 255) ts.
Proof.
  revert l. induction ts as [|t ts IH]; intros l H; [constructor|]. cbn [lens] in H.
  destruct (Nat.ltb_spec 255 (glyphs (value t))); [discriminate|].
  destruct (lens ts) as [l'|] eqn:E; [|discriminate]. constructor; [lia|]. eapply IH. reflexivity.
Qed.
Lemma lens_types_some_inv ts l : lens_types ts = Some l -> Forall (fun t => glyphs (value t) <= 255) ts.
Proof.
  revert l. induction ts as [|t ts IH]; intros l H; [constructor|]. cbn [lens_types] in H.
  destruct (Nat.ltb_spec 255 (glyphs (value t))); [discriminate|].
  destruct (lens_types ts) as [l'|] eqn:E; [|discriminate]. constructor; [lia|]. eapply IH. reflexivity.
Qed.

Theorem never_lossy ts idx : ts <> [] -> Forall valid_utf8 (values ts) ->
  make_indices ts = Done idx -> tokenize (pw_string ts) idx = Done ts.
Proof.
  intros Hne Hv Hm.
  assert (Hlen : Forall (fun t => glyphs (value t) <= 255) ts).
  { destruct (Forall_Exists_dec (fun t => glyphs (value t) <= 255) (fun t => le_dec _ _) ts) as [H|H]; [exact H|].
    exfalso. assert (H' : Exists (fun t => 255 < glyphs (value t)) ts).
    { apply Exists_exists in H. destruct H as (t & Ht & Hl). apply Exists_exists. exists t. split; [exact Ht|lia]. }
    rewrite (too_long_is_error ts H') in Hm. discriminate. }
  destruct (roundtrip ts Hne Hv Hlen) as (idx' & H1 & H2 & _). rewrite Hm in H1. inversion H1; subst. exact H2.
Qed.

(** ---- the documented conditions for each index kind ---- *)
Definition one_char (t : token) : Prop := ttype t = AtomType /\ glyphs (value t) = 1.

Theorem kind_character_iff ts :
  kind ts = CharacterIndexKind <-> ts <> [] /\ Forall one_char ts.
Proof.
  unfold kind. split.
  - destruct (all_atoms ts && Nat.eqb (max_len ts) 1 && negb (has_empty ts)) eqn:E.
    + intros _. apply andb_prop in E. destruct E as [E E3]. apply andb_prop in E. destruct E as [E1 E2].
      apply Nat.eqb_eq in E2. apply negb_true_iff in E3.
      split; [intros ->; discriminate|]. apply Forall_forall. intros t Ht.
      destruct (char_kind_tokens ts E1 E2 E3) as [Hex Hty]. split; [apply Hty; exact Ht|].
      assert (In (explode (value t)) (map (fun t => explode (value t)) ts)) by (apply in_map_iff; exists t; auto).
      rewrite Hex in H. apply in_map_iff in H. destruct H as (t' & Ht' & _). unfold glyphs. rewrite <- Ht'. reflexivity.
    + destruct (all_atoms ts); [discriminate|]. destruct (is_alternating ts); discriminate.
  - intros [Hne Hall].
    assert (E1 : all_atoms ts = true).
    { unfold all_atoms. destruct ts as [|tt0 tts]; [congruence|]. apply forallb_forall. intros x Hx.
      rewrite Forall_forall in Hall. apply N.eqb_eq. apply Hall. exact Hx. }
    assert (E2 : max_len ts = 1).
    { destruct ts as [|t0 ts0]; [congruence|]. clear Hne E1.
      assert (forall l, Forall one_char l -> l <> [] -> max_len l = 1).
      { induction 1 as [|t l [_ Ht] Hl IH]; [congruence|]. intros _. cbn [max_len fold_right]. fold (max_len l).
        destruct l as [|t1 l1]; [cbn; lia|]. rewrite IH by discriminate. lia. }
      apply H; [exact Hall|discriminate]. }
    assert (E3 : has_empty ts = false).
    { unfold has_empty. destruct (existsb _ ts) eqn:E; [|reflexivity]. exfalso.
      apply existsb_exists in E. destruct E as (t & Ht & He). rewrite Forall_forall in Hall.
      destruct (Hall t Ht) as [_ Hg]. destruct (value t); [cbn in Hg; discriminate|discriminate]. }
    rewrite E1, E2, E3. reflexivity.
Qed.

Theorem kind_var_atoms_iff ts :
  kind ts = VarAtomsIndexKind <-> all_atoms ts = true /\ ~ Forall one_char ts.
Proof.
  split.
  - intros H. assert (Hn : kind ts <> CharacterIndexKind) by (rewrite H; discriminate).
    unfold kind in H. destruct (all_atoms ts && Nat.eqb (max_len ts) 1 && negb (has_empty ts)); [discriminate|].
    destruct (all_atoms ts) eqn:Ea; [|destruct (is_alternating ts); discriminate].
    split; [reflexivity|]. intros Hall. apply Hn. apply kind_character_iff. split; [|exact Hall].
    intros ->. discriminate.
  - intros [Ha Hn]. unfold kind. rewrite Ha.
    destruct (true && Nat.eqb (max_len ts) 1 && negb (has_empty ts)) eqn:E; [|reflexivity].
    exfalso. apply Hn. apply kind_character_iff. unfold kind. rewrite Ha, E. reflexivity.
Qed.

Theorem kind_alternating_iff ts :
  kind ts = AlternatingIndexKind <-> all_atoms ts = false /\ is_alternating ts = true.
Proof.
  unfold kind. split.
  - destruct (all_atoms ts && _ && _) eqn:E; [discriminate|]. destruct (all_atoms ts); [discriminate|].
    destruct (is_alternating ts); [auto|discriminate].
  - intros [-> ->]. reflexivity.
Qed.

(** strictly alternating A S A ... A of odd length >= 3 *)
Theorem is_alternating_spec ts :
  is_alternating ts = true <->
  Nat.odd (length ts) = true /\ 3 <= length ts /\
  forall j t, nth_error ts j = Some t -> ttype t = if Nat.odd j then SeparatorType else AtomType.
Proof.
  unfold is_alternating. split.
  - intros H. apply andb_prop in H. destruct H as [H Halt]. apply andb_prop in H. destruct H as [Hodd Hsep].
    split; [exact Hodd|]. split.
    + destruct ts as [|a [|b [|c l]]]; cbn in *; try discriminate; try lia.
      cbn in Hsep. rewrite orb_false_r in Hsep. apply andb_prop in Halt. destruct Halt as [Ha _].
      apply N.eqb_eq in Ha, Hsep. rewrite Ha in Hsep. discriminate.
    + intros j t Hj. rewrite (alt_from_types ts true 0 Halt eq_refl j t Hj). reflexivity.
  - intros (Hodd & Hlen & Hty). rewrite Hodd. cbn [andb].
    assert (Halt : forall l b i, (forall j t, nth_error l j = Some t -> ttype t = if Nat.odd (i + j) then SeparatorType else AtomType) ->
                                  Nat.odd i = negb b -> alt_from b l = true).
    { induction l as [|t l IH]; intros b i H Hi; [reflexivity|]. cbn [alt_from].
      rewrite (H 0 t eq_refl), Nat.add_0_r, Hi. destruct b; cbn [negb]; rewrite N.eqb_refl; cbn [andb];
        (apply (IH _ (S i)); [intros j t' Hj; rewrite (H (S j) t' Hj); replace (i + S j) with (S i + j) by lia; reflexivity|rewrite Nat.odd_succ, <- Nat.negb_odd, Hi; reflexivity]). }
    rewrite (Halt ts true 0) by (auto). rewrite andb_true_r.
    destruct ts as [|a [|b l]]; cbn in Hlen; try lia.
    apply existsb_exists. exists b. split; [right; left; reflexivity|]. rewrite (Hty 1 b eq_refl). reflexivity.
Qed.
