(** C09: how raw words arise from the scripted reader.  Choices are a function of
    the byte sequence, not of how reads are chunked; a failing read contributes
    nothing and nothing after it is used. *)
From Spg.Base Require Import Prelude.
From Spg.Model Require Import Rand GenM.
Close Scope N_scope.

Lemma words_of_app : forall x y,
  words_of (x ++ y) =
  let (w1, r1) := words_of x in let (w2, r2) := words_of (r1 ++ y) in (w1 ++ w2, r2).
Proof.
  fix IH 1. intros [|b0 [|b1 [|b2 [|b3 x]]]] y.
  - replace (words_of []) with (@nil N, @nil N) by reflexivity. cbn [app]. destruct (words_of y); reflexivity.
  - replace (words_of [b0]) with (@nil N, [b0]) by reflexivity. cbn [app]. destruct (words_of (b0 :: y)); reflexivity.
  - replace (words_of [b0; b1]) with (@nil N, [b0; b1]) by reflexivity. cbn [app]. destruct (words_of (b0 :: b1 :: y)); reflexivity.
  - replace (words_of [b0; b1; b2]) with (@nil N, [b0; b1; b2]) by reflexivity. cbn [app]. destruct (words_of (b0 :: b1 :: b2 :: y)); reflexivity.
  - change ((b0 :: b1 :: b2 :: b3 :: x) ++ y) with (b0 :: b1 :: b2 :: b3 :: (x ++ y)).
    cbn [words_of]. rewrite (IH x y). destruct (words_of x) as [w1 r1]. destruct (words_of (r1 ++ y)) as [w2 r2]. reflexivity.
Qed.

Lemma words_of_rem_short : forall x, length (snd (words_of x)) < 4.
Proof.
  fix IH 1. intros [|b0 [|b1 [|b2 [|b3 x]]]]; cbn [words_of snd length]; try lia.
  specialize (IH x). destruct (words_of x). cbn [snd] in *. exact IH.
Qed.

Lemma words_of_rem_idem : forall x, words_of (snd (words_of x)) = ([], snd (words_of x)).
Proof.
  intros x. pose proof (words_of_rem_short x) as H. destruct (snd (words_of x)) as [|b0 [|b1 [|b2 [|b3 r]]]]; try reflexivity.
  cbn [length] in H. lia.
Qed.

Definition fault_free (src : source) : Prop := Forall (fun c => match c with Chunk _ f => f = false end) src.
Definition bytes_of (src : source) : bytes := concat (map (fun c => match c with Chunk bs _ => bs end) src).

Lemma words_of_short x : length x < 4 -> words_of x = ([], x).
Proof. destruct x as [|b0 [|b1 [|b2 [|b3 r]]]]; cbn [length]; intros H; try reflexivity. lia. Qed.

(** fault-free script: the words are those of the concatenated bytes, whatever the chunking *)
Theorem parse_fault_free : forall src pending, fault_free src -> length pending < 4 ->
  parse pending src = (fst (words_of (pending ++ bytes_of src)), length (snd (words_of (pending ++ bytes_of src)))).
Proof.
  induction src as [|[bs f] src IH]; intros pending Hff Hp.
  - cbn [parse bytes_of map concat]. rewrite app_nil_r, words_of_short by exact Hp. reflexivity.
  - inversion Hff as [|? ? Hf Hrest]; subst.
    assert (E : parse pending (Chunk bs false :: src) =
                let (ws, rem) := words_of (pending ++ bs) in let (ws', p) := parse rem src in (ws ++ ws', p)) by reflexivity.
    rewrite E. clear E.
    unfold bytes_of. cbn [map concat]. fold (bytes_of src).
    pose proof (words_of_rem_short (pending ++ bs)) as Hr.
    destruct (words_of (pending ++ bs)) as [ws rem] eqn:E. cbn [snd] in Hr.
    rewrite app_assoc, words_of_app, E.
    rewrite (IH rem Hrest Hr).
    destruct (words_of (rem ++ bytes_of src)) as [w2 r2]. reflexivity.
Qed.

(** hence two fault-free scripts delivering the same bytes yield the same raw words *)
Corollary chunking_invariant src1 src2 : fault_free src1 -> fault_free src2 ->
  bytes_of src1 = bytes_of src2 -> words_of_source src1 = words_of_source src2.
Proof.
  intros H1 H2 E. unfold words_of_source.
  rewrite !parse_fault_free by (auto; cbn; lia). rewrite E. reflexivity.
Qed.

Corollary run_src_chunk_invariant {A} (g : gen (outcome A)) src1 src2 :
  fault_free src1 -> fault_free src2 -> bytes_of src1 = bytes_of src2 -> run_src g src1 = run_src g src2.
Proof. intros H1 H2 E. unfold run_src. rewrite (chunking_invariant src1 src2 H1 H2 E). reflexivity. Qed.

(** a read that fails before its 4 bytes are complete ends the stream of words:
    nothing delivered by that read, and nothing after it, is ever used *)
Theorem parse_fault : forall pre pending bs rest, fault_free pre -> length pending < 4 ->
  let all := pending ++ bytes_of pre ++ bs in
  (snd (words_of all) <> [] \/ (bs = [] /\ snd (words_of (pending ++ bytes_of pre)) = [])) ->
  parse pending (pre ++ Chunk bs true :: rest) = (fst (words_of all), length (snd (words_of all))).
Proof.
  induction pre as [|[cb f] pre IH]; intros pending bs rest Hff Hp all Hrem.
  - cbn [app bytes_of map concat] in *. subst all. cbn [parse]. cbn [app] in Hrem.
    destruct (words_of (pending ++ bs)) as [ws rem] eqn:E. cbn [snd fst] in *.
    assert (Hcond : (match rem with [] => match bs with [] => match pending with [] => true | _ => false end | _ => false end | _ => true end) = true).
    { destruct rem as [|r0 rem']; [|reflexivity]. destruct Hrem as [Hrem|[-> Hrem]]; [congruence|].
      rewrite app_nil_r in Hrem, E. rewrite words_of_short in E by exact Hp. inversion E; subst. reflexivity. }
    cbn [andb]. rewrite Hcond. reflexivity.
  - inversion Hff as [|? ? Hf Hrest]; subst. cbn [app].
    assert (E0 : parse pending (Chunk cb false :: pre ++ Chunk bs true :: rest) =
                let (ws, rem) := words_of (pending ++ cb) in let (ws', p) := parse rem (pre ++ Chunk bs true :: rest) in (ws ++ ws', p)) by reflexivity.
    rewrite E0. clear E0.
    pose proof (words_of_rem_short (pending ++ cb)) as Hr.
    destruct (words_of (pending ++ cb)) as [ws rem] eqn:E. cbn [snd] in Hr.
    assert (Hall : words_of all = let (w2, r2) := words_of (rem ++ bytes_of pre ++ bs) in (ws ++ w2, r2)).
    { subst all. unfold bytes_of at 1. cbn [map concat]. fold (bytes_of pre).
      rewrite <- app_assoc. rewrite (app_assoc pending cb). rewrite words_of_app, E. reflexivity. }
    assert (Hpre : words_of (pending ++ bytes_of (Chunk cb false :: pre)) =
                   let (w2, r2) := words_of (rem ++ bytes_of pre) in (ws ++ w2, r2)).
    { unfold bytes_of at 1. cbn [map concat]. fold (bytes_of pre). rewrite app_assoc, words_of_app, E. reflexivity. }
    rewrite (IH rem bs rest Hrest Hr).
    + rewrite Hall. destruct (words_of (rem ++ bytes_of pre ++ bs)) as [w2 r2]. reflexivity.
    + cbv zeta. rewrite Hall in Hrem. rewrite Hpre in Hrem.
      destruct (words_of (rem ++ bytes_of pre ++ bs)) as [w2 r2]. destruct (words_of (rem ++ bytes_of pre)) as [w3 r3].
      cbn [snd] in *. exact Hrem.
Qed.

(** an error delivered together with the byte that completes a word is dropped (io.ReadFull) *)
Theorem parse_fault_dropped pending bs rest : length pending < 4 -> bs <> [] ->
  snd (words_of (pending ++ bs)) = [] ->
  parse pending (Chunk bs true :: rest) = parse pending (Chunk bs false :: rest).
Proof.
  intros Hp Hb Hrem. cbn [parse]. destruct (words_of (pending ++ bs)) as [ws rem]. cbn [snd] in Hrem. subst rem.
  destruct bs; [congruence|]. reflexivity.
Qed.

(** fail closed: on a starved stream the outcome is the PRNG panic, never a password *)
Theorem starved_is_panic {A} (g : gen (outcome A)) src :
  run_words g (fst (words_of_source src)) = RStarved -> fst (run_src g src) = Panic PPrng.
Proof. intros H. unfold run_src. destruct (words_of_source src) as [ws p]. cbn [fst] in H. rewrite H. reflexivity. Qed.

(** a password is returned only from complete words: the run used exactly the
    words it consumed, all of which precede the first failing read *)
Theorem done_uses_only_words {A} (g : gen (outcome A)) src a n :
  run_src g src = (Done a, n) ->
  exists rest, run_words g (fst (words_of_source src)) = RDone (Done a) rest.
Proof.
  unfold run_src. destruct (words_of_source src) as [ws p]. cbn [fst].
  destruct (run_words g ws) as [o rest| |rest]; intros H; inversion H; subst.
  exists rest. reflexivity.
Qed.
