(** Layer T (DESIGN §3.2): the exact number of m-word raw tapes on which the tape
    interpreter — the one the correspondence check runs against the Go code —
    finishes having consumed all m words and returning a, for every program, every m
    and every outcome: [rawcount g m a = NR m g a], a recursion whose coefficients
    are the counts [rej n], [fib n i] that C01 determines for every n. *)
From Spg.Base Require Import Prelude SumCount.
From Spg.Model Require Import Rand GenM.
From Spg.Proofs Require Import RandProofs.
Open Scope N_scope.

(** ---- sum by fibres, with the modulus abstract ---- *)
Section Fibres.
Variable W : N.
Hypothesis HW : W = 4294967296.
Notation stp := (stepW W).

Lemma sumBelow_delta n j (G : N -> N) : j < n ->
  sumBelow n (fun i => (if j =? i then 1 else 0) * G i) = G j.
Proof.
  intros Hj.
  assert (H : forall m, m <= n -> sumBelow m (fun i => (if j =? i then 1 else 0) * G i) = if j <? m then G j else 0).
  { induction m using N.peano_ind; intros Hm.
    - cbn. destruct (j <? 0) eqn:E; [lia|reflexivity].
    - rewrite sumBelow_succ, IHm by lia.
      destruct (j <? m) eqn:E1, (j =? m) eqn:E2, (j <? N.succ m) eqn:E3; try lia.
      apply N.eqb_eq in E2. subst. lia. }
  rewrite H by lia. destruct (j <? n) eqn:E; [reflexivity|lia].
Qed.

Lemma fibres_prefix n (F : option N -> N) : 1 <= n -> forall m,
  sumBelow m (fun v => F (stp n v)) =
  countBelow m (fun v => match stp n v with Some _ => false | None => true end) * F None +
  sumBelow n (fun i => countBelow m (fun v => match stp n v with Some j => j =? i | None => false end) * F (Some i)).
Proof.
  intros Hn. induction m using N.peano_ind.
  - unfold countBelow. rewrite !sumBelow_0.
    rewrite (sumBelow_ext n _ (fun _ => 0)); [rewrite sumBelow_zero; lia|]. intros i _. rewrite sumBelow_0. lia.
  - rewrite sumBelow_succ, IHm. unfold countBelow. rewrite sumBelow_succ.
    destruct (stp n m) as [j|] eqn:E.
    + rewrite (sumBelow_ext n (fun i => sumBelow (N.succ m) _ * F (Some i))
                 (fun i => sumBelow m (fun v => if match stp n v with Some j0 => j0 =? i | None => false end then 1 else 0) * F (Some i)
                           + (if j =? i then 1 else 0) * F (Some i))).
      * rewrite sumBelow_plus, (sumBelow_delta n j (fun i => F (Some i))) by (eapply (step_range W HW); eassumption). lia.
      * intros i _. rewrite sumBelow_succ, E. lia.
    + rewrite (sumBelow_ext n (fun i => sumBelow (N.succ m) _ * F (Some i))
                 (fun i => sumBelow m (fun v => if match stp n v with Some j0 => j0 =? i | None => false end then 1 else 0) * F (Some i))).
      * lia.
      * intros i _. rewrite sumBelow_succ, E. lia.
Qed.

Lemma fibres_identityW n (F : option N -> N) : 1 <= n ->
  sumBelow W (fun v => F (stp n v)) = rejW W n * F None + sumBelow n (fun i => fibW W n i * F (Some i)).
Proof. intros Hn. exact (fibres_prefix n F Hn W). Qed.
End Fibres.

Theorem fibres_identity n (F : option N -> N) : 1 <= n ->
  sumBelow W32 (fun v => F (step n v)) = rej n * F None + sumBelow n (fun i => fib n i * F (Some i)).
Proof. exact (fibres_identityW W32 eq_refl n F). Qed.

(** ---- counting tapes, with modulus and coefficients abstract ---- *)
Section RawCount.
Variable W : N.
Variables (rj : N -> N) (fb : N -> N -> N).
Hypothesis fibres : forall n (F : option N -> N), 1 <= n ->
  sumBelow W (fun v => F (step n v)) = rj n * F None + sumBelow n (fun i => fb n i * F (Some i)).
Context {A : Type}.
Variable aeqb : A -> A -> bool.

(** the interpreter consumes the whole tape and returns a *)
Definition hit (g : gen A) (a : A) (ws : list N) : bool :=
  match run_words g ws with RDone b [] => aeqb a b | _ => false end.

(** number of m-word tapes in [0,W)^m satisfying P *)
Fixpoint countL (m : nat) (P : list N -> bool) : N :=
  match m with
  | O => if P [] then 1 else 0
  | S m' => sumBelow W (fun v => countL m' (fun ws => P (v :: ws)))
  end.
Definition rawcount (g : gen A) (m : nat) (a : A) : N := countL m (hit g a).

Fixpoint NR (m : nat) (g : gen A) (a : A) : N :=
  match m with
  | O => match g with Ret b => if aeqb a b then 1 else 0 | Pick _ _ => 0 end
  | S m' => match g with
            | Ret _ => 0
            | Pick n k => if n =? 0 then 0 else rj n * NR m' g a + sumBelow n (fun i => fb n i * NR m' (k i) a)
            end
  end.

Lemma countL_ext m : forall P Q, (forall ws, P ws = Q ws) -> countL m P = countL m Q.
Proof.
  induction m as [|m IH]; intros P Q H; cbn [countL]; [rewrite H; reflexivity|].
  apply sumBelow_ext. intros v _. apply IH. intros ws. apply H.
Qed.
Lemma countL_false m : countL m (fun _ => false) = 0.
Proof. induction m as [|m IH]; cbn [countL]; [reflexivity|]. rewrite (sumBelow_ext W _ (fun _ => 0)) by (intros; apply IH). apply sumBelow_zero. Qed.

Lemma hit_cons_pick n k a v ws : n <> 0 ->
  hit (Pick n k) a (v :: ws) = match step n v with None => hit (Pick n k) a ws | Some i => hit (k i) a ws end.
Proof.
  intros Hn. unfold hit. cbn [run_words draw]. destruct (N.eqb_spec n 0) as [E|_]; [contradiction|].
  destruct (step n v); reflexivity.
Qed.
Lemma hit_pick_zero k a ws : hit (Pick 0 k) a ws = false.
Proof. reflexivity. Qed.
Lemma hit_ret_cons b a v ws : hit (Ret b) a (v :: ws) = false.
Proof. reflexivity. Qed.

Theorem rawcount_NR m : forall g a, rawcount g m a = NR m g a.
Proof.
  induction m as [|m IH]; intros g a; unfold rawcount in *.
  - cbn [countL NR]. destruct g as [b|n k]; unfold hit; cbn [run_words].
    + reflexivity.
    + destruct (n =? 0); [reflexivity|]. cbn [draw]. reflexivity.
  - cbn [countL NR]. destruct g as [b|n k].
    + rewrite (sumBelow_ext W _ (fun _ => 0)); [apply sumBelow_zero|].
      intros v _. rewrite (countL_ext m _ (fun _ => false)); [apply countL_false|]. intros ws. apply hit_ret_cons.
    + destruct (N.eqb_spec n 0) as [->|Hn].
      * rewrite (sumBelow_ext W _ (fun _ => 0)); [apply sumBelow_zero|].
        intros v _. rewrite (countL_ext m _ (fun _ => false)); [apply countL_false|]. intros ws. apply hit_pick_zero.
      * rewrite (sumBelow_ext W _ (fun v => (fun o => match o with None => NR m (Pick n k) a | Some i => NR m (k i) a end) (step n v))).
        -- rewrite (fibres n (fun o => match o with None => NR m (Pick n k) a | Some i => NR m (k i) a end)) by lia. reflexivity.
        -- intros v _.
           rewrite (countL_ext m _ (fun ws => match step n v with None => hit (Pick n k) a ws | Some i => hit (k i) a ws end))
             by (intros; apply hit_cons_pick; exact Hn).
           destruct (step n v); apply IH.
Qed.
End RawCount.

(** the instance at 2^32 with the counts of C01 *)
Definition NR32 {A} (aeqb : A -> A -> bool) := @NR rej fib A aeqb.
Definition rawcount32 {A} (aeqb : A -> A -> bool) := @rawcount W32 A aeqb.
Theorem rawcount_NR32 {A} (aeqb : A -> A -> bool) m (g : gen A) a : rawcount32 aeqb g m a = NR32 aeqb m g a.
Proof. exact (rawcount_NR W32 rej fib fibres_identity aeqb m g a). Qed.
