(** C03 (alphabet part): the alphabet built by buildCharacterList is exactly the
    set of allowed-or-required, non-excluded characters; the filter enforces
    exactly the required families that still have a non-excluded member. *)
From Spg.Base Require Import Prelude Utf8 Bytes.
From Spg.Model Require Import Tables CharSets.

Lemma in_flag_classes m ct :
  In ct (flag_classes m) <-> exists f, In (f, ct) flag_table /\ has_flag m f = true.
Proof.
  unfold flag_classes. rewrite in_map_iff. split.
  - intros ([f c] & <- & H). apply filter_In in H. destruct H as [H1 H2]. exists f. split; assumption.
  - intros (f & H1 & H2). exists (f, ct). split; [reflexivity|]. apply filter_In. split; assumption.
Qed.

Lemma in_concat_map {X Y} (f : X -> list Y) l y :
  In y (concat (map f l)) <-> exists x, In x l /\ In y (f x).
Proof.
  rewrite in_concat. split.
  - intros (ys & H1 & H2). apply in_map_iff in H1. destruct H1 as (x & <- & Hx). exists x. auto.
  - intros (x & Hx & Hy). exists (f x). split; [apply in_map; exact Hx|exact Hy].
Qed.

Lemma chars_of_In custom m g :
  In g (chars_of custom m) <-> In g (explode custom) \/ in_flags m g.
Proof.
  unfold chars_of, in_flags. rewrite dedup_In, in_app_iff, in_concat_map.
  split; intros [H|H]; auto; right.
  - destruct H as (ct & Hct & Hg). apply in_flag_classes in Hct. destruct Hct as (f & H1 & H2). exists f, ct. auto.
  - destruct H as (f & ct & H1 & H2 & H3). exists ct. split; [apply in_flag_classes; exists f; auto|exact H3].
Qed.

Lemma chars_of_NoDup custom m : NoDup (chars_of custom m).
Proof. apply dedup_NoDup. Qed.

Lemma excluded_set_In r g : In g (excluded_set r) <-> Excluded r g.
Proof. unfold excluded_set, Excluded. apply chars_of_In. Qed.

Lemma gset_In s g : In g (gset s) <-> In g (explode s).
Proof. apply dedup_In. Qed.

(** the strings the required sets come from *)
Definition req_sources (r : char_recipe) : list bytes :=
  filter (fun s => match s with [] => false | _ => true end) (crRequireSets r) ++ flag_classes (crRequire r).

Lemma required_sets_eq r :
  required_sets r = map (fun s => diff (gset s) (excluded_set r)) (req_sources r).
Proof. reflexivity. Qed.
Lemma req_families_eq r : req_families r = map explode (req_sources r).
Proof. reflexivity. Qed.

Lemma req_sources_In r s :
  In s (req_sources r) <->
  (In s (crRequireSets r) /\ s <> []) \/ (exists f, In (f, s) flag_table /\ has_flag (crRequire r) f = true).
Proof.
  unfold req_sources. rewrite in_app_iff, filter_In, in_flag_classes.
  split; intros [H|H]; auto.
  - left. destruct H as [H1 H2]. split; [assumption|]. destruct s; [discriminate|discriminate].
  - left. destruct H as [H1 H2]. split; [assumption|]. destruct s; [congruence|reflexivity].
Qed.

Lemma in_required r g :
  (exists R, In R (required_sets r) /\ In g R) <->
  ((exists s, In s (crRequireSets r) /\ In g (explode s)) \/ in_flags (crRequire r) g) /\ ~ Excluded r g.
Proof.
  rewrite required_sets_eq. split.
  - intros (R & HR & Hg). apply in_map_iff in HR. destruct HR as (s & <- & Hs).
    apply diff_In in Hg. destruct Hg as [Hg Hex]. rewrite gset_In in Hg. rewrite excluded_set_In in Hex.
    split; [|exact Hex]. apply req_sources_In in Hs. destruct Hs as [[Hs _]|(f & H1 & H2)].
    + left. exists s. auto.
    + right. exists f, s. auto.
  - intros [[(s & Hs & Hg)|(f & ct & H1 & H2 & H3)] Hex].
    + exists (diff (gset s) (excluded_set r)). split.
      * apply (in_map (fun s => diff (gset s) (excluded_set r))). apply req_sources_In. left. split; [assumption|]. intros ->. destruct Hg.
      * apply diff_In. rewrite gset_In, excluded_set_In. auto.
    + exists (diff (gset ct) (excluded_set r)). split.
      * apply (in_map (fun s => diff (gset s) (excluded_set r))). apply req_sources_In. right. exists f. auto.
      * apply diff_In. rewrite gset_In, excluded_set_In. auto.
Qed.

Lemma fold_left_diff_In Rs : forall a g,
  In g (fold_left (fun a R => diff a R) Rs a) <-> In g a /\ forall R, In R Rs -> ~ In g R.
Proof.
  induction Rs as [|R Rs IH]; intros a g; cbn [fold_left].
  - split; [intros H; split; [exact H|intros ? []]|intros [H _]; exact H].
  - rewrite IH, diff_In. split.
    + intros [[H1 H2] H3]. split; [exact H1|]. intros R' [<-|HR']; auto.
    + intros [H1 H2]. split; [split; [exact H1|apply H2; left; reflexivity]|]. intros R' HR'. apply H2. right. exact HR'.
Qed.

Lemma fold_left_diff_NoDup Rs : forall a, NoDup a -> NoDup (fold_left (fun a R => diff a R) Rs a).
Proof. induction Rs as [|R Rs IH]; intros a H; cbn [fold_left]; [exact H|]. apply IH, diff_NoDup, H. Qed.

Lemma allowed_set_In r g :
  In g (allowed_set r) <->
  (In g (explode (crAllowChars r)) \/ in_flags (crAllow r) g) /\ ~ Excluded r g /\
  ~ (exists R, In R (required_sets r) /\ In g R).
Proof.
  unfold allowed_set. rewrite fold_left_diff_In, diff_In, chars_of_In, excluded_set_In.
  split.
  - intros [[H1 H2] H3]. repeat split; auto. intros (R & HR & Hg). exact (H3 R HR Hg).
  - intros (H1 & H2 & H3). repeat split; auto. intros R HR Hg. apply H3. exists R. auto.
Qed.

Lemma req_union_In Rs g : In g (req_union Rs) <-> exists R, In R Rs /\ In g R.
Proof. unfold req_union. rewrite dedup_In, in_concat. reflexivity. Qed.

(** decidability of membership in some required set *)
Lemma in_required_dec r g :
  {exists R, In R (required_sets r) /\ In g R} + {~ exists R, In R (required_sets r) /\ In g R}.
Proof.
  destruct (existsb (fun R => mem g R) (required_sets r)) eqn:E.
  - left. apply existsb_exists in E. destruct E as (R & HR & Hg). exists R. split; [exact HR|apply mem_In; exact Hg].
  - right. intros (R & HR & Hg). assert (existsb (fun R => mem g R) (required_sets r) = true).
    { apply existsb_exists. exists R. split; [exact HR|apply mem_In; exact Hg]. }
    congruence.
Qed.

(** ---- alphabet_spec ---- *)
Theorem alphabet_In r g : In g (alphabet r) <-> Allowed r g.
Proof.
  unfold alphabet. rewrite sort_In, union_In, req_union_In, allowed_set_In, in_required.
  unfold Allowed, Mentioned. split.
  - intros [(H1 & H2 & _)|[H1 H2]]; (split; [|exact H2]); tauto.
  - intros [HM Hex]. destruct (in_required_dec r g) as [Hr|Hr].
    + right. apply in_required. exact Hr.
    + rewrite in_required in Hr. destruct HM as [H|[H|[H|H]]].
      * left. repeat split; auto.
      * left. repeat split; auto.
      * exfalso. apply Hr. split; [left; exact H|exact Hex].
      * exfalso. apply Hr. split; [right; exact H|exact Hex].
Qed.

Theorem alphabet_NoDup r : NoDup (alphabet r).
Proof. unfold alphabet. apply sort_NoDup. unfold union. apply dedup_NoDup. Qed.

Theorem alphabet_sorted r : sorted (alphabet r).
Proof. unfold alphabet. apply sort_sorted. Qed.

Theorem alphabet_excludes r g : Excluded r g -> ~ In g (alphabet r).
Proof. rewrite alphabet_In. intros H [_ Hn]. exact (Hn H). Qed.

(** the alphabet is determined by the set of allowed characters (canonical form) *)
Theorem alphabet_canonical r l :
  sorted l -> NoDup l -> (forall g, In g l <-> Allowed r g) -> l = alphabet r.
Proof.
  intros Hs Hn Hl. apply sorted_unique; auto using alphabet_sorted, alphabet_NoDup.
  intros g. rewrite Hl, alphabet_In. reflexivity.
Qed.

(** every character of the alphabet is a non-empty byte string *)
Lemma in_flags_nonempty m g : in_flags m g -> g <> [].
Proof. intros (f & ct & _ & _ & H). eapply explode_nonempty; exact H. Qed.
Lemma alphabet_glyph_nonempty r g : In g (alphabet r) -> g <> [].
Proof.
  rewrite alphabet_In. intros [[H|[H|[(s & _ & H)|H]]] _];
    eauto using explode_nonempty, in_flags_nonempty.
Qed.

(** ---- the filter ---- *)
Lemma hits_spec cand R : hits cand R = true <-> exists g, In g cand /\ In g R.
Proof.
  unfold hits. rewrite existsb_exists. split; intros (g & H1 & H2); exists g; split; auto; apply mem_In; assumption.
Qed.

Lemma require_filter_spec Rs cand :
  require_filter Rs cand = true <-> forall R, In R Rs -> R <> [] -> exists g, In g cand /\ In g R.
Proof.
  unfold require_filter. rewrite forallb_forall. split.
  - intros H R HR Hne. specialize (H R HR). destruct R as [|x R]; [congruence|]. apply hits_spec. exact H.
  - intros H R HR. destruct R as [|x R]; [reflexivity|]. apply hits_spec. apply H; [exact HR|discriminate].
Qed.

Lemma live_nonempty r s :
  diff (gset s) (excluded_set r) <> [] <-> Live r (explode s).
Proof.
  unfold Live. split.
  - intros H. destruct (diff (gset s) (excluded_set r)) as [|g0 l] eqn:E; [congruence|].
    assert (Hg : In g0 (diff (gset s) (excluded_set r))) by (rewrite E; left; reflexivity).
    apply diff_In in Hg. rewrite gset_In, excluded_set_In in Hg. exists g0. exact Hg.
  - intros (g0 & H1 & H2) E.
    assert (Hg : In g0 (diff (gset s) (excluded_set r))) by (apply diff_In; rewrite gset_In, excluded_set_In; auto).
    rewrite E in Hg. destruct Hg.
Qed.

Theorem filter_iff_families r cand :
  require_filter (required_sets r) cand = true <->
  forall F, In F (req_families r) -> Live r F -> exists g, In g cand /\ In g F /\ ~ Excluded r g.
Proof.
  rewrite require_filter_spec, required_sets_eq, req_families_eq. split.
  - intros H F HF HL. apply in_map_iff in HF. destruct HF as (s & <- & Hs).
    destruct (H (diff (gset s) (excluded_set r))) as (g & Hg1 & Hg2).
    + apply (in_map (fun s => diff (gset s) (excluded_set r))). exact Hs.
    + apply live_nonempty. exact HL.
    + apply diff_In in Hg2. rewrite gset_In, excluded_set_In in Hg2. exists g. tauto.
  - intros H R HR Hne. apply in_map_iff in HR. destruct HR as (s & <- & Hs).
    destruct (H (explode s)) as (g & Hg1 & Hg2 & Hg3).
    + apply (in_map explode). exact Hs.
    + apply live_nonempty. exact Hne.
    + exists g. split; [exact Hg1|]. apply diff_In. rewrite gset_In, excluded_set_In. auto.
Qed.

Theorem satisfies_iff r cand :
  Satisfies r cand <->
  Z.of_nat (length cand) = crLength r /\ (forall g, In g cand -> In g (alphabet r)) /\
  require_filter (required_sets r) cand = true.
Proof.
  unfold Satisfies. rewrite filter_iff_families. split; intros (H1 & H2 & H3).
  - split; [exact H1|]. split; [|exact H3]. intros x Hx. apply alphabet_In. apply H2. exact Hx.
  - split; [exact H1|]. split; [|exact H3]. intros x Hx. apply alphabet_In. apply H2. exact Hx.
Qed.

(** the filter only looks at live sets *)
Lemma require_filter_live r cand :
  require_filter (required_sets r) cand = forallb (hits cand) (live_sets r).
Proof.
  unfold require_filter, live_sets. induction (required_sets r) as [|R Rs IH]; [reflexivity|].
  cbn [forallb filter]. destruct R as [|x R]; [exact IH|]. cbn [forallb]. rewrite IH. reflexivity.
Qed.

(** a live set is a non-empty subset of the alphabet *)
Lemma live_sets_sub r R g : In R (live_sets r) -> In g R -> In g (alphabet r).
Proof.
  unfold live_sets. rewrite filter_In. intros [HR _] Hg.
  unfold alphabet. rewrite sort_In, union_In, req_union_In. right. exists R. auto.
Qed.
