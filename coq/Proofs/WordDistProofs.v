(** C04: the distribution of the wordlist generator's choices. *)
From Spg.Base Require Import Prelude Utf8 Bytes.
From Spg.Model Require Import Tables Rand GenM CharSets CharGen Token WordList WordGen.
From Spg.Proofs Require Import RandProofs GenProofs CharGenProofs WordGenProofs.
From Coq Require Import QArith Lqa.
Close Scope N_scope.

Section Dist.
Variable title : bytes -> bytes.
Variable b : budget.

(** the token list the loop assembles for capitalisation pattern [caps], word
    indices [idxs] and a constant separator [s] *)
Definition word_at (ws : list bytes) (c : bool) (i : N) : bytes :=
  let w0 := nth (N.to_nat i) ws [] in if c then title w0 else w0.

Fixpoint loop_const (ws : list bytes) (s : bytes) (caps : list bool) (idxs : list N) : list token :=
  match caps, idxs with
  | c :: caps', i :: idxs' =>
      atom_tok (word_at ws c i) ++
      match caps' with [] => [] | _ => sep_tok s ++ loop_const ws s caps' idxs' end
  | _, _ => []
  end.

(** each word is one independent uniform draw over the list: the loop's output
    distribution is the image of the uniform distribution on index vectors *)
Theorem expect_words_loop_const ws s caps phi :
  (expect (words_loop title b ws (SepChar s) caps) phi ==
   expect (picks (length caps) (N.of_nat (length ws))) (fun idxs => phi (loop_const ws s caps idxs)))%Q.
Proof.
  revert phi. induction caps as [|c caps IH]; intros phi; [reflexivity|].
  cbn [words_loop length picks expect].
  apply Qmult_comp; [reflexivity|]. apply sumQ_ext. intros i _.
  rewrite expect_bind. cbn [expect]. destruct caps as [|c' caps'].
  - cbn [picks expect loop_const length]. rewrite app_nil_r. unfold word_at, atom_tok.
    destruct (if c then _ else _); reflexivity.
  - cbn [sep_call bind]. rewrite expect_bind. rewrite IH. apply expect_ext. intros idxs.
    cbn [expect loop_const]. unfold word_at, atom_tok, sep_tok.
    destruct (if c then _ else _); destruct s; reflexivity.
Qed.

(** the same for a constant separator FUNCTION (SFNone, opgen's createSeparatorFunc) *)
Theorem expect_words_loop_constfun ws s caps phi :
  (expect (words_loop title b ws (SepConst s) caps) phi ==
   expect (picks (length caps) (N.of_nat (length ws))) (fun idxs => phi (loop_const ws s caps idxs)))%Q.
Proof.
  revert phi. induction caps as [|c caps IH]; intros phi; [reflexivity|].
  cbn [words_loop length picks expect].
  apply Qmult_comp; [reflexivity|]. apply sumQ_ext. intros i _.
  rewrite expect_bind. cbn [expect]. destruct caps as [|c' caps'].
  - cbn [picks expect loop_const length]. rewrite app_nil_r. unfold word_at, atom_tok.
    destruct (if c then _ else _); reflexivity.
  - cbn [sep_call bind]. rewrite expect_bind. rewrite IH. apply expect_ext. intros idxs.
    cbn [expect loop_const]. unfold word_at, atom_tok, sep_tok.
    destruct (if c then _ else _); destruct s; reflexivity.
Qed.

(** hence: every index vector in range has probability exactly (1/size)^L *)
Corollary words_uniform ws s caps phi : ws <> [] ->
  (expect (words_loop title b ws (SepChar s) caps) phi ==
   Qpow (/ NQ (N.of_nat (length ws))) (length caps) *
   lsumQ (vectors (N.of_nat (length ws)) (length caps)) (fun idxs => phi (loop_const ws s caps idxs)))%Q.
Proof.
  intros Hne. rewrite expect_words_loop_const. apply expect_picks. destruct ws; [congruence|cbn [length]; lia].
Qed.

(** 'one': the capitalised position is uniform over the L positions *)
Theorem expect_caps_one (L : nat) phi : (1 <= L)%nat ->
  (expect (caps_gen CapOne L) phi ==
   / NQ (N.of_nat L) * sumQ (N.of_nat L) (fun w => phi (map (fun i => Nat.eqb i (N.to_nat w)) (seq 0 L))))%Q.
Proof. intros _. reflexivity. Qed.

(** 'random': every subset of positions is equally likely, (1/2)^L each *)
Theorem expect_caps_random (L : nat) phi :
  (expect (caps_gen CapRandom L) phi ==
   Qpow (/ NQ 2) L * lsumQ (vectors 2 L) (fun v => phi (map (fun x => N.eqb x 1) v)))%Q.
Proof. cbn [caps_gen]. rewrite expect_fmap. apply expect_picks. lia. Qed.

(** the other schemes draw nothing *)
Theorem caps_deterministic c (L : nat) : c <> CapOne -> c <> CapRandom -> exists caps, caps_gen c L = Ret caps.
Proof. destruct c; intros H1 H2; try congruence; eexists; reflexivity. Qed.

(** The whole generator with a constant separator: the output distribution is the
    image, under the rendering map, of (capitalisation pattern drawn by the
    scheme) x (uniform, independent word indices). *)
Theorem wl_generate_const_dist wl L s c phi :
  wlWords wl <> [] -> (1 <= L)%Z ->
  let r := mkWLR (Some wl) L (SepChar s) c in
  let e0 := mkWLE L (N.of_nat (length (wlWords wl))) (bonus_of wl c) None in
  (expect (wl_generate title b r) phi ==
   expect (caps_gen c (Z.to_nat L)) (fun caps =>
     Qpow (/ NQ (N.of_nat (length (wlWords wl)))) (length caps) *
     lsumQ (vectors (N.of_nat (length (wlWords wl))) (length caps))
           (fun idxs => phi (Done (loop_const (wlWords wl) s caps idxs, e0)))))%Q.
Proof.
  intros Hne HL r e0. rewrite wl_generate_decision. cbn [wrList wrLength wrSep wrCap r].
  destruct (wlWords wl) as [|w0 ws0] eqn:Ew; [congruence|]. rewrite <- Ew in *.
  destruct (L <? 1)%Z eqn:EL; [lia|].
  rewrite expect_bind. apply expect_ext. intros caps.
  rewrite expect_bind. rewrite words_uniform by exact Hne.
  apply Qmult_comp; [reflexivity|]. apply lsumQ_ext. intros idxs _.
  unfold wl_entropy_gen. subst r e0. cbn [wrSep wrLength wrCap bind expect]. rewrite ?Ew. reflexivity.
Qed.
End Dist.
