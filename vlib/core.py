"""Build, run-both-sides, diff, verdict, evidence (DESIGN.md §5)."""
import os, sys, json, time, hashlib, subprocess, fcntl, shutil, tempfile, re, glob, random

VERIF = os.path.dirname(os.path.dirname(os.path.abspath(__file__)))
REPO = os.environ.get("SPG_REPO", "/repo")
COQ = os.path.join(VERIF, "coq")
BUILD = os.path.join(VERIF, "build")
EVID = os.path.join(VERIF, "evidence")
REPLAYS = os.path.join(VERIF, "replays")
CORPUS = os.path.join(VERIF, "corpus")

GOENV = dict(os.environ, GOFLAGS="-mod=mod", GOPROXY="off", GOSUMDB="off", GOTOOLCHAIN="local",
             CGO_ENABLED=os.environ.get("CGO_ENABLED", "0"))

COQ_TIMEOUT = int(os.environ.get("VERIF_COQ_TIMEOUT", "1500"))

TRUSTED_BASE = [
    "Coq 8.16.1 kernel and its bytecode VM (vm_compute); native_compute not used",
    "no axioms: every property theorem prints 'Closed under the global context'",
    "hand-written Gallina model of the spg algorithms, tied to /repo by the differential correspondence check (Go harness built with -tags verif vs OCaml extraction) and by the translator spg2coq regenerating coq/Gen/*.v from the current source",
    "extraction with ExtrOcamlBasic only (bool, option, unit, list, prod, sumbool, sumor mapped to OCaml types; andb/orb inlined); N, Z, positive, nat, Q stay Coq inductives; OCaml 4.13.1",
    "glue: OCaml driver (line parsing/printing), vlib/*.py (case generation, canonicalisation, float tolerances, direct oracles), harness spgdrive (scripted crypto/rand.Reader, fd capture, panic recovery)",
    "Go toolchain go1.23.5 (crypto/rand.Read = io.ReadFull(Reader, b)); golang-set v1.7.1, strings.Title, utf8, math.Log2/Pow/Exp2 modelled or compared with tolerance, not verified",
]


def sh(cmd, cwd=None, timeout=None, env=None, input=None):
    """Run a command, return (rc, combined output)."""
    try:
        p = subprocess.run(cmd, cwd=cwd, env=env, input=input, timeout=timeout,
                           stdout=subprocess.PIPE, stderr=subprocess.STDOUT, text=True,
                           shell=isinstance(cmd, str))
        return p.returncode, p.stdout
    except subprocess.TimeoutExpired as e:
        out = e.stdout or ""
        if isinstance(out, bytes):
            out = out.decode("utf-8", "replace")
        return 124, out + "\n[timeout after %ss]" % timeout


def file_hash(paths):
    h = hashlib.sha256()
    for p in sorted(paths):
        h.update(p.encode())
        try:
            with open(p, "rb") as f:
                h.update(f.read())
        except OSError:
            h.update(b"<missing>")
    return h.hexdigest()


def repo_files():
    out = []
    for pat in ("*.go", "cmd/opgen/*.go", "testdata/*", "go.mod", "go.sum"):
        out += glob.glob(os.path.join(REPO, pat))
    return [p for p in out if os.path.isfile(p)]


def verif_files():
    out = []
    for root in ("coq/Base", "coq/Model", "coq/Proofs", "coq/Properties", "coq/Extract"):
        out += glob.glob(os.path.join(VERIF, root, "*.v"))
    out += glob.glob(os.path.join(VERIF, "coq/Extract/*.ml"))
    out += glob.glob(os.path.join(VERIF, "harness/*.go")) + glob.glob(os.path.join(VERIF, "translator/*.go"))
    out += glob.glob(os.path.join(VERIF, "harness_race/*.go"))
    out += [os.path.join(VERIF, "coq/_CoqProject")]
    return out


class BuildStatus:
    def __init__(self, d=None):
        d = d or {}
        self.ok = d.get("ok", False)
        self.fingerprint = d.get("fingerprint", "")
        self.translator_ok = d.get("translator_ok", False)
        self.translator_log = d.get("translator_log", "")
        self.coq_ok = d.get("coq_ok", False)
        self.coq_log = d.get("coq_log", "")
        self.vo_ok = d.get("vo_ok", {})          # .v path (relative to coq/) -> bool
        self.model_ok = d.get("model_ok", False)
        self.model_log = d.get("model_log", "")
        self.harness_ok = d.get("harness_ok", False)
        self.harness_log = d.get("harness_log", "")
        self.opgen_ok = d.get("opgen_ok", False)
        self.race_ok = d.get("race_ok", False)
        self.race_log = d.get("race_log", "")
        self.hygiene = d.get("hygiene", [])
        self.wall_s = d.get("wall_s", 0.0)

    def to_dict(self):
        return dict(self.__dict__)


def coq_vfiles():
    with open(os.path.join(COQ, "_CoqProject")) as f:
        return [l.strip() for l in f if l.strip().endswith(".v")]


HYGIENE_RE = re.compile(r"\b(Admitted|admit|Axiom|Axioms|Parameter|Parameters|Conjecture|Conjectures|Admit Obligations|"
                        r"Unset Guard Checking|Unset Positivity Checking|Unset Universe Checking|bypass_check|"
                        r"type-in-type|impredicative-set|native_compute)\b")


def strip_coq_comments(s):
    """remove (* ... *) comments (nested), leaving string literals alone (a literal may contain "(*")"""
    out = []
    depth = 0
    i = 0
    in_str = False
    while i < len(s):
        c = s[i]
        if in_str:
            if depth == 0:
                out.append(c)
            if c == '"':
                if s.startswith('""', i):       # escaped quote inside a literal
                    if depth == 0:
                        out.append('"')
                    i += 2
                    continue
                in_str = False
            i += 1
        elif c == '"':
            in_str = True
            if depth == 0:
                out.append(c)
            i += 1
        elif s.startswith("(*", i):
            depth += 1
            i += 2
        elif s.startswith("*)", i) and depth > 0:
            depth -= 1
            i += 2
        else:
            if depth == 0:
                out.append(c)
            i += 1
    return "".join(out)


def hygiene_scan():
    bad = []
    for v in glob.glob(os.path.join(COQ, "**", "*.v"), recursive=True):
        with open(v) as f:
            src = strip_coq_comments(f.read())
        # string literals in generated data cannot contain these as commands; scan line-wise
        for n, line in enumerate(src.split("\n"), 1):
            if line.lstrip().startswith('"'):
                continue
            m = HYGIENE_RE.search(line)
            if m:
                bad.append("%s:%d: %s" % (os.path.relpath(v, VERIF), n, m.group(1)))
        # top-level Variable/Hypothesis outside a section
        depth = 0
        for n, line in enumerate(src.split("\n"), 1):
            t = line.strip()
            if re.match(r"^Section\b", t):
                depth += 1
            elif re.match(r"^End\b", t) and depth > 0:
                depth -= 1
            elif depth == 0 and re.match(r"^(Variable|Variables|Hypothesis|Hypotheses|Context)\b", t):
                bad.append("%s:%d: %s outside a section" % (os.path.relpath(v, VERIF), n, t.split()[0]))
    with open(os.path.join(COQ, "_CoqProject")) as f:
        for line in f:
            if re.search(r"type-in-type|impredicative-set|-noinit|bypass", line):
                bad.append("_CoqProject: " + line.strip())
    return bad


def build_all(verbose=False, force=False):
    os.makedirs(BUILD, exist_ok=True)
    t0 = time.time()
    with open(os.path.join(BUILD, ".lock"), "w") as lk:
        fcntl.flock(lk, fcntl.LOCK_EX)
        fp = file_hash(repo_files() + verif_files())
        stpath = os.path.join(BUILD, "status.json")
        if not force and os.path.exists(stpath):
            try:
                st = BuildStatus(json.load(open(stpath)))
                if st.fingerprint == fp:
                    return st
            except Exception:
                pass
        st = BuildStatus()
        st.fingerprint = fp

        def say(*a):
            if verbose:
                print(*a, flush=True)

        # 1. translator: regenerate coq/Gen/*.v from the current source
        tdir = os.path.join(VERIF, "translator")
        if os.path.exists(os.path.join(tdir, "main.go")) and os.path.exists(os.path.join(tdir, "READY")):
            shutil.copy(os.path.join(REPO, "go.sum"), os.path.join(tdir, "go.sum"))
            rc, out = sh(["go", "build", "-o", os.path.join(BUILD, "spg2coq"), "."], cwd=tdir, env=GOENV, timeout=600)
            if rc == 0:
                rc, out2 = sh([os.path.join(BUILD, "spg2coq"), "-repo", REPO, "-out", os.path.join(COQ, "Gen")],
                              env=GOENV, timeout=600)
                out += out2
            st.translator_ok = (rc == 0)
            st.translator_log = out[-4000:]
            say("translator:", "ok" if rc == 0 else "FAILED\n" + out[-2000:])
        else:
            st.translator_ok = True

        # 2. Coq: full .vo build
        mk = os.path.join(COQ, "Makefile")
        cp = os.path.join(COQ, "_CoqProject")
        if not os.path.exists(mk) or os.path.getmtime(mk) < os.path.getmtime(cp):
            sh(["coq_makefile", "-f", "_CoqProject", "-o", "Makefile"], cwd=COQ, timeout=120)
        if force:
            pass
        rc, out = sh(["make", "-k", "-j16"], cwd=COQ, timeout=COQ_TIMEOUT)
        st.coq_ok = (rc == 0)
        errs = [m.start() for m in re.finditer(r'File "\./', out)]
        st.coq_log = (("".join(out[i:i + 700] + "\n...\n" for i in errs[:6])) + out[-3000:]) if errs else out[-6000:]
        say("coq make:", "ok" if rc == 0 else "FAILED\n" + out[-3000:])
        vo_ok = {}
        for v in coq_vfiles():
            vo = os.path.join(COQ, v[:-2] + ".vo")
            if rc == 0:
                vo_ok[v] = os.path.exists(vo)
            else:
                # up to date iff make -q says so
                rq, _ = sh(["make", "-q", v[:-2] + ".vo"], cwd=COQ, timeout=120)
                vo_ok[v] = (rq == 0 and os.path.exists(vo))
        st.vo_ok = vo_ok
        st.hygiene = hygiene_scan()

        # 3. extracted model -> modelrun
        ml = os.path.join(COQ, "model.ml")
        exe = os.path.join(BUILD, "modelrun")
        if vo_ok.get("Extract/Extract.v") and os.path.exists(ml):
            bdir = os.path.join(BUILD, "ocaml")
            os.makedirs(bdir, exist_ok=True)
            for f in ("model.ml", "model.mli"):
                shutil.copy(os.path.join(COQ, f), os.path.join(bdir, f))
            shutil.copy(os.path.join(COQ, "Extract", "driver.ml"), os.path.join(bdir, "driver.ml"))
            stamp = file_hash([os.path.join(bdir, f) for f in ("model.ml", "model.mli", "driver.ml")])
            stampf = os.path.join(bdir, "stamp")
            if os.path.exists(exe) and os.path.exists(stampf) and open(stampf).read() == stamp:
                st.model_ok = True
            else:
                rc, out = sh(["ocamlfind", "ocamlopt", "-w", "-a", "-package", "zarith", "-linkpkg",
                              "model.mli", "model.ml", "driver.ml", "-o", exe], cwd=bdir, timeout=600)
                st.model_ok = (rc == 0)
                st.model_log = out[-3000:]
                if rc == 0:
                    open(stampf, "w").write(stamp)
            say("modelrun:", "ok" if st.model_ok else "FAILED\n" + st.model_log)
        else:
            st.model_ok = False
            st.model_log = "Extract.vo not built"
            say("modelrun: extraction not built")

        # 4. harness from /repo with -tags verif
        hdir = os.path.join(VERIF, "harness")
        # the module file is instantiated for the tree under test (default /repo; SPG_REPO for scratch copies)
        modfile = os.path.join(BUILD, "harness.mod")
        with open(os.path.join(hdir, "go.mod")) as f:
            mod = f.read().replace("=> /repo", "=> " + REPO)
        open(modfile, "w").write(mod)
        shutil.copy(os.path.join(REPO, "go.sum"), os.path.join(BUILD, "harness.sum"))
        rc, out = sh(["go", "build", "-modfile", modfile, "-tags", "verif", "-o", os.path.join(BUILD, "spgdrive"), "."],
                     cwd=hdir, env=GOENV, timeout=600)
        st.harness_ok = (rc == 0)
        st.harness_log = out[-4000:]
        say("spgdrive:", "ok" if rc == 0 else "FAILED\n" + out[-2000:])
        # race-detector build of the sharing stress program (C14); needs cgo
        rdir = os.path.join(VERIF, "harness_race")
        rmod = os.path.join(BUILD, "race.mod")
        with open(os.path.join(rdir, "go.mod")) as f:
            open(rmod, "w").write(f.read().replace("=> /repo", "=> " + REPO))
        shutil.copy(os.path.join(REPO, "go.sum"), os.path.join(BUILD, "race.sum"))
        rc, out = sh(["go", "build", "-race", "-modfile", rmod, "-o", os.path.join(BUILD, "spgrace"), "."],
                     cwd=rdir, env=dict(GOENV, CGO_ENABLED="1"), timeout=900)
        st.race_ok = (rc == 0)
        st.race_log = out[-3000:]
        say("spgrace (-race):", "ok" if rc == 0 else "FAILED\n" + out[-2000:])
        rc, out = sh(["go", "build", "-tags", "verif", "-o", os.path.join(BUILD, "opgen"), "./cmd/opgen"],
                     cwd=REPO, env=GOENV, timeout=600)
        st.opgen_ok = (rc == 0)
        if rc != 0:
            st.harness_log += "\nopgen: " + out[-2000:]
        rc2, out2 = sh(["go", "build", "-o", os.path.join(BUILD, "opgen_plain"), "./cmd/opgen"],
                       cwd=REPO, env=GOENV, timeout=600)
        # warm the model's cache of the two shipped lists (the model's own quadratic normalisation, run once)
        if st.model_ok:
            t1 = time.time()
            run_model(["x cli 2 776f726473 2d2d73697a653d31 0 ascii 1 0000000000000000 0",
                       "y cli 3 776f726473 2d2d6c6973743d73796c6c61626c6573 2d2d73697a653d31 0 ascii 1 0000000000000000 0"], timeout=900)
            say("list cache: %.1fs" % (time.time() - t1))
        st.ok = bool(st.translator_ok and st.coq_ok and st.model_ok and st.harness_ok and not st.hygiene)
        st.wall_s = time.time() - t0
        json.dump(st.to_dict(), open(stpath, "w"), indent=1)
        return st


# ------------------------------------------------------------------ running both sides

TIMEOUTS = []     # (executable, first case without a result, seconds) for every run of this check that had to be stopped


LINE_TIMEOUT = 900     # seconds one batch of cases may take (set per tier in run_check)


def run_lines(exe, lines, timeout=None, env=None):
    """Feed case lines to an executable, return {id: result string}.  On a timeout (a case on which the program under test does
    not terminate) the results printed so far are kept and the note names the first case without a result."""
    timeout = timeout or LINE_TIMEOUT
    if any(t[0] == os.path.basename(exe) == "spgdrive" for t in TIMEOUTS):
        return {}, "not run: the implementation already failed to terminate on an earlier case of this check"
    data = "\n".join(lines) + "\n"
    timed_out = None
    try:
        p = subprocess.run([exe], input=data, stdout=subprocess.PIPE, stderr=subprocess.PIPE, text=True,
                           timeout=timeout, env=env)
        out, rc, err = p.stdout, p.returncode, p.stderr
    except subprocess.TimeoutExpired as e:
        out = e.stdout or ""
        if isinstance(out, bytes):
            out = out.decode("utf-8", "replace")
        rc, err, timed_out = 0, "", timeout
    res = {}
    for line in out.split("\n"):
        if not line:
            continue
        i = line.find(" ")
        if i < 0:
            res[line] = ""
        else:
            res[line[:i]] = line[i + 1:]
    note = ""
    if timed_out is not None:
        missing = [l.split(" ", 1)[0] for l in lines if l.split(" ", 1)[0] not in res]
        if missing:
            TIMEOUTS.append((os.path.basename(exe), next(l for l in lines if l.startswith(missing[0] + " ")).split(" ", 1)[1], timed_out))
        note = "timeout after %d s; %d of %d cases have no result, the first being %s" % (timed_out, len(missing), len(lines), (missing[0] + ": " + next(
            l for l in lines if l.startswith(missing[0] + " "))[:300]) if missing else "-")
    elif rc != 0:
        note = "exit %d: %s" % (rc, err[-500:])
    return res, note


PANIC_MESSAGES = {}   # result text -> panic message of the last implementation run (what an uncaught panic would print)


def env_gates():
    """environment variables the library source consults: string literals handed to os.Getenv / os.LookupEnv in the non-test
    files of the package (empty on the pinned tree).  The search for a failing input re-runs cases with each of them set."""
    names = set()
    for f in sorted(os.listdir(REPO)):
        if f.endswith(".go") and not f.endswith("_test.go"):
            try:
                src = open(os.path.join(REPO, f), encoding="utf-8", errors="replace").read()
            except OSError:
                continue
            names.update(re.findall(r'os\.(?:Getenv|LookupEnv)\(\s*"([A-Za-z_][A-Za-z0-9_]*)"', src))
    return sorted(names)


def run_impl(lines, timeout=None, extra_env=None):
    res, note = run_lines(os.path.join(BUILD, "spgdrive"), lines, timeout, env=dict(GOENV, **extra_env) if extra_env else GOENV)
    for k, v in list(res.items()):
        i = v.rfind(" pmsg=")
        if i >= 0:
            res[k] = v[:i]
            PANIC_MESSAGES[(k, v[:i])] = unhx(v[i + 6:])
    return res, note


MODEL_LINES = []     # every case line given to the extracted model during this check (the kernel sample is drawn from these)


def model_env(extra=None):
    cache = os.path.join(BUILD, "cache")
    os.makedirs(cache, exist_ok=True)
    env = dict(os.environ, VERIF_CACHE_DIR=cache, SPG_LISTS_DIR=os.path.join(REPO, "testdata"))
    env.pop("MODELRUN_COQ", None)
    if extra:
        env.update(extra)
    return env


def run_model(lines, timeout=None):
    """The extracted model is a pure function of each line: the batch is dealt out into chunks that run in parallel
    (the implementation, whose state may carry over from case to case, always runs as one process in the given order)."""
    MODEL_LINES.extend(lines)
    exe = os.path.join(BUILD, "modelrun")
    if len(lines) < 64:
        return run_lines(exe, lines, timeout, env=model_env())
    from concurrent.futures import ThreadPoolExecutor
    k = min(12, max(2, len(lines) // 32))
    chunks = [lines[i::k] for i in range(k)]          # dealt out like cards: expensive neighbours end up in different chunks
    with ThreadPoolExecutor(max_workers=len(chunks)) as ex:
        outs = list(ex.map(lambda c: run_lines(exe, c, timeout, env=model_env()), chunks))
    res, notes = {}, []
    for r, n in outs:
        res.update(r)
        if n:
            notes.append(n)
    return res, "; ".join(notes)


KERNEL_HEADER = """From Spg.Base Require Import Prelude Utf8 Bytes.
From Spg.Model Require Import Tables Rand GenM CharSets CharGen Token WordList WordGen Api Diag Cli.
From Spg.Extract Require Import Extract.
Close Scope N_scope.
"""


def kernel_sample(ctx, k):
    """Re-evaluate a sample of this run's model cases INSIDE Coq (vm_compute, checked by the kernel at Qed) and require the
    values the extracted OCaml program computed: ties the kernel's model to the extracted code on cases that were also compared
    with the implementation.  Returns a dict for the evidence; a failure is a broken correspondence."""
    def light(l):
        f = l.split(" ")
        if len(l) >= 3000:                       # long tapes (hundreds of attempts) are for the extracted program
            return False
        if len(f) > 2 and f[1] in ("recipe", "chargen"):      # big-number arithmetic and long candidates are slow inside the VM
            try:
                return int(f[2]) <= (200 if f[1] == "recipe" else 64)
            except ValueError:
                return True
        return True
    lines = [l for l in MODEL_LINES if light(l)]
    if not lines:
        return {"cases": 0, "goals": 0, "ok": True}
    rng = random.Random(ctx.seed + 77)
    pick = lines[:4] + rng.sample(lines, min(k, len(lines)))
    # builtin-list cli cases would print an 18k-word list as a term: keep only file/character command lines
    pick = [l for l in pick if not (l.split(" ")[1] == "cli" and "776f726473" in l.split(" ")[3:4] and "2d2d66696c65" not in l)]
    path = os.path.join(ctx.scratch, "KernelSample.v")
    body = os.path.join(ctx.scratch, "goals.v")
    if os.path.exists(body):
        os.remove(body)
    run_lines(os.path.join(BUILD, "modelrun"), pick, 600, env=model_env({"MODELRUN_COQ": body}))
    goals = open(body).read() if os.path.exists(body) else ""
    ng = goals.count("\nGoal ") + (1 if goals.startswith("Goal ") else 0)
    if ng == 0:
        return {"cases": len(pick), "goals": 0, "ok": True}
    open(path, "w").write(KERNEL_HEADER + goals)
    args = ["coqc"]
    for d in ("Base", "Model", "Proofs", "Properties", "Gen", "Extract"):
        args += ["-Q", os.path.join(COQ, d), "Spg." + d]
    rc, out = sh(args + [path], cwd=ctx.scratch, timeout=900)
    res = {"cases": len(pick), "goals": ng, "ok": rc == 0}
    if rc != 0:
        m = re.search(r"line (\d+)", out)
        case = ""
        if m:
            ln = int(m.group(1))
            src = (KERNEL_HEADER + goals).split("\n")
            for j in range(min(ln, len(src)) - 1, -1, -1):
                if src[j].startswith("(* case "):
                    case = src[j]
                    break
        res["failure"] = (case + " " + out[-600:]).strip()
    return res


def hx(b):
    if isinstance(b, str):
        b = b.encode("utf-8")
    return b.hex() if b else "-"


def unhx(s):
    return b"" if s == "-" else bytes.fromhex(s)


def src_tokens(chunks):
    """chunks: list of (bytes, fail)."""
    out = [str(len(chunks))]
    for bs, fail in chunks:
        out.append(hx(bs))
        out.append("1" if fail else "0")
    return " ".join(out)


def flat_tape(words):
    """a fault-free tape delivering the given raw 32-bit words in one chunk."""
    b = b"".join(int(w).to_bytes(4, "big") for w in words)
    return [(b, False)]


def parse_fields(res):
    """'ok 7 consumed=4 stdout=- stderr=-' -> (head tokens, dict)."""
    head, kv = [], {}
    for tok in res.split(" "):
        if "=" in tok and not head_is_open(tok):
            k, v = tok.split("=", 1)
            kv[k] = v
        else:
            head.append(tok)
    return head, kv


def head_is_open(tok):
    return False


# ------------------------------------------------------------------ proofs

def theorem_names(vfile):
    with open(os.path.join(COQ, vfile)) as f:
        src = strip_coq_comments(f.read())
    return re.findall(r"^\s*(?:Theorem|Corollary)\s+([A-Za-z0-9_']+)", src, re.M)


def dep_closure(vfile):
    """All project .v files the given one depends on (by its Require lines), itself included."""
    allv = {}
    for v in coq_vfiles():
        mod = v[:-2].split("/")
        allv[(mod[0], mod[1])] = v
    seen, todo = set(), [vfile]
    while todo:
        v = todo.pop()
        if v in seen:
            continue
        seen.add(v)
        try:
            src = strip_coq_comments(open(os.path.join(COQ, v)).read())
        except OSError:
            continue
        for m in re.finditer(r"From\s+Spg\.(\w+)\s+Require\s+(?:Import|Export)?\s*([^.]*)\.", src):
            for name in m.group(2).split():
                key = (m.group(1), name)
                if key in allv:
                    todo.append(allv[key])
    return sorted(seen)


def count_obligations(files):
    n = 0
    for v in files:
        try:
            src = strip_coq_comments(open(os.path.join(COQ, v)).read())
        except OSError:
            continue
        n += len(re.findall(r"\b(Qed|Defined)\.", src))
    return n


def print_assumptions(prop_vfile, scratch):
    """Compile a tiny file that Requires the property file and prints the assumptions of each theorem."""
    names = theorem_names(prop_vfile)
    mod = "Spg." + prop_vfile[:-2].replace("/", ".")
    body = "Require Import %s.\n" % mod + "".join("Print Assumptions %s.\n" % n for n in names)
    path = os.path.join(scratch, "Assump.v")
    open(path, "w").write(body)
    args = ["coqc"]
    for d in ("Base", "Model", "Proofs", "Properties", "Gen", "Extract"):
        args += ["-Q", os.path.join(COQ, d), "Spg." + d]
    rc, out = sh(args + [path], cwd=scratch, timeout=600)
    closed = out.count("Closed under the global context")
    axioms = []
    if rc != 0 or closed != len(names):
        axioms = [l for l in out.split("\n") if l.strip() and "Closed under" not in l]
    return names, closed, axioms, rc


def failing_statements(log):
    """(file, line, name of the enclosing Theorem/Lemma/Example) for every error location in a make/coqc log"""
    out = []
    for m in re.finditer(r'File "\./([^"]+\.v)", line (\d+)', log):
        f, ln = m.group(1), int(m.group(2))
        name = "?"
        try:
            src = open(os.path.join(COQ, f)).read().split("\n")
            for j in range(min(ln, len(src)) - 1, -1, -1):
                mm = re.match(r"\s*(Theorem|Lemma|Corollary|Example|Definition|Fixpoint)\s+([A-Za-z0-9_']+)", src[j])
                if mm:
                    name = mm.group(2)
                    break
        except OSError:
            pass
        if (f, ln, name) not in out:
            out.append((f, ln, name))
    return out


def coqchk_once(fingerprint):
    """thorough tier: re-check every compiled property file (and all they depend on) with the independent checker coqchk and
    list the axioms; cached per build fingerprint"""
    cpath = os.path.join(BUILD, "coqchk.json")
    try:
        c = json.load(open(cpath))
        if c.get("fingerprint") == fingerprint:
            return c
    except Exception:
        pass
    mods = ["Spg.Properties." + os.path.basename(v)[:-2] for v in coq_vfiles() if v.startswith("Properties/")]
    args = ["coqchk", "-silent", "-o"]
    for d in ("Base", "Model", "Proofs", "Properties", "Gen", "Extract"):
        args += ["-Q", d, "Spg." + d]
    t0 = time.time()
    rc, out = sh(args + mods, cwd=COQ, timeout=5400)
    m = re.search(r"\* Axioms:(.*?)\n\s*\n", out, re.S)
    axioms = (m.group(1).strip() if m else "?")
    c = {"fingerprint": fingerprint, "rc": rc, "axioms": axioms, "modules": mods, "wall_s": round(time.time() - t0, 1), "tail": out[-1500:]}
    json.dump(c, open(cpath, "w"), indent=1)
    return c


# ------------------------------------------------------------------ verdict / evidence

def load_known():
    p = os.path.join(VERIF, "known_findings.json")
    if not os.path.exists(p):
        return []
    return json.load(open(p)).get("findings", [])


class Ctx:
    """Per-run context handed to a property module."""

    def __init__(self, prop, tier, seed, build, scratch):
        self.prop, self.tier, self.seed, self.build, self.scratch = prop, tier, seed, build, scratch
        self.rng = random.Random(seed * 1000003 + int(prop[1:]))
        self.evaluations = 0
        self.nontrivial = set()
        self.samples = []
        self.hist = {}
        self.mismatches = []        # correspondence disagreements: dicts
        self.violations = []        # concrete failing inputs of the property: dicts
        self.known_hits = []        # (finding, detail)
        self.notes = []
        self.traces_validated = 0
        self.families = {}

    def count(self, key, n=1):
        self.hist[key] = self.hist.get(key, 0) + n

    def sample(self, obj, limit=6):
        if len(self.samples) < limit:
            self.samples.append(obj)

    def compare(self, family, cases, canon=None, model_lines=None, sample_every=0):
        """cases: list of (line_without_id, meta). Runs both sides and records mismatches.
        Returns list of (meta, impl_result, model_result)."""
        lines = ["%s%d %s" % (family[0], i, c[0]) for i, c in enumerate(cases)]
        impl, note1 = run_impl(lines)
        mlines = lines if model_lines is None else ["%s%d %s" % (family[0], i, l) for i, l in enumerate(model_lines)]
        model, note2 = run_model(mlines)
        if note1:
            self.notes.append("impl runner (%s): %s" % (family, note1))
        if note2:
            self.notes.append("model runner (%s): %s" % (family, note2))
        out = []
        fam = self.families.setdefault(family, {"cases": 0, "mismatches": 0})
        for i, c in enumerate(cases):
            cid = "%s%d" % (family[0], i)
            a, b = impl.get(cid), model.get(cid)
            self.evaluations += 1
            fam["cases"] += 1
            ca, cb = (a, b) if canon is None else (canon(a, c[1]) if a is not None else None, canon(b, c[1]) if b is not None else None)
            if a is None or b is None or ca != cb:
                fam["mismatches"] += 1
                self.mismatches.append({"family": family, "case": lines[i], "impl": a, "model": b, "meta": c[1]})
            else:
                self.traces_validated += 1
            out.append((c[1], a, b))
        return out


def write_evidence(ctx, proof, wall_s, violations):
    os.makedirs(EVID, exist_ok=True)
    ev = {
        "property_id": ctx.prop,
        "tier": ctx.tier,
        "seed": ctx.seed,
        "level": "proof",
        "coverage": {
            "obligations": proof["obligations"],
            "discharged": proof["discharged"],
            "checker_cmd": "make -C /verif/coq -j16 (coq_makefile, full .vo build, coqc 8.16.1) + coqc Print Assumptions on every theorem of " + proof["prop_file"],
            "trusted_base": TRUSTED_BASE,
            "theorems": proof["theorems"],
            "theorems_closed_under_global_context": proof["closed"],
            "axioms_reported": proof["axioms"],
            "proof_files": proof["files"],
            "coqchk": proof.get("coqchk"),
            "hygiene_findings": ctx.build.hygiene,
            "evaluations": ctx.evaluations,
            "distinct_nontrivial": len(ctx.nontrivial),
            "rule": getattr(ctx, "rule", ""),
            "samples": ctx.samples if ctx.samples else [{"note": "no correspondence cases were run"}],
            "traces_validated_against_impl": ctx.traces_validated,
            "correspondence_families": ctx.families,
            "kernel_sample": getattr(ctx, "kernel_sample", None),
            "correspondence_mismatches": len(ctx.mismatches),
            "input_histogram": ctx.hist,
            "known_findings_seen": [k[0].get("id", "") for k in ctx.known_hits],
            "notes": ctx.notes[:50],
            "exhaustive": False,
        },
        "assumptions": getattr(ctx, "assumptions", []),
        "wall_s": round(wall_s, 2),
        "violations": violations,
    }
    json.dump(ev, open(os.path.join(EVID, ctx.prop + ".json"), "w"), indent=1, default=str)


def write_replay(prop, kind, payload):
    os.makedirs(REPLAYS, exist_ok=True)
    h = hashlib.sha256(json.dumps(payload, sort_keys=True, default=str).encode()).hexdigest()[:12]
    name = "%s-%s%s.json" % (prop, "unproved-" if kind == "unproved" else "", h)
    path = os.path.join(REPLAYS, name)
    payload = dict(payload)
    payload["property"] = prop
    payload["kind"] = kind
    payload["replay_cmd"] = "python3 /verif/verif.py replay " + path
    json.dump(payload, open(path, "w"), indent=1, default=str)
    return path


def match_known(prop, violation, known):
    for k in known:
        if k.get("status") != "open" or k.get("property") != prop:
            continue
        key = k.get("match_key")
        if key and violation.get("finding_key") == key:
            return k
    return None


def run_check(prop, mod, tier, seed):
    t0 = time.time()
    build = build_all()
    del MODEL_LINES[:]
    del TIMEOUTS[:]
    global LINE_TIMEOUT
    LINE_TIMEOUT = 300 if tier == "quick" else 1500
    scratch = tempfile.mkdtemp(prefix="verif-%s-" % prop)
    try:
        ctx = Ctx(prop, tier, seed, build, scratch)
        prop_file = "Properties/%s.v" % prop
        files = dep_closure(prop_file)
        extra = getattr(mod, "EXTRA_PROOF_FILES", [])
        for e in extra:
            files = sorted(set(files) | set(dep_closure(e)))
        proof = {"prop_file": prop_file, "files": files, "obligations": count_obligations(files),
                 "discharged": 0, "theorems": [], "closed": 0, "axioms": []}
        broken = []   # reasons the property is not shown
        bad_files = [f for f in files if not build.vo_ok.get(f)]
        if bad_files:
            where = failing_statements(build.coq_log_full if hasattr(build, "coq_log_full") else build.coq_log)
            broken.append({"what": "proof", "detail": "Coq files that no longer compile: " + ", ".join(bad_files) +
                           ("; first failing statement(s): " + "; ".join("%s in %s (line %d)" % (n, f, l) for f, l, n in where[:4]) if where else ""),
                           "log": build.coq_log[-1500:]})
        else:
            proof["discharged"] = proof["obligations"]
            names, closed, axioms, rc = print_assumptions(prop_file, scratch)
            proof["theorems"], proof["closed"], proof["axioms"] = names, closed, axioms
            if rc != 0 or closed != len(names) or not names:
                broken.append({"what": "proof", "detail": "Print Assumptions not closed for all theorems of " + prop_file,
                               "log": "\n".join(axioms)[-1500:]})
        if tier == "thorough" and not bad_files:
            with open(os.path.join(BUILD, ".lock"), "w") as lk:
                fcntl.flock(lk, fcntl.LOCK_EX)
                chk = coqchk_once(build.fingerprint)
            proof["coqchk"] = {k: chk[k] for k in ("rc", "axioms", "wall_s")}
            if chk["rc"] != 0 or chk["axioms"] != "<none>":
                broken.append({"what": "proof", "detail": "coqchk: exit %s, axioms: %s" % (chk["rc"], chk["axioms"]), "log": chk["tail"][-800:]})
        if build.hygiene:
            broken.append({"what": "hygiene", "detail": "; ".join(build.hygiene[:10])})
        if not build.translator_ok:
            broken.append({"what": "translator", "detail": "spg2coq failed on the current source", "log": build.translator_log[-1500:]})
        if not build.harness_ok:
            broken.append({"what": "harness", "detail": "spgdrive does not build against the current source", "log": build.harness_log[-1500:]})
        if not build.model_ok:
            broken.append({"what": "model", "detail": "extracted model does not build", "log": build.model_log[-1500:]})

        can_run = build.harness_ok and build.model_ok
        if can_run:
            try:
                mod.correspondence(ctx)
            except Exception:
                import traceback
                broken.append({"what": "check-machinery", "detail": "the correspondence step raised an exception on this tree", "log": traceback.format_exc()[-1500:]})
            if ctx.mismatches:
                fams = sorted(set(m["family"] for m in ctx.mismatches))
                broken.append({"what": "correspondence", "detail": "model and implementation disagree in families %s (%d cases)" % (fams, len(ctx.mismatches)),
                               "first": ctx.mismatches[0]})
        hung = [t for t in TIMEOUTS if t[0] == "spgdrive"]
        if hung:
            # the code under test did not finish on a case: that case is the failing input; nothing further is run on this tree
            ctx.violations.append({"finding_key": prop + "-hang", "line": hung[0][1][:4000], "what": "the implementation did not finish within %d s on this case "
                                   "(a call that does not terminate)" % hung[0][2]})
        if can_run and not hung and not getattr(mod, "NO_KERNEL_SAMPLE", False):
            ks = kernel_sample(ctx, 30 if tier == "quick" else 200)
            ctx.kernel_sample = ks
            if not ks["ok"]:
                broken.append({"what": "kernel-sample", "detail": "the kernel's evaluation of the model differs from the extracted program: " + ks.get("failure", "")[:600]})
        if build.harness_ok and not hung:
            try:
                mod.oracle(ctx, deep=bool(broken) or tier == "thorough")
            except Exception:
                import traceback
                broken.append({"what": "check-machinery", "detail": "the direct oracle raised an exception on this tree", "log": traceback.format_exc()[-1500:]})

        known = load_known()
        real = []
        for v in ctx.violations:
            k = match_known(prop, v, known)
            if k is not None:
                ctx.known_hits.append((k, v))
            else:
                real.append(v)
        seen = set()
        for k, v in ctx.known_hits:
            if k["id"] in seen:
                continue
            seen.add(k["id"])
            print("KNOWN-FINDING: property=%s %s" % (prop, k["what"]))
        # an open finding that the run did not reproduce is reported as a note (never an alarm)
        rc = 0
        nviol = 0
        if real:
            v = real[0]
            path = write_replay(prop, "input", {"violation": v, "all": real[:20], "broken": broken})
            print("VIOLATION property=%s replay=%s" % (prop, path))
            nviol = len(real)
            rc = 1
        elif broken:
            path = write_replay(prop, "unproved", {"broken": broken, "searched": getattr(ctx, "searched", "direct oracle of the property on the corpus and generated cases"),
                                                   "mismatches": ctx.mismatches[:10]})
            print("VIOLATION property=%s replay=%s no-failing-input-found" % (prop, path))
            nviol = 1
            rc = 1
        write_evidence(ctx, proof, time.time() - t0, nviol)
        if rc == 0:
            print("OK property=%s tier=%s theorems=%d obligations=%d cases=%d nontrivial=%d wall=%.1fs" % (
                prop, tier, len(proof["theorems"]), proof["obligations"], ctx.evaluations, len(ctx.nontrivial), time.time() - t0))
        return rc
    finally:
        shutil.rmtree(scratch, ignore_errors=True)


def replay_shared_list(line):
    """wlgen cases run twice in a check: on a fresh list, and ('+' label) on a list that other recipes used first"""
    if line.startswith("wlgen "):
        r, _ = run_impl(["r+ " + line])
        print("on a list other recipes used before -> %s" % (r.get("r+") or "")[:600])


def replay(path):
    d = json.load(open(path))
    prop = d["property"]
    import importlib
    mod = importlib.import_module("vlib.props." + prop.lower())
    build_all()
    if d["kind"] == "unproved":
        print("replay: no concrete input; the following no longer checks:")
        for b in d.get("broken", []):
            print(" -", b.get("what"), ":", b.get("detail"))
        return 1
    return mod.replay(d["violation"])
