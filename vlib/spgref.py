"""Independent re-statement, in Python, of what the properties say about character
recipes (classes, Allowed/Excluded/Satisfies, exact counts) and float helpers.
Written from the property text and the package documentation, not from the Coq model:
it is what the direct oracles use to judge the real implementation."""
import math, struct, itertools
from fractions import Fraction

CLASSES = {
    1: "ABCDEFGHIJKLMNOPQRSTUVWXYZ",
    2: "abcdefghijklmnopqrstuvwxyz",
    4: "0123456789",
    8: "!@.-_*",
    16: "0O1Il5S",
}
UPPERS, LOWERS, DIGITS, SYMBOLS, AMBIGUOUS = 1, 2, 4, 8, 16
LETTERS = 3
ALL = 15


def chars(s):
    """characters of a str (valid UTF-8 text only)"""
    return list(s)


def flag_chars(m):
    out = []
    for f, cs in CLASSES.items():
        if m & f:
            out += list(cs)
    return out


class Recipe:
    def __init__(self, length, allow=0, require=0, exclude=0, allow_chars="", require_sets=(), exclude_chars=""):
        self.length, self.allow, self.require, self.exclude = length, allow, require, exclude
        self.allow_chars, self.require_sets, self.exclude_chars = allow_chars, list(require_sets), exclude_chars

    def tokens(self):
        from .core import hx
        rs = " ".join(hx(s) for s in self.require_sets)
        return "%d %d %d %d %s %d%s %s" % (self.length, self.allow, self.require, self.exclude, hx(self.allow_chars),
                                            len(self.require_sets), (" " + rs) if rs else "", hx(self.exclude_chars))

    def to_json(self):
        return {"Length": self.length, "Allow": self.allow, "Require": self.require, "Exclude": self.exclude,
                "AllowChars": self.allow_chars, "RequireSets": self.require_sets, "ExcludeChars": self.exclude_chars}

    @staticmethod
    def from_json(d):
        return Recipe(d["Length"], d["Allow"], d["Require"], d["Exclude"], d["AllowChars"], d["RequireSets"], d["ExcludeChars"])

    # --- the specification vocabulary ---
    def excluded(self):
        return set(chars(self.exclude_chars)) | set(flag_chars(self.exclude))

    def mentioned(self):
        m = set(chars(self.allow_chars)) | set(flag_chars(self.allow)) | set(flag_chars(self.require))
        for s in self.require_sets:
            m |= set(chars(s))
        return m

    def allowed(self):
        return self.mentioned() - self.excluded()

    def alphabet(self):
        """sorted bytewise, as sort.Strings does"""
        return sorted(self.allowed(), key=lambda c: c.encode("utf-8"))

    def families(self):
        fams = [set(chars(s)) for s in self.require_sets if len(s) > 0]
        for f, cs in CLASSES.items():
            if self.require & f:
                fams.append(set(cs))
        return fams

    def live_families(self):
        ex = self.excluded()
        return [f - ex for f in self.families() if f - ex]

    def satisfies(self, cand):
        """cand: list of characters"""
        al = self.allowed()
        if len(cand) != self.length:
            return False
        if any(c not in al for c in cand):
            return False
        return all(any(c in f for c in cand) for f in self.live_families())

    def count(self):
        """exact number of satisfying strings: textbook inclusion-exclusion over the live families"""
        a = self.allowed()
        fams = self.live_families()
        L = max(self.length, 0)
        total = 0
        for k in range(len(fams) + 1):
            for sub in itertools.combinations(range(len(fams)), k):
                avoid = set()
                for i in sub:
                    avoid |= fams[i]
                total += (-1) ** k * (len(a - avoid) ** L)
        return total

    def count_brute(self):
        a = self.alphabet()
        fams = self.live_families()
        n = 0
        for cand in itertools.product(a, repeat=self.length):
            if all(any(c in f for c in cand) for f in fams):
                n += 1
        return n

    def success_probability(self):
        a = len(self.allowed())
        L = max(self.length, 0)
        if a == 0:
            return None
        return Fraction(self.count(), a ** L)


# ---------------- floats ----------------

def f32_from_bits(h):
    return struct.unpack(">f", bytes.fromhex(h))[0]


def ulp32(x):
    if x == 0 or math.isinf(x) or math.isnan(x):
        return 2.0 ** -149
    e = math.floor(math.log2(abs(x)))
    return 2.0 ** (e - 23)


def log2_big(c):
    """log2 of a positive Python int of any size"""
    return math.log2(c)


def expected_entropy(desc):
    """desc: 'C:<hex>' (log2 of that integer) or 'S:<L>:<size>' (L*log2(size)). Returns float, or 'nan'/'-inf'/'inf'."""
    kind, rest = desc.split(":", 1)
    if kind == "C":
        c = int(rest, 16)
        if c > 0:
            return log2_big(c)
        if c == 0:
            return float("-inf")
        return float("nan")
    L, size = rest.split(":")
    L, size = int(L), int(size)
    if size == 0:
        if L > 0:
            return float("-inf")
        if L == 0:
            return float("nan")
        return float("inf")
    return L * math.log2(size)


def entropy_close(bits_hex, expected, extra_ulps=0):
    got = f32_from_bits(bits_hex)
    if isinstance(expected, float) and math.isnan(expected):
        return math.isnan(got)
    if math.isinf(expected):
        return got == expected
    if math.isnan(got) or math.isinf(got):
        return False
    return abs(got - expected) <= (2 + extra_ulps) * ulp32(expected) + 1e-30
