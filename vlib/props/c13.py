"""C13 — Generate fails only when the recipe cannot be honoured: an error, never a panic."""
import math
from fractions import Fraction
from .. import core, chargen, wlgen
from ..spgref import Recipe, f32_from_bits
from .c03 import compare_recipes, kv

SPECIAL = [
    Recipe(0), Recipe(-3), Recipe(5), Recipe(1, allow=15), Recipe(8, allow=3, require=4, require_sets=["357"]),
    Recipe(4, allow=2, require=4 | 1, exclude_chars="0123456789"), Recipe(4, allow=2, require=4, exclude_chars="0123456789"),
    Recipe(5, allow_chars="abc", exclude_chars="abc"), Recipe(3, require_sets=["123", "XYZ", "abc", "+*!"]),
    Recipe(4, require_sets=["abcdefghijklmnopqrstuvwxyz", "ABCDEFGHIJKLMNOPQRSTUVWXYZ", "0123456789", "!#%)*+,-.:=>?@]^_}~"]),
    Recipe(5, require_sets=["abcdefghijklmnopqrstuvwxyz", "ABCDEFGHIJKLMNOPQRSTUVWXYZ", "0123456789", "!#%)*+,-.:=>?@]^_}~"]),
    Recipe(1, allow=1, require=2), Recipe(2, require_sets=["", ""]), Recipe(1, require=31, exclude=31),
]


def with_budget(r, b):
    r.budget = b
    return r


# the limit reached exactly: with MaxFailRate = 1 every recipe that can succeed at all is within the limit ((1-p)^T <= 1), however
# small p is — also when 1-p rounds to 1.0 (p < 1e-16): the comparison is "<=", not "<"
BIG_ALPHABET = "".join(chr(0x4e00 + i) for i in range(1000))       # 1000 distinct three-byte characters
AT_THE_LIMIT = [
    with_budget(Recipe(7, allow_chars=BIG_ALPHABET, require_sets=list("abcdefg")), (1, 1, 1)),      # p = 7!/1007^7 ~ 5e-18: 1-p rounds to 1.0
    with_budget(Recipe(7, allow_chars=BIG_ALPHABET, require_sets=list("abcdefg")), (3, 1, 1)),
    with_budget(Recipe(12, require_sets=list("abcdefghijkl")), (7, 1, 1)),
]


def exact_acceptable(r, budget):
    """the decision as the property states it, in exact arithmetic; None if borderline (within 0.5% of the threshold)"""
    T, fn, fd = budget
    p = r.success_probability()
    if p is None:
        return None
    if p <= 0:
        return False
    if T < 1:
        return None
    q = 1 - p
    lim = Fraction(fn, fd)
    if lim >= 1:
        return True          # (1-p)^T <= 1 for every p in (0,1]: within the limit whatever the rounding
    # compare q^T with lim, with a guard band
    lq = math.log(float(q)) * T if q > 0 else float("-inf")
    ll = math.log(float(lim))
    if abs(lq - ll) < 0.005 * max(1.0, abs(ll)):
        return None
    if chargen.float_decision_band(r, budget):
        return None
    return lq <= ll


def correspondence(ctx):
    ctx.rule = ("chargen family with budgets MaxTrials in {1,2,3,5,7,12,20,200} and several limits, zero-valued and partially initialised recipes, "
                "non-positive lengths, empty alphabets, recipes on both sides of the acceptance threshold, the all-attempts-fail tape and the tape whose "
                "last permitted attempt succeeds; recipe family for SuccessProbability(). Non-trivial = distinct (recipe, budget, tape) that ends in an "
                "error, exhausts or nearly exhausts the attempts, or has overlapping required sets.")
    rng = ctx.rng
    recs = list(SPECIAL) + list(AT_THE_LIMIT) + chargen.machine_boundary_recipes()
    n = 300 if ctx.tier == "quick" else 4000
    recs += [chargen.gen_recipe(rng) for _ in range(n)]
    ctx.gen_results = chargen.run_chargen_family(ctx, 0, recipes=recs)
    ctx.nontrivial.clear()      # this property has its own rule (below); the family's generic rule is not added on top
    for meta, a, b in ctx.gen_results:
        if a and (a.startswith("err") or meta["features"].get("candidate_rejections", 0) > 0):
            ctx.nontrivial.add((meta["_recipe"].tokens(), tuple(meta["budget"]), meta["features"]["kind"]))
        if a:
            ctx.count("outcome_" + " ".join(a.split(" ")[:2]) if not a.startswith("ok") else "outcome_ok")
    rc = [("recipe " + r.tokens(), {"recipe": r.to_json(), "_recipe": r}) for r in recs if r.length <= 30]
    ctx.recipe_results = compare_recipes(ctx, rc)
    # wordlist recipes: nil list, zero-valued list, non-positive lengths, ordinary ones
    wcases = wlgen.gen_cases(ctx, 80 if ctx.tier == "quick" else 800)
    for l in ("nil", "zero", ["a"], ["one", "two", "three"]):
        for length in (3, 1, 0, -1):
            for sep in (("char", "-"), ("preset", "SFDigits1")):
                wcases.append({"list": l, "length": length, "sep": sep, "cap": "one", "budget": chargen.DEFAULT_BUDGET,
                               "words": [1, 2, 3, 4, 5, 6, 7, 8, 9, 10], "meta": {"list": l, "length": length, "special": True}})
    ctx.wl_results = wlgen.run_wlgen_family(ctx, wcases)
    for c, a, b in ctx.wl_results:
        if c["list"] in ("nil", "zero") or c["length"] < 1:
            ctx.nontrivial.add(("wl", str(c["list"]), c["length"], c["sep"][0]))


def oracle(ctx, deep):
    ctx.searched = ("direct statement of C13 on every real outcome: no panic, no password together with an error, refusal exactly when the exact "
                    "success probability makes (1-p)^T exceed the limit (borderline cases skipped and counted), never more than T attempts' worth of bytes")
    for meta, a, b in getattr(ctx, "gen_results", []):
        if a is None:
            continue
        r = meta["_recipe"]
        budget = meta["budget"]
        line = chargen.chargen_line(r, budget, meta["_words"])
        base = {"recipe": meta["recipe"], "budget": budget, "line": line, "observed": a}
        head = a.split(" ")
        if head[0] == "panic" and head[1] != "prng":
            ctx.violations.append(dict(base, finding_key="C13-panic", what="Generate panicked (%s)" % head[1]))
            continue
        if "PASSWORD-WITH-ERROR" in a or "NIL-PASSWORD-WITHOUT-ERROR" in a:
            ctx.violations.append(dict(base, finding_key="C13-both", what="Generate returned an error together with a password, or neither"))
            continue
        A = r.alphabet()
        T = budget[0]
        L = r.length
        d = chargen.parse_password(a)
        consumed = int(d.get("consumed", "0"))
        # expected class of outcome from the property text
        if L < 1:
            want = "badlength"
        elif not A:
            want = "nochars"
        else:
            acc = exact_acceptable(r, budget)
            if acc is None:
                ctx.count("borderline_skipped")
                continue
            want = None if acc else "failrate"
        if want is not None:
            if not (head[0] == "err" and head[1] == want):
                ctx.violations.append(dict(base, finding_key="C13-decision", what="expected refusal (%s), got %s" % (want, " ".join(head[:2]))))
            elif consumed != 0:
                ctx.violations.append(dict(base, finding_key="C13-decision", what="random bytes were consumed by a refused generation"))
            continue
        # accepted recipe: the outcome is decided by the attempts the tape scripts, at most T of them
        want_kind, want_cand, want_bytes = chargen.simulate(r, budget, meta["_words"])
        if want_kind == "ok":
            out = "".join(t[0].decode("utf-8", "replace") for t in d.get("tokens", []))
            if head[0] != "ok":
                ctx.violations.append(dict(base, finding_key="C13-decision", what="a recipe with acceptable success probability failed (%s) although attempt %d of at most %d on the tape satisfies it" % (" ".join(head[:2]), want_bytes // (4 * L), T)))
            elif out != "".join(want_cand) or consumed != want_bytes:
                ctx.violations.append(dict(base, finding_key="C13-attempts", what="expected %r after %d bytes" % ("".join(want_cand), want_bytes)))
        elif want_kind == "exhausted":
            if head[0] == "ok":
                ctx.violations.append(dict(base, finding_key="C13-attempts", what="a password was returned although all %d permitted attempts on the tape fail the requirements" % T))
            elif not (head[0] == "err" and head[1] == "exhausted"):
                ctx.violations.append(dict(base, finding_key="C13-decision", what="expected the attempts-exhausted error, got %s" % " ".join(head[:2])))
            elif consumed != want_bytes:
                ctx.violations.append(dict(base, finding_key="C13-attempts", what="%d bytes consumed, %d permitted attempts use %d" % (consumed, T, want_bytes)))
        else:
            if head[0] != "panic":
                ctx.violations.append(dict(base, finding_key="C13-decision", what="the random source ran dry but Generate returned %s" % " ".join(head[:2])))
    for c, a, b in getattr(ctx, "wl_results", []):
        if a is None:
            continue
        order, titles, rest = wlgen.parse_pre(a)
        head = rest.split(" ")
        line = wlgen.case_line(c)
        base = {"case": c["meta"], "line": line, "observed": a}
        if head[0] == "panic" and head[1] != "prng":
            ctx.violations.append(dict(base, finding_key="C13-panic", what="WLRecipe.Generate panicked (%s)" % head[1]))
        elif "PASSWORD-WITH-ERROR" in a or "NIL-PASSWORD-WITHOUT-ERROR" in a:
            ctx.violations.append(dict(base, finding_key="C13-both", what="Generate returned an error together with a password, or neither"))
        else:
            empty = c["list"] in ("nil", "zero")
            want = "nolist" if empty else ("badlength" if c["length"] < 1 else None)
            if want and not (head[0] == "err" and head[1] == want):
                ctx.violations.append(dict(base, finding_key="C13-decision", what="expected the %s error, got %s" % (want, " ".join(head[:2]))))
            if not want and head[0] == "err":
                ctx.violations.append(dict(base, finding_key="C13-decision", what="a wordlist recipe that can be honoured was refused: %s" % head[1]))
    # SuccessProbability() = exact fraction
    for meta, a, b in getattr(ctx, "recipe_results", []):
        if a is None or a.startswith("panic"):
            if a is not None:
                ctx.violations.append({"finding_key": "C13-panic", "what": "SuccessProbability()/Entropy() panicked", "recipe": meta["recipe"], "line": "recipe " + meta["_recipe"].tokens(), "observed": a})
            continue
        r = meta["_recipe"]
        p = r.success_probability()
        if p is None or r.length < 1:
            continue
        got = f32_from_bits(kv(a)["sp"][2:])
        ent_bits = max(1.0, r.length * math.log2(max(2, len(r.allowed()))))
        tol = float(p) * (2.0 ** (ent_bits * 2.0 ** -21) - 1.0) + 1e-6
        if math.isnan(got) or abs(got - float(p)) > tol:
            ctx.violations.append({"finding_key": "C13-sp", "what": "SuccessProbability() = %r, exact fraction of satisfying candidates = %r" % (got, float(p)),
                                   "recipe": meta["recipe"], "line": "recipe " + r.tokens(), "observed": a})


def replay(v):
    line = "r " + v["line"]
    r, _ = core.run_impl([line])
    print(line)
    print("->", r.get("r"))
    core.replay_shared_list(v["line"])
    print("violation:", v["what"])
    return 1
