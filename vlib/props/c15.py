"""C15 — calls are pure: results reflect the recipe's current fields, not call history."""
import math
from fractions import Fraction
from .. import core, chargen, wlgen
from ..spgref import Recipe, entropy_close, expected_entropy, f32_from_bits, ulp32

SIMPLE_WORDS = ["alpha", "beta", "gamma", "delta", "x"]


def obj_tokens(o):
    if o["kind"] == "char":
        return "char " + o["recipe"].tokens()
    return "wl %s %d %s %s" % (wlgen.words_tokens(o["list"]), o["length"], wlgen.sep_tokens(o["sep"]), core.hx(o["cap"]))


def gen_history(rng, model_comparable):
    nobj = rng.randrange(1, 4)
    objs = []
    for _ in range(nobj):
        if rng.random() < 0.65:
            objs.append({"kind": "char", "recipe": gen_small_recipe(rng)})
        else:
            l = [rng.choice(SIMPLE_WORDS)] * rng.randrange(1, 3) if model_comparable else wlgen.gen_list(rng)
            if not model_comparable and rng.random() < 0.25:
                l = l + [""]          # a list with an empty entry is a list like any other: using it must not change it
            objs.append({"kind": "wl", "list": l, "length": rng.randrange(1, 4),
                         "sep": rng.choice([("char", "-"), ("preset", "SFDigits1"), ("preset", "SFDigitsSymbols"), ("const", ""), ("recipe", Recipe(2, allow=4, require_sets=["357"]))]),
                         "cap": rng.choice(["none", "first", "one", "random", "all"])})
    cur = [dict(o) for o in objs]
    ops = []
    expects = {}     # op index -> the wordlist recipe's fields when the call is made
    saved = []     # (handle, state key, op tokens) for replay invariance
    nops = rng.randrange(2, 31)
    for _ in range(nops):
        h = rng.randrange(nobj)
        o = cur[h]
        r = rng.random()
        if o["kind"] == "char":
            if r < 0.25:
                nr = gen_small_recipe(rng)
                if rng.random() < 0.5:   # change one field only
                    old = o["recipe"]
                    nr = Recipe(old.length, old.allow, old.require, old.exclude, old.allow_chars, list(old.require_sets), old.exclude_chars)
                    f = rng.choice(["length", "allow", "require", "exclude", "allow_chars", "exclude_chars", "require_sets"])
                    src = gen_small_recipe(rng)
                    setattr(nr, f, getattr(src, f))
                o["recipe"] = nr
                ops.append("setc %d %s" % (h, nr.tokens()))
            elif r < 0.32 and o["recipe"].require_sets:
                i = rng.randrange(len(o["recipe"].require_sets))
                v = rng.choice(["xyz", "09", "é", "ab"])
                old = o["recipe"]
                nr = Recipe(old.length, old.allow, old.require, old.exclude, old.allow_chars, list(old.require_sets), old.exclude_chars)
                nr.require_sets[i] = v
                o["recipe"] = nr
                ops.append("mutreq %d %d %s" % (h, i, core.hx(v)))
            elif r < 0.75:
                if saved and rng.random() < 0.3:
                    hs, key, tok = rng.choice(saved)
                    if key == state_key(cur[hs]):
                        ops.append(tok)
                        continue
                words = chargen.make_tapes(rng, o["recipe"], chargen.DEFAULT_BUDGET, want=1)[0][0]
                tok = "gen %d %s" % (h, core.src_tokens(core.flat_tape(words)))
                ops.append(tok)
                saved.append((h, state_key(o), tok))
            elif r < 0.85:
                ops.append("ent %d 0" % h)
            elif r < 0.93:
                ops.append("alpha %d" % h)
            else:
                ops.append("sp %d" % h)
        else:
            if r < 0.25:
                o["length"] = rng.randrange(1, 4)
                o["sep"] = rng.choice([("char", "-"), ("char", ""), ("preset", "SFDigits1"), ("preset", "SFSymbols"), ("const", "_")])
                o["cap"] = rng.choice(["none", "first", "one", "random", "all"])
                ops.append("setw %d %d %s %s" % (h, o["length"], wlgen.sep_tokens(o["sep"]), core.hx(o["cap"])))
            elif r < 0.85:
                if saved and rng.random() < 0.3:
                    hs, key, tok = rng.choice(saved)
                    if key == state_key(cur[hs]):
                        ops.append(tok)
                        continue
                sr = wlgen.sep_recipe(o["sep"])
                if sr is not None and sr.live_families() and o["length"] >= 2 and rng.random() < 0.25:
                    words = wlgen.make_tape(rng, wlgen.py_size(o["list"]), o["length"], o["sep"], o["cap"], "sepfail", chargen.DEFAULT_BUDGET)
                    tok = "gen %d %s" % (h, core.src_tokens(core.flat_tape(words)))
                    ops.append(tok)
                    expects[len(ops) - 1] = {"length": o["length"], "sep": o["sep"], "cap": o["cap"]}
                    # ... and what the recipe reports right afterwards, on a stream that lets the separator succeed
                    ops.append("ent %d %s" % (h, core.src_tokens(core.flat_tape(wlgen.draws_for_sep(rng, o["sep"]) + [1, 2, 3]))))
                    continue
                words = wlgen.make_tape(rng, wlgen.py_size(o["list"]), o["length"], o["sep"], o["cap"], rng.choice(["random", "first", "last"]))
                tok = "gen %d %s" % (h, core.src_tokens(core.flat_tape(words)))
                ops.append(tok)
                expects[len(ops) - 1] = {"length": o["length"], "sep": o["sep"], "cap": o["cap"]}
                saved.append((h, state_key(o), tok))
            else:
                sr = wlgen.sep_recipe(o["sep"])
                if sr is not None and sr.live_families() and rng.random() < 0.4:
                    # a call during which the separator function FAILS (every one of its 200 attempts misses a requirement):
                    # what it reported then must not stick to it
                    words = wlgen.draws_for_sep(rng, o["sep"], fail_attempts=chargen.DEFAULT_BUDGET[0]) + [1, 2, 3]
                    ops.append("ent %d %s" % (h, core.src_tokens(core.flat_tape(words))))
                words = wlgen.draws_for_sep(rng, o["sep"]) + [1, 2, 3]
                ops.append("ent %d %s" % (h, core.src_tokens(core.flat_tape(words))))
    titles = sorted(set(w for o in objs if o["kind"] == "wl" for w in o["list"]))
    tl = "0" if not titles or not model_comparable else "%d,%s" % (len(titles), ",".join("%s>%s" % (core.hx(w), core.hx(w.capitalize())) for w in titles))
    head = "%s %d %s" % (tl, nobj, " ".join(obj_tokens(o) for o in objs))
    line = "%s %d %s" % (head, len(ops), " ".join(ops))
    return line, ops, head, expects


def state_key(o):
    if o["kind"] == "char":
        return "c:" + o["recipe"].tokens()
    return "w:%s|%d|%s|%s" % (o["list"], o["length"], wlgen.sep_tokens(o["sep"]), o["cap"])


CJK = "".join(chr(0x4e00 + i) for i in range(300))


def gen_small_recipe(rng):
    if rng.random() < 0.08:
        # alphabets whose sizes coincide modulo 256 (13 and 269, 26 and 282): whatever a call remembers about one size is not
        # about the other
        n = rng.choice([13, 26])
        return Recipe(rng.randrange(1, 5), allow_chars=CJK[:n + rng.choice([0, 256])])
    r = chargen.gen_recipe(rng)
    if r.length > 8:
        r.length = rng.randrange(1, 9)
    return r


def op_equal(a, b):
    """compare one operation's result (implementation a, model b)"""
    if a == b:
        return True
    ka = dict(t.split("=", 1) for t in a.split(" ") if "=" in t)
    kb = dict(t.split("=", 1) for t in b.split(" ") if "=" in t)
    ra = " ".join(t for t in a.split(" ") if not t.startswith(("ent=", "sp=")))
    rb = " ".join(t for t in b.split(" ") if not t.startswith(("ent=", "sp=")))
    if ra != rb:
        return False
    if "ent" in ka or "ent" in kb:
        if "ent" not in ka or "ent" not in kb:
            return False
        eb = kb["ent"]
        if eb.startswith("W:"):
            if not wlgen.wl_entropy_close(ka["ent"][2:], eb):
                return False
        elif not entropy_close(ka["ent"][2:], expected_entropy(eb)):
            return False
    if "sp" in ka or "sp" in kb:
        if "sp" not in ka or "sp" not in kb:
            return False
        num, den = [int(x, 16) for x in kb["sp"].split("/")]
        got = f32_from_bits(ka["sp"][2:])
        if den == 0 or num <= 0 or den == 1 and num == 1 and math.isnan(got):
            return True
        p = float(Fraction(num, den))
        e = math.log2(den) if den > 0 else 0.0
        tol = p * (2.0 ** (4 * ulp32(max(e, 1.0))) - 1.0) + 4 * ulp32(p)
        return abs(got - p) <= tol
    return True


def correspondence(ctx):
    ctx.rule = ("history family: sequences of 2-30 operations over 1-3 recipes (character recipes and wordlist recipes): calls of Generate, Entropy, "
                "Alphabet, SuccessProbability interleaved with caller-side updates of every public field, in-place overwrites of RequireSets elements the "
                "library has already seen, repeated calls with the same tape; every call with its own scripted tape; a snapshot of all public fields and "
                "input slices before/after every call; every other character recipe starts life in NewCharRecipe; RequireSets are passed as a prefix of a longer caller-owned table (two guarded elements beyond len); separator calls that fail. Non-trivial = distinct history containing a field update followed by a call on the same recipe.")
    rng = ctx.rng
    n = 250 if ctx.tier == "quick" else 3000
    lines, metas = [], []
    for i in range(n):
        line, ops, head, expects = gen_history(rng, model_comparable=True)
        lines.append("h%d history %s" % (i, line))
        metas.append({"ops": ops, "line": "history " + line, "head": head, "_expects": expects})
        seen_set = set()
        for o in ops:
            t = o.split(" ")
            if t[0] in ("setc", "mutreq", "setw"):
                seen_set.add(t[1])
            elif t[1] in seen_set:
                ctx.nontrivial.add(line)
        ctx.count("ops_%s" % ("<=5" if len(ops) <= 5 else "<=15" if len(ops) <= 15 else ">15"))
    impl, n1 = core.run_impl(lines)
    model, n2 = core.run_model(lines)
    for nn in (n1, n2):
        if nn:
            ctx.notes.append("history runner: " + nn)
    fam = ctx.families.setdefault("history", {"cases": 0, "mismatches": 0})
    ctx.hist_results = []
    for i, m in enumerate(metas):
        a, b = impl.get("h%d" % i), model.get("h%d" % i)
        ctx.evaluations += 1
        fam["cases"] += 1
        ok = a is not None and b is not None
        if ok:
            a0, b0 = a.rsplit(" stdout=", 1), b.rsplit(" stdout=", 1)
            pa, pb = a0[0].split(" | "), b0[0].split(" | ")
            ok = len(pa) == len(pb) and all(op_equal(x, y) for x, y in zip(pa, pb))
            if ok:
                # diagnostics: the rounding warnings of SuccessProbability depend on float rounding (constant text)
                ea = core.unhx(a0[1].split(" stderr=")[1]).decode("utf-8", "replace")
                ea = "".join(l + "\n" for l in ea.split("\n") if l and not l.startswith("successProbability: "))
                so_a = a0[1].split(" stderr=")[0]
                ok = ea == "" and (so_a == "-" or all(l.startswith("entropySimple: ") for l in core.unhx(so_a).decode().split("\n") if l))
        if not ok:
            fam["mismatches"] += 1
            first = None
            if a and b:
                pa, pb = a.split(" | "), b.split(" | ")
                for j, (x, y) in enumerate(zip(pa, pb)):
                    if not op_equal(x.split(" stdout=")[0], y.split(" stdout=")[0]):
                        first = {"op_index": j, "op": m["ops"][j] if j < len(m["ops"]) else None, "impl": x, "model": y}
                        break
            m["_disagreed"] = True
            ctx.mismatches.append({"family": "history", "case": lines[i][:2000], "first_difference": first, "impl": (a or "")[:300], "model": (b or "")[:300]})
        else:
            ctx.traces_validated += 1
        ctx.hist_results.append((m, a))
    # histories with arbitrary word lists: oracle only (the model would need each list's map order)
    olines, ometas = [], []
    for i in range(n // 2):
        line, ops, kinds, _ = gen_history(rng, model_comparable=False)
        olines.append("o%d historyo %s" % (i, line))
        ometas.append({"ops": ops, "line": "historyo " + line})
    oimpl, _ = core.run_impl(olines)
    for i, m in enumerate(ometas):
        ctx.hist_results.append((m, oimpl.get("o%d" % i)))
        ctx.evaluations += 1
    for m, a in ctx.hist_results[:2]:
        ctx.sample({"ops": m["ops"][:8], "impl": (a or "")[:400]})


def oracle(ctx, deep):
    ctx.searched = "snapshots of all public fields / lists / input slices around every call, and replay invariance (same call, same tape, same fields => same result) inside every history; fresh-process independence: a late call of a history run again alone in a new process (field updates kept, earlier library calls dropped) must give the same result"
    for m, a in getattr(ctx, "hist_results", []):
        if a is None:
            continue
        base = {"line": m["line"][:4000], "observed": a[:600]}
        if a.startswith("panic") or "HARNESS-FAILURE" in a:
            if "prng" not in a:
                ctx.violations.append(dict(base, finding_key="C15-panic", what="a call panicked"))
            continue
        if "BEYOND-LEN-CHANGED" in a:
            ctx.violations.append(dict(base, finding_key="C15-mutation", what="a call wrote into the caller's backing array beyond the length of RequireSets (the slice was passed as a prefix of a longer table)"))
            continue
        parts = a.rsplit(" stdout=", 1)[0].split(" | ")
        if "CHANGED" in a:
            j = next(k for k, p in enumerate(parts) if "CHANGED" in p)
            ctx.violations.append(dict(base, finding_key="C15-mutation", what="a call modified a public field, list or caller slice (operation %d: %s)" % (j, m["ops"][j][:60])))
            continue
        # the fields as they are when the call is made: a wordlist password has Length atoms and, with a constant separator, exactly
        # that string between them (whatever a template the recipe was copied from, or an earlier state of it, says)
        hit = False
        for j, exp in sorted(m.get("_expects", {}).items()):
            if j >= len(parts):
                continue
            d = chargen.parse_password(parts[j])
            if not d or d["outcome"] != "ok":
                continue
            atoms = [v for v, ty in d["tokens"] if ty == 1]
            seps = [v for v, ty in d["tokens"] if ty == 0]
            why = None
            if len(atoms) != exp["length"]:
                why = "%d atoms, the recipe's Length is %d" % (len(atoms), exp["length"])
            elif exp["sep"][0] in ("char", "const"):
                want = [exp["sep"][1].encode()] * (exp["length"] - 1) if exp["sep"][1] else []
                if seps != want:
                    why = "separators %r, the recipe's constant separator gives %r" % (seps[:4], want[:4])
            if why:
                ctx.violations.append(dict(base, finding_key="C15-fields", what="operation %d (%s): %s — the result does not reflect the recipe's current fields" % (j, m["ops"][j][:40], why)))
                hit = True
                break
        if hit:
            continue
        # replay invariance: identical op tokens with no field update of that handle in between must give identical results
        last = {}
        for j, (op, res) in enumerate(zip(m["ops"], parts)):
            t = op.split(" ")
            if t[0] in ("setc", "mutreq", "setw"):
                last = {k: v for k, v in last.items() if k[1] != t[1]}
                continue
            key = (op, t[1])
            if key in last and last[key][1] != res:
                ctx.violations.append(dict(base, finding_key="C15-history", what="the same call with the same random bytes and unchanged fields gave different results at operations %d and %d: %s" % (last[key][0], j, op[:60])))
                break
            last[key] = (j, res)
    if not ctx.violations:
        fresh_process_independence(ctx, deep)


UPDATES = ("setc", "mutreq", "setw")


def fresh_process_independence(ctx, deep):
    """The result of a call may depend on the recipe's current fields and on its own random bytes, not on the calls made
    before it: for a sample of histories, a late library call is run again ALONE in a fresh process (all caller-side field
    updates kept, every earlier library call dropped) and must give the result it gave inside the history."""
    from concurrent.futures import ThreadPoolExecutor
    cand = [(m, a) for m, a in getattr(ctx, "hist_results", []) if a and "head" in m and not a.startswith("panic") and "HARNESS-FAILURE" not in a]
    # histories in which the model and the implementation disagreed first
    cand.sort(key=lambda ma: 0 if ma[0].get("_disagreed") else 1)
    jobs = []
    for m, a in cand[:(160 if deep else 32)]:
        parts = a.rsplit(" stdout=", 1)[0].split(" | ")
        calls = [j for j, op in enumerate(m["ops"]) if op.split(" ")[0] not in UPDATES and j < len(parts)]
        calls = [j for j in calls if any(m["ops"][i].split(" ")[0] not in UPDATES for i in range(j))]     # something was called before
        is_bad = bool(m.get("_disagreed"))
        for j in (calls if is_bad else calls[-2:]):      # every call of a history on which model and implementation disagreed
            ops2 = [op for i, op in enumerate(m["ops"][:j]) if op.split(" ")[0] in UPDATES] + [m["ops"][j]]
            jobs.append((m, j, parts[j], "historyo" if False else "history", "%s %d %s" % (m["head"], len(ops2), " ".join(ops2)), len(ops2) - 1))

    def run(job):
        m, j, want, fam, line, k = job
        r, _ = core.run_impl(["f %s %s" % (fam, line)])
        return r.get("f")
    with ThreadPoolExecutor(max_workers=16) as ex:
        outs = list(ex.map(run, jobs))
    for (m, j, want, fam, line, k), got in zip(jobs, outs):
        ctx.evaluations += 1
        ctx.count("fresh_process_reruns")
        if got is None or got.startswith("panic") or "HARNESS-FAILURE" in got:
            continue
        p2 = got.rsplit(" stdout=", 1)[0].split(" | ")
        if k < len(p2) and p2[k] != want:
            ctx.violations.append({"finding_key": "C15-history", "line": m["line"][:4000], "alone_line": "%s %s" % (fam, line[:3000]), "op_index": j,
                                   "observed": want[:300], "alone": p2[k][:300],
                                   "what": "operation %d (%s) gave a different result inside the history than the same call alone in a fresh process with the same "
                                           "fields and the same random bytes: the result depends on earlier calls" % (j, m["ops"][j][:50])})
            return


def replay(v):
    line = "r " + v["line"]
    r, _ = core.run_impl([line])
    print(line[:500])
    print("->", (r.get("r") or "")[:1000])
    if v.get("alone_line"):
        r2, _ = core.run_impl(["r " + v["alone_line"]])
        print("operation %d alone in a fresh process:" % v["op_index"], v["alone_line"][:300])
        print("->", (r2.get("r") or "")[:600])
    print("violation:", v["what"])
    return 1
