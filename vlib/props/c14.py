"""C14 — recipes, word lists and separator functions are safe to share across goroutines (claimed as PARTIAL)."""
import os, re, subprocess, json
from .. import core, chargen


def run_stress(ctx, goroutines, iters, seed, procs=None, timeout=900, mode="os"):
    exe = os.path.join(core.BUILD, "spgrace")
    env = dict(os.environ, GORACE="halt_on_error=0 exitcode=66 history_size=3")
    if procs:
        env["GOMAXPROCS"] = str(procs)
    try:
        p = subprocess.run([exe, str(goroutines), str(iters), str(seed), mode], stdout=subprocess.PIPE, stderr=subprocess.PIPE, text=True,
                           timeout=timeout, env=env)
    except subprocess.TimeoutExpired:
        ctx.notes.append("stress run timed out")
        return None
    m = re.search(r"RESULT calls=(\d+) combos=(\d+) invalid=(\d+) first=(.*)", p.stdout)
    races = p.stderr.count("WARNING: DATA RACE")
    report = ""
    if races:
        i = p.stderr.find("WARNING: DATA RACE")
        report = p.stderr[i:i + 3000]
    return {"rc": p.returncode, "calls": int(m.group(1)) if m else 0, "combos": int(m.group(2)) if m else 0,
            "invalid": int(m.group(3)) if m else -1, "first": m.group(4) if m else p.stdout[-300:] + p.stderr[-600:], "races": races, "report": report,
            "args": [goroutines, iters, seed, procs, mode]}


def judge(ctx, r):
    if r is None:
        return
    ctx.evaluations += r["calls"]
    for k in range(r["combos"]):
        ctx.nontrivial.add(("combo", k))
    ctx.traces_validated += r["calls"] - max(r["invalid"], 0)
    base = {"stress_args": r["args"], "line": "spgrace %d %d %d %s" % (r["args"][0], r["args"][1], r["args"][2], r["args"][4])}
    if r["races"]:
        ctx.violations.append(dict(base, finding_key="C14-race", what="the race detector reported %d data race(s) while goroutines shared recipes, lists and separator functions" % r["races"],
                                   race_report=r["report"]))
    elif r["invalid"] != 0:
        ctx.violations.append(dict(base, finding_key="C14-invalid", what="a result produced under concurrency is invalid: " + str(r["first"])))
    elif r["rc"] != 0:
        ctx.violations.append(dict(base, finding_key="C14-crash", what="the stress program failed (exit %d): %s" % (r["rc"], str(r["first"])[:300])))


def correspondence(ctx):
    ctx.rule = ("dynamic tie for this property: a -race build of the tree under test runs G goroutines sharing 5 character recipes, 3 cold word lists "
                "x 8 separator settings (constant, 4 package-level presets, 2 constructed functions with two required sets each, one constructed "
                "from a recipe with Length unset) and all five methods, on the real OS source, after cold-start processes in which the goroutines "
                "make the first library calls of the process (recipes requiring the Ambiguous class, first constructions of a word list, presets); every result is validated (length, alphabet, required sets, atoms, separators, entropy equal to "
                "the recipe's). evaluations = API calls made; distinct_nontrivial = distinct (shared object, method) pairs exercised, counted by the program. "
                "The static tie is the footprint computation over coq/Gen/Effects.v inside Properties/C14.v.")
    # deterministic schedules: one generation parked inside its k-th read of the random source while another runs to completion
    # (every k); by the interleaving theorem each must return its run-alone result — compared with the model
    chargen.run_interleave(ctx, chargen.interleave_cases(ctx, 25 if ctx.tier == "quick" else 300), "C14")
    if not getattr(ctx.build, "race_ok", False):
        ctx.mismatches.append({"family": "race-build", "case": "go build -race", "impl": ctx.build.race_log[-800:], "model": None, "meta": {}})
        return
    g, it = (8, 1000) if ctx.tier == "quick" else (32, 20000)
    # cold starts: fresh processes in which the goroutines make the first library calls of the process (whatever the
    # package initialises lazily is then initialised concurrently); one first use per process, hence many short runs
    ctx.stress = []
    for k in range(6 if ctx.tier == "quick" else 40):
        rc = run_stress(ctx, 8 if k % 2 else 16, 60, ctx.seed % 1000 + 17 * k, mode="cold")
        ctx.stress.append(rc)
        judge(ctx, rc)
        ctx.count("cold_start_processes")
        if ctx.violations:
            return
    r = run_stress(ctx, g, it, ctx.seed % 1000)
    ctx.stress.append(r)
    judge(ctx, r)
    if not ctx.violations:
        # the same sharing with a goroutine-safe source that forces the rare paths (every other raw word is rejected)
        r2 = run_stress(ctx, g, it // 4, ctx.seed % 1000 + 1, mode="forced")
        ctx.stress.append(r2)
        judge(ctx, r2)
    if r:
        ctx.sample({"goroutines": g, "iterations": it, "calls": r["calls"], "combos": r["combos"], "races": r["races"], "invalid": r["invalid"]})


def oracle(ctx, deep):
    ctx.searched = "race-detector stress runs with varied goroutine counts, GOMAXPROCS and seeds; every concurrent result validated"
    if not getattr(ctx.build, "race_ok", False) or ctx.violations:
        return
    runs = [(16, 1500, 2, 4), (4, 3000, 3, 2)] if not deep else [(16, 6000, 2, 4), (4, 12000, 3, 2), (64, 3000, 4, None), (32, 6000, 5, 16), (2, 20000, 6, 2)]
    for g, it, sd, procs in runs:
        r = run_stress(ctx, g, it, sd + ctx.seed % 1000, procs, mode=("forced" if sd % 2 else "os"))
        judge(ctx, r)
        if ctx.violations:
            return


def replay(v):
    if "stress_args" not in v:
        r, _ = core.run_impl(["r " + v["line"]])
        print(v["line"][:300])
        print("->", r.get("r"))
        print("violation:", v["what"])
        return 1
    g, it, sd, procs = v["stress_args"][:4]
    mode = v["stress_args"][4] if len(v["stress_args"]) > 4 else "os"
    class C:  # minimal ctx
        notes = []
    r = run_stress(C, g, it, sd, procs, mode=mode)
    print("spgrace", g, it, sd, "GOMAXPROCS=%s" % procs)
    print("->", {k: r[k] for k in ("rc", "calls", "invalid", "races", "first")} if r else None)
    if r and r["report"]:
        print(r["report"][:2000])
    print("violation:", v["what"])
    return 1
