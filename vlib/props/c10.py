"""C10 — word lists normalise to a duplicate-free set; capitalised twins are removed."""
from .. import core, wlgen
from .c05 import title_map


def run_wordlist_family(ctx, lists, reps):
    """each list constructed reps times in different permutations/multiplicities; two-phase compare"""
    rng = ctx.rng
    cases = []
    for gi, l in enumerate(lists):
        for rep in range(reps):
            l2 = list(l)
            if rep > 0:
                rng.shuffle(l2)
                if rep % 3 == 2 and l2:
                    l2 += [rng.choice(l2) for _ in range(rng.randrange(1, 4))]
            cases.append({"group": gi, "list": l2})
    lines = ["l%d wordlist %s" % (i, wlgen.words_tokens(c["list"])) for i, c in enumerate(cases)]
    impl, n1 = core.run_impl(lines)
    mlines = []
    for i, c in enumerate(cases):
        a = impl.get("l%d" % i) or ""
        kvs = dict(t.split("=", 1) for t in a.split(" ") if "=" in t)
        mlines.append("l%d wordlist %s %s %s" % (i, kvs.get("words", "none"), kvs.get("titles", "0"), wlgen.words_tokens(c["list"])))
    model, n2 = core.run_model(mlines)
    for n in (n1, n2):
        if n:
            ctx.notes.append("wordlist runner: " + n)
    fam = ctx.families.setdefault("wordlist", {"cases": 0, "mismatches": 0})
    out = []
    for i, c in enumerate(cases):
        a, b = impl.get("l%d" % i), model.get("l%d" % i)
        ctx.evaluations += 1
        fam["cases"] += 1
        if a is None or b is None or a != b:
            fam["mismatches"] += 1
            ctx.mismatches.append({"family": "wordlist", "case": mlines[i], "impl": a, "model": b})
        else:
            ctx.traces_validated += 1
        out.append((c, a, b))
    return out


def correspondence(ctx):
    ctx.rule = ("wordlist family: lists with exact duplicates, lower/title twins, already-capitalised words without a twin, caseless words (CJK, digits), "
                "non-ASCII letters, inner separators and apostrophes; each constructed several times in random permutations and multiplicities "
                "(Go's map order differs per construction). Observables: Size(), the kept words read out through one-word passwords for every index, "
                "error on empty input, the caller's slice before/after, the duplicate notice. Non-trivial = distinct input list containing a duplicate or a twin.")
    rng = ctx.rng
    lists = [list(l) for l in wlgen.LISTS_FIXED] + [[]]
    # the empty string is a word like any other for the constructor ("drops nothing else"; what Generate then does with it is F7)
    lists += [["alpha", "", "beta"], [""], ["", ""], ["", "a", "A"], ["x", "", "X", ""]]
    for _ in range(120 if ctx.tier == "quick" else 1500):
        lists.append(wlgen.gen_list(rng))
    reps = 6 if ctx.tier == "quick" else 24
    ctx.wl_results = run_wordlist_family(ctx, lists, reps)
    for c, a, b in ctx.wl_results:
        l = c["list"]
        if len(set(l)) < len(l) or any(w != w.title() and w.title() in l for w in l):
            ctx.nontrivial.add(tuple(l))
        ctx.count("input_len_%s" % (str(len(l)) if len(l) < 10 else "10+"))
    for c, a, b in ctx.wl_results[6:9]:
        ctx.sample({"list": c["list"], "impl": a, "model": b})


def oracle(ctx, deep):
    ctx.searched = ("the statement of C10 on every construction: kept set = distinct words minus title-cased twins of other listed words (Title graph "
                    "from the real strings.Title), Size = number kept, same kept set across all permutations/multiplicities of an input, caller slice untouched")
    groups = {}
    for c, a, b in getattr(ctx, "wl_results", []):
        if a is None:
            continue
        if "GENERATED-ATOM-IS-NOT-THE-TITLE-FORM" in a:
            pair = a.split("GENERATED-ATOM-IS-NOT-THE-TITLE-FORM:")[1].split(" ")[0]
            ctx.violations.append({"finding_key": "C10-atom", "list": c["list"], "line": "wordlist " + wlgen.words_tokens(c["list"]), "observed": a[:300],
                                   "what": "a generated atom is neither a kept word nor its title-cased form (word:atom, hex) %s" % pair})
            continue
        l = c["list"]
        line = "wordlist " + wlgen.words_tokens(l)
        base = {"list": l, "line": line, "observed": a}
        if a.startswith("panic"):
            ctx.violations.append(dict(base, finding_key="C10-panic", what="NewWordList panicked"))
            continue
        if "CHANGED" in a:
            ctx.violations.append(dict(base, finding_key="C10-slice", what="NewWordList modified the caller's slice"))
        if not l:
            if not a.startswith("err emptylist") or "LIST-WITH-ERROR" in a:
                ctx.violations.append(dict(base, finding_key="C10-empty", what="an empty list was not rejected with an error"))
            continue
        if not a.startswith("ok"):
            ctx.violations.append(dict(base, finding_key="C10-error", what="a non-empty list was rejected"))
            continue
        kvs = dict(t.split("=", 1) for t in a.split(" ") if "=" in t)
        words = [core.unhx(x) for x in kvs["words"].split(",")[1:]] if kvs["words"] != "0" else []
        tmap = title_map(kvs["titles"])
        inp = [w.encode() for w in l]
        distinct = set(inp)
        want = set(w for w in distinct if not any(v != w and tmap.get(v, v) == w for v in distinct))
        if len(set(words)) != len(words):
            ctx.violations.append(dict(base, finding_key="C10-dup", what="a word is kept twice"))
        elif set(words) != want:
            extra = sorted(set(words) - want)
            missing = sorted(want - set(words))
            ctx.violations.append(dict(base, finding_key="C10-kept", what="kept set differs from the specification: unexpectedly kept %r, unexpectedly dropped %r" % (extra[:3], missing[:3])))
        if int(kvs["size"]) != len(words):
            ctx.violations.append(dict(base, finding_key="C10-size", what="Size() = %s but %d words can be drawn" % (kvs["size"], len(words))))
        g = groups.setdefault(c["group"], [])
        g.append((frozenset(words), l))
    for gi, items in groups.items():
        sets = set(s for s, _ in items)
        if len(sets) > 1:
            ctx.violations.append({"finding_key": "C10-order", "what": "the kept set depends on the order/multiplicity of the input or on the run",
                                   "list": items[0][1], "other": items[-1][1], "line": "wordlist " + wlgen.words_tokens(items[0][1])})


def replay(v):
    line = "r " + v["line"]
    for _ in range(5):
        r, _ = core.run_impl([line])
        print("->", r.get("r"))
    print("violation:", v["what"])
    return 1
