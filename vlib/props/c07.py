"""C07 — character-recipe entropy = log2 of the exact number of satisfying passwords."""
import math
from .. import core, chargen
from ..spgref import Recipe, entropy_close, f32_from_bits
from .c03 import compare_recipes, kv

WITNESSES = [
    Recipe(8, allow=3, require=4, require_sets=["357"]),                 # F1: overlapping class and custom set
    Recipe(4, require=4, require_sets=["0123456789"]),                   # F1: two equal required sets
    Recipe(1, allow=3, require=4, require_sets=["357"]),
    Recipe(4, allow=2, require=4 | 1, exclude_chars="0123456789"),       # F1b: one of two required sets emptied
    Recipe(2, require_sets=["ABCDEFGHIJKLMNOPQRSTUVWXYZ", "abcdefghijklmnopqrstuvwxyz", "0123456789"]),  # -Inf
    Recipe(3000, allow=15, require=3),
    Recipe(171, allow=15, exclude=16, require=4),
]


def correspondence(ctx):
    ctx.rule = ("recipe family: exact integer from the verif hook, Entropy() float32 and SuccessProbability() against the model's exact count; "
                "recipes from the overlap grammar with 0-8 required sets and lengths up to 3000, plus the corpus witnesses. "
                "Non-trivial = distinct recipe with >= 2 live required sets that overlap each other or the allowed set, or length >= 64.")
    rng = ctx.rng
    cases = []
    recs = list(WITNESSES) + chargen.machine_boundary_recipes()
    # the simple path (nothing required) at lengths whose counts leave the float64 range (a^L >= 2^1024) and far beyond
    big = (170, 171, 172, 200, 342, 1000, 3000, 12000) if ctx.tier == "thorough" else (171, 172, 1000)
    alphas = (dict(allow=15, exclude=16), dict(allow=4), dict(allow_chars="ab"), dict(allow=3, allow_chars="é€"), dict(allow=8, exclude_chars="!"))
    for L in big:
        for kw in (alphas if ctx.tier == "thorough" else alphas[:3]):
            recs.append(Recipe(L, **kw))
    recs.append(Recipe(3000, allow=15, exclude=16))
    # long passwords whose required set is tiny relative to the alphabet: the chance of missing it is far from negligible
    # however long the password (1000 three-byte characters allowed, two symbols required: a 513-character password misses
    # them 36% of the time), so no length justifies the simple formula
    cjk = "".join(chr(0x4e00 + i) for i in range(1000))
    for L in ((513, 700) if ctx.tier == "quick" else (257, 512, 513, 600, 1000, 3000)):
        recs.append(Recipe(L, allow_chars=cjk, require_sets=["#%"]))
        recs.append(Recipe(L, allow_chars=cjk, require_sets=["#", "é"]))
    n = 500 if ctx.tier == "quick" else 6000
    for _ in range(n):
        r = chargen.gen_recipe(rng, big_lengths=(rng.random() < 0.12))
        k = len(r.live_families())
        if r.length > 200 and k > 2:
            r.length = rng.choice([64, 171, 200]) if k <= 4 else 20
        elif r.length > 20 and k > 4:
            r.length = 20
        recs.append(r)
    # the same custom required characters divided differently among the RequireSets, right after the original in the same
    # process: a different recipe with (in general) a different count
    recs = chargen.with_resplits(rng, recs)
    for r in recs:
        cases.append(("recipe " + r.tokens(), {"recipe": r.to_json(), "_recipe": r}))
        fams = r.live_families()
        overlap = any(fams[i] & fams[j] for i in range(len(fams)) for j in range(i + 1, len(fams)))
        if (len(fams) >= 2 and overlap) or r.length >= 64:
            ctx.nontrivial.add(cases[-1][0])
        ctx.count("live_sets_%d" % min(len(fams), 9))
        ctx.count("overlapping" if overlap else "disjoint")
        ctx.count("length_%s" % ("<=20" if r.length <= 20 else "<=200" if r.length <= 200 else ">200"))
    ctx.recipe_results = compare_recipes(ctx, cases)
    for meta, a, b in ctx.recipe_results[:3]:
        ctx.sample({"recipe": meta["recipe"], "impl": a, "model": b})


def oracle(ctx, deep):
    concurrent_entropy(ctx)
    if ctx.violations:
        return
    ctx.searched = ("independent arithmetic on the real code's outputs: brute-force enumeration for a^L <= 10^5, textbook inclusion-exclusion "
                    "otherwise, against the hook's integer and the float32; NaN never; identical on repeated calls")
    for meta, a, b in getattr(ctx, "recipe_results", []):
        if a is None:
            continue
        r = meta["_recipe"]
        d = kv(a)
        line = "recipe " + r.tokens()
        if "BEYOND-LEN-CHANGED" in a:
            ctx.violations.append({"finding_key": "C07-caller-table", "recipe": meta["recipe"], "line": line, "observed": a[:300],
                                   "what": "Entropy()/SuccessProbability()/Alphabet() wrote into the caller's table beyond the length of RequireSets (passed as a prefix "
                                           "of a longer table): every other recipe built on that table now has other required sets, and its entropy is no longer that of its fields"})
            continue
        if a.startswith("panic"):
            ctx.violations.append({"finding_key": "C07-panic", "what": "Entropy()/count panicked", "recipe": meta["recipe"], "line": line, "observed": a})
            continue
        got = f32_from_bits(d["ent"][2:])
        if d.get("stable") != "1":
            ctx.violations.append({"finding_key": "C07-unstable", "what": "Entropy() differs between two calls, or between a literal recipe and a constructed one whose RequireSets were replaced in place to the same contents", "recipe": meta["recipe"], "line": line, "observed": a})
        a_size = len(r.allowed())
        fams = r.live_families()
        L = r.length
        if L < 1:
            continue
        if len(fams) > 12:
            continue
        exact = r.count()
        if a_size ** L <= 100000 and len(fams) <= 6:
            bf = r.count_brute()
            if bf != exact:
                ctx.notes.append("oracle self-check failed for %s" % meta["recipe"])
                continue
        want = math.log2(exact) if exact > 0 else float("-inf")
        if math.isnan(got):
            ctx.violations.append({"finding_key": "C07-nan", "what": "Entropy() is NaN", "recipe": meta["recipe"], "line": line, "observed": a, "exact_count": hex(exact)})
        elif not entropy_close(d["ent"][2:], want):
            ctx.violations.append({"finding_key": "C07-value", "what": "Entropy() = %r but log2(exact count) = %r" % (got, want),
                                   "recipe": meta["recipe"], "line": line, "observed": a, "exact_count": hex(exact)})
        elif fams and int(d["count"], 16) != exact:
            ctx.violations.append({"finding_key": "C07-count", "what": "the exact count exported by the hook is %d, the true count is %d" % (int(d["count"], 16), exact),
                                   "recipe": meta["recipe"], "line": line, "observed": a})


def concurrent_entropy(ctx):
    """Entropy() is a function of the recipe: several goroutines asking for the entropy of recipes of different lengths at the same
    time get the values a single goroutine gets (the sharing program of C14, judged here on its results only)."""
    from . import c14
    if not getattr(ctx.build, "race_ok", False):
        return
    r = c14.run_stress(ctx, 8, 400, ctx.seed % 1000 + 5)
    if r is None:
        return
    ctx.evaluations += r["calls"]
    ctx.count("concurrent_calls", r["calls"])
    if r["invalid"] > 0 and ("Entropy" in str(r["first"]) or "entropy" in str(r["first"]) or "SuccessProbability" in str(r["first"])):
        ctx.violations.append({"finding_key": "C07-concurrent", "stress_args": r["args"], "line": "spgrace %d %d %d %s" % (r["args"][0], r["args"][1], r["args"][2], r["args"][4]),
                               "what": "under concurrent use a recipe reported another entropy than alone: " + str(r["first"])[:300]})


def replay(v):
    if "stress_args" in v:
        from . import c14
        return c14.replay(v)
    line = "r " + v["line"]
    r, _ = core.run_impl([line])
    print(line)
    print("->", r.get("r"))
    print("violation:", v["what"])
    return 1
