"""C09 — all randomness comes from the OS CSPRNG; generation fails closed when it fails."""
from .. import core, chargen, wlgen
from ..spgref import Recipe

CHUNKINGS = [(1,), (3, 1), (1, 3), (2, 2), (1, 2, 1), (2, 1, 1), (4, 4, 1), (5,), (7, 1), (3,), (64,), (1, 1, 1, 1, 4)]


def to_bytes(words):
    return b"".join(int(w).to_bytes(4, "big") for w in words)


def chunked(b, pattern):
    out, i, k = [], 0, 0
    while i < len(b):
        m = pattern[k % len(pattern)]
        out.append((b[i:i + m], False))
        i += m
        k += 1
    return out


def base_cases(ctx):
    rng = ctx.rng
    bases = []
    recs = [Recipe(6, allow=15, exclude=16), Recipe(8, allow=3, require=4, require_sets=["357"]), Recipe(4, allow_chars="é€ab", require_sets=["é"]),
            Recipe(3, allow=4)]
    recs += [chargen.gen_recipe(rng, long_ok=False) for _ in range(12 if ctx.tier == "quick" else 120)]   # every read position is a fault point: moderate lengths
    for r in recs:
        if r.length < 1 or not r.alphabet():
            continue
        b = chargen.DEFAULT_BUDGET
        if chargen.good_candidate(rng, r) is None or not r.success_probability() or r.success_probability() < 0.2:
            continue
        bad = chargen.bad_candidate(rng, r)
        vecs = ([bad] if bad and rng.random() < 0.5 else []) + [chargen.good_candidate(rng, r)]
        words, _ = chargen.tape_for(rng, len(r.alphabet()), vecs, rejections=0.15)
        bases.append(("char", r, b, words))
    for _ in range(6 if ctx.tier == "quick" else 60):
        l = wlgen.gen_list(rng)
        sep = rng.choice([("char", "-"), ("preset", "SFDigits1"), ("preset", "SFDigitsSymbols"), ("recipe", Recipe(2, allow=4, require_sets=["357"]))])
        cap = rng.choice(["none", "one", "random", "all"])
        L = rng.choice([1, 2, 3, 4])
        words = wlgen.make_tape(rng, wlgen.py_size(l), L, sep, cap, "exact")
        bases.append(("wl", (l, L, sep, cap), chargen.DEFAULT_BUDGET, words))
    return bases


def correspondence(ctx):
    ctx.rule = ("faults family: character and wordlist generations replayed (a) under 12 chunkings of the same bytes and (b) with a failure injected at "
                "EACH individual read position k = 1..reads+1 with 0,1,2,3 bytes delivered, and with an error accompanying a complete read. "
                "Non-trivial = each distinct (case, chunking) and (case, fault position, delivered bytes).")
    bases = base_cases(ctx)
    # "the same recipe fed the same source bytes makes the same choices" — also when another generation runs in between:
    # deterministic interleavings (the second generation runs inside the first one's k-th read of the source)
    chargen.run_interleave(ctx, chargen.interleave_cases(ctx, 12 if ctx.tier == "quick" else 150), "C09")
    # flat runs first: how many reads does each generation make
    flat_char = [(chargen.chargen_line(x[1], x[2], x[3] + [1, 2, 3]), {"base": i}) for i, x in enumerate(bases) if x[0] == "char"]
    res_char = chargen.compare_passwords(ctx, "chargen", flat_char)
    flat_wl = [{"list": x[1][0], "length": x[1][1], "sep": x[1][2], "cap": x[1][3], "budget": x[2], "words": x[3] + [1, 2, 3], "meta": {"base": i}}
               for i, x in enumerate(bases) if x[0] == "wl"]
    res_wl = wlgen.run_wlgen_family(ctx, flat_wl)
    flat = {}
    for meta, a, b in res_char:
        flat[meta["base"]] = a
    for c, a, b in res_wl:
        flat[c["meta"]["base"]] = wlgen.parse_pre(a)[2] if a else None
    ctx.flat = flat
    ctx.flat_sig = {c["meta"]["base"]: choice_signature(a) for c, a, b in res_wl}
    ccases, wcases = [], []
    for i, x in enumerate(bases):
        a = flat.get(i)
        d = chargen.parse_password(a) if a else None
        if not d or d["outcome"] != "ok":
            continue
        reads = int(d["consumed"]) // 4
        data = to_bytes(x[3] + [1, 2, 3])
        variants = []
        for pat in CHUNKINGS:
            variants.append((chunked(data, pat), {"base": i, "variant": "chunking", "pattern": pat, "expect": "same"}))
        ks = range(1, reads + 2) if (reads <= 24 or ctx.tier == "thorough") else sorted(set(list(range(1, 6)) + [reads - 1, reads, reads + 1] + [ctx.rng.randrange(1, reads) for _ in range(6)]))
        for k in ks:
            for dlv in (0, 1, 2, 3):
                cut = 4 * (k - 1) + dlv
                if dlv == 0:
                    # an error with no byte delivered: an empty failing read after the complete previous ones
                    chunks = [(data[:cut], False), (b"", True), (data[cut:], False)]
                else:
                    chunks = [(data[:cut], True), (data[cut:], False)]
                variants.append((chunks, {"base": i, "variant": "fault", "read": k, "delivered": dlv, "expect": "panic" if k <= reads else "same", "cut": cut}))
            chunks = [(data[:4 * k], True), (data[4 * k:], False)]
            variants.append((chunks, {"base": i, "variant": "error-with-full-read", "read": k, "expect": "same"}))
        for chunks, meta in variants:
            ctx.nontrivial.add((i, str(meta)))
            ctx.count("variant_" + meta["variant"])
            if x[0] == "char":
                ccases.append((chargen.chargen_line(x[1], x[2], chunks=chunks), meta))
            else:
                wcases.append({"list": x[1][0], "length": x[1][1], "sep": x[1][2], "cap": x[1][3], "budget": x[2], "chunks": chunks, "meta": meta})
    ctx.var_char = chargen.compare_passwords(ctx, "chargen", ccases)
    ctx.var_wl = wlgen.run_wlgen_family(ctx, wcases)
    ctx.var_char_lines = ccases
    for meta, a, b in ctx.var_char[:2] + ctx.var_char[40:42]:
        ctx.sample({"variant": meta, "impl": a, "model": b})
    # twice the same tape: same result (no hidden source of randomness)
    again, _ = core.run_impl(["c%d %s" % (i, c[0]) for i, c in enumerate(ccases[:200])])
    ctx.again = again


def same_choices(s1, s0):
    if len(s1) != len(s0):
        return False
    for x, y in zip(s1, s0):
        if x[0] != y[0] or x[1] != y[1]:
            return False
        if x[0] == "atom" and x[2] is not None and y[2] is not None and x[2] != y[2]:
            return False      # (None: the word at that index has no distinct title form in this construction's order)
    return True


def strip_order(a):
    return wlgen.parse_pre(a)[2] if a else a


def choice_signature(a):
    """the CHOICES behind a wordlist result, independent of the order in which this construction happened to store its words:
    for every atom the index of its word in this construction's order and whether it is the title form, and the separators"""
    from .c05 import title_map
    if not a:
        return None
    order, titles, rest = wlgen.parse_pre(a)
    d = chargen.parse_password(rest)
    if not d or d["outcome"] != "ok" or not order or order == "0":
        return None
    words = [core.unhx(x) for x in order.split(",")[1:]]
    tmap = title_map(titles)
    sig = []
    for v, ty in d["tokens"]:
        if ty != 1:
            sig.append(("sep", v))
        elif v in words:
            sig.append(("atom", words.index(v), None if tmap.get(v, v) == v else False))
        else:
            idx = [i for i, w in enumerate(words) if tmap.get(w, w) == v]
            sig.append(("atom", idx[0] if idx else -1, True))
    return sig


def oracle(ctx, deep):
    ctx.searched = "the statement of C09 on every variant: identical result under every chunking; a failing read at any position of the generation gives a panic and no password; identical result when the same tape is replayed"
    def judge(meta, a, line):
        if a is None:
            return
        base = {"variant": meta, "line": line, "observed": a, "flat": ctx.flat.get(meta["base"])}
        flat = ctx.flat.get(meta["base"])
        a2 = strip_order(a)
        if meta["expect"] == "same":
            # atoms may be differently capitalised only if the list order differs between constructions; compare everything but tokens for wl
            if a2 != flat:
                fa, fb = chargen.parse_password(a2), chargen.parse_password(flat)
                if fa is None or fb is None or fa["outcome"] != fb["outcome"] or fa.get("consumed") != fb.get("consumed") or (
                        line.startswith("chargen") and fa.get("str") != fb.get("str")):
                    ctx.violations.append(dict(base, finding_key="C09-chunking", what="the same source bytes, chunked differently, gave a different result"))
                elif line.startswith("wlgen"):
                    # word order differs between constructions of a list; the CHOICES (index of each word, capitalised or not, separators) may not
                    s1, s0 = choice_signature(a), getattr(ctx, "flat_sig", {}).get(meta["base"])
                    if s1 is not None and s0 is not None and not same_choices(s1, s0):
                        ctx.violations.append(dict(base, finding_key="C09-nondeterministic", what="the same recipe fed the same source bytes made different choices (word indices / capitalised positions / separators %r, before %r)" % (s1[:6], s0[:6])))
        else:
            if not a2.startswith("panic prng"):
                ctx.violations.append(dict(base, finding_key="C09-failopen", what="a read failed during generation (read %d, %d bytes delivered) but no panic/error resulted: %s" % (meta["read"], meta["delivered"], a2[:60])))
            elif "consumed=%d" % meta["cut"] not in a2:
                ctx.violations.append(dict(base, finding_key="C09-failopen", what="generation went on reading after the failed read"))
    for (line, _), (meta, a, b) in zip(getattr(ctx, "var_char_lines", []), getattr(ctx, "var_char", [])):
        judge(meta, a, line)
    for c, a, b in getattr(ctx, "var_wl", []):
        judge(c["meta"], a, wlgen.wlgen_line(c["list"], c["length"], c["sep"], c["cap"], c["budget"], chunks=c["chunks"]))
    for i, (meta, a, b) in enumerate(getattr(ctx, "var_char", [])[:200]):
        if ctx.again.get("c%d" % i) != a:
            ctx.violations.append({"finding_key": "C09-nondeterministic", "what": "the same recipe fed the same source bytes made different choices on a second run",
                                   "line": ctx.var_char_lines[i][0], "observed": a, "second": ctx.again.get("c%d" % i)})


def replay(v):
    line = "r " + v["line"]
    r, _ = core.run_impl([line])
    print(line[:300])
    print("->", r.get("r"))
    print("violation:", v["what"])
    return 1
