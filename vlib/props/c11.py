"""C11 — token index round-trips every password exactly and is as compact as documented."""
from .. import core, chargen
from .c12 import glyph_count

WORDS = ["a", "ab", "correct", "horse", "é", "kettő", "három", "日本", "😀", "Polish", "", "0", "-", " ", "¡", "--", "foo-bar"] * 4 + \
        ["x" * 254, "x" * 255, "x" * 256, "é" * 255, "é" * 256, "é" * 128] + \
        ["e\u0301", "\u0301", "ǆ", "ǅ", "ıa", "ſ", "𝓍", "𝒳y", "👨\u200d👩\u200d👧", "ﬁ", "\u200d", "\ufeff", "😀" * 255, "😀" * 256, "e\u0301" * 128]


def gen_sequences(ctx):
    rng = ctx.rng
    seqs = []
    # corpus first: the pinned-code failures F3, F3b
    seqs.append([("é", 1)] * 3)
    seqs.append([("kettő", 1), ("¡", 0), ("kettő", 1)])
    seqs.append([("a", 1), ("", 1)])
    seqs.append([("", 1)])
    seqs.append([("a", 1)])
    seqs.append([("a", 1), ("-", 0)])                 # even length: not alternating
    seqs.append([("-", 0), ("a", 1), ("-", 0)])       # S A S
    seqs.append([("a", 1), ("-", 0), ("b", 1)])
    seqs.append([("a", 1), ("-", 0), ("b", 7)])
    seqs.append([("x" * 256, 1)])
    seqs.append([("é" * 255, 1), ("é" * 256, 1)])
    # long sequences: token counts around every machine-size boundary an encoder might use
    for k in (127, 128, 129, 255, 256, 257, 300, 1000) if ctx.tier == "thorough" else (128, 255, 256, 257, 600):
        seqs.append([(rng.choice(["a", "é", "😀"]), 1) for _ in range(k)])                       # character password
        seqs.append([(rng.choice(WORDS[:17]), 1) for _ in range(k)])                               # all atoms
        m = k | 1
        seqs.append([((rng.choice(WORDS[:10]), 1) if j % 2 == 0 else ("-", 0)) for j in range(m)])  # alternating
        seqs.append([(rng.choice(WORDS[:17]), rng.choice([0, 1, 2])) for _ in range(k)])           # full
    n = 1500 if ctx.tier == "quick" else 20000
    for _ in range(n):
        style = rng.random()
        k = rng.randrange(1, 9)
        if style < 0.2:       # character password
            seq = [(rng.choice(["a", "b", "é", "€", "😀", "Z", "9"]), 1) for _ in range(k)]
        elif style < 0.27:    # every atom from one or two values (e.g. all atoms a base letter plus a combining mark, all astral, all blank)
            vals = rng.sample(["e\u0301", "\u0301", "𝓍", "😀", "\u200d", " ", "ǆ", "ıa", "é", "a\u0301", "\ufffd", "ab"], rng.choice([1, 1, 2]))
            seq = [(rng.choice(vals), 1) for _ in range(k)]
        elif style < 0.4:     # all atoms
            seq = [(rng.choice(WORDS), 1) for _ in range(k)]
        elif style < 0.65:    # alternating
            m = 2 * rng.randrange(1, 5) + 1
            sep = rng.choice(["-", " ", "¡", "--", "07", ""])
            seq = [((rng.choice(WORDS), 1) if j % 2 == 0 else (sep, 0)) for j in range(m)]
            if rng.random() < 0.3:
                j = rng.randrange(m)
                seq[j] = (seq[j][0], rng.choice([0, 1, 2]))
        else:                 # anything
            seq = [(rng.choice(WORDS), rng.choice([0, 1, 1, 1, 0, 2, 255])) for _ in range(k)]
        seqs.append(seq)
    return seqs


def correspondence(ctx):
    ctx.rule = ("token family: sequences of (value, type) incl. non-ASCII values, empty values, values of 254/255/256 characters and bytes, any type byte, combining marks, characters outside the BMP, ZWJ sequences, sequences of 128..1000 tokens, sequences whose atoms all share one or two values; "
                "plus every password produced by the chargen family (and wlgen in C04/C05), whose Kind/MakeIndices/Tokenize round trip is part of the "
                "compared observables. Non-trivial = distinct sequence containing a non-ASCII, empty or >= 254-character value, or of mixed types.")
    cases = []
    for seq in gen_sequences(ctx):
        line = "token %d %s" % (len(seq), " ".join("%s %d" % (core.hx(v), ty) for v, ty in seq))
        cases.append((line, {"tokens": [[v if len(v) < 20 else v[:8] + "...(%d chars)" % len(v), ty] for v, ty in seq], "_seq": seq}))
        if any((not v) or len(v) >= 254 or any(ord(c) > 127 for c in v) for v, _ in seq) or len(set(ty for _, ty in seq)) > 1:
            ctx.nontrivial.add(line)
        ctx.count("len_%d" % len(seq))
    ctx.tok_results = ctx.compare("token", cases)
    for meta, a, b in ctx.tok_results[:3]:
        ctx.sample({"tokens": meta["tokens"], "impl": a, "model": b})
    ctx.gen_results = chargen.run_chargen_family(ctx, 150 if ctx.tier == "quick" else 1500)


def kv(res):
    return dict(t.split("=", 1) for t in res.split(" ") if "=" in t)


def expected_kind(seq):
    if not seq:
        return None
    atoms = all(ty == 1 for _, ty in seq)
    if atoms and all(len(v) == 1 for v, _ in seq):
        return 0
    if atoms:
        return 1
    if len(seq) % 2 == 1 and len(seq) >= 3 and all(ty == (1 if j % 2 == 0 else 0) for j, (_, ty) in enumerate(seq)):
        return 2
    return 3


def check_rt(ctx, seq, res, line):
    d = kv(res)
    base = {"tokens": [[v[:16], ty] for v, ty in seq], "line": line, "observed": res}
    if res.startswith("panic"):
        ctx.violations.append(dict(base, finding_key="C11-panic", what="Kind/MakeIndices/Tokenize panicked"))
        return
    lens = [len(v) for v, _ in seq]
    kind = expected_kind(seq)
    rt = d.get("rt", "")
    idx = d.get("idx", "")
    if max(lens) > 255:
        if not idx.startswith("err:"):
            ctx.violations.append(dict(base, finding_key="C11-toolong", what="a token of more than 255 characters did not give an error"))
        return
    if idx.startswith("err:") or idx == "nil":
        ctx.violations.append(dict(base, finding_key="C11-roundtrip", what="MakeIndices failed on tokens of at most 255 characters: " + idx))
        return
    if rt != "ok":
        ctx.violations.append(dict(base, finding_key="C11-roundtrip", what="Tokenize(String(), MakeIndices()) did not reconstruct the tokens: " + rt[:80]))
        return
    if int(d["kind"]) != kind:
        ctx.violations.append(dict(base, finding_key="C11-kind", what="Kind() = %s, documented conditions give %d" % (d["kind"], kind)))
    n = len(core.unhx(idx))
    want = 1 if kind == 0 else (len(seq) + 1 if kind in (1, 2) else 2 * len(seq) + 1)
    if n != want:
        ctx.violations.append(dict(base, finding_key="C11-size", what="index has %d bytes, documented size is %d" % (n, want)))


def oracle(ctx, deep):
    ctx.searched = "the round trip itself, the documented kind conditions and index sizes, on every token sequence and every generated password of the run"
    for meta, a, b in getattr(ctx, "tok_results", []):
        if a is None:
            continue
        seq = meta["_seq"]
        line = "token %d %s" % (len(seq), " ".join("%s %d" % (core.hx(v), ty) for v, ty in seq))
        check_rt(ctx, seq, a, line)
    for meta, a, b in getattr(ctx, "gen_results", []):
        d = chargen.parse_password(a)
        if d and d["outcome"] == "ok":
            seq = [(v.decode("utf-8", "replace"), ty) for v, ty in d["tokens"]]
            check_rt(ctx, seq, a, chargen.chargen_line(meta["_recipe"], meta["budget"], meta["_words"]))


def replay(v):
    line = "r " + v["line"]
    r, _ = core.run_impl([line])
    print(line)
    print("->", r.get("r"))
    print("violation:", v["what"])
    return 1
