"""C06 — reported entropy never overstates: no password is likelier than 2^-Entropy."""
import itertools, math
from fractions import Fraction
from .. import core, chargen, wlgen
from ..spgref import Recipe, f32_from_bits, ulp32
from .c05 import title_map
from .c04 import expected_tokens, CELLS as WL_CELLS
from .c02 import CELLS as CHAR_CELLS
from .c03 import compare_recipes, kv

F8_SEP = Recipe(110, allow_chars="".join(chr(0x4E00 + i) for i in range(1000)), require_sets=["x"])


def correspondence(ctx):
    ctx.rule = ("chargen and wlgen families (the Entropy field of every returned password against the model's exact components), the recipe family "
                "(Entropy() of the recipe), complete cells for exact outcome probabilities, and the two open findings' corpus cases. "
                "Non-trivial = distinct cell tuple / case with a requirement, capitalisation bonus or functional separator.")
    ctx.gen_results = chargen.run_chargen_family(ctx, 150 if ctx.tier == "quick" else 2000)
    cases = wlgen.gen_cases(ctx, 150 if ctx.tier == "quick" else 2000)
    # F8 corpus: every one of the 200 attempts of the separator fails on this tape
    words = [0] + [1] * (200 * 110) + [1] + [0] + [1] * 109
    cases.insert(0, {"list": ["alpha", "beta"], "length": 2, "sep": ("recipe", F8_SEP), "cap": "none", "budget": chargen.DEFAULT_BUDGET,
                     "words": words, "meta": {"corpus": "F8", "tape": "all 200 separator attempts fail"}})
    ctx.wl_results = wlgen.run_wlgen_family(ctx, cases)
    for c, a, b in ctx.wl_results:
        if c["cap"] in ("one", "random") or c["sep"][0] in ("preset", "recipe"):
            ctx.nontrivial.add(str(c["meta"]) + str(len(c["words"])))
    for meta, a, b in ctx.gen_results:
        if meta["_recipe"].live_families():
            ctx.nontrivial.add(chargen.chargen_line(meta["_recipe"], meta["budget"], meta["_words"]))
    recs = [m["_recipe"] for m, a, b in ctx.gen_results[::3]]
    ctx.recipe_results = compare_recipes(ctx, [("recipe " + r.tokens(), {"recipe": r.to_json(), "_recipe": r}) for r in recs])
    for c, a, b in ctx.wl_results[1:3]:
        ctx.sample({"case": c["meta"], "impl": a, "model": b})


def char_cell(ctx, r):
    """exact conditional outcome probabilities of a character recipe from the complete first-attempt cell"""
    A = r.alphabet()
    a, L = len(A), r.length
    good = chargen.good_candidate(ctx.rng, r)
    if good is None or a ** L > 5000:
        return
    vectors = list(itertools.product(range(a), repeat=L))
    lines = ["v%d %s" % (k, chargen.chargen_line(r, chargen.DEFAULT_BUDGET, [chargen.word_for_index(ctx.rng, a, i) for i in v] + good)) for k, v in enumerate(vectors)]
    impl, _ = core.run_impl(lines)
    ctx.evaluations += len(lines)
    ctx.count("char_cell_vectors", len(lines))
    tally, nvalid, ent = {}, 0, None
    for k, v in enumerate(vectors):
        ctx.nontrivial.add(("charcell", r.tokens(), v))
        d = chargen.parse_password(impl.get("v%d" % k))
        if not d or d["outcome"] != "ok":
            continue
        ent = d["ent"]
        if int(d["consumed"]) == 4 * L:      # accepted at the first attempt
            nvalid += 1
            tally[d["str"]] = tally.get(d["str"], 0) + 1
    if not tally or ent is None:
        return
    E = f32_from_bits(ent[2:])
    worst = max(tally, key=lambda s: tally[s])
    p = Fraction(tally[worst], nvalid)
    if math.isnan(E) or float(p) > 2.0 ** (-E) * (1 + 2.0 ** -12):
        ctx.violations.append({"finding_key": "C06-char", "what": "password %r has probability %s = %.6g but the recipe reports %.4f bits (2^-E = %.6g)" % (
            core.unhx(worst), p, float(p), E, 2.0 ** (-E)), "recipe": r.to_json(), "line": "recipe " + r.tokens()})
    ctx.sample({"char_cell": r.to_json(), "valid_first_attempt": nvalid, "distinct_outputs": len(tally), "entropy_bits": E}, limit=12)


def wl_cell(ctx, l, L, sep, cap, shadow=None):
    res = wlgen.run_wl_cell(ctx, l, L, sep, cap, shadow=shadow)
    if not res:
        return
    ents = set()
    tmap = None
    for tp, d, order, titles, line, raw in res:
        ctx.nontrivial.add(("wlcell", str(l), L, cap, tp))
        if d is None or d["outcome"] != "ok":
            continue
        ents.add(d["ent"])
        words = [core.unhx(x) for x in order.split(",")[1:]]
        tmap = title_map(titles)
        want = expected_tokens(tp, words, tmap, L, sep, cap)
        if d["tokens"] != want:
            ctx.violations.append({"finding_key": "C06-choice", "what": "a choice tuple does not select the documented words/positions/separators", "line": line, "observed": raw})
            return
    if len(ents) != 1 or tmap is None:
        if len(ents) > 1:
            ctx.violations.append({"finding_key": "C06-entropy-unstable", "what": "Password.Entropy differs between passwords of the same recipe: %s" % sorted(ents), "line": res[0][4]})
        return
    E = f32_from_bits(ents.pop()[2:])
    words = sorted(set(core.unhx(x) for x in res[0][2].split(",")[1:]))
    images = {}
    for tp, d, order, titles, line, raw in res:
        images.setdefault(tuple(expected_tokens(tp, words, tmap, L, sep, cap)), []).append(tp)
    worst = max(images, key=lambda k: len(images[k]))
    p = Fraction(len(images[worst]), len(res))
    if float(p) > 2.0 ** (-E) * (1 + 2.0 ** -12):
        key = "wordlist-contains-empty-word" if any(w in ("", b"") for w in l) else "C06-wordlist"
        ctx.violations.append({"finding_key": key, "what": "token sequence %r has probability %s = %.6g but the recipe reports %.4f bits (2^-E = %.6g)" % (
            list(worst), p, float(p), E, 2.0 ** (-E)), "list": l, "length": L, "cap": cap, "sep": wlgen.sep_json(sep), "line": res[0][4]})
    ctx.sample({"wl_cell": {"list": l, "length": L, "sep": wlgen.sep_json(sep), "cap": cap}, "tuples": len(res), "distinct": len(images), "entropy_bits": E,
                "max_probability": str(p)}, limit=14)


EXTRA_WL_CELLS = [
    (["polish", "Polish", "alpha"], 2, ("char", "-"), "random"),        # twin removed: all capitalisable
    (["Polish", "alpha", "beta"], 2, ("char", "-"), "random"),          # pre-capitalised word: min-entropy, no bonus
    (["正確", "one", "two"], 2, ("char", " "), "one"),                    # caseless word: no bonus
    (["4", "5"], 3, ("preset", "SFDigits1"), "random"),
    (["'tis", "o'neil", "x"], 2, ("char", "-"), "random"),            # every word changes under strings.Title, one only after an apostrophe
    (["4-wheel", "jean-luc"], 2, ("char", " "), "one"),                 # ... one only in a later segment
]


def oracle(ctx, deep):
    ctx.searched = ("exact outcome probabilities from complete cells of the real generators (character recipes: conditional on first-attempt acceptance; "
                    "wordlist recipes: all choice tuples) against 2^-Entropy as reported; Password.Entropy against the recipe's Entropy(); the open findings F7, F8")
    for r in (CHAR_CELLS if (deep or ctx.tier == "thorough") else CHAR_CELLS[:7]):
        char_cell(ctx, r)
    cells = list(WL_CELLS[:6]) + EXTRA_WL_CELLS + (list(WL_CELLS[6:]) if (deep or ctx.tier == "thorough") else [])
    for (l, L, sep, cap) in cells:
        wl_cell(ctx, l, L, sep, cap)
    wl_cell(ctx, ["4", "5"], 3, ("preset", "SFDigits1"), "none", shadow="-")     # both separator fields set: the function is used
    wl_cell(ctx, ["", "a"], 3, ("char", ""), "none")          # open finding F7
    # Entropy() against an independent exact count: never more than log2 of the number of satisfying strings
    for meta, a, b in getattr(ctx, "recipe_results", []):
        if not a or a.startswith("panic"):
            continue
        r = meta["_recipe"]
        if r.length < 1 or not r.alphabet() or len(r.live_families()) > 10:
            continue
        ent = kv(a).get("ent", "")
        if not ent.startswith("F:"):
            continue
        got = f32_from_bits(ent[2:])
        cnt = r.count()
        if cnt <= 0:
            continue
        want = math.log2(cnt)
        if math.isnan(got) or got > want + 4 * ulp32(max(want, 1.0)):
            ctx.violations.append({"finding_key": "C06-char", "recipe": meta["recipe"], "line": "recipe " + r.tokens(), "observed": a[:200],
                                   "what": "Entropy() = %r overstates: there are exactly %d satisfying strings, log2 = %r" % (got, cnt if cnt < 10 ** 30 else -1, want)})
            break
    # Password.Entropy is the recipe's Entropy()
    rec_ent = {}
    for meta, a, b in getattr(ctx, "recipe_results", []):
        if a:
            rec_ent[meta["_recipe"].tokens()] = kv(a).get("ent")
    for meta, a, b in getattr(ctx, "gen_results", []):
        d = chargen.parse_password(a)
        if d and d["outcome"] == "ok":
            want = rec_ent.get(meta["_recipe"].tokens())
            if want is not None and want != d["ent"]:
                ctx.violations.append({"finding_key": "C06-field", "what": "Password.Entropy (%s) is not the recipe's Entropy() (%s)" % (d["ent"], want),
                                       "recipe": meta["recipe"], "line": chargen.chargen_line(meta["_recipe"], meta["budget"], meta["_words"])})
    # every returned character password must be the first satisfying candidate its stream scripts, among at most MaxTrials:
    # that is the process whose outcome probabilities (1/count each, conditionally) Entropy() accounts for; a password produced
    # any other way (from a stream on which every permitted attempt fails, say) carries probability mass on top of it
    # a returned password has positive probability: an entropy of +Inf (2^-E = 0) or NaN overstates whatever the recipe is
    for meta, a, b in getattr(ctx, "gen_results", []):
        d = chargen.parse_password(a) if a else None
        if d and d["outcome"] == "ok" and d.get("ent", "").startswith("F:"):
            E = f32_from_bits(d["ent"][2:])
            if math.isnan(E) or E == float("inf"):
                ctx.violations.append({"finding_key": "C06-char", "recipe": meta["recipe"], "line": chargen.chargen_line(meta["_recipe"], meta["budget"], meta["_words"]),
                                       "observed": a[:200], "what": "a password was returned with Entropy = %r: its probability is positive, 2^-Entropy is not" % E})
                break
    for c, a, b in getattr(ctx, "wl_results", []):
        if not a:
            continue
        d = chargen.parse_password(wlgen.parse_pre(a)[2])
        if d and d["outcome"] == "ok" and d.get("ent", "").startswith("F:"):
            E = f32_from_bits(d["ent"][2:])
            if math.isnan(E) or E == float("inf"):
                ctx.violations.append({"finding_key": "C06-wordlist", "case": c["meta"], "observed": a[:200],
                                       "line": wlgen.case_line(c),
                                       "what": "a wordlist password was returned with Entropy = %r: its probability is positive, 2^-Entropy is not" % E})
                break
    for meta, a, b in getattr(ctx, "gen_results", []):
        msg = chargen.process_verdict(meta, a) if a else None
        if msg:
            ctx.violations.append({"finding_key": "C06-process", "recipe": meta["recipe"], "budget": meta["budget"],
                                   "line": chargen.chargen_line(meta["_recipe"], meta["budget"], meta["_words"]), "observed": a[:300], "what": msg})
            break
    # a separator function whose recipe can fail: a missing separator is an outcome far likelier than 2^-Entropy (F8)
    for c, a, b in getattr(ctx, "wl_results", []):
        if a is None:
            continue
        r = wlgen.sep_recipe(c["sep"])
        if r is None or not r.live_families() or c["length"] < 2:
            continue
        order, titles, rest = wlgen.parse_pre(a)
        d = chargen.parse_password(rest)
        if not d or d["outcome"] != "ok":
            continue
        p = r.success_probability()
        if not p or r.length < 1:
            continue
        nseps = sum(1 for _, ty in d["tokens"] if ty == 0)
        if nseps < c["length"] - 1:
            T = c["budget"][0]
            mass = (1 - p) ** T          # probability that one separator call fails completely
            count = r.count()
            key = "fallible-separator-beyond-threshold" if mass * count > 1 else "C06-separator"
            if mass * count > 1:
                ctx.violations.append({"finding_key": key, "what": "separator missing after all %d attempts failed: this outcome has mass about %.3g per gap, 2^-(separator entropy) is %.3g" % (
                    T, float(mass), 1.0 / float(count) if count < 10 ** 300 else 0.0), "case": c["meta"],
                    "line": wlgen.case_line(c)[:300] + "..."})


def replay(v):
    line = "r " + v["line"]
    r, _ = core.run_impl([line])
    print(line[:400])
    print("->", (r.get("r") or "")[:600])
    core.replay_shared_list(v["line"])
    print("violation:", v["what"])
    return 1
