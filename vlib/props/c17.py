"""C17 — the opgen CLI is faithful to the library recipe its flags describe."""
import os, math, struct, subprocess, tempfile, shutil, re
from .. import core, chargen, wlgen
from ..spgref import f32_from_bits, Recipe

W = 1 << 32
CLASS_WORDS = {"uppercase": 1, "lowercase": 2, "digits": 4, "symbols": 8, "ambiguous": 16}
CLASS_CHARS = {1: "ABCDEFGHIJKLMNOPQRSTUVWXYZ", 2: "abcdefghijklmnopqrstuvwxyz", 4: "0123456789", 8: "!@.-_*", 16: "0O1Il5S"}
SEP_WORDS = {"hyphen": "-", "space": " ", "comma": ",", "period": ".", "underscore": "_", "digit": None, "none": ""}
CAP_WORDS = ["none", "first", "all", "random", "one"]
USAGE_MARK = b"opgen characters [--length=<n>]"
FILE_WORDS = ["alpha", "beta", "gamma", "delta", "epsilon", "zeta", "eta", "theta", "iota", "kappa", "lambda", "mu", "nu", "xi", "omicron", "pi", "rho", "sigma",
              "100%sure", "50%", "%d", "a%sb", "don't", "e-mail", "x_y", "tab%vtab"]


def hxb(b):
    return b.hex() if b else "-"


class Files:
    def __init__(self, d, rng):
        self.dir = d
        self.rng = rng
        self.made = {}      # path -> content bytes or None (missing)
        self.n = 0

    def make(self, content):
        self.n += 1
        p = os.path.join(self.dir, "list%d.txt" % self.n)
        if content is None:
            p = os.path.join(self.dir, "missing%d.txt" % self.n)
        else:
            with open(p, "wb") as f:
                f.write(content)
        self.made[p] = content
        return p


def gen_file(rng, files):
    k = rng.random()
    ws = rng.sample(FILE_WORDS, rng.choice([1, 2, 3, 5, 7, 8, 9, 16]))
    if k < 0.1:
        return files.make(None), None
    if k < 0.2:
        return files.make(rng.choice([b"", b"\n", b"  \t\n\r\n "])), []
    if k < 0.4:
        ws = ws + [rng.choice(ws)] + ([ws[0]] if rng.random() < 0.5 else [])     # duplicates
    if k > 0.85:
        ws = ws + [ws[0].capitalize()]                                           # a word with its capitalised twin
    seps = [" ", "\n", "\t", "\r\n", "  ", " \n"]
    body = "".join(w + rng.choice(seps) for w in ws)
    if rng.random() < 0.3:
        body = rng.choice(["", "\n", " "]) + body.rstrip()
    return files.make(body.encode()), ws


def spell(rng, name, value, boolean=False):
    dash = rng.choice(["--", "-"])
    if boolean:
        r = rng.random()
        if value is True and r < 0.7:
            return [dash + name]
        return [dash + name + "=" + {True: rng.choice(["true", "1", "T"]), False: rng.choice(["false", "0", "F"])}.get(value, str(value))]
    if rng.random() < 0.7:
        return [dash + name + "=" + value]
    return [dash + name, value]


def class_list(rng):
    r = rng.random()
    if r < 0.12:
        return ""
    ws = rng.sample(list(CLASS_WORDS), rng.randrange(1, 5))
    if rng.random() < 0.15:
        ws.insert(rng.randrange(len(ws) + 1), rng.choice(["bogus", "upper", "Digits", ""]))
    if rng.random() < 0.15:
        ws.append(ws[0])
    return rng.choice([",", ", ", " ,"]).join(ws)


def int_value(rng, small):
    r = rng.random()
    if r < 0.75:
        return str(rng.choice(small))
    return rng.choice(["0", "-3", "+5", "abc", "", "1.5", "9223372036854775808", "007", "0x10", "1_0", "64", "-0", "0b101", "0o17", "0X1f", "_1", "1_", "1__0",
                       "0x_10", "08", "+", "0x", "-9223372036854775808", "0b2", "012"])


def gen_argv(rng, files):
    """(argv, kind) — kind is only for the histogram"""
    r = rng.random()
    if r < 0.06:
        return rng.choice([[], ["passwords"], ["-h"], ["--help"], ["--"], ["-"], ["--bogus"], ["-x=1"], ["recipe", "pin"],
                           ["--length=5", "characters"], ["Characters"], ["words "], ["characters", "-h"], ["words", "--help"],
                           ["characters", "--bogus"], ["words", "-nosuch=1"], ["characters", "--length"], ["words", "--entropy=maybe"],
                           ["characters", "---length=3"], ["characters", "-=3"]]), "malformed"
    if r < 0.5:
        argv = ["characters"]
        parts = []
        if rng.random() < 0.7:
            parts.append(spell(rng, "length", int_value(rng, [1, 2, 3, 4, 6, 8, 12, 16, 20, 24, 32, 40])))
        for name in ("allow", "require", "exclude"):
            if rng.random() < (0.55 if name != "require" else 0.4):
                parts.append(spell(rng, name, class_list(rng)))
        if rng.random() < 0.3:
            parts.append(spell(rng, "entropy", rng.choice([True, True, True, False]), boolean=True))
        rng.shuffle(parts)
        for p in parts:
            argv += p
        if rng.random() < 0.06:
            argv += rng.choice([["extra"], ["--", "--length=3"], ["-"]])
        return argv, "characters"
    argv = ["words"]
    parts = []
    if rng.random() < 0.6:
        parts.append(spell(rng, "size", int_value(rng, [1, 2, 3, 4, 5, 6, 8])))
    k = rng.random()
    if k < 0.45:
        path, ws = gen_file(rng, files)
        parts.append(spell(rng, "file", path))
    elif k < 0.75:
        parts.append(spell(rng, "list", rng.choice(["words", "syllables", "syllables", "bogus", "Words", ""])))
    if rng.random() < 0.7:
        parts.append(spell(rng, "separator", rng.choice(list(SEP_WORDS) + ["tab", ""])))
    if rng.random() < 0.6:
        parts.append(spell(rng, "capitalize", rng.choice(CAP_WORDS + ["title", ""])))
    if rng.random() < 0.3:
        parts.append(spell(rng, "entropy", rng.choice([True, True, True, False]), boolean=True))
    rng.shuffle(parts)
    for p in parts:
        argv += p
    return argv, "words"


def run_binary(exe, argv, tape_path):
    env = dict(os.environ)
    if tape_path:
        env["SPG_VERIF_TAPE"] = tape_path
    else:
        env.pop("SPG_VERIF_TAPE", None)
    try:
        p = subprocess.run([exe] + argv, env=env, stdout=subprocess.PIPE, stderr=subprocess.PIPE, timeout=60)
    except subprocess.TimeoutExpired:
        return None, b"", b"timeout"
    return p.returncode, p.stdout, p.stderr


def title_simple(w):
    """strings.Title on ASCII: upper-case a letter that starts the string or follows a byte that is not a letter, digit or underscore"""
    out = []
    start = True
    for ch in w:
        out.append(ch.upper() if (start and "a" <= ch <= "z") else ch)
        start = not (ch.isascii() and (ch.isalnum() or ch == "_"))
    return "".join(out)


def untitle_candidates(w, wordset):
    """the list words whose title-cased form is w"""
    return [x for x in wordset if len(x) == len(w) and title_simple(x) == w]


def model_line(argv, files, words):
    fl = ["%s %s" % (hxb(p.encode()), "!" if c is None else hxb(c)) for p, c in files.made.items() if any(p in a for a in argv)]
    return "cli %d%s %d%s ascii %s" % (len(argv), "".join(" " + hxb(a.encode()) for a in argv), len(fl), "".join(" " + f for f in fl),
                                      core.src_tokens(core.flat_tape(words)))


def parse_model(res):
    """plan=.. exit=.. pw=<k tok..|-> ent=.. consumed=.."""
    if res is None or not res.startswith("plan="):
        return None
    d = {}
    toks = res.split(" ")
    d["plan"] = toks[0][5:]
    if len(toks) > 1 and toks[1] in ("err", "panic"):
        d["abnormal"] = " ".join(toks[1:3])
        return d
    i = 1
    d["exit"] = int(toks[i][5:]); i += 1
    pw = toks[i][3:]; i += 1
    if pw == "-":
        d["pw"] = None
    else:
        k = int(pw)
        d["pw"] = []
        for t in toks[i:i + k]:
            v, ty = t.rsplit(":", 1)
            d["pw"].append((core.unhx(v), int(ty)))
        i += k
    d["ent"] = toks[i][4:]; i += 1
    d["consumed"] = int(toks[i][9:]); i += 1
    d["diag"] = core.unhx(toks[i][5:]) if i < len(toks) and toks[i].startswith("diag=") else b""
    return d


def draw(n, words, pos):
    """randomUint32n on a word tape: (index, next position)"""
    while pos < len(words):
        w = words[pos]
        pos += 1
        if n & (n - 1) == 0:
            return w & (n - 1), pos
        if w < chargen.discard(n):
            return w % n, pos
    return None, pos


def caps_from_tape(scheme, L, words):
    """which of the L positions the scheme capitalises, given the raw words the generation starts with"""
    if L < 1:
        return []
    if scheme == "first":
        return [i == 0 for i in range(L)]
    if scheme == "all":
        return [True] * L
    if scheme == "one":
        if words is None:
            return None
        w, _ = draw(L, words, 0)
        return None if w is None else [i == w for i in range(L)]
    if scheme == "random":
        if words is None:
            return None
        out, pos = [], 0
        for _ in range(L):
            b, pos = draw(2, words, pos)
            if b is None:
                return None
            out.append(b == 1)
        return out
    return [False] * L


def fmt_entropy(desc):
    """what fmt.Printf("%.2f\\n", float32) prints for the entropy the model describes; None when within rounding doubt"""
    if desc.startswith("W:"):
        x = wlgen.expected_wl_entropy(desc)
    else:
        x = chargen.expected_entropy(desc)
    if x is None:
        return None
    if math.isnan(x):
        return b"NaN\n"
    if math.isinf(x):
        return b"+Inf\n" if x > 0 else b"-Inf\n"
    x32 = struct.unpack(">f", struct.pack(">f", x))[0]
    frac = abs(x32 * 100) % 1.0
    if abs(frac - 0.5) < 0.02:
        return None
    return ("%.2f\n" % x32).encode()


def match_words(line, pattern, wordset, maxlen):
    """can `line` be cut into the pattern? pattern: list of ('sep', literal) | ('atom', capitalised?)"""
    n = len(line)
    titled = set(title_simple(x) for x in wordset)
    pos = {0}
    for kind, arg in pattern:
        nxt = set()
        for p in pos:
            if kind == "sep":
                if line.startswith(arg, p):
                    nxt.add(p + len(arg))
            else:
                for q in range(p + 1, min(n, p + maxlen) + 1):
                    w = line[p:q]
                    if arg is True:
                        ok = w in titled
                    elif arg is False:
                        ok = w in wordset
                    else:
                        ok = w in wordset or w in titled
                    if ok:
                        nxt.add(q)
        pos = nxt
        if not pos:
            return False
    return n in pos


BUILTIN = {}


def builtin_words(name):
    if name not in BUILTIN:
        fn = {"words": "agwordlist.txt", "syllables": "agsyllables.txt"}[name]
        BUILTIN[name] = [l for l in open(os.path.join(core.REPO, "testdata", fn), encoding="utf-8").read().split("\n") if l]
    return BUILTIN[name]


# ---------------------------------------------------------------- correspondence

def correspondence(ctx):
    ctx.rule = ("cli family: command lines from a grammar (both subcommands; every flag in the spellings -f=v, --f=v, -f v, --f v and boolean forms; class "
                "lists with spaces, unknown words, duplicates and explicit empties; integers incl. 0, negatives, non-numeric and out-of-range; both shipped "
                "lists, unknown lists, --file with unique/duplicate/twin/empty/missing files; every separator and scheme word and unknown ones; --entropy; "
                "malformed lines). The REAL binary built from the tree under test (-tags verif) is run with a scripted random tape; exit status compared "
                "exactly; stdout compared byte for byte for characters and entropies (the alphabet order is canonical under the tag), and for word passwords "
                "against the model's token pattern (separators and capitalised positions exact, each word a member of the list, because Go's map order "
                "differs per process). Non-trivial = distinct command lines that are not plain defaults.")
    rng = ctx.rng
    if not ctx.build.opgen_ok:
        ctx.mismatches.append({"family": "cli", "case": "go build ./cmd/opgen", "impl": "does not build", "model": None, "meta": {}})
        return
    n = 220 if ctx.tier == "quick" else 2500
    tmp = tempfile.mkdtemp(prefix="verif-c17-")
    ctx.c17_tmp = tmp
    files = Files(tmp, rng)
    cases = [(["characters"], "default"), (["words"], "default"), (["characters", "--entropy"], "default"), (["words", "--entropy"], "default"),
             (["words", "--list=syllables", "--size=5"], "default"), (["words", "--separator=digit", "--capitalize=one"], "default")]
    cases += [gen_argv(rng, files) for _ in range(n)]
    exe = os.path.join(core.BUILD, "opgen")
    lines, impls, tapes = [], [], []
    for i, (argv, kind) in enumerate(cases):
        words = [rng.randrange(W) for _ in range(2048)]
        tapes.append(words)
        tape = os.path.join(tmp, "tape%d" % i)
        with open(tape, "wb") as f:
            f.write(b"".join(w.to_bytes(4, "big") for w in words))
        rc, out, err = run_binary(exe, argv, tape)
        os.remove(tape)
        impls.append((rc, out, err))
        lines.append("k%d %s" % (i, model_line(argv, files, words)))
        ctx.count("kind_" + kind)
    model, note = core.run_model(lines, timeout=1200)
    if note:
        ctx.notes.append("model runner (cli): " + note)
    fam = ctx.families.setdefault("cli", {"cases": 0, "mismatches": 0, "outside_modelled_syntax": 0, "entropy_rounding_skipped": 0})
    ctx.cli_results = []
    for i, (argv, kind) in enumerate(cases):
        rc, out, err = impls[i]
        m = parse_model(model.get("k%d" % i))
        if m is not None:
            m["_words"] = tapes[i]
        ctx.evaluations += 1
        fam["cases"] += 1
        why = compare_case(ctx, fam, argv, files, rc, out, err, m)
        if why == "skip":
            continue
        if why:
            fam["mismatches"] += 1
            ctx.mismatches.append({"family": "cli", "case": " ".join(argv), "impl": {"exit": rc, "stdout": out[:200].decode("utf-8", "replace"), "stderr": err[:200].decode("utf-8", "replace")},
                                   "model": model.get("k%d" % i, "")[:300], "meta": {"why": why}})
        else:
            ctx.traces_validated += 1
        if kind != "default":
            ctx.nontrivial.add(tuple(argv))
        ctx.count("plan_" + (m["plan"] if m else "none"))
        ctx.cli_results.append((argv, rc, out, err, m))
    for argv, rc, out, err, m in ctx.cli_results[:3] + ctx.cli_results[8:10]:
        ctx.sample({"argv": argv, "exit": rc, "stdout": out[:80].decode("utf-8", "replace"), "model": {k: (str(v)[:80]) for k, v in (m or {}).items()}})


def compare_case(ctx, fam, argv, files, rc, out, err, m):
    if m is None:
        return "no model result"
    plan = m["plan"]
    if plan == "outside":
        fam["outside_modelled_syntax"] += 1
        return "skip"
    if "abnormal" in m:
        # the model ran out of tape (PRNG panic): the binary must have died the same way
        if m["abnormal"].startswith("panic prng") and rc == 2 and b"PRNG gen error" in err:
            return None
        return "model: " + m["abnormal"]
    if rc != m["exit"]:
        return "exit status %s, model %s" % (rc, m["exit"])
    if plan == "usage":
        return None if (USAGE_MARK in out and out.count(b"\n") > 5) else "usage text expected on standard output"
    if plan in ("flagerror", "help", "fatal"):
        return None if out == b"" else "nothing expected on standard output"
    diag = m.get("diag", b"")       # the library's own notice on standard output (empty alphabet), predicted by the model
    if plan in ("chars-entropy", "words-entropy"):
        if m["exit"] != 0:
            return None if out == diag else "only the library's notice expected on standard output"
        want = fmt_entropy(m["ent"])
        if want is None:
            fam["entropy_rounding_skipped"] += 1
            return None if out.startswith(diag) and re.fullmatch(rb"-?[0-9]+\.[0-9][0-9]\n", out[len(diag):]) else "one entropy line expected"
        return None if out == diag + want else "entropy output %r, model %r" % (out, diag + want)
    if m["exit"] != 0:
        return None if out == diag else "nothing but the library's notice expected on standard output when the library refuses"
    if plan == "chars":
        want = diag + b"".join(v for v, _ in m["pw"]) + b"\n"
        return None if out == want else "password line %r, model %r" % (out[:60], want[:60])
    if plan == "words":
        if not out.endswith(b"\n") or out.count(b"\n") != 1:
            return "exactly one line expected"
        line = out[:-1].decode("utf-8", "replace")
        ws = words_of_argv(argv, files)
        if ws is None:
            return "cannot determine the word list"
        wordset = set(ws)
        v = flag_values(argv)
        n_atoms = sum(1 for _, ty in m["pw"] if ty == 1)
        caps = caps_from_tape(v.get("capitalize", "none"), n_atoms, m.get("_words"))
        if caps is None:
            return "cannot determine the capitalised positions"
        pattern = []
        k = 0
        for val, ty in m["pw"]:
            if ty == 0:
                pattern.append(("sep", val.decode()))
            else:
                pattern.append(("atom", caps[k]))
                k += 1
        return None if match_words(line, pattern, wordset, max(len(w) for w in ws)) else "password line %r does not fit the model's token pattern %r" % (line[:80], pattern[:9])
    return "unknown plan " + plan


def flag_values(argv):
    """last value of each flag, Go flag syntax (enough for the lines the grammar generates)"""
    vals = {}
    i = 1
    bools = {"entropy"}
    while i < len(argv):
        a = argv[i]
        if len(a) < 2 or a[0] != "-" or a == "--":
            break
        name = a.lstrip("-") if not a.startswith("---") else a[2:]
        name = a[2:] if a.startswith("--") else a[1:]
        if "=" in name[1:]:
            k = name.index("=", 1)
            vals[name[:k]] = name[k + 1:]
        elif name in bools:
            vals[name] = "true"
        else:
            i += 1
            if i < len(argv):
                vals[name] = argv[i]
        i += 1
    return vals


def words_of_argv(argv, files):
    v = flag_values(argv)
    f = v.get("file", "")
    if f:
        c = files.made.get(f)
        if c is None:
            return None
        return c.decode().split()
    name = v.get("list", "words")
    if name in ("words", "syllables"):
        return builtin_words(name)
    return None


# ---------------------------------------------------------------- direct oracle (tape-free, independent of the model)

def canonical(argv):
    """the same command line spelt --flag=value throughout, or None when it cannot be read that way"""
    if not argv or argv[0] not in ("characters", "words"):
        return None
    out, i = [argv[0]], 1
    while i < len(argv):
        a = argv[i]
        m = re.fullmatch(r"--?([a-z]+)(=(.*))?", a, re.S)
        if not m:
            return None
        name, val = m.group(1), m.group(3)
        if m.group(2) is None and name != "entropy":
            if i + 1 >= len(argv):
                return None
            val = argv[i + 1]
            i += 1
        out.append("--" + name + ("" if val is None else "=" + val))
        i += 1
    return out


def documented(argv, files):
    """what the documentation says a canonical command line means; None when the line is not one the oracle decides"""
    if argv and argv[0].startswith("-"):
        return None                          # a flag before the subcommand (-h is a help request, not an unknown subcommand)
    if not argv or argv[0] not in ("characters", "words"):
        return {"exit": 2}
    ok = {"characters": {"length", "allow", "require", "exclude", "entropy"}, "words": {"size", "list", "file", "separator", "capitalize", "entropy"}}[argv[0]]
    for a in argv[1:]:
        if not re.fullmatch(r"--[a-z]+(=.*)?", a):
            return None                      # only the canonical spelling --flag=value / --entropy
        name = a[2:].split("=", 1)[0]
        if name in ("help", "h"):
            return None                      # a help request
        if name not in ok:
            return {"exit": 2}
        if name != "entropy" and "=" not in a:
            return None
    v = flag_values(argv)
    d = {"entropy": v.get("entropy") == "true"}
    if "entropy" in v and v["entropy"] not in ("true", "false"):
        return None

    def num(s, default):
        if s is None:
            return default
        return int(s) if re.fullmatch(r"-?(0|[1-9][0-9]{0,6})", s) else None
    if argv[0] == "characters":
        L = num(v.get("length"), 20)
        if L is None:
            return None
        def classes(s, default):
            if s is None or s == "":
                ws = default
            else:
                ws = s.replace(" ", "").split(",")
            m = 0
            for w in ws:
                m |= CLASS_WORDS.get(w, 0)
            return m
        allow, require, exclude = classes(v.get("allow"), ["uppercase", "lowercase", "digits", "symbols"]), classes(v.get("require"), []), classes(v.get("exclude"), ["ambiguous"])
        def chars(m):
            return set("".join(s for f, s in CLASS_CHARS.items() if m & f))
        ex = chars(exclude)
        d.update(kind="chars", length=L, alphabet=(chars(allow) | chars(require)) - ex,
                 required=[set(CLASS_CHARS[f]) - ex for f in CLASS_CHARS if require & f and set(CLASS_CHARS[f]) - ex],
                 recipe=Recipe(L, allow, require, exclude))
        return d
    n = num(v.get("size"), 4)
    if n is None:
        return None
    ws = words_of_argv(argv, files)
    if "file" not in v and v.get("list", "words") not in ("words", "syllables"):
        return {"exit": 2}
    if ws is None or not ws:
        return {"exit": 1}
    sep = v.get("separator", "hyphen")
    cap = v.get("capitalize", "none")
    if sep not in SEP_WORDS or cap not in CAP_WORDS:
        return None
    d.update(kind="words", size=n, words=ws, sep=sep, cap=cap)
    return d


def oracle(ctx, deep):
    ctx.searched = ("the unhooked binary on the OS random source for the canonical command lines of this run: exit status, exactly one line on success, and "
                    "membership of the printed line in the language of the documented recipe (length, classes, exclusions, required classes, list words, "
                    "separators, capitalisation pattern), decided by an independent restatement of the documentation")
    exe = os.path.join(core.BUILD, "opgen_plain")
    if not os.path.exists(exe) or not hasattr(ctx, "cli_results"):
        return
    files = None
    tmp = getattr(ctx, "c17_tmp", None)
    try:
        fobj = Files(tmp, ctx.rng) if tmp else None
        # files made during the correspondence run are still on disk; rebuild the content map from them
        if fobj:
            for fn in os.listdir(tmp):
                if fn.startswith("list"):
                    fobj.made[os.path.join(tmp, fn)] = open(os.path.join(tmp, fn), "rb").read()
        done = 0
        budget = 400 if deep else 120
        extra = [(["characters", "--length=%d" % L, "--allow=%s" % a, "--require=%s" % r, "--exclude=%s" % e])
                 for L in (4, 9) for a in ("digits", "lowercase,uppercase", "symbols,digits") for r in ("", "digits", "symbols") for e in ("", "ambiguous", "digits")]
        lines = [argv for argv, rc, out, err, m in ctx.cli_results] + extra
        # command lines on which the model and the binary disagreed are judged first, in their canonical spelling
        # (--flag=value; Go's flag package reads -flag, --flag, "--flag value" and "--flag=value" alike)
        disagreed = set(mm.get("case") for mm in ctx.mismatches if mm.get("family") == "cli")
        first = [canonical(argv) for argv in lines if " ".join(argv) in disagreed]
        lines = [a for a in first if a is not None] + lines
        for argv in lines:
            if done >= budget:
                break
            d = documented(argv, fobj)
            if d is None:
                continue
            reps = 3 if d.get("kind") else 1
            for _ in range(reps):
                rc, out, err = run_binary(exe, argv, None)
                done += 1
                base = {"argv": argv, "line": " ".join(argv), "observed": {"exit": rc, "stdout": out[:200].decode("utf-8", "replace"), "stderr": err[:300].decode("utf-8", "replace")}}
                if fobj:
                    # the word files the command line names, so that the replay can put them back
                    named = [a.split("=", 1)[1] for a in argv if "file=" in a and "=" in a]
                    base["files"] = {pth: fobj.made[pth].hex() for pth in named if fobj.made.get(pth) is not None}
                v = judge_line(d, rc, out)
                if v:
                    ctx.violations.append(dict(base, finding_key="C17-cli", what=v))
                    break
    finally:
        if tmp:
            shutil.rmtree(tmp, ignore_errors=True)


def documented_entropy_line(d):
    """the line --entropy must print for the documented recipe, from an independent count; None when not decided here"""
    try:
        if d["kind"] == "chars":
            r = d["recipe"]
            if r.length < 1 or not r.allowed():
                return None
            c = r.count()
            if c <= 0:
                return None
            x = math.log2(c)
        else:
            n = d["size"]
            if n < 1:
                return None
            ws = set(d["words"])
            twins = set()
            for v in ws:
                t = title_simple(v)
                if t != v:
                    twins.add(t)
            kept = [w for w in ws if w not in twins]
            x = n * math.log2(len(kept))
            if all(title_simple(w) != w for w in kept):
                x += n if d["cap"] == "random" else math.log2(n) if d["cap"] == "one" else 0
            if d["sep"] == "digit":
                x += (n - 1) * math.log2(10)
    except Exception:
        return None
    x32 = struct.unpack(">f", struct.pack(">f", x))[0]
    if abs((abs(x32 * 100) % 1.0) - 0.5) < 0.03:
        return None
    return ("%.2f\n" % x32).encode()


def judge_line(d, rc, out):
    if "kind" not in d:
        if rc != d["exit"]:
            return "exit status %s, documented %s" % (rc, d["exit"])
        if d["exit"] == 1 and out != b"" and not out.startswith(b"entropySimple:"):
            return "something was printed on standard output although the command failed"
        if d["exit"] == 2 and out != b"" and USAGE_MARK not in out:
            return "a usage error printed %r on standard output" % out[:60]
        return None
    if d["kind"] == "chars":
        feasible = d["length"] >= 1 and d["alphabet"] and len(d["required"]) <= d["length"]
        if d["entropy"]:
            if d["length"] >= 1 and d["alphabet"] and (rc != 0 or not re.fullmatch(rb"(-?[0-9]+\.[0-9][0-9]|NaN|[+-]Inf)\n", out)):
                return "--entropy must print one number and exit 0 (exit %s, %r)" % (rc, out[:40])
            want = documented_entropy_line(d)
            if want is not None and out != want:
                return "--entropy printed %r, the documented recipe's entropy is %r" % (out, want)
            return None
        if not feasible:
            if d["length"] < 1 or not d["alphabet"]:
                quiet = out == b"" or (out.startswith(b"entropySimple:") and out.count(b"\n") == 1)
                return None if (rc == 1 and quiet) else "a recipe the library cannot honour must exit 1 and print no password (exit %s, %r)" % (rc, out[:40])
            return None
        if rc == 1 and out == b"":
            return None      # refused by the failure-rate pre-flight: decided by C13
        if rc != 0 or out.count(b"\n") != 1 or not out.endswith(b"\n"):
            return "exactly one line and exit 0 expected (exit %s, %r)" % (rc, out[:60])
        s = out[:-1].decode("utf-8", "replace")
        if len(s) != d["length"]:
            return "password %r has %d characters, --length is %d" % (s, len(s), d["length"])
        for c in s:
            if c not in d["alphabet"]:
                return "password %r contains %r, which the classes given do not allow" % (s, c)
        for rq in d["required"]:
            if not (set(s) & rq):
                return "password %r has no character of a required class" % s
        return None
    # words
    if d["entropy"]:
        if rc != 0 or not re.fullmatch(rb"(-?[0-9]+\.[0-9][0-9]|NaN|[+-]Inf)\n", out):
            return "--entropy must print one number and exit 0 (exit %s, %r)" % (rc, out[:40])
        want = documented_entropy_line(d)
        if want is not None and out != want:
            return "--entropy printed %r, the documented recipe's entropy is %r" % (out, want)
        return None
    if d["size"] < 1:
        return None if (rc == 1 and out == b"") else "a recipe the library cannot honour must exit 1 and print nothing (exit %s, %r)" % (rc, out[:40])
    if rc != 0 or out.count(b"\n") != 1 or not out.endswith(b"\n"):
        return "exactly one line and exit 0 expected (exit %s, %r)" % (rc, out[:60])
    line = out[:-1].decode("utf-8", "replace")
    n, sep, cap = d["size"], d["sep"], d["cap"]
    wordset = set(d["words"])
    maxlen = max(len(w) for w in d["words"])
    seplits = [str(i) for i in range(10)] if sep == "digit" else [SEP_WORDS[sep]]
    # try every capitalisation pattern the scheme allows (collapsed: 'any' when random)
    if cap == "none":
        pats = [[False] * n]
    elif cap == "first":
        pats = [[True] + [False] * (n - 1)]
    elif cap == "all":
        pats = [[True] * n]
    elif cap == "one":
        pats = [[i == j for i in range(n)] for j in range(n)]
    else:
        pats = [[None] * n]
    for pat in pats:
        if match_multi(line, pat, seplits, wordset, maxlen):
            return None
    return "line %r is not %d words of the list joined by %r with capitalisation %r" % (line[:80], n, sep, cap)


def match_multi(line, pat, seplits, wordset, maxlen):
    pos = {0}
    n = len(line)
    titled = set(title_simple(x) for x in wordset)
    for i, c in enumerate(pat):
        nxt = set()
        for p in pos:
            for q in range(p + 1, min(n, p + maxlen) + 1):
                w = line[p:q]
                if c is True:
                    ok = w in titled
                elif c is False:
                    ok = w in wordset
                else:
                    ok = w in wordset or w in titled
                if ok:
                    nxt.add(q)
        pos = nxt
        if i < len(pat) - 1:
            nxt = set()
            for p in pos:
                for s in seplits:
                    if line.startswith(s, p):
                        nxt.add(p + len(s))
            pos = nxt
        if not pos:
            return False
    return n in pos


def replay(v):
    exe = os.path.join(core.BUILD, "opgen_plain")
    made = []
    for pth, content in (v.get("files") or {}).items():
        os.makedirs(os.path.dirname(pth), exist_ok=True)
        open(pth, "wb").write(bytes.fromhex(content))
        made.append(pth)
        print("word file %s: %r" % (pth, bytes.fromhex(content)[:200]))
    rc, out, err = run_binary(exe, v["argv"], None)
    for pth in made:
        shutil.rmtree(os.path.dirname(pth), ignore_errors=True)
    print("opgen", " ".join(v["argv"]))
    print("-> exit", rc, "stdout", out[:200], "stderr", err[:200])
    print("violation:", v["what"])
    return 1
