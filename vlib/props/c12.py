"""C12 — Tokenize is total: malformed indices give an error, never a panic or fake text."""
from .. import core

PASSWORDS = [b"", b"a", b"abc", b"correct horse", "é€😀x".encode(), "kettő".encode(), b"\xff\xfe", b"a\xc3", b"\xe2\x82",
             b"\xf0\x9f\x98", b"ab\x80cd", "日本語のパスワード".encode(), b"x" * 300, ("é" * 260).encode(), b"\xed\xa0\x80z", b"\xc0\xaf"]


def split_glyphs(b):
    """the characters of a byte string as Go's strings.Split(s, "") yields them (invalid bytes are one character each)"""
    out, i = [], 0
    L = len(b)
    while i < L:
        c = b[i]
        size = 1
        if 0xC2 <= c <= 0xDF:
            if i + 1 < L and 0x80 <= b[i + 1] <= 0xBF:
                size = 2
        elif 0xE0 <= c <= 0xEF:
            if i + 2 < L:
                lo = 0xA0 if c == 0xE0 else 0x80
                hi = 0x9F if c == 0xED else 0xBF
                if lo <= b[i + 1] <= hi and 0x80 <= b[i + 2] <= 0xBF:
                    size = 3
        elif 0xF0 <= c <= 0xF4:
            if i + 3 < L:
                lo = 0x90 if c == 0xF0 else 0x80
                hi = 0x8F if c == 0xF4 else 0xBF
                if lo <= b[i + 1] <= hi and 0x80 <= b[i + 2] <= 0xBF and 0x80 <= b[i + 3] <= 0xBF:
                    size = 4
        out.append(b[i:i + size])
        i += size
    return out


def glyph_count(b):
    return len(split_glyphs(b))


def gen_cases(ctx):
    rng = ctx.rng
    cases = []
    # kind byte exhaustively 0..255 x index lengths 0..9 of both parities x passwords
    for k in range(256):
        pws = PASSWORDS if (k <= 4 or ctx.tier == "thorough") else [rng.choice(PASSWORDS) for _ in range(2)]
        for pw in pws:
            g = glyph_count(pw)
            for n in [m for m in range(0, 10) for _ in range(6 if k <= 3 else 1)]:
                if k > 4 and n > 3 and ctx.tier == "quick" and rng.random() < 0.7:
                    continue
                style = rng.random()
                if style < 0.35:
                    body = [rng.randrange(0, 4) for _ in range(n)]
                elif style < 0.55:
                    body = [rng.randrange(0, 256) for _ in range(n)]
                elif style < 0.8 and n > 0:
                    # lengths summing to exactly g or g+1
                    target = g + rng.choice([0, 0, 1])
                    if k == 3:
                        m = max(1, n // 2)
                        parts = split_sum(rng, target, m)
                        body = []
                        for p in parts:
                            body += [min(p, 255), rng.randrange(0, 3)]
                        if n % 2 == 1:
                            body.append(rng.randrange(0, 3))
                    else:
                        body = [min(p, 255) for p in split_sum(rng, target, n)]
                else:
                    body = [0] * n
                idx = bytes([k] + body)
                cases.append(("tokenize %s %s" % (core.hx(pw), core.hx(idx)), {"pw": pw.hex(), "idx": list(idx)}))
    # lengths whose total passes 256 (and 512) against passwords shorter than the total but longer than the total mod 256
    for k in (1, 2, 3):
        for lens in ([200, 58], [255, 1], [255, 255, 3], [128, 128], [100, 100, 100], [255, 2], [1, 255], [250, 250, 20]):
            total = sum(lens)
            for n in sorted(set([total % 256, total % 256 + 1, total - 1, 3, 60, 255, 256, total])):
                if n < 0:
                    continue
                pw = (b"abc" * 200)[:n]
                body = lens if k != 3 else [x for l in lens for x in (l, 1)]
                cases.append(("tokenize %s %s" % (core.hx(pw), core.hx(bytes([k] + body))), {"pw": pw.hex(), "idx": [k] + body}))
    # the empty index
    for pw in PASSWORDS:
        cases.append(("tokenize %s -" % core.hx(pw), {"pw": pw.hex(), "idx": []}))
    # corpus: the pinned-code panic (F4) and neighbours
    for pw, idx in [(b"abc", [3, 1]), (b"abc", [3, 3]), (b"abc", [3, 1, 1, 1]), (b"", [3, 0]), (b"abc", [3, 1, 1, 2, 0]), (b"abc", [3]), (b"abc", [1]), (b"abc", [2, 4])]:
        cases.insert(0, ("tokenize %s %s" % (core.hx(pw), core.hx(bytes(idx))), {"pw": pw.hex(), "idx": idx, "corpus": True}))
    return cases


def split_sum(rng, total, parts):
    if parts <= 0:
        return []
    cuts = sorted(rng.randrange(0, total + 1) for _ in range(parts - 1))
    out, prev = [], 0
    for c in cuts + [total]:
        out.append(c - prev)
        prev = c
    return out


def correspondence(ctx):
    ctx.rule = ("tokenize family: kind byte exhaustively 0..255 x index lengths 0..9 of both parities x passwords from {empty, ASCII, "
                "multi-byte, invalid and truncated UTF-8, 300 characters}; lengths summing to exactly / one more than the character count; "
                "zero lengths; random bytes; lengths whose total passes 256 and 512 against shorter passwords; the empty index as nil and as empty-but-allocated; the entropy argument varying over zero, negative, infinite, NaN and denormal values; after every success three more decodings of other text, then the first result read again; the pinned-code panic witness first. Non-trivial = distinct (password, index) with kind <= 3 "
                "and a non-empty body, or an invalid-UTF-8 password.")
    cases = gen_cases(ctx)
    for line, meta in cases:
        idx = meta["idx"]
        if (idx and idx[0] <= 3 and len(idx) > 1) or glyph_count(bytes.fromhex(meta["pw"])) != len(bytes.fromhex(meta["pw"])):
            ctx.nontrivial.add(line)
        ctx.count("kind_%s" % ("empty" if not idx else str(idx[0]) if idx[0] <= 3 else "unknown"))
        ctx.count("index_parity_%d" % (len(idx) % 2))
    ctx.tok_results = ctx.compare("tokenize", cases)
    for meta, a, b in ctx.tok_results[:3]:
        ctx.sample({"case": meta, "impl": a, "model": b})


def parse_tokens(res):
    toks = res.split(" ")
    k = int(toks[1])
    out = []
    for t in toks[2:2 + k]:
        v, ty = t.rsplit(":", 1)
        out.append((core.unhx(v), int(ty)))
    return out


def oracle(ctx, deep):
    ctx.searched = "the statement of C12 checked directly on every real result: no panic; tokens concatenate to a prefix; counts as the index says; malformed indices are errors"
    for meta, a, b in getattr(ctx, "tok_results", []):
        if a is None:
            continue
        pw = bytes.fromhex(meta["pw"])
        idx = meta["idx"]
        line = "tokenize %s %s" % (core.hx(pw), core.hx(bytes(idx)))
        base = {"pw": meta["pw"], "idx": idx, "line": line, "observed": a}
        if a.startswith("panic") or "FAILURE" in a:
            ctx.violations.append(dict(base, finding_key="C12-panic", what="Tokenize panicked"))
            continue
        g = glyph_count(pw)
        if "RETURNED-PASSWORD-CHANGED-BY-A-LATER-CALL" in a:
            ctx.violations.append(dict(base, finding_key="C12-held", what="the tokens Tokenize returned changed when Tokenize was called again (the result is not the caller's own; "
                                                                        "it is no longer made of slices of its string)"))
            continue
        if a.startswith("ok"):
            toks = parse_tokens(a)
            cat = b"".join(v for v, _ in toks)
            if not pw.startswith(cat):
                ctx.violations.append(dict(base, finding_key="C12-prefix", what="returned tokens do not concatenate to a prefix of the string"))
            if "entok=1" not in a:
                ctx.violations.append(dict(base, finding_key="C12-entropy", what="the entropy passed in was not returned"))
            if not idx:
                ctx.violations.append(dict(base, finding_key="C12-error", what="an empty index was accepted"))
                continue
            k, body = idx[0], idx[1:]
            if k > 3:
                ctx.violations.append(dict(base, finding_key="C12-error", what="an unknown kind byte was accepted"))
            elif k == 0:
                if [v for v, _ in toks] != split_glyphs(pw) or any(ty != 1 for _, ty in toks):
                    ctx.violations.append(dict(base, finding_key="C12-counts", what="character kind: expected one single-character atom per character"))
            elif k in (1, 2):
                # counts are measured in characters of the original string: compare cumulative positions
                want = list(body)
                if sum(want) > g:
                    ctx.violations.append(dict(base, finding_key="C12-error", what="lengths exceeding the string were accepted"))
                elif len(toks) != len(want) or not slices_match(pw, toks, want):
                    ctx.violations.append(dict(base, finding_key="C12-counts", what="tokens do not have the character counts the index specifies"))
                types = [ty for _, ty in toks]
                exp = [1 if (k == 1 or j % 2 == 0) else 0 for j in range(len(toks))]
                if types != exp:
                    ctx.violations.append(dict(base, finding_key="C12-counts", what="token types are not the ones the kind implies"))
            else:
                if len(body) % 2 == 1:
                    ctx.violations.append(dict(base, finding_key="C12-error", what="a truncated full index was accepted"))
                else:
                    want = body[0::2]
                    wtypes = body[1::2]
                    if sum(want) > g:
                        ctx.violations.append(dict(base, finding_key="C12-error", what="lengths exceeding the string were accepted"))
                    elif len(toks) != len(want) or not slices_match(pw, toks, want) or [ty for _, ty in toks] != wtypes:
                        ctx.violations.append(dict(base, finding_key="C12-counts", what="tokens do not have the counts/types the index specifies"))


def slices_match(pw, toks, want):
    """each token must be the next want[i] characters of pw"""
    gs = split_glyphs(pw)
    pos = 0
    for (v, _), n in zip(toks, want):
        if b"".join(gs[pos:pos + n]) != v or pos + n > len(gs):
            return False
        pos += n
    return True


def replay(v):
    line = "r " + v["line"]
    r, _ = core.run_impl([line])
    print(line)
    print("->", r.get("r"))
    print("violation:", v["what"])
    return 1
