"""C02 — character passwords are uniform over exactly the strings the recipe allows."""
import itertools
from .. import core, chargen
from ..spgref import Recipe

CELLS = [
    Recipe(3, allow_chars="abcd", require_sets=["ab"]),
    Recipe(4, allow_chars="aabcdd", require_sets=["a", "cd"]),            # duplicates in the input
    Recipe(2, allow_chars="abcdefg", require_sets=["abc", "cde"]),        # overlapping required sets, a = 7
    Recipe(3, allow_chars="abcdefg", require_sets=["abc", "ab"]),         # nested required sets: the smaller one binds
    Recipe(3, allow_chars="éa€", require_sets=["é"]),                     # multi-byte characters, a = 3
    Recipe(2, allow=4, require_sets=["357"]),                              # class + custom overlap, a = 10
    Recipe(3, allow_chars="abcde", exclude_chars="e", require_sets=["ae"]),  # exclusion shrinks a required set
    Recipe(5, allow_chars="abc"),                                          # no requirement: 243 strings
    Recipe(2, allow=8 | 16, exclude_chars="0"),                            # symbols + ambiguous minus '0': a = 12
    Recipe(6, allow_chars="ab", require_sets=["a", "b"]),
    Recipe(3, allow_chars="abcdefghijklmnop"),                             # a = 16 (mask path), 4096 strings
    Recipe(2, allow=2 | 4, require=4),                                     # a = 36
    Recipe(3, allow_chars="abcdefgh", require_sets=["a", "abcd", "ab"]),  # a chain of nested required sets
]


def correspondence(ctx):
    ctx.rule = ("chargen family (recipe grammar x budgets x targeted tapes) plus complete product cells on the real code: for small "
                "recipes every index vector in [0,a)^L is run (raw word = index), then every second-attempt vector after chosen "
                "invalid first candidates. Non-trivial = distinct (recipe, tape) forcing a raw-word or candidate rejection or a "
                "boundary index; each distinct cell vector counts once.")
    recs = [chargen.gen_recipe(ctx.rng) for _ in range(250 if ctx.tier == "quick" else 3000)] + chargen.many_sets_recipes()
    ctx.gen_results = chargen.run_chargen_family(ctx, 0, recipes=recs)


def cell_lines(r, prefix_vectors, suffix, budget=chargen.DEFAULT_BUDGET):
    """tapes: each prefix vector followed by the fixed suffix; raw word = index (exact for i < discard(a))"""
    lines = []
    for v in prefix_vectors:
        lines.append(chargen.chargen_line(r, budget, list(v) + list(suffix)))
    return lines


def run_cell(ctx, r, first=None):
    """Enumerate the complete cell of candidate index vectors after the given forced invalid first candidates."""
    A = r.alphabet()
    a, L = len(A), r.length
    good = chargen.good_candidate(ctx.rng, r)
    if good is None:
        return
    pre = [i for v in (first or []) for i in v]
    vectors = list(itertools.product(range(a), repeat=L))
    lines = ["v%d %s" % (k, chargen.chargen_line(r, chargen.DEFAULT_BUDGET, pre + list(v) + good + good)) for k, v in enumerate(vectors)]
    impl, note = core.run_impl(lines)
    if note:
        ctx.notes.append("cell runner: " + note)
    ctx.evaluations += len(lines)
    ctx.count("cell_vectors", len(lines))
    tally = {}
    depth = len(first or [])
    for k, v in enumerate(vectors):
        res = impl.get("v%d" % k)
        d = chargen.parse_password(res)
        cand = [A[i] for i in v]
        ctx.nontrivial.add(("cell", r.tokens(), depth, v))
        line = lines[k].split(" ", 1)[1]
        if d is None or d["outcome"] != "ok":
            ctx.violations.append({"finding_key": "C02-cell", "what": "generation failed inside a complete cell of an accepted recipe",
                                   "recipe": r.to_json(), "line": line, "observed": res})
            continue
        out = "".join(t[0].decode("utf-8", "replace") for t in d["tokens"])
        consumed = int(d["consumed"])
        if r.satisfies(cand):
            # a valid candidate must be returned as it is, having consumed exactly the draws so far
            if out != "".join(cand) or consumed != 4 * (len(pre) + L):
                ctx.violations.append({"finding_key": "C02-cell", "what": "a valid candidate was not returned unchanged (expected %r)" % "".join(cand),
                                       "recipe": r.to_json(), "line": line, "observed": res})
            tally[out] = tally.get(out, 0) + 1
        else:
            # an invalid candidate must be discarded entirely and the next fresh candidate decide
            if out != "".join(A[i] for i in good) or consumed != 4 * (len(pre) + 2 * L):
                ctx.violations.append({"finding_key": "C02-cell", "what": "after an invalid candidate the next whole candidate did not decide (no fix-up, no kept prefix): expected %r" % "".join(A[i] for i in good),
                                       "recipe": r.to_json(), "line": line, "observed": res})
        if not r.satisfies(list(out)):
            ctx.violations.append({"finding_key": "C02-support", "what": "returned a string that does not satisfy the recipe",
                                   "recipe": r.to_json(), "line": line, "observed": res})
    # every valid string exactly once per complete cell: equal probability (by C01, a complete index cell is the distribution)
    valid = ["".join(c) for c in itertools.product(A, repeat=L) if r.satisfies(list(c))]
    counts = [tally.get(s, 0) for s in valid]
    if valid and (min(counts) != max(counts) or min(counts) != 1):
        lo = valid[counts.index(min(counts))]
        hi = valid[counts.index(max(counts))]
        ctx.violations.append({"finding_key": "C02-uniform", "what": "valid strings are not equally likely over a complete cell: %r occurs %d times, %r %d times" % (lo, min(counts), hi, max(counts)),
                               "recipe": r.to_json(), "line": "recipe " + r.tokens()})
    ctx.sample({"cell": r.to_json(), "alphabet_size": a, "vectors": len(vectors), "valid_strings": len(valid), "forced_invalid_prefix": depth}, limit=10)


def oracle(ctx, deep):
    ctx.searched = "complete product cells of index vectors on the real Generate for %d small recipes (first attempt, and after 1-2 forced invalid candidates)" % len(CELLS)
    cells = CELLS if (deep or ctx.tier == "thorough") else CELLS[:8]
    for r in cells:
        if len(r.alphabet()) ** r.length > 5000:
            continue
        run_cell(ctx, r)
        bad = chargen.bad_candidate(ctx.rng, r)
        if bad is not None:
            run_cell(ctx, r, first=[bad])
            if deep or ctx.tier == "thorough":
                bad2 = chargen.bad_candidate(ctx.rng, r)
                run_cell(ctx, r, first=[bad, bad2])
    # support on every generated case
    for meta, a, b in getattr(ctx, "gen_results", []):
        d = chargen.parse_password(a)
        if d and d["outcome"] == "ok":
            try:
                out = [t[0].decode("utf-8") for t in d["tokens"]]
            except UnicodeDecodeError:
                out = None
            if out is None or not meta["_recipe"].satisfies(out):
                ctx.violations.append({"finding_key": "C02-support", "what": "returned a string that does not satisfy the recipe",
                                       "recipe": meta["recipe"], "line": chargen.chargen_line(meta["_recipe"], meta["budget"], meta["_words"]), "observed": a})
                continue
        # which string: the first candidate on the stream that satisfies the recipe, each candidate being Length draws into the
        # sorted alphabet — the process whose outcomes are equally likely; any other way of arriving at a (valid) string is not
        msg = chargen.process_verdict(meta, a) if a else None
        if msg:
            ctx.violations.append({"finding_key": "C02-process", "recipe": meta["recipe"], "budget": meta["budget"], "observed": a[:300],
                                   "line": chargen.chargen_line(meta["_recipe"], meta["budget"], meta["_words"]), "what": msg})


def replay(v):
    line = "r " + v["line"]
    r, _ = core.run_impl([line])
    print(line)
    print("->", r.get("r"))
    print("violation:", v["what"])
    return 1
