"""C05 — wordlist password structure matches the recipe (atoms, caps, separators)."""
from .. import core, chargen, wlgen


def correspondence(ctx):
    ctx.rule = ("wlgen family: (word list from pools with twins, pre-capitalised, caseless, non-ASCII words; Length incl. 1 and non-positive; "
                "six capitalisation strings incl. unknown ones; constant, empty, multi-byte, preset and recipe separators; tapes forcing first/last "
                "word, first/last position, exact length, rejected raw words at the threshold, tapes running dry part-way); scheme strings differing from the constants by case; every other case on a list that other recipes used first; SeparatorChar set in addition to a function; Unicode corner words (title form of another byte length, digraphs, combining marks, astral characters), words beyond 255 characters; synthetic lists of 2^16 and more words. Observables: tokens with types, String(), Atoms(), Separators(), entropy, bytes consumed, "
                "index round trip. Non-trivial = distinct case with Length >= 2 and a boundary or exact tape, or an empty separator.")
    cases = wlgen.gen_cases(ctx, 300 if ctx.tier == "quick" else 4000)
    # the open finding F7: a list containing the empty word
    for kind in ("first", "last", "random"):
        cases.insert(0, {"list": ["", "a"], "length": 3, "sep": ("char", ""), "cap": "none", "budget": chargen.DEFAULT_BUDGET,
                         "words": wlgen.make_tape(ctx.rng, 2, 3, ("char", ""), "none", kind), "meta": {"corpus": "F7", "tape_kind": kind}})
    # entries that are not valid UTF-8 (a Latin-1 word file): String() is still the concatenation of the token values, byte for byte
    for l in ([b"caf\xe9", b"ab", b"\xff\xfe"], [b"na\xefve", b"x\xc3", b"ok"]):
        for cap in ("none", "first"):
            for kind in ("first", "last", "random"):
                cases.append({"list": l, "length": 3, "sep": ("char", "-"), "cap": cap, "budget": chargen.DEFAULT_BUDGET,
                              "words": wlgen.make_tape(ctx.rng, len(l), 3, ("char", "-"), cap, kind),
                              "meta": {"list": [w.hex() for w in l], "corpus": "entries that are not valid UTF-8", "tape_kind": kind, "cap": cap, "length": 3}})
    ctx.wl_results = wlgen.run_wlgen_family(ctx, cases)
    ctx.wl_big = wlgen.run_big_lists(ctx)
    for c, a, b in ctx.wl_results:
        if c["length"] >= 2 and (c["meta"].get("tape_kind") in ("first", "last", "exact") or c["sep"][1] == ""):
            ctx.nontrivial.add((str(c["list"]), c["length"], str(wlgen.sep_json(c["sep"])), c["cap"], c["meta"].get("tape_kind"), len(c["words"])))
    for c, a, b in ctx.wl_results[3:6]:
        ctx.sample({"case": c["meta"], "impl": a, "model": b})


def title_map(titles):
    m = {}
    if titles and titles != "0":
        for it in titles.split(",")[1:]:
            w, t = it.split(">")
            m[core.unhx(w)] = core.unhx(t)
    return m


def oracle(ctx, deep):
    ctx.searched = "structural oracle re-stated from the property text on every real wordlist password of the run"
    for c, a, b in getattr(ctx, "wl_results", []) + getattr(ctx, "wl_big", []):
        if a is None:
            continue
        order, titles, rest = wlgen.parse_pre(a)
        line = wlgen.case_line(c)
        base = {"case": c["meta"], "line": line, "observed": a}
        if "RETURNED-PASSWORD-CHANGED-BY-A-LATER-CALL" in a:
            ctx.violations.append(dict(base, finding_key="C05-held", what="a password returned earlier no longer has its tokens after a later Generate call on the same recipe (the returned value is not the caller's own)"))
            continue
        d = chargen.parse_password(rest)
        if d is None or d["outcome"] != "ok":
            continue
        L = c["length"]
        words = [core.unhx(x) for x in order.split(",")[1:]] if order and order != "0" else []
        tmap = title_map(titles)
        # the open finding F7 is about lists that CONTAIN the empty string: decided from the input, not from what was read back
        has_empty = (not isinstance(c["list"], str)) and any(w in ("", b"") for w in c["list"])
        toks = d["tokens"]
        atoms = [v for v, ty in toks if ty == 1]
        seps = [v for v, ty in toks if ty == 0]
        bad = None
        if any(ty not in (0, 1) for _, ty in toks):
            bad = "token of unknown type"
        elif len(atoms) != L:
            bad = "%d atoms, Length is %d" % (len(atoms), L)
        else:
            capped = []
            for v in atoms:
                if v in words:
                    capped.append(tmap.get(v, v) == v and None)  # unchanged form: capitalised only if title(w) == w
                elif any(tmap.get(w, w) == v for w in words):
                    capped.append(True)
                else:
                    bad = "atom %r is neither a word of the list nor its title-cased form" % v
                    capped.append(None)
            if bad is None:
                # capitalisation positions allowed by the scheme
                cap = c["cap"]
                definite = [i for i, x in enumerate(capped) if x is True]
                definite_not = [i for i, v in enumerate(atoms) if v in words and tmap.get(v, v) != v]
                if cap not in ("first", "all", "one", "random") and definite:
                    bad = "capitalised atom under scheme %r (not one of the four capitalising schemes: selects no position)" % cap
                elif cap == "first" and (any(i != 0 for i in definite) or 0 in definite_not):
                    bad = "scheme first: capitalisation is not exactly the first word"
                elif cap == "all" and definite_not:
                    bad = "scheme all: a capitalisable word was left unchanged"
                elif cap == "one" and (len(definite) > 1 or (len(definite_not) == L and L > 0)):
                    bad = "scheme one: not exactly one capitalised position"
        if bad is None:
            # separators: exactly one between adjacent atoms when non-empty, none otherwise, never leading/trailing
            types = [ty for _, ty in toks]
            if types and (types[0] == 0 or types[-1] == 0):
                bad = "leading or trailing separator"
            elif any(types[i] == 0 and types[i + 1] == 0 for i in range(len(types) - 1)):
                bad = "two adjacent separators"
            sk = c["sep"]
            if bad is None and sk[0] in ("char", "const"):
                want = [sk[1].encode()] * (L - 1) if sk[1] != "" else []
                if seps != want:
                    bad = "separators %r, expected %r" % (seps, want)
            elif bad is None:
                r = wlgen.sep_recipe(sk)
                if r is None:
                    if seps:
                        bad = "separator tokens although the separator is empty"
                else:
                    for s in seps:
                        try:
                            cs = list(s.decode("utf-8"))
                        except UnicodeDecodeError:
                            cs = None
                        if cs is None or not r.satisfies(cs):
                            bad = "separator %r cannot come from its separator recipe" % s
                    if r.length >= 1 and r.alphabet() and len(seps) != L - 1 and not r.live_families():
                        bad = "%d separators between %d atoms" % (len(seps), L)
        if bad is None:
            if core.unhx(d["str"]) != b"".join(v for v, _ in toks):
                bad = "String() is not the concatenation of the token values"
            elif core.unhx(d["atoms"]) != b"\x00".join(atoms) or core.unhx(d["seps"]) != b"\x00".join(seps):
                bad = "Atoms()/Separators() are not the values of that type in order"
        if bad:
            key = "wordlist-contains-empty-word" if has_empty else "C05-structure"
            ctx.violations.append(dict(base, finding_key=key, what=bad))


def replay(v):
    line = "r " + v["line"]
    r, _ = core.run_impl([line])
    print(line)
    print("->", r.get("r"))
    core.replay_shared_list(v["line"])
    print("violation:", v["what"])
    return 1
