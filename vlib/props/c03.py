"""C03 — every character password satisfies its recipe; exclusion always wins; Alphabet() exact."""
from .. import core, chargen
from ..spgref import Recipe, CLASSES, entropy_close, expected_entropy


def recipe_cases(ctx):
    rng = ctx.rng
    recs = []
    # flag triples: all single flags / boundaries, plus a sample (thorough: all 2^15)
    triples = set()
    for a in (0, 1, 2, 4, 8, 16, 3, 15, 31):
        for r in (0, 1, 2, 4, 8, 16, 3, 15, 31):
            for e in (0, 1, 2, 4, 8, 16, 31):
                triples.add((a, r, e))
    if ctx.tier == "thorough":
        for a in range(32):
            for r in range(32):
                for e in range(32):
                    triples.add((a, r, e))
    else:
        for _ in range(1200):
            triples.add((rng.randrange(32), rng.randrange(32), rng.randrange(32)))
    customs = [("", [], "")]
    for _ in range(6 if ctx.tier == "quick" else 3):
        customs.append((rng.choice(chargen.POOL), [rng.choice(chargen.POOL) for _ in range(rng.randrange(0, 3))], rng.choice(chargen.POOL)))
    for (a, r, e) in sorted(triples):
        cs = [customs[0]] if ctx.tier == "thorough" and rng.random() < 0.9 else [customs[0], rng.choice(customs)]
        for (ac, rs, ec) in cs:
            recs.append(Recipe(rng.choice([1, 3, 8]), a, r, e, ac, rs, ec))
    return recs


def correspondence(ctx):
    ctx.rule = ("chargen family: (recipe from the overlap grammar, budget, targeted tape: first/last alphabet index everywhere, "
                "forced raw-word rejections, candidates missing one required set followed by a valid one, exhaustion, starvation); "
                "recipe family: Alphabet() for flag triples (thorough: all 2^15) x custom strings with multi-byte characters. "
                "Non-trivial = distinct (recipe, tape) whose tape hits a boundary index, forces a rejection, or whose recipe "
                "has an exclusion overlapping an allowed/required character.")
    rng = ctx.rng
    cases = []
    nrec = 400 if ctx.tier == "quick" else 4000
    many = chargen.many_sets_recipes()
    for k in range(nrec + len(many)):
        r = many[k - nrec] if k >= nrec else chargen.gen_recipe(rng)
        b = (getattr(r, "budget", None) or rng.choice(chargen.BUDGETS)) if k < nrec else chargen.DEFAULT_BUDGET
        tapes = chargen.make_tapes(rng, r, b, want=3)
        if len(r.live_families()) >= 9:
            tapes = tapes + chargen.each_set_missed_tapes(rng, r)
        for words, feat in tapes:
            meta = {"recipe": r.to_json(), "budget": b, "words": words if len(words) <= 64 else words[:64] + ["..."], "features": feat}
            meta["_recipe"] = r
            meta["_words"] = words
            cases.append((chargen.chargen_line(r, b, words), meta))
            ctx.count("tape_" + feat["kind"])
            ex = r.excluded()
            overlap = bool(ex & r.mentioned())
            if feat.get("boundary") or feat.get("candidate_rejections") or feat.get("raw_rejections") or overlap:
                ctx.nontrivial.add(cases[-1][0])
        ctx.count("req_sets_%d" % len(r.live_families()))
    res = chargen.compare_passwords(ctx, "chargen", cases)
    ctx.gen_results = res
    for meta, a, b in res[:2]:
        ctx.sample({"recipe": meta["recipe"], "tape_kind": meta["features"], "impl": a, "model": b})
    # Alphabet()
    rcases = []
    for r in recipe_cases(ctx):
        rcases.append(("recipe " + r.tokens(), {"recipe": r.to_json(), "_recipe": r}))
        if r.excluded() & r.mentioned():
            ctx.nontrivial.add(rcases[-1][0])
    res2 = compare_recipes(ctx, rcases)
    ctx.recipe_results = res2
    for meta, a, b in res2[:1]:
        ctx.sample({"recipe": meta["recipe"], "impl": a, "model": b})


def kv(res):
    d = {}
    for t in res.split(" "):
        if "=" in t:
            k, v = t.split("=", 1)
            d[k] = v
    return d


def compare_recipes(ctx, cases, family="recipe"):
    """recipe family: alphabet, exact count, entropy (tolerance), success probability (tolerance), stdout/stderr."""
    import math
    from fractions import Fraction
    from ..spgref import f32_from_bits, ulp32
    lines = ["%s%d %s" % (family[0], i, c[0]) for i, c in enumerate(cases)]
    impl, n1 = core.run_impl(lines)
    model, n2 = core.run_model(lines)
    for n in (n1, n2):
        if n:
            ctx.notes.append("%s runner: %s" % (family, n))
    fam = ctx.families.setdefault(family, {"cases": 0, "mismatches": 0})
    out = []
    for i, c in enumerate(cases):
        cid = "%s%d" % (family[0], i)
        a, b = impl.get(cid), model.get(cid)
        ctx.evaluations += 1
        fam["cases"] += 1
        why = None
        if a is None or b is None or a.startswith("panic") or "FAILURE" in a or "FAILURE" in b:
            why = "missing/panic"
        else:
            da, db = kv(a), kv(b)
            if "BEYOND-LEN-CHANGED" in a:
                why = "a call wrote into the caller's table beyond the length of RequireSets"
            for k in ("alphabet", "count", "stable"):
                if da.get(k) != db.get(k):
                    why = k
            # the duplicate rounding warnings of SuccessProbability depend on float rounding: constant text, ignored
            se = core.unhx(da.get("stderr", "-")).decode("utf-8", "replace")
            se = "".join(l + "\n" for l in se.split("\n") if l and not l.startswith("successProbability: "))
            if core.unhx(da.get("stdout", "-")) != core.unhx(db.get("stdout", "-")) or se.encode() != core.unhx(db.get("stderr", "-")):
                why = why or "diagnostics"
            if why is None and not entropy_close(da["ent"][2:], expected_entropy(db["ent"])):
                why = "entropy"
            if why is None:
                num, den = [int(x, 16) for x in db["sp"].split("/")]
                got = f32_from_bits(da["sp"][2:])
                if den != 0 and db.get("alphabet") != "-":
                    p = Fraction(num, den)
                    e1 = expected_entropy(db["ent"])
                    e2 = math.log2(den) if den > 0 else 0.0
                    if num <= 0:
                        okp = (got == 0.0) or (num < 0)
                    else:
                        err = ulp32(e1) + ulp32(e2)
                        tol = float(p) * (2.0 ** (2 * err) - 1.0) + 4 * ulp32(float(p))
                        okp = abs(got - float(p)) <= tol
                    if not okp:
                        why = "success probability %r vs %s" % (got, float(p))
        if why:
            fam["mismatches"] += 1
            ctx.mismatches.append({"family": family, "case": lines[i], "impl": a, "model": b, "why": why, "meta": {k: v for k, v in c[1].items() if not k.startswith("_")}})
        else:
            ctx.traces_validated += 1
        out.append((c[1], a, b))
    return out


def oracle(ctx, deep):
    ctx.searched = "Allowed/Satisfies re-stated in Python from the property text, applied to every real output and every Alphabet() of the run"
    for meta, a, b in getattr(ctx, "gen_results", []):
        if a and "RETURNED-PASSWORD-CHANGED-BY-A-LATER-CALL" in a:
            ctx.violations.append({"recipe": meta["recipe"], "line": chargen.chargen_line(meta["_recipe"], meta["budget"], meta["_words"]), "observed": a[:300],
                                   "finding_key": "C03-held", "what": "a password returned earlier no longer has its tokens after a later Generate call on the same recipe"})
            continue
        d = chargen.parse_password(a)
        if d is None or d["outcome"] != "ok":
            continue
        r = meta["_recipe"]
        toks = d["tokens"]
        cand = []
        bad = None
        for v, ty in toks:
            try:
                s = v.decode("utf-8")
            except UnicodeDecodeError:
                bad = "token is not valid text"
                s = "?"
            if ty != 1:
                bad = "token of non-atom type"
            if len(s) != 1:
                bad = "token is not a single character"
            cand.append(s)
        if bad is None and len(toks) != r.length:
            bad = "password has %d tokens, Length is %d" % (len(toks), r.length)
        if bad is None:
            ex = r.excluded()
            al = r.allowed()
            for c in cand:
                if c in ex:
                    bad = "excluded character %r in password" % c
                elif c not in al:
                    bad = "character %r is neither allowed nor required" % c
            for f in r.live_families():
                if not any(c in f for c in cand):
                    bad = "no character from required set %r" % "".join(sorted(f))
        if bad is None and core.unhx(d["str"]) != b"".join(v for v, _ in toks):
            bad = "String() is not the concatenation of the token values"
        if bad:
            ctx.violations.append({"finding_key": "C03-output", "what": bad, "recipe": meta["recipe"], "budget": meta["budget"],
                                   "line": chargen.chargen_line(r, meta["budget"], [w for w in meta["words"] if w != "..."]),
                                   "observed": a})
    for meta, a, b in getattr(ctx, "recipe_results", []):
        if a is None:
            continue
        r = meta["_recipe"]
        got = core.unhx(kv(a).get("alphabet", "-")).decode("utf-8", "replace")
        want = "".join(r.alphabet())
        if got != want:
            ctx.violations.append({"finding_key": "C03-alphabet", "what": "Alphabet() is not the sorted duplicate-free set of allowed, non-excluded characters",
                                   "recipe": meta["recipe"], "observed": got, "expected": want, "line": "recipe " + r.tokens()})


def replay(v):
    line = "r " + v["line"]
    r, _ = core.run_impl([line])
    print(line)
    print("->", r.get("r"))
    print("expected violation:", v["what"])
    return 1
