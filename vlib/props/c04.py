"""C04 — wordlist passwords: word, capitalisation, separator choices uniform and independent."""
from .. import core, chargen, wlgen
from ..spgref import Recipe
from .c05 import title_map

CELLS = [
    (["one", "two", "three"], 2, ("char", "-"), "none"),
    (["one", "two", "three"], 3, ("char", ""), "one"),
    (["a", "b", "c", "d", "e"], 2, ("preset", "SFDigits1"), "random"),
    (["a", "b", "c", "d", "e", "f", "g"], 2, ("char", " "), "one"),
    (["alpha", "beta", "gamma"], 3, ("preset", "SFSymbols"), "first"),
    (["alpha", "beta", "gamma", "delta"], 2, ("preset", "SFDigitsSymbols"), "all"),
    (["x", "y", "z"], 3, ("const", "_"), "random"),
    (["kettő", "egy", "három"], 2, ("recipe", Recipe(1, allow_chars="é€")), "one"),
    (["a", "b", "c", "d", "e"], 3, ("preset", "SFNone"), "one"),
    (["p", "q", "r"], 2, ("preset", "SFDigitsNoAmbiguous1"), "random"),
    (["p", "q", "r"], 1, ("char", "-"), "one"),
]


def correspondence(ctx):
    ctx.rule = ("wlgen family (lists of any size, every scheme, constant/preset/recipe separators, boundary and exact tapes) plus complete product "
                "cells on the real code: for small lists EVERY tuple (capitalisation choice, word indices, separator index vectors) is run, each index "
                "realised by a randomly chosen raw word of its fibre. Every other wlgen case runs on a list that other recipes used first; 15% set SeparatorChar in addition to a separator function; tapes that run dry part-way; words and separators beyond 255 characters; synthetic lists of 65535..131073 words judged by the reference (index injectivity, documented draws). Non-trivial = every distinct cell tuple; wlgen cases with Length >= 2.")
    cases = wlgen.gen_cases(ctx, 250 if ctx.tier == "quick" else 3000)
    # the empty string as a list entry is drawn like any other word (what the generator then emits for it is F7, C05/C06)
    for l, cap, sep in ((["", "alpha", "beta", "gamma"], "none", ("char", "-")), (["x", "", "y"], "one", ("preset", "SFDigits1"))):
        for kind in ("first", "last", "random", "exact", "boundary"):
            cases.append({"list": l, "length": 3, "sep": sep, "cap": cap, "budget": chargen.DEFAULT_BUDGET,
                          "words": wlgen.make_tape(ctx.rng, len(l), 3, sep, cap, kind),
                          "meta": {"list": l, "corpus": "empty entry", "tape_kind": kind, "cap": cap, "sep": wlgen.sep_json(sep), "length": 3}})
    ctx.wl_results = wlgen.run_wlgen_family(ctx, cases)
    ctx.wl_big = wlgen.run_big_lists(ctx)
    for c, a, b in ctx.wl_results:
        if c["length"] >= 2:
            ctx.nontrivial.add(str(c["meta"]) + str(len(c["words"])))
    for c, a, b in ctx.wl_results[:2]:
        ctx.sample({"case": c["meta"], "impl": a, "model": b})


def expected_tokens(tp, order, tmap, L, sep, cap):
    """what the property says the choice tuple yields"""
    c, w, s = tp
    A, sl = wlgen.sep_alphabet(sep)
    if cap == "one":
        capped = {c[0]}
    elif cap == "random":
        capped = {i for i, x in enumerate(c) if x == 1}
    elif cap == "first":
        capped = {0}
    elif cap == "all":
        capped = set(range(L))
    else:
        capped = set()
    toks = []
    for i in range(L):
        word = order[w[i]]
        if i in capped:
            word = tmap.get(word, word)
        if word:
            toks.append((word, 1))
        if i < L - 1:
            if A:
                sv = "".join(A[x] for x in s[i]).encode()
            elif sep[0] in ("char", "const"):
                sv = sep[1].encode()
            else:
                sv = b""
            if sv:
                toks.append((sv, 0))
    return toks


def run_cells(ctx, cells):
    for (l, L, sep, cap) in cells:
        res = wlgen.run_wl_cell(ctx, l, L, sep, cap)
        if res is None:
            continue
        seen = {}
        for tp, d, order, titles, line, raw in res:
            ctx.nontrivial.add(("cell", str(l), L, str(wlgen.sep_json(sep)), cap, tp))
            base = {"list": l, "length": L, "sep": wlgen.sep_json(sep), "cap": cap, "choice": [list(tp[0]), list(tp[1]), [list(x) for x in tp[2]]], "line": line, "observed": raw}
            if d is None or d["outcome"] != "ok":
                ctx.violations.append(dict(base, finding_key="C04-cell", what="generation failed inside a complete cell"))
                continue
            words = [core.unhx(x) for x in order.split(",")[1:]]
            want = expected_tokens(tp, words, title_map(titles), L, sep, cap)
            if d["tokens"] != want:
                ctx.violations.append(dict(base, finding_key="C04-choice", what="choice tuple does not select the documented words/positions/separators: expected %r" % (want,)))
            seen.setdefault(tuple(d["tokens"]), []).append(tp)
        # all possible passwords equally likely when every word is capitalisable: under the documented choice map (which every
        # tuple above was checked to follow, each run with its own map order) distinct tuples give distinct passwords
        if res and res[0][3] is not None:
            tmap = title_map(res[0][3])
            words = sorted(core.unhx(x) for x in res[0][2].split(",")[1:])
            if all(tmap.get(w, w) != w for w in words) and all(words):
                images = {}
                for tp, d, order, titles, line, raw in res:
                    images.setdefault(tuple(expected_tokens(tp, words, tmap, L, sep, cap)), []).append(tp)
                counts = [len(v) for v in images.values()]
                if counts and min(counts) != max(counts):
                    ctx.notes.append("documented choice map is not injective for %s" % (l,))
        ctx.sample({"cell": {"list": l, "length": L, "sep": wlgen.sep_json(sep), "cap": cap}, "tuples": len(res), "distinct_passwords": len(seen)}, limit=10)


def reference_check(ctx):
    """every wordlist password of the run against an independent restatement of the documented generation on the same tape:
    each word index, capitalised position and separator is a fresh draw, in the documented order"""
    for c, a, b in getattr(ctx, "wl_results", []) + getattr(ctx, "wl_big", []):
        if a is None or (isinstance(c["list"], str) and not c["list"].startswith("synth ")):
            continue
        order, titles, rest = wlgen.parse_pre(a)
        if order is None and (a.startswith("panic") or "HARNESS-FAILURE" in a) and c["length"] >= 1:
            # the harness reads the list back before the measured generation: one one-word generation per index, the raw word being
            # the index itself. If that already fails, some index of the list cannot be drawn with the one raw word that selects it
            ctx.violations.append({"case": c["meta"], "line": wlgen.case_line(c), "observed": a[:200], "finding_key": "C04-index-injective",
                                   "what": "a one-word generation whose raw word is a valid index of the list failed (%s): that word cannot be drawn from one raw word, the words are not equally likely" % a.split(" stdout=")[0][:60]})
            return
        d = chargen.parse_password(rest)
        if d is None or d["outcome"] != "ok" or not order or order == "0":
            continue
        words = [core.unhx(x) for x in order.split(",")[1:]]
        line = wlgen.case_line(c)
        # the word indices 0..size-1 (each realised by a one-word generation on a scripted tape) must select size DIFFERENT
        # words, and for a synthetic list exactly its words: otherwise the words are not equally likely
        if len(set(words)) != len(words):
            seen, dup_i = {}, None
            for i, w in enumerate(words):
                if w in seen:
                    dup_i = (seen[w], i)
                    break
                seen[w] = i
            ctx.violations.append({"case": c["meta"], "line": line, "observed": a[:200], "finding_key": "C04-index-injective",
                                   "what": "word indices %d and %d select the same word %r (size %d): the words are not equally likely" % (dup_i[0], dup_i[1], words[dup_i[0]], len(words))})
            return
        if isinstance(c["list"], str) and c["list"].startswith("synth ") and set(words) != set(w.encode() for w in wlgen.synth_list(int(c["list"].split()[1]))):
            ctx.violations.append({"case": c["meta"], "line": line, "observed": a[:200], "finding_key": "C04-index-injective",
                                   "what": "the words selected by the indices 0..size-1 are not the words of the list"})
            return
        want = wlgen.py_wl_generate(words, title_map(titles), c["length"], c["sep"], c["cap"], c["budget"], c["words"])
        if want is None:
            ctx.count("reference_undecided")
            continue
        if d["tokens"] != want:
            ctx.violations.append({"case": c["meta"], "line": wlgen.case_line(c), "observed": a[:400],
                                   "finding_key": "C04-reference", "what": "the password is not the one the documented draws select on this tape (each word, capitalised position and separator a fresh draw): expected %r" % (want[:8],)})


def oracle(ctx, deep):
    reference_check(ctx)
    if ctx.violations:
        return
    ctx.searched = "complete product cells of choice tuples on the real WLRecipe.Generate for %d small (list, Length, separator, scheme) combinations" % len(CELLS)
    run_cells(ctx, CELLS if (deep or ctx.tier == "thorough") else CELLS[:8])


def replay(v):
    line = "r " + v["line"]
    r, _ = core.run_impl([line])
    print(line[:400])
    print("->", r.get("r"))
    core.replay_shared_list(v["line"])
    print("violation:", v["what"])
    return 1
