"""C18 — generated secrets leave the library only through the returned Password."""
from .. import core, chargen, wlgen
from ..spgref import Recipe
from . import c10


def correspondence(ctx):
    ctx.rule = ("stdout/stderr/log captured at fd level around every call and compared byte for byte with the model's rendering, in the chargen family "
                "(refused, failing, retried, exhausted and starved generations included), the wlgen family (separator recipes with empty alphabets "
                "included) and the wordlist family (duplicate notice). Non-trivial = distinct case that emits a diagnostic, rejects a candidate, or is refused.")
    recs = [Recipe(5, allow_chars="abc", exclude_chars="abc"), Recipe(3), Recipe(2, require_sets=["", ""]), Recipe(4, require=31, exclude=31)]
    recs += [chargen.gen_recipe(ctx.rng) for _ in range(300 if ctx.tier == "quick" else 4000)]
    ctx.gen_results = chargen.run_chargen_family(ctx, 0, recipes=recs)
    wcases = wlgen.gen_cases(ctx, 200 if ctx.tier == "quick" else 2500)
    # lists with an empty entry (a word file split on newlines ends in one): whatever Generate does with the empty word (F7 is
    # about that), it must not talk about the others
    for l, cap, sep in ((["velvet", "", "marble", "thunder"], "first", ("char", "+")), (["", "alpha", "gamma"], "all", ("preset", "SFDigits1")),
                        (["kettő", "három", ""], "random", ("char", ""))):
        for kind in ("first", "last", "random", "exact"):
            wcases.append({"list": l, "length": 4, "sep": sep, "cap": cap, "budget": chargen.DEFAULT_BUDGET,
                           "words": wlgen.make_tape(ctx.rng, len(l), 4, sep, cap, kind), "meta": {"list": l, "corpus": "empty entry", "tape_kind": kind, "cap": cap,
                                                                                                    "sep": wlgen.sep_json(sep), "length": 4}})
    ctx.wl_results = wlgen.run_wlgen_family(ctx, wcases)
    lists = [list(l) for l in wlgen.LISTS_FIXED] + [wlgen.gen_list(ctx.rng) for _ in range(60 if ctx.tier == "quick" else 600)]
    ctx.list_results = c10.run_wordlist_family(ctx, lists, 2)
    for meta, a, b in ctx.gen_results:
        if a and ("stdout=-" not in a or "stderr=-" not in a or a.startswith("err") or meta["features"].get("candidate_rejections")):
            ctx.nontrivial.add(chargen.chargen_line(meta["_recipe"], meta["budget"], meta["_words"]))
    for c, a, b in ctx.wl_results:
        if a and ("stdout=-" not in a or "stderr=-" not in a):
            ctx.nontrivial.add(str(c["meta"]))
    for c, a, b in ctx.list_results:
        if a and "stderr=-" not in a:
            ctx.nontrivial.add(tuple(c["list"]))
    for meta, a, b in ctx.gen_results[:1]:
        ctx.sample({"recipe": meta["recipe"], "impl": a})


def captured(a):
    so = a.rsplit(" stdout=", 1)[1]
    out, err = so.split(" stderr=")
    return core.unhx(out), core.unhx(err)


def secrets_of_password(d):
    s = []
    if d and d.get("outcome") == "ok":
        pw = core.unhx(d["str"])
        if len(pw) >= 3:
            s.append(("the returned password", pw))
        for v, ty in d["tokens"]:
            if len(v) >= 3:
                s.append(("a token of the returned password", v))
    return s


def rejected_candidates(r, budget, words):
    """candidates the scripted tape makes the generator draw and reject (secrets-in-waiting)"""
    A = r.alphabet()
    a, L, T = len(A), r.length, budget[0]
    if L < 1 or not A:
        return []
    out, pos = [], 0
    for _ in range(max(T, 0)):
        cand = []
        for _ in range(L):
            while True:
                if pos >= len(words):
                    return out
                w = words[pos]
                pos += 1
                if a & (a - 1) == 0:
                    i = w & (a - 1)
                    break
                if w < chargen.discard(a):
                    i = w % a
                    break
            cand.append(A[i])
        if r.satisfies(cand):
            return out
        out.append("".join(cand).encode())
    return out


def oracle(ctx, deep):
    ctx.searched = ("captured fd 1 / fd 2 / log bytes of every call searched for the returned password, its tokens of >= 3 bytes, every candidate the "
                    "scripted tape makes the generator reject, and every word of the list; emitted lines matched against the numeric templates; the cases run again with every environment variable the library source consults set (none on the pinned tree)")
    import re
    ok_lines = [re.compile(rb"^entropySimple: There must be a positive number of elements\. Not -?\d+$"),
                re.compile(rb"^\d+ duplicate words found when setting up word list generator$"),
                re.compile(rb"^successProbability: eDiff is positive\. Setting to 0$"),
                re.compile(rb"^successProbability: p greater than 1\. Setting to 1$")]

    def check(a, secrets, base):
        out, err = captured(a)
        blob = out + b"\n" + err
        for (k, res), msg in core.PANIC_MESSAGES.items():
            if res == a:
                # the text of a panic is what an uncaught panic prints on standard error
                for what, sec in secrets:
                    if sec and sec in msg:
                        ctx.violations.append(dict(base, finding_key="C18-leak", what="%s (%r) appears in a panic message" % (what, sec[:40])))
                        return
                break
        for what, sec in secrets:
            if sec and sec in blob:
                ctx.violations.append(dict(base, finding_key="C18-leak", what="%s (%r) appears in the library's output/log" % (what, sec[:40])))
                return
        for line in blob.split(b"\n"):
            if line and not any(p.match(line) for p in ok_lines):
                ctx.violations.append(dict(base, finding_key="C18-grammar", what="the library emitted a line that is not one of its numeric diagnostics: %r" % line[:80]))
                return
    for meta, a, b in getattr(ctx, "gen_results", []):
        if a is None:
            continue
        r = meta["_recipe"]
        d = chargen.parse_password(a.rsplit(" stdout=", 1)[0])
        secrets = secrets_of_password(d)
        for c in rejected_candidates(r, meta["budget"], meta["_words"]):
            if len(c) >= 3:
                secrets.append(("a rejected candidate", c))
        check(a, secrets, {"recipe": meta["recipe"], "line": chargen.chargen_line(r, meta["budget"], meta["_words"]), "observed": a[-400:]})
    for c, a, b in getattr(ctx, "wl_results", []):
        if a is None:
            continue
        order, titles, rest = wlgen.parse_pre(a)
        d = chargen.parse_password(rest.rsplit(" stdout=", 1)[0])
        secrets = secrets_of_password(d)
        if order and order != "0":
            for x in order.split(",")[1:]:
                w = core.unhx(x)
                if len(w) >= 3:
                    secrets.append(("a word of the list", w))
        check(a, secrets, {"case": c["meta"], "line": wlgen.case_line(c), "observed": a[-400:]})
    for c, a, b in getattr(ctx, "list_results", []):
        if a is None:
            continue
        secrets = [("a word of the list", w.encode()) for w in c["list"] if len(w.encode()) >= 3]
        check(a, secrets, {"list": c["list"], "line": "wordlist " + wlgen.words_tokens(c["list"]), "observed": a[-400:]})
    # output that is switched on from outside: every environment variable the library source consults is set, and the
    # cases are run again (the pinned source consults none)
    gates = core.env_gates()
    ctx.count("environment_variables_consulted_by_the_source", len(gates))
    if gates and not ctx.violations:
        env = {g: "1" for g in gates}
        gl = [(meta, chargen.chargen_line(meta["_recipe"], meta["budget"], meta["_words"])) for meta, a, b in getattr(ctx, "gen_results", [])[:1500]]
        res, _ = core.run_impl(["e%d %s" % (i, l) for i, (m, l) in enumerate(gl)], extra_env=env)
        for i, (meta, l) in enumerate(gl):
            a = res.get("e%d" % i)
            if a is None:
                continue
            ctx.evaluations += 1
            d = chargen.parse_password(a.rsplit(" stdout=", 1)[0])
            secrets = secrets_of_password(d)
            for c in rejected_candidates(meta["_recipe"], meta["budget"], meta["_words"]):
                if len(c) >= 3:
                    secrets.append(("a rejected candidate", c))
            check(a, secrets, {"recipe": meta["recipe"], "line": l, "observed": a[-400:], "env": env})
            if ctx.violations:
                return
        wl = [(c, wlgen.case_line(c)) for c, a, b in getattr(ctx, "wl_results", [])[:600]]
        res, _ = core.run_impl(["e%d %s" % (i, l) for i, (c, l) in enumerate(wl)], extra_env=env)
        for i, (c, l) in enumerate(wl):
            a = res.get("e%d" % i)
            if a is None:
                continue
            ctx.evaluations += 1
            order, titles, rest = wlgen.parse_pre(a)
            d = chargen.parse_password(rest.rsplit(" stdout=", 1)[0])
            secrets = secrets_of_password(d)
            if order and order != "0":
                secrets += [("a word of the list", core.unhx(x)) for x in order.split(",")[1:] if len(core.unhx(x)) >= 3]
            check(a, secrets, {"case": c["meta"], "line": l, "observed": a[-400:], "env": env})
            if ctx.violations:
                return


def replay(v):
    line = "r " + v["line"]
    if v.get("env"):
        print("environment:", v["env"])
    r, _ = core.run_impl([line], extra_env=v.get("env"))
    print(line[:400])
    print("->", (r.get("r") or "")[-600:])
    core.replay_shared_list(v["line"])
    print("violation:", v["what"])
    return 1
