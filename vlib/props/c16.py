"""C16 — built-in classes, defaults, separator presets, shipped lists are as documented."""
import hashlib, itertools, math, os
from .. import core, chargen, wlgen
from ..spgref import Recipe, f32_from_bits, ulp32

# the documentation side, written out
DOC_CLASSES = {1: "ABCDEFGHIJKLMNOPQRSTUVWXYZ", 2: "abcdefghijklmnopqrstuvwxyz", 4: "0123456789", 8: "!@.-_*", 16: "0O1Il5S"}
DOC_PRESETS = {
    "SFNone": [""],
    "SFDigits1": list("0123456789"),
    "SFDigits2": [a + b for a in "0123456789" for b in "0123456789"],
    "SFDigitsNoAmbiguous1": list("2346789"),
    "SFDigitsNoAmbiguous2": [a + b for a in "2346789" for b in "2346789"],
    "SFSymbols": list("!@.-_*"),
    "SFDigitsSymbols": list("0123456789!@.-_*"),
}
BUDGET = chargen.DEFAULT_BUDGET


def sep_line(sep, budget, words):
    return "sepcall %s %d %d %d %s" % (wlgen.sep_tokens(sep), budget[0], budget[1], budget[2], core.src_tokens(core.flat_tape(words)))


def canon(res, meta):
    if res is None:
        return None
    r, e = chargen.split_ent(res)
    return r


def preset_cells(ctx):
    """every index vector of every preset's cell (each index realised by a raw word of its fibre), plus boundary rejections"""
    rng = ctx.rng
    cases = []
    for name, vals in DOC_PRESETS.items():
        sep = ("preset", name)
        r = wlgen.PRESET_RECIPES[name]
        if r is None:
            cases.append((sep_line(sep, BUDGET, [rng.randrange(1 << 32)]), {"preset": name, "vec": (), "kind": "cell"}))
            continue
        a = len(r.alphabet())
        for vec in itertools.product(range(a), repeat=r.length):
            words, _ = chargen.tape_for(rng, a, [list(vec)], spread=True)
            cases.append((sep_line(sep, BUDGET, words), {"preset": name, "vec": vec, "kind": "cell"}))
        for _ in range(6):
            vec = [rng.randrange(a) for _ in range(r.length)]
            words, nrej = chargen.tape_for(rng, a, [vec], rejections=0.7, spread=True)
            cases.append((sep_line(sep, BUDGET, words), {"preset": name, "vec": tuple(vec), "kind": "rejections", "nrej": nrej}))
    return cases


def correspondence(ctx):
    ctx.rule = ("sepcall family: every exported separator preset is called on the real code for EVERY index vector of its cell (10, 100, 7, 49, 6, 16 "
                "vectors; each index realised by a random raw word of its fibre) and on tapes with forced raw-word rejections at the exact threshold; "
                "value and bytes consumed compared exactly with the model, entropy within 2 float32 ulp of log2(count). builtin family: classes "
                "(Alphabet() of single-class recipes), constructor defaults, budget, constants and SHA-256 of the exported lists read from the built "
                "package and compared with the documented literals and with testdata/*.txt. Non-trivial = distinct cases.")
    cases = preset_cells(ctx)
    ctx.cell_results = []
    lines = ["s%d %s" % (i, c[0]) for i, c in enumerate(cases)]
    impl, n1 = core.run_impl(lines)
    model, n2 = core.run_model(lines)
    fam = ctx.families.setdefault("sepcall", {"cases": 0, "mismatches": 0})
    for i, (line, meta) in enumerate(cases):
        a, b = impl.get("s%d" % i), model.get("s%d" % i)
        ctx.evaluations += 1
        fam["cases"] += 1
        ok = a is not None and b is not None
        if ok:
            ra, ea = chargen.split_ent(a)
            rb, eb = chargen.split_ent(b)
            ok = ra == rb and ea is not None and eb is not None and ea.startswith("F:")
            if ok:
                exp = chargen.expected_entropy(eb)
                got = f32_from_bits(ea[2:])
                ok = abs(got - exp) <= 2 * ulp32(max(abs(exp), 1.0))
        if not ok:
            fam["mismatches"] += 1
            ctx.mismatches.append({"family": "sepcall", "case": lines[i], "impl": a, "model": b, "meta": {k: str(v) for k, v in meta.items()}})
        else:
            ctx.traces_validated += 1
        ctx.nontrivial.add(line)
        ctx.cell_results.append((meta, a, line))
    ctx.sample({"case": lines[3], "impl": impl.get("s3"), "model": model.get("s3")})
    r, _ = core.run_impl(["b builtin"])
    ctx.builtin = r.get("b")
    r2, _ = core.run_impl(["b builtin used"])       # the same in a process that has already used the package for other things
    ctx.builtin_used = r2.get("b")
    ctx.evaluations += 1
    ctx.nontrivial.add("builtin")
    ctx.sample({"builtin": (ctx.builtin or "")[:600]})


def file_digest(name):
    p = os.path.join(core.REPO, "testdata", name)
    data = open(p, "rb").read()
    lines = data.decode("utf-8").split("\n")
    if lines and lines[-1] == "":
        lines = lines[:-1]
    return len(lines), hashlib.sha256(("\n".join(lines) + "\n").encode()).hexdigest(), lines


def oracle(ctx, deep):
    ctx.searched = ("each preset over its complete cell: the documented values, each exactly once per index vector, nothing else, entropy log2(count); "
                    "on tapes with raw words an unbiased draw rejects, the value the remaining tape scripts; classes, the numeric class constants, defaults (also of a second constructor call after the caller changed every field of the first result), budget and list digests read from the built package against the documented literals and testdata")
    # presets: tally the complete cells
    tally = {}
    for meta, a, line in getattr(ctx, "cell_results", []):
        if a is None:
            continue
        name = meta["preset"]
        head = a.split(" ")
        base = {"preset": name, "line": line, "observed": a[:300]}
        if head[0] != "ok":
            ctx.violations.append(dict(base, finding_key="C16-preset", what="preset %s failed: %s" % (name, " ".join(head[:2]))))
            continue
        v = core.unhx(head[1]).decode("utf-8", "replace")
        if v not in DOC_PRESETS[name]:
            ctx.violations.append(dict(base, finding_key="C16-preset", what="preset %s returned %r, which is not one of its documented values" % (name, v)))
            continue
        ent = f32_from_bits([t for t in head if t.startswith("ent=F:")][0][6:])
        want = math.log2(len(DOC_PRESETS[name]))
        if abs(ent - want) > 2 * ulp32(max(want, 1.0)):
            ctx.violations.append(dict(base, finding_key="C16-preset", what="preset %s reports entropy %r, documented log2(%d) = %r" % (name, ent, len(DOC_PRESETS[name]), want)))
        if meta["kind"] == "cell":
            tally.setdefault(name, {}).setdefault(v, []).append(meta["vec"])
        rr = wlgen.PRESET_RECIPES.get(name)
        if rr is not None and meta.get("vec") is not None and len(meta["vec"]) == rr.length:
            # the tape scripts this index vector (after raw words that an unbiased draw over the preset's alphabet must reject):
            # the documented value for it, and nothing else — a preset that keeps a rejected word is not uniform
            A = rr.alphabet()
            want_v = "".join(A[i] for i in meta["vec"])
            if v != want_v:
                ctx.violations.append(dict(base, finding_key="C16-preset-uniform", what="preset %s returned %r on a tape that scripts %r%s: its values are not selected by equally many raw words" % (
                    name, v, want_v, " after %d raw word(s) an unbiased draw rejects" % meta["nrej"] if meta.get("nrej") else "")))
                continue
    for name, vals in DOC_PRESETS.items():
        t = tally.get(name)
        if t is None:
            continue
        counts = {v: len(t.get(v, [])) for v in vals}
        if len(set(counts.values())) != 1 or 0 in counts.values():
            worst = sorted(counts.items(), key=lambda kv: kv[1])
            ctx.violations.append({"preset": name, "line": "complete cell of " + name, "finding_key": "C16-preset-uniform",
                                   "what": "over the complete cell of %s the documented values are not returned equally often: %r ... %r" % (name, worst[0], worst[-1])})
    # builtins: in a fresh process, and in a process that has already used the package for other things
    for b, line, label in ((getattr(ctx, "builtin", None), "builtin", ""), (getattr(ctx, "builtin_used", None), "builtin used", " (after the package was used for other recipes, lists and presets)")):
        judge_builtin(ctx, b, line, label)
        if ctx.violations:
            return


def judge_builtin(ctx, b, line, label):
    if b is None or not b.startswith("ok "):
        ctx.violations.append({"line": line, "finding_key": "C16-builtin", "what": "reading the built-ins failed%s: %r" % (label, b)})
        return
    kv = dict(t.split("=", 1) for t in b.split(" ")[1:] if "=" in t and not t.startswith(("stdout=", "stderr=")))

    def need(key, want, what):
        if kv.get(key) != want:
            ctx.violations.append({"line": line, "finding_key": "C16-builtin", "what": "%s%s: built package has %r, documented %r" % (what, label, kv.get(key), want)})
    for f, s in DOC_CLASSES.items():
        need("class%d" % f, core.hx("".join(sorted(s))), "character class %d" % f)
    need("class3", core.hx("".join(sorted(DOC_CLASSES[1] + DOC_CLASSES[2]))), "Letters")
    need("class15", core.hx("".join(sorted(DOC_CLASSES[1] + DOC_CLASSES[2] + DOC_CLASSES[4] + DOC_CLASSES[8]))), "All")
    need("class0", "-", "None")
    everything = set(DOC_CLASSES[1] + DOC_CLASSES[2] + DOC_CLASSES[4] + DOC_CLASSES[8])
    for f in (1, 2, 4, 8, 16):
        need("allminus%d" % f, core.hx("".join(sorted(everything - set(DOC_CLASSES[f])))), "Alphabet() of {Allow: All, Exclude: class %d}" % f)
    for f in (1, 2, 4, 8, 16):
        need("require%d" % f, core.hx("".join(sorted(set(DOC_CLASSES[f])))), "Alphabet() of {Require: class %d}: a required class is drawn from, the ambiguous class like the others" % f)
    for n in (0, -3):
        need("newchar_len%d" % n, "%d,15,0,16,%s" % (n, core.hx("".join(sorted(everything - set(DOC_CLASSES[16]))))),
             "NewCharRecipe(%d): the documented defaults whatever the length" % n)
    need("newcharalphabet", core.hx("".join(sorted(everything - set(DOC_CLASSES[16])))), "Alphabet() of NewCharRecipe(n): everything minus the ambiguous characters")
    need("flags", "1,2,4,8,16,3,15,0", "the class constants Uppers, Lowers, Digits, Symbols, Ambiguous, Letters, All, None")
    need("newchar", "17,15,0,16,-,0,-", "NewCharRecipe defaults (Length, Allow, Require, Exclude, AllowChars, #RequireSets, ExcludeChars)")
    need("newwl", "5,%s,-,true,2" % core.hx("none"), "NewWLRecipe defaults (Length, Capitalize, SeparatorChar, SeparatorFunc nil, Size)")
    need("newchar2", "9,15,0,16,-,0,-,first=3", "a second NewCharRecipe after the caller changed every field of the first (defaults again; the first keeps Length 3)")
    need("newwl2", "4,%s,-,true,2,first=2" % core.hx("none"), "a second NewWLRecipe after the caller changed every field of the first")
    need("budget", "200,1.0000000000000001e-09", "MaxTrials, MaxFailRate")
    need("caps", "none,first,all,random,one", "capitalisation scheme constants")
    need("types", "0,1", "token types")
    need("kinds", "0,1,2,3", "index kinds")
    for key, fname in (("agilewords", "agwordlist.txt"), ("agilesyllables", "agsyllables.txt")):
        n, dig, lines = file_digest(fname)
        need(key, "%d,%s" % (n, dig), "exported list vs testdata/%s" % fname)
        need(key + "_after_use", "%d,%s" % (n, dig), "exported list vs testdata/%s after the slice was handed to NewWordList and used" % fname)
        if len(set(lines)) != len(lines) or any((not w) or (not w.isascii()) or (not w.islower()) or (not w.isalpha()) for w in lines):
            ctx.violations.append({"line": line, "finding_key": "C16-list", "what": "testdata/%s is not duplicate-free lower-case a-z" % fname})


def replay(v):
    line = "r " + v["line"] if v["line"].startswith(("sepcall", "builtin")) else "r builtin"
    r, _ = core.run_impl([line])
    print(line[:300])
    print("->", (r.get("r") or "")[:800])
    print("violation:", v["what"])
    return 1
