"""C01 — bounded draws are exactly uniform for every bound."""
import os, struct, subprocess, tempfile, shutil
from concurrent.futures import ThreadPoolExecutor
from .. import core

W = 1 << 32


def discard(n):
    return (W - 1) - (W - 1) % n


def is_pow2(n):
    return n & (n - 1) == 0


def bounds(ctx):
    ns = set(range(1, 65))
    for k in range(1, 32):
        for d in (-1, 0, 1):
            ns.add((1 << k) + d)
    ns |= {18325, 18328, 10129, 10, 6, 16, 62, 88, (1 << 31), (1 << 31) + 1, W - 1, W - 2, 3 * (1 << 30), 0}
    # bounds that coincide with small ones modulo 2^8 and 2^16 (what a table of per-bound data indexed by a truncated n would confuse);
    # the cases run in ascending order in one process, so the small bound has been drawn from before its aliases are
    for n in (3, 5, 6, 7, 10, 13, 26, 62):
        ns |= {n + 256, n + 512, n + 65536, n + (1 << 24)}
    extra = 200 if ctx.tier == "quick" else 3000
    for _ in range(extra):
        ns.add(ctx.rng.randrange(1, W))
    for _ in range(extra // 4):
        ns.add(ctx.rng.randrange(1, 1 << ctx.rng.randrange(1, 32)))
    return sorted(n for n in ns if 0 <= n < W)


def raw_words(ctx, n):
    d = discard(n)
    ws = {0, 1, n - 1, n, d - 1, d, d + 1, W - 2, W - 1, n * 2 - 1, n * 2, n * 2 + 1, d - n, d // 2}
    for _ in range(4):
        ws.add(ctx.rng.randrange(W))
    return sorted(w for w in ws if 0 <= w < W)


CHUNKINGS = [(4,), (1, 1, 1, 1), (3, 1), (1, 3), (2, 2), (1, 2, 1), (2, 1, 1)]


def chunked(words, pattern):
    b = b"".join(int(w).to_bytes(4, "big") for w in words)
    out, i, k = [], 0, 0
    while i < len(b):
        m = pattern[k % len(pattern)]
        out.append((b[i:i + m], False))
        i += m
        k += 1
    return out


def spec_result(n, words):
    """independent statement of the expected behaviour on a fault-free tape of raw words"""
    if n == 0:
        return "panic zero consumed=0"
    used = 0
    for w in words:
        used += 1
        if is_pow2(n):
            return "ok %d consumed=%d" % (w & (n - 1), 4 * used)
        if w < discard(n):
            return "ok %d consumed=%d" % (w % n, 4 * used)
    return "panic prng consumed=%d" % (4 * used)


def correspondence(ctx):
    ctx.rule = ("draw family: (bound n, scripted tape); n from all n<=64, 2^k and 2^k±1, shipped sizes, 2^31, 2^31+1, 2^32-1, random; "
                "raw words at 0,1,n-1,n,discard-1,discard,discard+1,2^32-1, multiples of n±1, random; tapes with 0-5 forced rejections, "
                "7 chunkings of the reads, faults with 0-3 bytes delivered. Non-trivial = distinct (n, tape) with n not a power of two "
                "and a raw word within n of the rejection threshold, or a forced rejection, or a short/failed read.")
    cases = []
    for n in bounds(ctx):
        ctx.count("n_pow2" if n and is_pow2(n) else "n_other")
        if n == 0:
            cases.append(("draw 0 " + core.src_tokens(core.flat_tape([5])), {"n": 0, "words": [5], "kind": "zero"}))
            continue
        for w in raw_words(ctx, n):
            cases.append(("draw %d %s" % (n, core.src_tokens(core.flat_tape([w, 7 % n, 0]))),
                          {"n": n, "words": [w, 7 % n, 0], "kind": "single"}))
            if not is_pow2(n) and abs(w - discard(n)) <= n:
                ctx.nontrivial.add((n, w))
        if not is_pow2(n) and ctx.rng.random() < 0.3:
            d = discard(n)
            k = ctx.rng.randrange(1, 6)
            rej = [ctx.rng.randrange(d, W) for _ in range(k)]
            tail = [ctx.rng.randrange(0, d)]
            pat = CHUNKINGS[ctx.rng.randrange(len(CHUNKINGS))]
            cases.append(("draw %d %s" % (n, core.src_tokens(chunked(rej + tail, pat))),
                          {"n": n, "words": rej + tail, "kind": "rejections", "chunking": pat}))
            ctx.count("forced_rejections_%d" % k)
            ctx.nontrivial.add((n, tuple(rej + tail), pat))
            # all rejected then the tape runs dry
            cases.append(("draw %d %s" % (n, core.src_tokens(core.flat_tape(rej))),
                          {"n": n, "words": rej, "kind": "starved"}))
        if ctx.rng.random() < 0.2:
            # a fault after 0..3 bytes of some read
            w = ctx.rng.randrange(W)
            delivered = ctx.rng.randrange(0, 4)
            b = int(w).to_bytes(4, "big")[:delivered]
            fail_with_full = ctx.rng.random() < 0.3
            if fail_with_full:
                chunks = [(int(w).to_bytes(4, "big"), True), (b"\x00\x00\x00\x01", False)]
            else:
                chunks = [(b, True), (b"\x00\x00\x00\x01\x00\x00\x00\x02", False)]
            cases.append(("draw %d %s" % (n, core.src_tokens(chunks)), {"n": n, "kind": "fault", "delivered": delivered, "full": fail_with_full}))
            ctx.count("fault_cases")
            ctx.nontrivial.add((n, "fault", w, delivered, fail_with_full))
    res = ctx.compare("draw", cases)
    for meta, a, b in res[:3] + res[len(res) // 2: len(res) // 2 + 2]:
        ctx.sample({"case": meta, "impl": a, "model": b})
    # direct statement of the expected behaviour, independent of the model, on fault-free tapes
    for meta, a, b in res:
        if a is None or meta["kind"] in ("fault",):
            continue
        exp = spec_result(meta["n"], meta["words"])
        got = a.split(" stdout=")[0]
        if got != exp:
            ctx.notes.append("implementation differs from the documented draw on n=%d words=%s: got %r expected %r" % (
                meta["n"], meta["words"][:3], got, exp))
            ctx.count("spec_deviation")
    ctx.draw_results = res


SWEEP_BOUNDS = [3, 6, 10, 7, 5, 18325, (1 << 20) + 1, 62, 88, 10129, 1000, 3 * (1 << 18)]
# powers of two take the mask path; swept as well (every raw word, in one process, draw after draw: a draw that
# keeps bits or state from an earlier draw shows up as unequal counts)
POW2_BOUNDS = [8, 2, 64, 1, 1 << 16, 32]


def sweep(n, procs=16):
    """Run the real bounded draw on all 2^32 raw words for bound n; returns (counts list, rejected, out_of_range)."""
    d = tempfile.mkdtemp(prefix="verif-sweep-")
    try:
        step = W // procs
        jobs = []
        for p in range(procs):
            lo, hi = p * step, (W if p == procs - 1 else (p + 1) * step)
            path = os.path.join(d, "c%d.bin" % p)
            jobs.append(("s%d sweep %d %d %d %s" % (p, n, lo, hi, core.hx(path)), path))

        def run(job):
            r, note = core.run_impl([job[0]], timeout=1200)
            return r, note
        with ThreadPoolExecutor(max_workers=procs) as ex:
            outs = list(ex.map(run, jobs))
        total = [0] * (n + 2)
        for (line, path), (r, note) in zip(jobs, outs):
            if not os.path.exists(path):
                return None
            data = open(path, "rb").read()
            vals = struct.unpack("<%dQ" % (n + 2), data)
            for i, v in enumerate(vals):
                total[i] += v
        return total[:n], total[n], total[n + 1]
    finally:
        shutil.rmtree(d, ignore_errors=True)


def check_sweep(ctx, n):
    r = sweep(n)
    ctx.count("full_2^32_sweeps")
    ctx.evaluations += W
    if r is None:
        ctx.notes.append("sweep for n=%d could not run" % n)
        return
    counts, rejected, oor = r
    accepted = sum(counts)
    ctx.nontrivial.add(("sweep", n))
    ctx.sample({"sweep_bound": n, "accepted": accepted, "rejected": rejected, "min_count": min(counts), "max_count": max(counts)}, limit=12)
    if oor:
        ctx.violations.append({"finding_key": "C01-range", "what": "draw returned an index >= n", "n": n, "count": oor})
    if min(counts) != max(counts):
        i, j = counts.index(min(counts)), counts.index(max(counts))
        ctx.violations.append({"finding_key": "C01-bias", "what": "alternatives selected by different numbers of the 2^32 raw words",
                               "n": n, "index_a": i, "count_a": counts[i], "index_b": j, "count_b": counts[j],
                               "replay_family": "sweep"})
    if 2 * accepted <= W:
        ctx.violations.append({"finding_key": "C01-majority", "what": "not more than half of the raw words are accepted",
                               "n": n, "accepted": accepted})
    if accepted + rejected + oor != W:
        ctx.notes.append("sweep accounting mismatch for n=%d" % n)


LARGE_BOUNDS = [(1 << 31) + 1, 3 * (1 << 30), W - 1, (1 << 31) + (1 << 30) + 12345, (1 << 31) + 2]


def sweep2(n, i1, i2, procs=16):
    """all 2^32 raw words through the real draw for a bound too large for one counter per alternative; tallies two alternatives"""
    step = W // procs
    jobs = ["t%d sweep2 %d %d %d %d %d" % (p, n, p * step, (W if p == procs - 1 else (p + 1) * step), i1, i2) for p in range(procs)]

    def run(job):
        r, note = core.run_impl([job], timeout=1200)
        return list(r.values())[0] if r else None
    with ThreadPoolExecutor(max_workers=procs) as ex:
        outs = list(ex.map(run, jobs))
    tot = {"c1": 0, "c2": 0, "rejected": 0, "oor": 0}
    for o in outs:
        if o is None or not o.startswith("ok "):
            return None
        for tok in o.split(" ")[1:]:
            if "=" in tok and tok.split("=")[0] in tot:
                tot[tok.split("=")[0]] += int(tok.split("=")[1])
    return tot


def check_large(ctx, n):
    """bounds above 2^31: look for two raw words that select the same alternative in a boundary-heavy sample of the real draw,
    then count ALL raw words selecting that alternative and a control alternative"""
    rng = ctx.rng
    probe = [0, 1, n - 1, n, n + 1, W - 1, W - 2, W - n, W - n - 1, (W - 1) - ((W - 1) % n)] + [rng.randrange(W) for _ in range(3000)]
    probe += [(v + n) % W for v in probe[:1500]] + [(v - n) % W for v in probe[:1500]]
    probe = sorted(set(v for v in probe if 0 <= v < W))
    lines = ["p%d draw %d %s" % (k, n, core.src_tokens(core.flat_tape([v, 0, 0, 0]))) for k, v in enumerate(probe)]
    res, _ = core.run_impl(lines)
    seen = {}
    cand = None
    for k, v in enumerate(probe):
        a = res.get("p%d" % k)
        if not a or not a.startswith("ok "):
            continue
        f = a.split(" ")
        idx = int(f[1])
        consumed = int([x for x in f if x.startswith("consumed=")][0][9:])
        if consumed != 4:
            continue        # the word was rejected; the index comes from the filler
        if idx in seen and seen[idx] != v:
            cand = (idx, seen[idx], v)
            break
        seen[idx] = v
    ctx.evaluations += len(probe)
    if cand is None:
        return
    i1 = cand[0]
    i2 = n - 1 if i1 != n - 1 else n - 2
    t = sweep2(n, i1, i2)
    ctx.evaluations += W
    ctx.count("full_2^32_sweeps")
    if t is None:
        return
    ctx.nontrivial.add(("sweep2", n))
    if t["c1"] != t["c2"]:
        ctx.violations.append({"finding_key": "C01-bias", "what": "alternatives selected by different numbers of the 2^32 raw words",
                               "n": n, "index_a": i1, "count_a": t["c1"], "index_b": i2, "count_b": t["c2"],
                               "witness_words": [cand[1], cand[2]], "replay_family": "sweep2"})
    if t["oor"]:
        ctx.violations.append({"finding_key": "C01-range", "what": "draw returned an index >= n", "n": n, "count": t["oor"]})


def oracle(ctx, deep):
    ctx.searched = ("full 2^32 raw-word sweep of the real bounded draw for bounds %s and the powers of two %s; for bounds above 2^31 (%s) a boundary-heavy probe for two raw "
                    "words selecting one alternative followed by a full count of that alternative; structural rules on every fault-free draw case, from the statement alone: whole 32-bit words consumed; after rejected words the same draw on the remaining tape returns the same alternative from one word; the same bytes delivered 1-4 per read give the same result" % (SWEEP_BOUNDS, POW2_BOUNDS, LARGE_BOUNDS))
    # cheap structural checks on every run: range; a rejected word is followed by a fresh decision
    for meta, a, b in getattr(ctx, "draw_results", []):
        if a is None or not a.startswith("ok "):
            continue
        idx = int(a.split(" ")[1])
        if meta["n"] > 0 and idx >= meta["n"]:
            ctx.violations.append({"finding_key": "C01-range", "what": "draw returned an index >= n", "n": meta["n"],
                                   "words": meta.get("words"), "index": idx})
    draw_structure(ctx)
    if ctx.violations:
        return
    if deep:
        todo = (SWEEP_BOUNDS + POW2_BOUNDS) if ctx.tier == "thorough" or ctx.mismatches else POW2_BOUNDS[:2] + SWEEP_BOUNDS[:7]
    else:
        todo = [SWEEP_BOUNDS[ctx.seed % 3], POW2_BOUNDS[ctx.seed % 3]]
    for n in todo:
        check_sweep(ctx, n)
        if ctx.violations and not ctx.tier == "thorough":
            break
    if deep and not ctx.violations:
        for n in LARGE_BOUNDS:
            check_large(ctx, n)
            if ctx.violations:
                break


def draw_structure(ctx):
    """Model-independent rules on the fault-free draw cases of the run, from the statement alone: a draw uses whole 32-bit words
    (the bytes consumed are a positive multiple of 4); after rejected words the decision is a fresh draw on the next whole word
    (the same tape without the rejected words gives the same alternative, consuming one word); how the source delivers its bytes
    (1-4 per read) does not matter."""
    follow = []
    for meta, a, b in getattr(ctx, "draw_results", []):
        if a is None or meta["kind"] in ("fault", "zero") or not a.startswith("ok "):
            continue
        got = a.split(" stdout=")[0]
        idx = int(got.split(" ")[1])
        consumed = int(got.split("consumed=")[1])
        n, words = meta["n"], meta["words"]
        base = {"n": n, "words": words[:8], "chunking": list(meta.get("chunking", (4,))), "observed": got,
                "line": "draw %d %s" % (n, core.src_tokens(chunked(words, meta["chunking"]) if meta.get("chunking") else core.flat_tape(words)))}
        if consumed <= 0 or consumed % 4 != 0 or consumed > 4 * len(words):
            ctx.violations.append(dict(base, finding_key="C01-words", what="the draw consumed %d bytes: not a whole number of 32-bit raw words" % consumed))
            return
        k = consumed // 4
        if k > 1:
            follow.append((dict(base), "draw %d %s" % (n, core.src_tokens(core.flat_tape(words[k - 1:]))), "ok %d consumed=4" % idx, "restart"))
        if meta.get("chunking") and tuple(meta["chunking"]) != (4,):
            follow.append((dict(base), "draw %d %s" % (n, core.src_tokens(core.flat_tape(words))), got, "chunking"))
    if not follow:
        return
    res, _ = core.run_impl(["f%d %s" % (i, f[1]) for i, f in enumerate(follow)])
    for i, (base, line, want, why) in enumerate(follow):
        g = (res.get("f%d" % i) or "").split(" stdout=")[0]
        ctx.evaluations += 1
        ctx.count("draw_followups_" + why)
        if g != want:
            if why == "restart":
                what = ("after %d rejected raw word(s) the draw returned %s, but the same draw on the remaining tape alone returns %r: the decision after a "
                        "rejection is not a fresh draw on the next whole word" % (int(base["observed"].split("consumed=")[1]) // 4 - 1, base["observed"], g))
            else:
                what = "the same bytes delivered %s per read gave %s, delivered 4 per read %r" % (base["chunking"], base["observed"], g)
            ctx.violations.append(dict(base, finding_key="C01-" + why, what=what, second_line=line))
            return


def replay(v):
    n = v["n"]
    if v.get("replay_family") == "sweep2":
        t = sweep2(n, v["index_a"], v["index_b"])
        print("bound n=%d: alternative %d selected by %d raw words, alternative %d by %d" % (n, v["index_a"], t["c1"], v["index_b"], t["c2"]))
        return 1 if t["c1"] != t["c2"] else 0
    if v.get("replay_family") == "sweep" or "count_a" in v:
        r = sweep(n)
        counts, rejected, oor = r
        print("bound n=%d: min count %d (index %d), max count %d (index %d), rejected %d, out-of-range %d" % (
            n, min(counts), counts.index(min(counts)), max(counts), counts.index(max(counts)), rejected, oor))
        return 1 if (min(counts) != max(counts) or oor or 2 * sum(counts) <= W) else 0
    line = "r " + v["line"] if v.get("line") else "r draw %d %s" % (n, core.src_tokens(core.flat_tape(v.get("words", [0]))))
    r, _ = core.run_impl([line])
    print(line, "->", r)
    if v.get("second_line"):
        r2, _ = core.run_impl(["r " + v["second_line"]])
        print("r " + v["second_line"], "->", r2)
    print("violation:", v.get("what"))
    return 1
