"""C08 — wordlist-recipe entropy is exact and depends on the recipe alone."""
import math
from .. import core, chargen, wlgen
from ..spgref import f32_from_bits, ulp32
from .c05 import title_map


def correspondence(ctx):
    ctx.rule = ("wlgen family (entropy of the generated password against the model's exact components) plus the wlentropy family: each word set "
                "constructed 16 (quick) / 200 (thorough) times from permuted and repeated input, Entropy() called 3 times per construction; "
                "all values must be bit-identical. Non-trivial = distinct (list, recipe) whose list contains a title-cased twin or an "
                "un-capitalisable word and whose scheme is random or one.")
    ctx.wl_results = wlgen.run_wlgen_family(ctx, wlgen.gen_cases(ctx, 200 if ctx.tier == "quick" else 2500))
    rng = ctx.rng
    reps = 16 if ctx.tier == "quick" else 200
    lines, metas = [], []
    lists = [list(l) for l in wlgen.LISTS_FIXED]
    for _ in range(60 if ctx.tier == "quick" else 600):
        lists.append(wlgen.gen_list(rng))
    for l in lists:
        for cap in (["random", "one"] + [rng.choice(wlgen.CAPS)]):
            sep = rng.choice([("char", "-"), ("preset", "SFDigits1"), ("preset", "SFSymbols"), ("const", ""), ("recipe", wlgen.Recipe(2, allow=4, require_sets=["357"]))])
            L = rng.choice([1, 2, 3, 5, 5, 31, 32, 33, 63, 64, 65, 200])     # also across the word sizes a shifted bonus would overflow
            st = wlgen.sep_tokens(sep)
            if sep[0] != "char" and rng.random() < 0.25:
                st = "both %s %s" % (core.hx(rng.choice(["-", "+", "é"])), st)      # SeparatorChar set as well: the function is the one used
                ctx.count("both_separator_fields")
            lines.append("e%d wlentropy %s %d %s %s %d" % (len(lines), wlgen.words_tokens(l), L, st, core.hx(cap), reps))
            metas.append({"list": l, "length": L, "sep": sep, "cap": cap})
            if cap in ("random", "one") and (any(w.title() in l and w.title() != w for w in l) or any(w.title() == w for w in l)):
                ctx.nontrivial.add((tuple(l), L, cap))
    impl, note = core.run_impl(lines)
    if note:
        ctx.notes.append("wlentropy runner: " + note)
    ctx.ent_results = [(m, impl.get("e%d" % i), lines[i].split(" ", 1)[1]) for i, m in enumerate(metas)]
    ctx.evaluations += len(lines) * reps * 3
    ctx.count("entropy_calls", len(lines) * reps * 3)
    for m, a, _ in ctx.ent_results[:3]:
        ctx.sample({"list": m["list"], "length": m["length"], "cap": m["cap"], "sep": wlgen.sep_json(m["sep"]), "impl": a})


def formula(words, tmap, L, cap, sep):
    """the documented value: L*log2(size) [+L | +log2 L iff every word changes under title-casing] + (L-1)*sepEntropy"""
    size = len(words)
    e = L * math.log2(size)
    if all(tmap.get(w, w) != w for w in words):
        if cap == "random":
            e += L
        elif cap == "one":
            e += math.log2(L)
    r = wlgen.sep_recipe(sep)
    if r is not None:
        c = r.count()
        if r.length >= 1 and r.allowed() and c > 0:
            e += (L - 1) * math.log2(c)
    return e


def oracle(ctx, deep):
    ctx.searched = "identity of Entropy() across repeated constructions from permuted/repeated input and repeated calls; value against the documented formula"
    for m, a, line in getattr(ctx, "ent_results", []):
        if a is None:
            continue
        base = {"list": m["list"], "length": m["length"], "cap": m["cap"], "sep": wlgen.sep_json(m["sep"]), "line": line, "observed": a}
        if a.startswith("panic") or a.startswith("err"):
            ctx.violations.append(dict(base, finding_key="C08-panic", what="Entropy()/NewWordList failed"))
            continue
        kvs = dict(t.split("=", 1) for t in a.split(" ") if "=" in t)
        if kvs["distinct"] != "1":
            ctx.violations.append(dict(base, finding_key="C08-unstable", what="Entropy() of the same recipe over the same word set takes %s different values: %s" % (kvs["distinct"], kvs["values"])))
            continue
        tmap = title_map(kvs["titles"])
        inp = set(w.encode() for w in m["list"])
        words = [w for w in inp if not any(v != w and tmap.get(v, v) == w for v in inp)]
        got = f32_from_bits(kvs["values"].split("*")[0][2:])
        want = formula(words, tmap, m["length"], m["cap"], m["sep"])
        r = wlgen.sep_recipe(m["sep"])
        if r is not None and r.live_families():
            continue   # fallible separator: the value can legitimately be the failed-call one (F8 territory)
        if abs(got - want) > 8 * ulp32(max(abs(want), 1.0)):
            ctx.violations.append(dict(base, finding_key="C08-value", what="Entropy() = %r, documented formula gives %r" % (got, want)))


def replay(v):
    line = "r " + v["line"]
    for _ in range(3):
        r, _ = core.run_impl([line])
        print("->", r.get("r"))
    print("violation:", v["what"])
    return 1
