"""Case generation for character recipes: recipe grammar, targeted tapes, canonical comparison."""
import math
from fractions import Fraction
from . import core
from .spgref import Recipe, CLASSES, entropy_close, expected_entropy, f32_from_bits, ulp32

W = 1 << 32

POOL = ["abc", "357", "ABC", "!@", "é", "ñü", "€", "😀", "日本", "aA1!", "aab", "0O1Il5S", "xyz", "-_", "0123456789",
        "q", "Zz", "ß€😀", "a", "1", "*", "abcdefghijklmnopqrstuvwxyz", "éèêë", "09", "lI", "S5", "あいう", "aé€😀", "",
        # characters a careless loop drops or merges: the replacement character itself, blanks, a combining mark, characters outside
        # the BMP, a zero-width joiner
        "xy\ufffd", "\ufffd", " ", "\t ", "\u00a0", "a b", "e\u0301", "𝓍𝒳", "a\u200db",
        # Latin-1 characters whose code points are the UTF-8 BYTES of other pool characters (é = C3 A9, € = E2 82 AC): a lookup that
        # goes byte by byte takes them for one another
        "Ã", "©", "Ã©", "â¬", "Ãé",
        # strings that coincide with names the library uses internally for its sets
        "Digits", "Uppers", "Lowers", "Symbols", "Dunno", "Custom 1"]

DEFAULT_BUDGET = (200, 1, 1000000000)
# T = 200 only with the default limit (the model decides it through the proved guard band); other limits with small T
BUDGETS = [DEFAULT_BUDGET] * 6 + [(1, 1, 1), (2, 1, 2), (5, 1, 1000000000), (3, 1, 4), (12, 1, 2), (1, 1, 1000000000), (7, 1, 1), (20, 1, 1000)]


def rand_flags(rng, p_each):
    m = 0
    for f in CLASSES:
        if rng.random() < p_each:
            m |= f
    return m


def gen_recipe(rng, big_lengths=False, long_ok=True):
    style = rng.random()
    if style < 0.15:
        # the default recipe of the package, perturbed
        r = Recipe(rng.randrange(1, 25), allow=15, exclude=16)
        if rng.random() < 0.5:
            r.require = rand_flags(rng, 0.4) & 15
        return r
    allow = rand_flags(rng, 0.45)
    require = rand_flags(rng, 0.25)
    exclude = rand_flags(rng, 0.15)
    allow_chars = rng.choice(POOL) if rng.random() < 0.5 else ""
    if rng.random() < 0.15:
        allow_chars += rng.choice(POOL)
    nreq = rng.choice([0, 0, 0, 1, 1, 2, 2, 3, 4]) if rng.random() < 0.9 else rng.randrange(5, 9)
    require_sets = [rng.choice(POOL) for _ in range(nreq)]
    exclude_chars = rng.choice(POOL) if rng.random() < 0.3 else ""
    if big_lengths:
        length = rng.choice([1, 2, 3, 5, 8, 20, 64, 170, 171, 200, 1000, 3000])
    else:
        length = rng.choice([1, 1, 2, 2, 3, 3, 4, 5, 6, 8, 10, 12, 16, 20])
        if rng.random() < 0.06:
            length = rng.choice([0, -1, -7])
        elif long_ok and rng.random() < 0.04:
            # long passwords: hundreds and thousands of characters (token counts across 8- and 12-bit boundaries)
            length = rng.choice([70, 128, 255, 256, 257, 1000])
            if length >= 1000:
                require, require_sets = 0, []       # the exact pre-flight arithmetic of the model is for moderate lengths
            elif len(require_sets) > 2:
                require_sets = require_sets[:2]
    r = Recipe(length, allow, require, exclude, allow_chars, require_sets, exclude_chars)
    if length >= 128:
        # long candidates with few attempts: the model replays every attempt of a tape (attempts x Length picks)
        r.budget = rng.choice([(2, 1, 2), (5, 1, 1000000000), (1, 1, 1), (3, 1, 4)])
    return r


def machine_boundary_recipes():
    """recipes whose counts (the total a^L, or the count avoiding a required set) are exactly 2^32, 2^63, 2^64 or next to them:
    the sizes at which an arithmetic shortcut through a machine word would wrap"""
    out = []
    for a_chars, req, lengths in (("a", ["b"], (31, 32, 33, 63, 64, 65)),              # a = 2 with the required character
                                  ("abc", ["d"], (16, 31, 32, 33)),                       # a = 4
                                  ("0123456789", ["abcdef"], (8, 15, 16, 17)),            # a = 16: 16^16 = 2^64
                                  ("0123456789abcde", ["f", "0"], (16,)),
                                  ("0123456789abcdefg", ["0"], (16,))):                   # a = 17, avoiding the required one: 16^16
        for L in lengths:
            out.append(Recipe(L, allow_chars=a_chars, require_sets=list(req)))
    return out


def discard(n):
    return (W - 1) - (W - 1) % n


def word_for_index(rng, a, i, spread=True):
    """a raw 32-bit word that the unbiased draw maps to index i of a alternatives"""
    if a & (a - 1) == 0:
        hi = rng.randrange(0, W // a) if spread else 0
        return hi * a + i
    q = discard(a) // a
    k = rng.randrange(0, q) if spread else 0
    return k * a + i


def rejected_word(rng, a):
    """a raw word the unbiased draw must reject; biased to the exact threshold (the first rejected value) and to 2^32-1"""
    if a & (a - 1) == 0:
        return None
    r = rng.random()
    if r < 0.4:
        return discard(a)
    if r < 0.5:
        return W - 1
    return rng.randrange(discard(a), W)


def good_candidate(rng, recipe):
    """indices of a candidate that satisfies the recipe, or None"""
    A = recipe.alphabet()
    fams = recipe.live_families()
    L = recipe.length
    if L < 1 or not A:
        return None
    idx = [rng.randrange(len(A)) for _ in range(L)]
    if len(fams) > L:
        # may still be satisfiable through overlaps: try greedily
        pass
    pos = list(range(L))
    rng.shuffle(pos)
    need = list(fams)
    k = 0
    while need and k < L:
        f = need[0]
        # choose the character covering most of the remaining families
        best = max(sorted(f, key=lambda c: c.encode()), key=lambda c: sum(1 for g in need if c in g))
        idx[pos[k]] = A.index(best)
        need = [g for g in need if best not in g]
        k += 1
    cand = [A[i] for i in idx]
    if recipe.satisfies(cand):
        return idx
    return None


def many_sets_recipes():
    """recipes with 9 and 10 required sets (plus class sets) (more than a byte-wide mask of 'sets still missing' can hold), satisfiable with good probability"""
    chars = "abcdefghijklmnopqrstuvwxyzABCDEFGHIJKLMNOPQRSTUVWXYZ0123456789"
    out = []
    for k in (9, 10):
        sets = [chars[5 * i:5 * i + 5] for i in range(k)]
        out.append(Recipe(8 * k // 2, require_sets=sets))
        out.append(Recipe(8 * k // 2, allow=8, require=4 | 8, require_sets=sets[:k - 2]))      # two class sets after the custom ones
    return out


def bad_candidate(rng, recipe, miss=None):
    """indices of a candidate that misses some live required family, or None; half of the time a NEAR miss: every other
    family is hit, exactly one (any one, the last ones included) is missed"""
    A = recipe.alphabet()
    fams = recipe.live_families()
    L = recipe.length
    if L < 1 or not A or not fams:
        return None
    if miss is not None:
        f = fams[miss]
    else:
        f = rng.choice(fams) if rng.random() < 0.6 else fams[-1 - rng.randrange(min(3, len(fams)))]
    outside = [i for i, c in enumerate(A) if c not in f]
    if not outside:
        return None
    if (miss is not None or rng.random() < 0.5) and len(fams) - 1 <= L:
        cand, ok = [], True
        for g in fams:
            if g is f:
                continue
            hit = [i for i in outside if A[i] in g]
            if not hit:
                ok = False
                break
            cand.append(rng.choice(hit))
        if ok:
            cand += [rng.choice(outside) for _ in range(L - len(cand))]
            rng.shuffle(cand)
            return cand
    if rng.random() < 0.5:
        return [rng.choice(outside)] * L
    return [rng.choice(outside) for _ in range(L)]


def tape_for(rng, a, index_vectors, rejections=0.0, spread=True):
    """raw words realising the given index vectors in order, optionally interleaving rejected raw words"""
    words = []
    nrej = 0
    for vec in index_vectors:
        for i in vec:
            if rejections and rng.random() < rejections:
                w = rejected_word(rng, a)
                if w is not None:
                    words.append(w)
                    nrej += 1
            words.append(word_for_index(rng, a, i, spread))
    return words, nrej


def make_tapes(rng, recipe, budget, want=3):
    """list of (words, features) for a recipe"""
    A = recipe.alphabet()
    a = len(A)
    L = recipe.length
    T = budget[0]
    out = []
    if L < 1 or a == 0:
        return [([rng.randrange(W) for _ in range(4)], {"kind": "unused"})]
    kinds = ["random", "first", "last", "good", "bad_then_good", "exhaust", "starve", "rejected_words", "last_attempt"]
    rng.shuffle(kinds)
    for kind in kinds:
        if len(out) >= want:
            break
        if kind == "random":
            n = min(3 * L + 8, 4000)
            out.append(([rng.randrange(W) for _ in range(n)], {"kind": kind}))
        elif kind == "first":
            out.append(([0] * L + [rng.randrange(W) for _ in range(2 * L + 4)], {"kind": kind, "boundary": True}))
        elif kind == "last":
            ws, _ = tape_for(rng, a, [[a - 1] * L], spread=False)
            out.append((ws + [rng.randrange(W) for _ in range(2 * L + 4)], {"kind": kind, "boundary": True}))
        elif kind == "good":
            g = good_candidate(rng, recipe)
            if g is not None:
                ws, nrej = tape_for(rng, a, [g])
                out.append((ws, {"kind": kind, "exact_length": True}))
        elif kind == "rejected_words":
            g = good_candidate(rng, recipe)
            if g is not None and a & (a - 1) != 0:
                ws, nrej = tape_for(rng, a, [g], rejections=0.4)
                out.append((ws, {"kind": kind, "raw_rejections": nrej}))
        elif kind == "bad_then_good":
            g = good_candidate(rng, recipe)
            k = rng.randrange(1, 4)
            bads = [bad_candidate(rng, recipe) for _ in range(k)]
            if g is not None and all(b is not None for b in bads) and k < T:
                ws, nrej = tape_for(rng, a, bads + [g], rejections=0.1)
                out.append((ws, {"kind": kind, "candidate_rejections": k, "raw_rejections": nrej}))
        elif kind == "last_attempt":
            g = good_candidate(rng, recipe)
            if g is not None and T >= 1 and (T - 1) * L <= 6000:
                bads = [bad_candidate(rng, recipe) for _ in range(T - 1)]
                if all(b is not None for b in bads):
                    ws, _ = tape_for(rng, a, bads + [g], spread=False)
                    out.append((ws, {"kind": kind, "candidate_rejections": T - 1}))
        elif kind == "exhaust":
            if T >= 0 and T * L <= 6000:
                bads = [bad_candidate(rng, recipe) for _ in range(T)]
                if bads and all(b is not None for b in bads) or T == 0:
                    ws, _ = tape_for(rng, a, [b for b in bads if b], spread=False)
                    out.append((ws + [1, 2, 3], {"kind": kind, "candidate_rejections": T}))
        elif kind == "starve":
            k = rng.randrange(0, L)
            out.append(([rng.randrange(discard(a) if a & (a - 1) else W) for _ in range(k)], {"kind": kind, "starved": True}))
    if not out:
        out.append(([rng.randrange(W) for _ in range(3 * L + 8)], {"kind": "random"}))
    return out


def chargen_line(recipe, budget, words=None, chunks=None):
    src = chunks if chunks is not None else core.flat_tape(words)
    return "chargen %s %d %d %d %s" % (recipe.tokens(), budget[0], budget[1], budget[2], core.src_tokens(src))


def split_ent(res):
    """separate the ent= field from a result line"""
    if res is None:
        return None, None
    toks = res.split(" ")
    ent = None
    rest = []
    for t in toks:
        if t.startswith("ent="):
            ent = t[4:]
        else:
            rest.append(t)
    return " ".join(rest), ent


def canon_password(ctx):
    """canonicaliser for password results: everything but ent must be equal; ent compared with tolerance"""
    def canon(res, meta):
        rest, ent = split_ent(res)
        if ent is None:
            return rest
        if ent.startswith("F:"):
            # the implementation side: judge it against the model's exact value kept in meta
            exp = meta.get("_model_ent")
            if exp is None:
                return rest + " ent=?"
            ok = entropy_close(ent[2:], expected_entropy(exp), extra_ulps=meta.get("_ent_extra_ulps", 0))
            return rest + (" ent=ok" if ok else " ent=%s!~%s" % (ent, exp))
        return rest + " ent=ok"
    return canon


def float_decision_band(r, budget):
    """True iff the pre-flight refusal decision lies within the float32 resolution of SuccessProbability().
    The code computes sp = 2^(float32 entropy - float32 entropy'); each entropy carries an absolute error of up to one float32
    ulp at its magnitude, the result one more rounding; the decision (1-sp)^T <= limit is float-decided when it flips
    inside that band.  Such cases are counted as borderline-skipped, never compared."""
    T, fn, fd = budget
    try:
        p = r.success_probability()
    except Exception:
        return False
    if p is None or p <= 0 or T < 1 or r.length < 1:
        return False
    a = len(r.allowed())
    H = r.length * math.log2(a) if a > 1 else 1.0
    eps = float(p) * (2 * ulp32(max(H, 1.0)) * math.log(2) + 2.0 ** -23) * 2
    q = float(1 - p)
    lim = fn / fd

    def dec(x):
        if x <= 0:
            return True
        return T * math.log(x) <= math.log(lim) if lim > 0 else False
    return dec(max(q - eps, 0.0)) != dec(min(q + eps, 1.0))


def decision_differs(a, b):
    return (a.startswith("err failrate") != b.startswith("err failrate"))


def compare_passwords(ctx, family, cases):
    """cases: list of (line, meta). Runs both sides; entropy compared through the exact count."""
    lines = ["%s%d %s" % (family[0], i, c[0]) for i, c in enumerate(cases)]
    impl, note1 = core.run_impl(lines)
    model, note2 = core.run_model(lines)
    if note1:
        ctx.notes.append("impl runner (%s): %s" % (family, note1))
    if note2:
        ctx.notes.append("model runner (%s): %s" % (family, note2))
    fam = ctx.families.setdefault(family, {"cases": 0, "mismatches": 0})
    out = []
    for i, c in enumerate(cases):
        cid = "%s%d" % (family[0], i)
        a, b = impl.get(cid), model.get(cid)
        ctx.evaluations += 1
        fam["cases"] += 1
        ok = a is not None and b is not None
        if ok:
            ra, ea = split_ent(a)
            rb, eb = split_ent(b)
            ok = (ra == rb)
            if ok and (ea is not None or eb is not None):
                ok = ea is not None and eb is not None and ea.startswith("F:") and \
                    entropy_close(ea[2:], expected_entropy(eb), extra_ulps=c[1].get("ent_extra_ulps", 0))
        if not ok and a is not None and b is not None and decision_differs(a, b) and "_recipe" in c[1] \
                and float_decision_band(c[1]["_recipe"], c[1]["budget"]):
            # exact (model) and float32 (code) pre-flight decisions may differ inside the float resolution of SuccessProbability()
            ctx.count("borderline_skipped")
            fam["borderline_skipped"] = fam.get("borderline_skipped", 0) + 1
            out.append((c[1], a, None))
            continue
        if not ok:
            fam["mismatches"] += 1
            ctx.mismatches.append({"family": family, "case": lines[i], "impl": a, "model": b, "meta": c[1]})
        else:
            ctx.traces_validated += 1
        out.append((c[1], a, b))
    return out


def parse_password(res):
    """'ok 4 31:1 ... str=.. atoms=.. seps=.. ent=.. consumed=..' -> dict"""
    if res is None:
        return None
    toks = res.split(" ")
    d = {"outcome": toks[0]}
    if toks[0] == "ok":
        k = int(toks[1])
        d["tokens"] = []
        for t in toks[2:2 + k]:
            v, ty = t.rsplit(":", 1)
            d["tokens"].append((core.unhx(v), int(ty)))
        rest = toks[2 + k:]
    else:
        d["kind"] = toks[1] if len(toks) > 1 else ""
        rest = toks[2:]
    for t in rest:
        if "=" in t:
            k, v = t.split("=", 1)
            d[k] = v
        else:
            d.setdefault("flags", []).append(t)
    return d


def resplit(rng, r):
    """the same recipe with its custom required characters divided differently among the RequireSets (same concatenation,
    same every other field): a different recipe, run right after the original in the same process, so that anything the
    library remembers between calls under a key that does not distinguish the two shows up"""
    sets = [x for x in r.require_sets if x]
    if len(sets) >= 2 and rng.random() < 0.3:
        # recipes that PRINT alike ({"a","b"} and {"a b"} under %v) but differ
        return Recipe(r.length, r.allow, r.require, r.exclude, r.allow_chars, [" ".join(sets)], r.exclude_chars)
    joined = "".join(sets)
    if len(joined) < 2:
        return None
    for _ in range(8):
        k = rng.randrange(1, min(len(joined), 4) + 1)
        cuts = sorted(rng.sample(range(1, len(joined)), k - 1)) if k > 1 else []
        parts = [joined[a:b] for a, b in zip([0] + cuts, cuts + [len(joined)])]
        if parts != sets:
            return Recipe(r.length, r.allow, r.require, r.exclude, r.allow_chars, parts, r.exclude_chars)
    return None


def with_resplits(rng, recs):
    out = []
    for r in recs:
        out.append(r)
        if r.require_sets and rng.random() < 0.5:
            v = resplit(rng, r)
            if v is not None:
                if hasattr(r, "budget"):
                    v.budget = r.budget
                out.append(v)
                if rng.random() < 0.5:
                    out.append(r)
    return out


def each_set_missed_tapes(rng, r):
    """for a recipe with many required sets: one tape per set, whose first candidate hits every set but that one and whose second
    candidate is valid — each set is enforced on its own, the ninth and tenth like the first"""
    out = []
    fams = r.live_families()
    A = r.alphabet()
    for j in range(len(fams)):
        bad = bad_candidate(rng, r, miss=j)
        good = good_candidate(rng, r)
        if bad is None or good is None:
            continue
        words, _ = tape_for(rng, len(A), [bad, good], spread=True)
        out.append((words + [rng.randrange(W) for _ in range(4)], {"kind": "only_set_%d_missed" % j, "candidate_rejections": 1}))
    return out


def run_chargen_family(ctx, nrec, budgets=None, want=3, recipes=None):
    """generate (recipe, budget, tape) cases, run both sides, return [(meta, impl, model)]"""
    rng = ctx.rng
    cases = []
    recs = recipes if recipes is not None else [gen_recipe(rng) for _ in range(nrec)]
    recs = with_resplits(rng, recs)
    for r in recs:
        b = getattr(r, "budget", None) or rng.choice(budgets or BUDGETS)
        tapes = make_tapes(rng, r, b, want=want)
        if len(r.live_families()) >= 9:
            tapes = tapes + each_set_missed_tapes(rng, r)
        for words, feat in tapes:
            meta = {"recipe": r.to_json(), "budget": b, "words": words if len(words) <= 48 else words[:48] + ["..."],
                    "features": feat, "_recipe": r, "_words": words}
            cases.append((chargen_line(r, b, words), meta))
            ctx.count("tape_" + feat["kind"])
            if feat.get("boundary") or feat.get("candidate_rejections") or feat.get("raw_rejections") or feat.get("starved") \
                    or (r.excluded() & r.mentioned()):
                ctx.nontrivial.add(cases[-1][0])
        ctx.count("live_req_sets_%d" % min(len(r.live_families()), 9))
        ctx.count("alphabet_size_%s" % ("0" if not r.allowed() else "pow2" if len(r.allowed()) & (len(r.allowed()) - 1) == 0 else "other"))
    res = compare_passwords(ctx, "chargen", cases)
    for meta, a, b in res[:2]:
        ctx.sample({"recipe": meta["recipe"], "budget": meta["budget"], "tape": meta["features"], "impl": a, "model": b})
    return res


def process_verdict(meta, a):
    """The documented process on a fault-free stream: candidates of Length draws into the sorted alphabet, the first one that
    satisfies the recipe is returned, at most MaxTrials of them.  Given a real result for a recipe the implementation accepted,
    returns None or a description of how the result departs from that process (whose outcomes are the equally likely ones)."""
    d = parse_password(a)
    if not d:
        return None
    r, budget = meta["_recipe"], meta["budget"]
    head = a.split(" stdout=")[0].split(" ")
    if r.length < 1 or not r.alphabet():
        return None
    if d["outcome"] == "err" and "exhausted" not in head[:3]:
        return None          # refused before drawing (length, alphabet, failure rate): other properties
    kind, cand, nbytes = simulate(r, budget, meta["_words"])
    if d["outcome"] == "ok":
        try:
            out = "".join(t[0].decode("utf-8") for t in d.get("tokens", []))
        except UnicodeDecodeError:
            return "the returned password is not text"
        if kind == "exhausted":
            return "a password (%r) was returned on a stream on which all %d permitted attempts miss a requirement" % (out[:40], budget[0])
        if kind == "ok" and out != "".join(cand):
            return "the returned string %r is not the first satisfying candidate of its stream (%r)" % (out[:40], "".join(cand)[:40])
        return None
    if kind == "ok":
        if d["outcome"] == "err":
            return "generation gave up although attempt %d of the %d permitted ones on the stream (%r) satisfies the recipe" % (nbytes // (4 * r.length), budget[0], "".join(cand)[:40])
        if d["outcome"] == "panic" and head[1:2] == ["prng"] and int(d.get("consumed", "0")) > nbytes:
            return "the stream ran dry after %s bytes although the candidate ending at byte %d (%r) satisfies the recipe: a satisfying candidate was passed over" % (d.get("consumed"), nbytes, "".join(cand)[:40])
    return None


def simulate(recipe, budget, words):
    """What the documented behaviour yields on a fault-free tape of raw words, for an accepted recipe:
    ('ok', candidate, bytes) | ('exhausted', None, bytes) | ('prng', None, bytes).  Uses the unbiased
    draw as specified by C01 (reject raw words at or above the largest multiple of a)."""
    A = recipe.alphabet()
    a, L, T = len(A), recipe.length, budget[0]
    pos = 0
    for _ in range(max(T, 0)):
        cand = []
        for _ in range(L):
            while True:
                if pos >= len(words):
                    return ("prng", None, 4 * pos)
                w = words[pos]
                pos += 1
                if a & (a - 1) == 0:
                    i = w & (a - 1)
                    break
                if w < discard(a):
                    i = w % a
                    break
            cand.append(A[i])
        if recipe.satisfies(cand):
            return ("ok", cand, 4 * pos)
    return ("exhausted", None, 4 * pos)


# ---------------------------------------------------------------- deterministic interleavings of two generations

def interleave_cases(ctx, npairs):
    """pairs of character generations (recipe, tape) and every parking point k of the first one: the second generation runs
    to completion inside the first one's k-th read of the random source"""
    rng = ctx.rng
    pool = [Recipe(6, allow=15, exclude=16), Recipe(5, allow=3, require=4), Recipe(3, allow=4), Recipe(4, allow_chars="é€ab", require_sets=["é"]),
            Recipe(8, allow=2, require=12), Recipe(2, allow=8)]
    cases = []
    for _ in range(npairs):
        ra, rb = rng.choice(pool), rng.choice(pool)
        tapes = []
        for r in (ra, rb):
            g = good_candidate(rng, r)
            bad = bad_candidate(rng, r)
            vecs = ([bad] if bad and rng.random() < 0.4 else []) + [g]
            ws, _ = tape_for(rng, len(r.alphabet()), vecs, rejections=0.2)
            tapes.append(ws)
        reads = len(tapes[0])
        ks = sorted(set([1, reads, max(1, reads // 2)] + [rng.randrange(1, reads + 1) for _ in range(3)]))
        for k in ks:
            line = "interleave %s %s %d %d %d %d %s %s" % (ra.tokens(), rb.tokens(), DEFAULT_BUDGET[0], DEFAULT_BUDGET[1], DEFAULT_BUDGET[2], k,
                                                            core.src_tokens(core.flat_tape(tapes[0])), core.src_tokens(core.flat_tape(tapes[1])))
            cases.append((line, {"k": k, "reads": reads, "recipeA": ra.to_json(), "recipeB": rb.to_json()}))
    return cases


def run_interleave(ctx, cases, prop):
    """runs both sides; a generation whose interleaved result differs from its sequential result is a violation of `prop`"""
    res = ctx.compare("interleave", cases)
    for meta, a, b in res:
        if a is None:
            continue
        f = dict(t.split("=", 1) for t in a.split(" ") if "=" in t and not t.startswith(("stdout=", "stderr=")))
        ctx.nontrivial.add(("interleave", str(meta["recipeA"]), str(meta["recipeB"]), meta["k"]))
        if f.get("seqA") != f.get("ilA") or f.get("seqB") != f.get("ilB"):
            ctx.violations.append({"finding_key": prop + "-interleave", "line": [c[0] for c in cases if c[1] is meta][0], "observed": a[:300],
                                   "what": "a generation fed the same source bytes made different choices when another generation ran in between "
                                           "(sequential %s / %s, interleaved %s / %s)" % (f.get("seqA"), f.get("seqB"), f.get("ilA"), f.get("ilB"))})
    return res
