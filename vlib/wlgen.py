"""Case generation for word lists and wordlist recipes; two-phase comparison (the implementation's map
order and strings.Title graph are read from its output and handed to the model as oracles)."""
import math
from . import core, chargen
from .spgref import Recipe, f32_from_bits, ulp32, expected_entropy

W = 1 << 32

BASE = ["alpha", "beta", "gamma", "delta", "epsilon", "zeta", "eta", "theta", "iota", "kappa", "lambda", "mu", "nu", "xi",
        "omicron", "pi", "rho", "sigma", "tau", "upsilon", "phi", "chi", "psi", "omega"]
SPECIAL = ["polish", "Polish", "Alpha", "ALPHA", "正確", "4", "42", "ű", "Ű", "kettő", "Kettő", "három", "foo-bar", "Foo-Bar", "foo_bar",
           "don't", "Don't", "o'neil", "O'neil", "O'Neil", "Jean-luc", "Jean-Luc", "New york", "New York", "éa", "Éa", "ǆ", "ǅ", "ß", "a b", "x", "X", "i", "I", "-", "1a", "1A", "a1b",
           # Unicode corners: title form of another byte length (dotless i, long s), digraphs with a separate title case,
           # combining marks, characters outside the BMP, ligatures, an emoji sequence
           "ıa", "Ia", "ſa", "Sa", "ǆa", "ǅa", "Ǆa", "ǳ", "ǲ", "e\u0301a", "E\u0301a", "\u0301a", "𝓍y", "𝒳y", "ﬁne", "ŉa", "👨\u200d👩\u200d👧x", "ǰ", "ᾳ", "ᾼ",
           # words beyond what the token index can carry (MakeIndices must refuse, Generate must not care)
           "w" * 300, "é" * 256,
           # entries made of blanks only, and a byte-order mark glued to a word (what a carelessly read word file contains)
           " ", "\u00a0", "\t", "\ufeffalpha", "\ufeff"]

LISTS_FIXED = [
    ["one", "two", "three"],
    ["polish", "Polish", "alpha", "beta"],                                   # F2 witness
    ["正確", "Polish", "polish", "one", "two", "three", "4", "five", "one"],   # the list of TestWeirdCapitalizationWL
    ["Polish", "Alpha", "beta"],                                              # pre-capitalised, no twin
    ["egy", "kettő", "három"],
    ["a", "b", "c", "d", "e", "f", "g"],
    ["a"],
    ["ű", "Ű", "x"],
    ["foo-bar", "Foo-Bar", "foo-Bar"],
    ["alpha", "alpha", "alpha"],
    ["O'neil", "O'Neil", "x"],                                               # capitalised word whose title form differs in a later segment
    ["Jean-luc", "Jean-Luc"],
    ["New york", "New York", "new york"],
    ["4", "5", "6", "7", "8"],
    ["\ufeffalpha", "alpha", "beta"],                                         # a BOM glued to the first entry: a word like any other
    [" ", "a", "\u00a0", "b"],                                               # blank-only entries are words too
]


def gen_list(rng):
    if rng.random() < 0.3:
        return list(rng.choice(LISTS_FIXED))
    n = rng.choice([1, 2, 3, 3, 4, 5, 7, 8, 9, 16, 17])
    pool = BASE + SPECIAL if rng.random() < 0.6 else BASE
    l = [rng.choice(pool) for _ in range(n)]
    if rng.random() < 0.4:
        w = rng.choice(l)
        l.append(w.title() if rng.random() < 0.5 else w)
    if rng.random() < 0.3:
        l += l[: rng.randrange(1, len(l) + 1)]
    rng.shuffle(l)
    return l


def synth_list(n):
    """the synthetic list the harness builds for the words argument 'synth <n>': n distinct words w00000, w00001, ..."""
    return ["w%05d" % i for i in range(n)]


def words_tokens(l):
    if l in ("nil", "zero", "agilewords", "agilesyllables"):
        return l
    if isinstance(l, str) and l.startswith("synth "):
        return l
    return "%d%s" % (len(l), "".join(" " + core.hx(w) for w in l))


SEPS = [("char", "-"), ("char", ""), ("char", " "), ("char", "¡"), ("char", " - "), ("const", "_"), ("const", ""), ("preset", "SFNone"),
        ("preset", "SFDigits1"), ("preset", "SFDigits2"), ("preset", "SFDigitsNoAmbiguous1"), ("preset", "SFDigitsNoAmbiguous2"),
        ("preset", "SFSymbols"), ("preset", "SFDigitsSymbols"),
        ("recipe", Recipe(1, allow_chars="ab")), ("recipe", Recipe(2, allow_chars="é€x")), ("recipe", Recipe(2, allow=4, require_sets=["357"])),
        ("recipe", Recipe(3, allow=2, require=4)), ("recipe", Recipe(1, allow_chars="abc", exclude_chars="abc")), ("recipe", Recipe(0, allow=4)),
        ("recipe", Recipe(300, allow=4))]
CAPS = ["none", "first", "all", "random", "one", "weird", "", "All", "One", "RANDOM", "First"]   # scheme strings are case-sensitive: the last four are unknown

PRESET_RECIPES = {
    "SFNone": None, "SFDigits1": Recipe(1, allow=4), "SFDigits2": Recipe(2, allow=4), "SFDigitsNoAmbiguous1": Recipe(1, allow=4, exclude=16),
    "SFDigitsNoAmbiguous2": Recipe(2, allow=4, exclude=16), "SFSymbols": Recipe(1, allow=8), "SFDigitsSymbols": Recipe(1, allow=8 | 4),
}


def sep_tokens(sep):
    k, v = sep
    if k in ("char", "const"):
        return "%s %s" % (k, core.hx(v))
    if k == "preset":
        return "preset " + v
    return "recipe " + v.tokens()


def sep_recipe(sep):
    k, v = sep
    if k == "preset":
        return PRESET_RECIPES[v]
    if k == "recipe":
        return v
    return None


def sep_json(sep):
    k, v = sep
    return [k, v.to_json() if isinstance(v, Recipe) else v]


def wlgen_line(l, length, sep, cap, budget, words=None, chunks=None, emit=None, titles=None, shadow=None):
    """shadow: a SeparatorChar set *in addition to* a separator function (the documented rule: the function wins)"""
    src = chunks if chunks is not None else core.flat_tape(words)
    pre = "" if emit is None else "%s %s " % (emit, titles)
    st = sep_tokens(sep)
    if shadow is not None and sep[0] != "char":
        st = "both %s %s" % (core.hx(shadow), st)
    return "wlgen %s%s %d %s %s %d %d %d %s" % (pre, words_tokens(l), length, st, core.hx(cap), budget[0], budget[1], budget[2],
                                               core.src_tokens(src))


def case_line(c):
    """the harness line of a generated case, with its chunking and second separator field if it has them"""
    return wlgen_line(c["list"], c["length"], c["sep"], c["cap"], c["budget"], c.get("words"), chunks=c.get("chunks"), shadow=c.get("shadow"))


def draws_for_sep(rng, sep, boundary=None, fail_attempts=0):
    """raw words for one separator call (a valid candidate at the first attempt when possible; with fail_attempts = T,
    T candidates that miss a requirement, i.e. a call that exhausts its attempts and yields the empty separator)"""
    r = sep_recipe(sep)
    if r is None:
        return []
    A = r.alphabet()
    if r.length < 1 or not A:
        return []
    if fail_attempts:
        bads = [chargen.bad_candidate(rng, r) for _ in range(fail_attempts)]
        if all(b is not None for b in bads):
            ws, _ = chargen.tape_for(rng, len(A), bads, spread=True)
            return ws
    g = chargen.good_candidate(rng, r)
    if g is None:
        return [rng.randrange(W) for _ in range(r.length)]
    if boundary == "last" and not r.live_families():
        g = [len(A) - 1] * r.length
    ws, _ = chargen.tape_for(rng, len(A), [g], rejections=(0.5 if boundary == "reject" else 0.0), spread=(boundary is None))
    return ws


def make_tape(rng, size, length, sep, cap, kind, budget=None):
    """a raw-word tape for one generation; kind in random/first/last/exact/boundary/sepfail"""
    if size == 0 or length < 1:
        return [rng.randrange(W) for _ in range(4)]
    words = []
    L = length

    def idx_word(n, i):
        return chargen.word_for_index(rng, n, i, spread=(kind in ("exact", "boundary")))
    if kind == "random":
        return [rng.randrange(W) for _ in range(6 * L + 12)]
    pick = (lambda n: 0) if kind == "first" else (lambda n: n - 1) if kind == "last" else (lambda n: rng.randrange(n))

    def rej(n):
        # boundary tapes: a raw word the draw over n must reject (the exact threshold most of the time) before the deciding one
        if kind == "boundary" and rng.random() < 0.6:
            w = chargen.rejected_word(rng, n)
            if w is not None:
                words.append(w)
    if cap == "one":
        rej(L)
        words.append(idx_word(L, pick(L)))
    elif cap == "random":
        for _ in range(L):
            words.append(idx_word(2, pick(2)))
    for i in range(L):
        rej(size)
        words.append(idx_word(size, pick(size)))
        if i < L - 1:
            if kind == "sepfail" and i == 0 and budget is not None:
                words += draws_for_sep(rng, sep, fail_attempts=budget[0])     # the first gap's call exhausts its attempts
            else:
                words += draws_for_sep(rng, sep, boundary=("last" if kind == "last" else "reject" if kind == "boundary" else None))
    if sep[0] != "char":
        words += draws_for_sep(rng, sep)      # the Entropy() call
    if kind == "exact":
        return words
    return words + [rng.randrange(W) for _ in range(8)]


def expected_wl_entropy(desc):
    """'W:<L>:<size>:<n|r|o>:<sep desc or ->' -> float"""
    parts = desc.split(":", 4)
    L, size, bonus, sep = int(parts[1]), int(parts[2]), parts[3], parts[4]
    if size == 0:
        return None
    e = L * math.log2(size)
    if bonus == "r":
        e += L
    elif bonus == "o":
        e += math.log2(L) if L > 0 else float("-inf")
    if sep != "-":
        se = expected_entropy(sep)
        e += (L - 1) * se
    return e


def wl_entropy_close(bits_hex, desc):
    exp = expected_wl_entropy(desc)
    got = f32_from_bits(bits_hex)
    if exp is None:
        return True
    if math.isnan(exp):
        return math.isnan(got)
    if math.isinf(exp):
        return got == exp
    return abs(got - exp) <= 8 * ulp32(max(abs(exp), 1.0))


def parse_pre(res):
    """'order=.. titles=.. ok ...' -> (order, titles, rest)"""
    order = titles = None
    toks = res.split(" ")
    while toks and (toks[0].startswith("order=") or toks[0].startswith("titles=")):
        if toks[0].startswith("order="):
            order = toks[0][6:]
        else:
            titles = toks[0][7:]
        toks = toks[1:]
    return order, titles, " ".join(toks)


def panic_prefix_ok(ra, rb):
    """A generation that dies of a source failure part-way has printed the notices of the separator calls made so far: the
    model renders the notices of a complete generation (Diag.v is a function of the recipe, not of the tape), so on a panic
    outcome the implementation's stdout must be a PREFIX of the model's, everything else equal."""
    if " panic prng " not in " " + ra + " " or " stdout=" not in ra or " stdout=" not in rb:
        return False
    ha, ta = ra.rsplit(" stdout=", 1)
    hb, tb = rb.rsplit(" stdout=", 1)
    if ha != hb:
        return False
    oa, ea = ta.split(" stderr=")
    ob, eb = tb.split(" stderr=")
    return ea == eb and core.unhx(ob).startswith(core.unhx(oa))


def run_wlgen_family(ctx, cases, family="wlgen"):
    """cases: list of dict(list, length, sep, cap, budget, words, meta). Two-phase run; returns [(case, impl, model)]."""
    lines = []
    # every other case uses its list for other recipes first ('+' label, see harness warmList): a shared *WordList
    ids = ["w%d%s" % (i, "+" if i % 2 else "") for i in range(len(cases))]
    for i, c in enumerate(cases):
        lines.append("%s %s" % (ids[i], wlgen_line(c["list"], c["length"], c["sep"], c["cap"], c["budget"], c.get("words"), chunks=c.get("chunks"), shadow=c.get("shadow"))))
    impl, n1 = core.run_impl(lines)
    mlines = []
    for i, c in enumerate(cases):
        a = impl.get(ids[i])
        order, titles, rest = parse_pre(a) if a else (None, None, None)
        emit = order if order is not None else "none"
        tl = titles if titles is not None else "0"
        mlines.append("%s %s" % (ids[i], wlgen_line(c["list"], c["length"], c["sep"], c["cap"], c["budget"], c.get("words"), chunks=c.get("chunks"), emit=emit, titles=tl, shadow=c.get("shadow"))))
    model, n2 = core.run_model(mlines)
    for n in (n1, n2):
        if n:
            ctx.notes.append("%s runner: %s" % (family, n))
    fam = ctx.families.setdefault(family, {"cases": 0, "mismatches": 0})
    out = []
    for i, c in enumerate(cases):
        a, b = impl.get(ids[i]), model.get(ids[i])
        c.setdefault("meta", {})["shared_list_used_before"] = ids[i].endswith("+")
        ctx.evaluations += 1
        fam["cases"] += 1
        ok = a is not None and b is not None
        if ok:
            ra, ea = chargen.split_ent(a)
            rb, eb = chargen.split_ent(b)
            ok = (ra == rb) or panic_prefix_ok(ra, rb)
            if ok and (ea is not None or eb is not None):
                ok = ea is not None and eb is not None and ea.startswith("F:") and wl_entropy_close(ea[2:], eb)
        if not ok:
            fam["mismatches"] += 1
            ctx.mismatches.append({"family": family, "case": mlines[i], "impl": a, "model": b, "meta": c.get("meta", {})})
        else:
            ctx.traces_validated += 1
        out.append((c, a, b))
    return out


def gen_cases(ctx, n, with_empty_word=False):
    rng = ctx.rng
    cases = []
    for _ in range(n):
        l = gen_list(rng)
        r = rng.random()
        if r < 0.03:
            l = "nil"
        elif r < 0.05:
            l = "zero"
        length = rng.choice([1, 1, 2, 2, 3, 3, 4, 5, 6]) if rng.random() < 0.93 else rng.choice([0, -2])
        sep = rng.choice(SEPS)
        cap = rng.choice(CAPS)
        if rng.random() < 0.06:
            # long passwords: positions beyond any machine-word bitmap (64, 65, ...) must be capitalisable too
            length = rng.choice([64, 65, 66, 70, 97, 130])
            sep = rng.choice(SEPS[:8])
            cap = rng.choice(["all", "one", "random", "first"])
        budget = chargen.DEFAULT_BUDGET if rng.random() < 0.8 else rng.choice([(5, 1, 1000000000), (2, 1, 2), (12, 1, 2)])
        srq = sep_recipe(sep)
        if srq is not None and srq.live_families() and rng.random() < 0.5:
            budget = rng.choice([(2, 1, 2), (3, 1, 1), (1, 1, 1)])     # separator calls that can exhaust their attempts
            if length in (1, 2):
                length = rng.choice([3, 4, 5])
        size = 0 if l in ("nil", "zero") else py_size(l)
        kinds = ["last", "exact"] if length >= 64 else rng.sample(["random", "first", "last", "exact", "boundary", "starve"], 2)
        sr = sep_recipe(sep)
        if sr is not None and sr.live_families() and budget[0] <= 12 and length >= 3:
            kinds = ["sepfail"] + kinds[:1]
        # both separator fields set: SeparatorFunc, when non-nil, is the one used ("If nil just use SeperatorChar")
        shadow = rng.choice(["+", "-", "é", " "]) if sep[0] != "char" and rng.random() < 0.15 else None
        if rng.random() < 0.12:
            kinds = kinds + ["chunked"]
        for kind in kinds:
            chunks = None
            if kind == "chunked":
                # the same bytes delivered 1-3 per read (a legal io.Reader): every draw still uses whole 32-bit words
                words = make_tape(rng, size, length, sep, cap, "exact", budget) + [rng.randrange(W) for _ in range(4)]
                data = b"".join(int(w).to_bytes(4, "big") for w in words)
                pat = rng.choice([(1,), (3, 1), (2,), (1, 2, 1), (3,)])
                chunks, i, k = [], 0, 0
                while i < len(data):
                    m = pat[k % len(pat)]
                    chunks.append((data[i:i + m], False))
                    i += m
                    k += 1
            elif kind == "starve":
                # the source dries up part-way through the generation (after at least one draw): a panic, and nothing else
                full = make_tape(rng, size, length, sep, cap, "exact", budget)
                words = full[:rng.randrange(1, max(2, len(full)))]
            else:
                words = make_tape(rng, size, length, sep, cap, kind, budget)
            cases.append({"list": l, "length": length, "sep": sep, "cap": cap, "budget": budget, "words": words,
                          "meta": {"list": l if isinstance(l, str) else l[:12], "length": length, "sep": sep_json(sep), "cap": cap, "budget": budget,
                                   "tape_kind": kind}})
            if chunks is not None:
                cases[-1]["chunks"] = chunks
            if shadow is not None:
                cases[-1]["shadow"] = shadow
                cases[-1]["meta"]["separator_char_also_set"] = shadow
                ctx.count("both_separator_fields")
            ctx.count("tape_" + kind)
        ctx.count("cap_" + (cap or "empty"))
        ctx.count("sep_" + sep[0])
    return cases


BIG_SIZES = [65535, 65536, 65537, 70001, 131073]


def run_big_lists(ctx):
    """lists with 2^16 and more words (sizes around every 16-bit boundary), judged by the oracles only: the model's
    normalisation is quadratic.  Tapes select the last word, the words just below and above index 65536, and random ones."""
    rng = ctx.rng
    cases, lines = [], []
    sizes = BIG_SIZES if ctx.tier == "thorough" else [BIG_SIZES[ctx.seed % 2 + 1], BIG_SIZES[3]]
    for n in sizes:
        for cap, sep, L in (("none", ("char", "-"), 3), ("one", ("preset", "SFDigits1"), 2), ("all", ("char", ""), 2)):
            targets = [n - 1, min(65536, n - 1), min(65535, n - 1), rng.randrange(n), 0, 65536 + 255 if n > 65536 + 255 else n - 2]
            words = []
            if cap == "one":
                words.append(chargen.word_for_index(rng, L, rng.randrange(L)))
            for i in range(L):
                words.append(chargen.word_for_index(rng, n, targets[(i + len(cases)) % len(targets)], spread=True))
                if i < L - 1:
                    words += draws_for_sep(rng, sep)
            words += draws_for_sep(rng, sep) + [rng.randrange(W) for _ in range(4)]
            c = {"list": "synth %d" % n, "length": L, "sep": sep, "cap": cap, "budget": chargen.DEFAULT_BUDGET, "words": words,
                 "meta": {"list": "synth %d (w00000 .. w%05d)" % (n, n - 1), "length": L, "sep": sep_json(sep), "cap": cap, "tape_kind": "big-list"}}
            cases.append(c)
            lines.append("g%d %s" % (len(cases) - 1, wlgen_line(c["list"], L, sep, cap, c["budget"], words)))
    impl, note = core.run_impl(lines)
    if note:
        ctx.notes.append("big-list runner: " + note)
    out = []
    for i, c in enumerate(cases):
        ctx.evaluations += 1
        ctx.count("big_list_cases")
        out.append((c, impl.get("g%d" % i), None))
    return out


def py_size(l):
    """size of the normalised list; Python's str.title differs from Go's strings.Title on a few inputs (apostrophes),
    so this is only used to aim tapes, never to judge."""
    s = set(l)
    for w in list(s):
        t = go_title_guess(w)
        if t != w and t in s and w in s:
            s.discard(t)
    return len(s)


def go_title_guess(w):
    out = []
    prev_letter = False
    for ch in w:
        is_l = ch.isalpha() or ch.isdigit() or ch == "_" or ch == "'"
        if not prev_letter and ch.isalpha():
            out.append(ch.title() if len(ch.title()) == 1 else ch.upper())
        else:
            out.append(ch)
        prev_letter = ch.isalpha() or ch.isdigit() or ch == "_"
    return "".join(out)


# ---------------------------------------------------------------- complete cells on the real code

def sep_alphabet(sep):
    r = sep_recipe(sep)
    if r is None or r.length < 1:
        return None, 0
    return r.alphabet(), r.length


def cell_tuples(size, L, sep, cap):
    """all choice tuples: (cap choice, word indices, separator index vectors, entropy-call vector)"""
    import itertools
    A, sl = sep_alphabet(sep)
    if cap == "one":
        capc = [(i,) for i in range(L)]
    elif cap == "random":
        capc = list(itertools.product(range(2), repeat=L))
    else:
        capc = [()]
    words = list(itertools.product(range(size), repeat=L))
    if A:
        one_sep = list(itertools.product(range(len(A)), repeat=sl))
        seps = list(itertools.product(one_sep, repeat=L - 1))
    else:
        seps = [()]
    for c in capc:
        for w in words:
            for s in seps:
                yield c, w, s


def run_wl_cell(ctx, l, L, sep, cap, limit=6000, shadow=None):
    """runs every choice tuple of the cell on the real code; returns list of (tuple, parsed result, order, titles)"""
    rng = ctx.rng
    size = py_size(l)
    A, sl = sep_alphabet(sep)
    tuples = list(cell_tuples(size, L, sep, cap))
    if len(tuples) > limit:
        return None
    lines = []
    for k, (c, w, s) in enumerate(tuples):
        words = []
        if cap == "one":
            words.append(chargen.word_for_index(rng, L, c[0]))
        elif cap == "random":
            words += [chargen.word_for_index(rng, 2, x) for x in c]
        for i in range(L):
            words.append(chargen.word_for_index(rng, size, w[i]))
            if i < L - 1 and A:
                words += [chargen.word_for_index(rng, len(A), x) for x in s[i]]
        if A and sep[0] != "char":
            words += [0] * sl          # the Entropy() call
        lines.append("t%d %s" % (k, wlgen_line(l, L, sep, cap, chargen.DEFAULT_BUDGET, words, shadow=shadow)))
    impl, note = core.run_impl(lines)
    ctx.evaluations += len(lines)
    ctx.count("cell_tuples", len(lines))
    out = []
    for k, tp in enumerate(tuples):
        a = impl.get("t%d" % k)
        order, titles, rest = parse_pre(a) if a else (None, None, None)
        out.append((tp, chargen.parse_password(rest) if rest else None, order, titles, lines[k].split(" ", 1)[1], a))
    return out


# ---------------------------------------------------------------- an independent restatement of WLRecipe.Generate

def py_draw(n, words, pos):
    """the unbiased bounded draw (C01) on a tape of raw words: (index or None when the tape is exhausted, next position)"""
    while pos < len(words):
        w = words[pos]
        pos += 1
        if n & (n - 1) == 0:
            return w & (n - 1), pos
        if w < chargen.discard(n):
            return w % n, pos
    return None, pos


def py_accept(r, budget):
    """the pre-flight decision of a character recipe as documented (exact arithmetic); None when float-borderline"""
    T, fn, fd = budget
    p = r.success_probability()
    if p is None or p <= 0 or T < 1:
        return False
    if chargen.float_decision_band(r, budget):
        return None
    from fractions import Fraction
    q = 1 - p
    if q == 0:
        return True
    import math
    return T * math.log(float(q)) <= math.log(fn / fd)


def py_sep_call(sep, budget, words, pos):
    """one call of the separator function as documented: (value bytes, next position) | (None, pos) when undecidable here"""
    k, v = sep
    if k in ("char", "const"):
        return v.encode(), pos
    r = sep_recipe(sep)
    if r is None:
        return b"", pos
    if r.length < 1 or not r.alphabet():
        return b"", pos
    acc = py_accept(r, budget)
    if acc is None:
        return None, pos
    if not acc:
        return b"", pos
    kind, cand, nbytes = chargen.simulate(r, budget, words[pos:])
    if kind == "ok":
        return "".join(cand).encode(), pos + nbytes // 4
    if kind == "exhausted":
        return b"", pos + nbytes // 4
    return None, pos


def py_wl_generate(order, tmap, L, sep, cap, budget, words):
    """the token sequence the documentation prescribes for this tape (list of (value, type)), or None when the reference does
    not decide the case (tape exhausted, float-borderline separator recipe).  order: the list's words in slice order;
    tmap: strings.Title on them."""
    n = len(order)
    if n == 0 or L < 1:
        return None
    pos = 0
    capped = set()
    if cap == "first":
        capped = {0}
    elif cap == "all":
        capped = set(range(L))
    elif cap == "one":
        w, pos = py_draw(L, words, pos)
        if w is None:
            return None
        capped = {w}
    elif cap == "random":
        for i in range(L):
            b, pos = py_draw(2, words, pos)
            if b is None:
                return None
            if b == 1:
                capped.add(i)
    toks = []
    for i in range(L):
        wi, pos = py_draw(n, words, pos)
        if wi is None:
            return None
        w = order[wi]
        if i in capped:
            w = tmap.get(w, w)
        if w:
            toks.append((w, 1))
        if i < L - 1:
            sv, pos = py_sep_call(sep, budget, words, pos)
            if sv is None:
                return None
            if sv:
                toks.append((sv, 0))
    return toks
