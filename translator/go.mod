module spg2coq

go 1.21
