package main

import (
	"go/ast"
	"go/constant"
	"go/token"
	"go/types"
	"sort"
	"strings"
)

// mapLit returns the key/value expressions of the map literal initialising a
// package-level variable, keyed by constant string; ok=false if not of that form.
func (p *Pkg) mapLit(name string) (keys []string, vals []ast.Expr, ok bool) {
	cl, isCl := unparenOrNil(p.varInit(name)).(*ast.CompositeLit)
	if !isCl {
		return nil, nil, false
	}
	type kv struct {
		k string
		v ast.Expr
	}
	var kvs []kv
	for _, e := range cl.Elts {
		x, isKV := e.(*ast.KeyValueExpr)
		if !isKV {
			return nil, nil, false
		}
		k, isStr := p.constString(x.Key)
		if !isStr {
			return nil, nil, false
		}
		kvs = append(kvs, kv{k, x.Value})
	}
	sort.SliceStable(kvs, func(i, j int) bool { return kvs[i].k < kvs[j].k })
	for _, x := range kvs {
		keys = append(keys, x.k)
		vals = append(vals, x.v)
	}
	return keys, vals, true
}

func (p *Pkg) flagSetName(e ast.Expr) string {
	id, ok := unparen(e).(*ast.Ident)
	if !ok {
		return "other:" + p.text(e)
	}
	obj := p.info.Uses[id]
	if obj == nil {
		return "other:" + id.Name
	}
	// find the initialiser of that variable (package level or local definition)
	var init ast.Expr
	for _, f := range p.files {
		ast.Inspect(f, func(n ast.Node) bool {
			switch s := n.(type) {
			case *ast.ValueSpec:
				for i, nm := range s.Names {
					if p.info.Defs[nm] == obj && len(s.Values) == len(s.Names) {
						init = s.Values[i]
					}
				}
			case *ast.AssignStmt:
				if s.Tok == token.DEFINE && len(s.Lhs) == len(s.Rhs) {
					for i, l := range s.Lhs {
						if lid, ok := l.(*ast.Ident); ok && p.info.Defs[lid] == obj {
							init = s.Rhs[i]
						}
					}
				}
			}
			return true
		})
	}
	if call, ok := unparenOrNil(init).(*ast.CallExpr); ok && len(call.Args) >= 1 {
		if fn, ok := p.callee(call).(*types.Func); ok && fn.Pkg() != nil && fn.Pkg().Path() == "flag" && fn.Name() == "NewFlagSet" {
			if s, ok := p.constString(call.Args[0]); ok {
				return s
			}
		}
	}
	return "other:" + id.Name
}

func genCli(p *Pkg) string {
	var sb strings.Builder
	sb.WriteString(header)
	sb.WriteString("\n")
	if p == nil {
		p = &Pkg{info: &types.Info{}}
	}

	// ccMap
	var el []string
	if keys, vals, ok := p.mapLit("ccMap"); ok {
		good := true
		var tmp []string
		for i, k := range keys {
			v := bigOf(p.constOf(vals[i]))
			if v == nil || v.Sign() < 0 {
				good = false
				break
			}
			tmp = append(tmp, ctuple(cstr(k), cN(v)))
		}
		if good {
			el = tmp
		}
	}
	sb.WriteString(def("cli_cc_map", "list (string * N)", clist(el)))

	// separatorMap
	el = nil
	if keys, vals, ok := p.mapLit("separatorMap"); ok {
		for i, k := range keys {
			kind, val := "other", p.text(vals[i])
			switch x := unparen(vals[i]).(type) {
			case *ast.CallExpr:
				if fn, ok := p.callee(x).(*types.Func); ok && fn.Pkg() == p.pkg && fn.Name() == "createSeparatorFunc" && len(x.Args) == 1 {
					if s, ok := p.constString(x.Args[0]); ok {
						kind, val = "const", s
					}
				}
			case *ast.SelectorExpr:
				if id, ok := x.X.(*ast.Ident); ok {
					if pn, ok := p.info.Uses[id].(*types.PkgName); ok && strings.HasSuffix(pn.Imported().Path(), "/spg") {
						if _, isVar := p.info.Uses[x.Sel].(*types.Var); isVar {
							kind, val = "preset", x.Sel.Name
						}
					}
				}
			}
			el = append(el, ctuple(cstr(k), cstr(kind), cstr(val)))
		}
	}
	sb.WriteString(def("cli_separator_map", "list (string * string * string)", clist(el)))

	// createSeparatorFunc
	csf := "missing"
	if fd := p.funcDecl("createSeparatorFunc"); fd != nil && fd.Body != nil {
		csf = "other:" + strings.Join(p.stmtTexts(fd), " ")
		var param types.Object
		pname := ""
		if fd.Type.Params != nil && len(fd.Type.Params.List) == 1 && len(fd.Type.Params.List[0].Names) == 1 {
			param = p.info.Defs[fd.Type.Params.List[0].Names[0]]
			pname = fd.Type.Params.List[0].Names[0].Name
		}
		if len(fd.Body.List) == 1 && param != nil {
			if rs, ok := fd.Body.List[0].(*ast.ReturnStmt); ok && len(rs.Results) == 1 {
				if fl, ok := unparen(rs.Results[0]).(*ast.FuncLit); ok && len(fl.Body.List) == 1 &&
					(fl.Type.Params == nil || len(fl.Type.Params.List) == 0) {
					if irs, ok := fl.Body.List[0].(*ast.ReturnStmt); ok && len(irs.Results) == 2 {
						id, isId := unparen(irs.Results[0]).(*ast.Ident)
						v := p.constOf(irs.Results[1])
						if isId && p.info.Uses[id] == param && v != nil &&
							(v.Kind() == constant.Int || v.Kind() == constant.Float) && constant.Sign(v) == 0 {
							csf = "returns:(" + pname + ", 0)"
						}
					}
				}
			}
		}
	}
	sb.WriteString(def("cli_create_separator_func", "string", cstr(csf)))

	// capitalizeMap
	el = nil
	if keys, vals, ok := p.mapLit("capitalizeMap"); ok {
		good := true
		var tmp []string
		for i, k := range keys {
			s, isStr := p.constString(vals[i])
			if !isStr {
				good = false
				break
			}
			tmp = append(tmp, ctuple(cstr(k), cstr(s)))
		}
		if good {
			el = tmp
		}
	}
	sb.WriteString(def("cli_capitalize_map", "list (string * string)", clist(el)))

	// flags
	el = nil
	type posEl struct {
		pos token.Pos
		s   string
	}
	var flags []posEl
	var exits, outs []posEl
	p.eachBody(func(encl string, _ *ast.FuncDecl, root ast.Node) {
		ast.Inspect(root, func(n ast.Node) bool {
			call, ok := n.(*ast.CallExpr)
			if !ok {
				return true
			}
			fn, _ := p.callee(call).(*types.Func)
			if fn == nil || fn.Pkg() == nil {
				return true
			}
			path, name := fn.Pkg().Path(), fn.Name()
			rpkg, rtype, _ := recvNamed(fn)
			isMethod := fn.Type().(*types.Signature).Recv() != nil
			// flag definitions: (name string, value T, usage string) T
			if path == "flag" && len(call.Args) == 3 && (!isMethod || (rpkg == "flag" && rtype == "FlagSet")) {
				sig := fn.Type().(*types.Signature)
				if sig.Params().Len() == 3 && sig.Results().Len() == 1 {
					if fname, ok := p.constString(call.Args[0]); ok {
						set := "<commandline>"
						if isMethod {
							if sel, ok := unparen(call.Fun).(*ast.SelectorExpr); ok {
								set = p.flagSetName(sel.X)
							}
						}
						dflt := "other:" + p.text(call.Args[1])
						if v := p.constOf(call.Args[1]); v != nil {
							dflt = "const:" + constDesc(v)
						} else if _, ok := unparen(call.Args[1]).(*ast.SelectorExpr); ok {
							dflt = "field:" + p.text(call.Args[1])
						}
						flags = append(flags, posEl{call.Pos(), ctuple(cstr(set), cstr(fname), cstr(strings.ToLower(name)), cstr(dflt))})
					}
				}
			}
			// exits
			if path == "os" && name == "Exit" && !isMethod {
				arg := "other:"
				if len(call.Args) == 1 {
					arg = "other:" + p.text(call.Args[0])
					if v := p.constOf(call.Args[0]); v != nil {
						arg = "const:" + constDesc(v)
					}
				}
				exits = append(exits, posEl{call.Pos(), ctuple(cstr(encl), cnat(p.line(call.Pos())), cstr("os.Exit"), cstr(arg))})
			}
			if path == "log" && strings.HasPrefix(name, "Fatal") {
				cn := "log." + name
				if isMethod {
					cn = "(*log.Logger)." + name
				}
				exits = append(exits, posEl{call.Pos(), ctuple(cstr(encl), cnat(p.line(call.Pos())), cstr(cn), cstr(""))})
			}
			// stdout
			if s, ok := p.outputSite(call); ok && strings.HasPrefix(s.callee, "fmt.") && s.stream != "stderr" {
				cn := s.callee
				if s.stream != "stdout" {
					cn += ":" + s.stream
				}
				f := ""
				if len(s.args) > 0 {
					if v, ok := p.constString(s.args[0]); ok {
						if s.style == "f" {
							f = v
						} else {
							f = "<const>"
						}
					}
				}
				outs = append(outs, posEl{call.Pos(), ctuple(cstr(encl), cnat(p.line(call.Pos())), cstr(cn), cstr(f))})
			}
			return true
		})
	})
	emit := func(xs []posEl) string {
		sort.SliceStable(xs, func(i, j int) bool { return xs[i].pos < xs[j].pos })
		var e []string
		for _, x := range xs {
			e = append(e, x.s)
		}
		return clist(e)
	}
	sb.WriteString(def("cli_flags", "list (string * string * string * string)", emit(flags)))

	// defaultCharRecipe
	el = nil
	if cl, ok := unparenOrNil(p.varInit("defaultCharRecipe")).(*ast.CompositeLit); ok {
		for _, kv := range p.compositeFields(cl, nil) {
			el = append(el, ctuple(cstr(kv[0]), cstr(kv[1])))
		}
		// re-render []string literals of constants as list:a,b
		el = nil
		var st *types.Struct
		if tv, ok := p.info.Types[cl]; ok && tv.Type != nil {
			st, _ = tv.Type.Underlying().(*types.Struct)
		}
		for i, e := range cl.Elts {
			key, val := "", e
			if kv, ok := e.(*ast.KeyValueExpr); ok {
				key, val = p.text(kv.Key), kv.Value
			} else if st != nil && i < st.NumFields() {
				key = st.Field(i).Name()
			}
			d := p.describe(val, nil)
			if inner, ok := unparen(val).(*ast.CompositeLit); ok {
				var items []string
				good := true
				for _, ie := range inner.Elts {
					s, ok := p.constString(ie)
					if !ok {
						good = false
						break
					}
					items = append(items, s)
				}
				if good {
					d = "list:" + strings.Join(items, ",")
				}
			}
			el = append(el, ctuple(cstr(key), cstr(d)))
		}
	}
	sb.WriteString(def("cli_default_char_recipe", "list (string * string)", cinline(el)))

	// exit constants
	el = nil
	if p.pkg != nil {
		p.eachSpec(token.CONST, func(id *ast.Ident, _ *ast.ValueSpec, _ int) {
			c, _ := p.info.Defs[id].(*types.Const)
			if c == nil || !strings.HasPrefix(id.Name, "Exit") {
				return
			}
			if v := bigOf(c.Val()); v != nil && v.Sign() >= 0 && c.Val().Kind() == constant.Int {
				el = append(el, ctuple(cstr(id.Name), cN(v)))
			}
		})
	}
	sb.WriteString(def("cli_exit_consts", "list (string * N)", cinline(el)))
	sb.WriteString(def("cli_exit_sites", "list (string * nat * string * string)", emit(exits)))
	sb.WriteString(def("cli_stdout_sites", "list (string * nat * string * string)", emit(outs)))

	sb.WriteString(def("cli_parse_character_classes", "list string", clist(cstrs(p.stmtTexts(p.funcDecl("parseCharacterClasses"))))))

	// parseWordList
	el = nil
	if fd := p.funcDecl("parseWordList"); fd != nil && fd.Body != nil {
		ast.Inspect(fd.Body, func(n ast.Node) bool {
			cc, ok := n.(*ast.CaseClause)
			if !ok || len(cc.Body) != 1 {
				return true
			}
			as, ok := cc.Body[0].(*ast.AssignStmt)
			if !ok || len(as.Lhs) != 1 || len(as.Rhs) != 1 {
				return true
			}
			sel, ok := unparen(as.Rhs[0]).(*ast.SelectorExpr)
			if !ok {
				return true
			}
			id, ok := sel.X.(*ast.Ident)
			if !ok {
				return true
			}
			if pn, ok := p.info.Uses[id].(*types.PkgName); !ok || !strings.HasSuffix(pn.Imported().Path(), "/spg") {
				return true
			}
			for _, c := range cc.List {
				if s, ok := p.constString(c); ok {
					el = append(el, ctuple(cstr(s), cstr(sel.Sel.Name)))
				}
			}
			return true
		})
	}
	sb.WriteString(def("cli_word_lists", "list (string * string)", cinline(el)))

	el = nil
	for _, name := range []string{"charGenerator", "wlGenerator"} {
		el = append(el, ctuple(cstr(name), clist(cstrs(p.stmtTexts(p.funcDecl(name))))))
	}
	sb.WriteString(def("cli_generators", "list (string * list string)", clist(el)))
	return sb.String()
}
