package main

import (
	"go/ast"
	"os"
	"path/filepath"
	"strings"
)

// stringElems returns the constant string elements of the composite literal
// initialising package-level variable name (nil if missing or not of that form).
func (p *Pkg) stringElems(name string) []string {
	cl, ok := unparenOrNil(p.varInit(name)).(*ast.CompositeLit)
	if !ok {
		return nil
	}
	var out []string
	for _, e := range cl.Elts {
		if kv, ok := e.(*ast.KeyValueExpr); ok {
			e = kv.Value
		}
		s, ok := p.constString(e)
		if !ok {
			return nil
		}
		out = append(out, s)
	}
	return out
}

func fileLines(path string) []string {
	data, err := os.ReadFile(path)
	if err != nil || len(data) == 0 {
		return nil
	}
	lines := strings.Split(string(data), "\n")
	if lines[len(lines)-1] == "" {
		lines = lines[:len(lines)-1]
	}
	return lines
}

func genLists(p *Pkg, repo string) string {
	var sb strings.Builder
	sb.WriteString(header)
	sb.WriteString("\n")
	sb.WriteString(def("src_agile_words", "list string", clist(cstrs(p.stringElems("AgileWords")))))
	sb.WriteString(def("src_agile_syllables", "list string", clist(cstrs(p.stringElems("AgileSyllables")))))
	sb.WriteString(def("data_agwordlist", "list string", clist(cstrs(fileLines(filepath.Join(repo, "testdata", "agwordlist.txt"))))))
	sb.WriteString(def("data_agsyllables", "list string", clist(cstrs(fileLines(filepath.Join(repo, "testdata", "agsyllables.txt"))))))
	return sb.String()
}
