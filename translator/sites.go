package main

import (
	"go/ast"
	"go/constant"
	"go/token"
	"go/types"
	"sort"
	"strings"
)

// eachBody calls fn for every function body and every package-level variable
// initialiser, with the name of the enclosing function ("Type.Method", "func",
// or "var:<name>" for an initialiser).
func (p *Pkg) eachBody(fn func(encl string, fd *ast.FuncDecl, root ast.Node)) {
	for _, f := range p.files {
		for _, d := range f.Decls {
			switch x := d.(type) {
			case *ast.FuncDecl:
				if x.Body != nil {
					fn(funcName(x), x, x.Body)
				}
			case *ast.GenDecl:
				if x.Tok != token.VAR {
					continue
				}
				for _, s := range x.Specs {
					vs := s.(*ast.ValueSpec)
					for i, v := range vs.Values {
						name := "_"
						if i < len(vs.Names) {
							name = vs.Names[i].Name
						} else if len(vs.Names) > 0 {
							name = vs.Names[0].Name
						}
						fn("var:"+name, nil, v)
					}
				}
			}
		}
	}
}

// callee resolves the called function object (nil for calls of function values,
// conversions, ...).
func (p *Pkg) callee(call *ast.CallExpr) types.Object {
	switch f := unparen(call.Fun).(type) {
	case *ast.Ident:
		return p.info.Uses[f]
	case *ast.SelectorExpr:
		return p.info.Uses[f.Sel]
	}
	return nil
}

// osStream reports "stdout"/"stderr" if e denotes os.Stdout / os.Stderr.
func (p *Pkg) osStream(e ast.Expr) string {
	var id *ast.Ident
	switch x := unparen(e).(type) {
	case *ast.SelectorExpr:
		id = x.Sel
	case *ast.Ident:
		id = x
	default:
		return ""
	}
	v, ok := p.info.Uses[id].(*types.Var)
	if !ok || v.Pkg() == nil || v.Pkg().Path() != "os" || v.Parent() != v.Pkg().Scope() {
		return ""
	}
	switch v.Name() {
	case "Stdout":
		return "stdout"
	case "Stderr":
		return "stderr"
	}
	return ""
}

type outSite struct {
	file   string
	line   int
	col    int
	fn     string
	callee string
	stream string
	format string
	args   []ast.Expr
	call   *ast.CallExpr
	style  string // "f" (format first), "ln" (print all), "panic"
}

func recvNamed(fn *types.Func) (pkgPath, typeName string, ptr bool) {
	sig, _ := fn.Type().(*types.Signature)
	if sig == nil || sig.Recv() == nil {
		return "", "", false
	}
	t := sig.Recv().Type()
	if pt, ok := t.(*types.Pointer); ok {
		t, ptr = pt.Elem(), true
	}
	if n, ok := t.(*types.Named); ok && n.Obj().Pkg() != nil {
		return n.Obj().Pkg().Path(), n.Obj().Name(), ptr
	}
	return "", "", ptr
}

// outputSite classifies a call; ok is false if the call cannot write output.
func (p *Pkg) outputSite(call *ast.CallExpr) (s outSite, ok bool) {
	obj := p.callee(call)
	s.call = call
	switch o := obj.(type) {
	case *types.Builtin:
		switch o.Name() {
		case "print", "println":
			s.callee, s.stream, s.style, s.args = o.Name(), "stderr", "ln", call.Args
			return s, true
		case "panic":
			s.callee, s.stream, s.style, s.args = "panic", "panic", "panic", call.Args
			return s, true
		}
		return s, false
	case *types.Func:
		if o.Pkg() == nil {
			return s, false
		}
		path, name := o.Pkg().Path(), o.Name()
		rpkg, rtype, _ := recvNamed(o)
		isMethod := o.Type().(*types.Signature).Recv() != nil
		switch {
		case path == "fmt" && !isMethod && (name == "Print" || name == "Printf" || name == "Println"):
			s.callee, s.stream, s.args = "fmt."+name, "stdout", call.Args
			s.style = "ln"
			if name == "Printf" {
				s.style = "f"
			}
			return s, true
		case path == "fmt" && !isMethod && (name == "Fprint" || name == "Fprintf" || name == "Fprintln"):
			s.callee = "fmt." + name
			s.style = "ln"
			if name == "Fprintf" {
				s.style = "f"
			}
			if len(call.Args) > 0 {
				s.stream = p.osStream(call.Args[0])
				if s.stream == "" {
					s.stream = "writer:" + p.text(call.Args[0])
				}
				s.args = call.Args[1:]
			} else {
				s.stream = "writer:"
			}
			return s, true
		case path == "log" && (!isMethod || (rpkg == "log" && rtype == "Logger")) &&
			(strings.HasPrefix(name, "Print") || strings.HasPrefix(name, "Fatal") || strings.HasPrefix(name, "Panic") || name == "Output"):
			if isMethod {
				s.callee = "(*log.Logger)." + name
			} else {
				s.callee = "log." + name
			}
			s.stream, s.args, s.style = "log", call.Args, "ln"
			if strings.HasSuffix(name, "f") {
				s.style = "f"
			}
			return s, true
		case isMethod && rpkg == "os" && rtype == "File" && strings.HasPrefix(name, "Write"):
			sel, _ := unparen(call.Fun).(*ast.SelectorExpr)
			if sel == nil {
				return s, false
			}
			s.stream = p.osStream(sel.X)
			if s.stream == "" {
				s.stream = "writer:" + p.text(sel.X)
			}
			s.callee, s.args, s.style = p.text(sel.X)+"."+name, call.Args, "ln"
			return s, true
		}
	}
	// any other call that is handed os.Stdout / os.Stderr
	for _, a := range call.Args {
		if st := p.osStream(a); st != "" {
			s.callee, s.stream, s.args, s.style = p.text(call.Fun), st, call.Args, "ln"
			return s, true
		}
	}
	return s, false
}

var errorIface = types.Universe.Lookup("error").Type().Underlying().(*types.Interface)

func (p *Pkg) argKind(e ast.Expr) (typ, kind string) {
	tv, ok := p.info.Types[e]
	typ = "?"
	if ok && tv.Type != nil {
		typ = types.TypeString(tv.Type, nil)
	}
	if ok && tv.Value != nil && tv.Value.Kind() == constant.String {
		return typ, "conststring"
	}
	if ok && tv.Type != nil {
		if b, isB := tv.Type.(*types.Basic); isB {
			if b.Info()&types.IsInteger != 0 {
				return typ, "int"
			}
			if b.Info()&types.IsFloat != 0 {
				return typ, "float"
			}
		}
	}
	if call, isCall := unparen(e).(*ast.CallExpr); isCall && len(call.Args) == 0 {
		if sel, isSel := unparen(call.Fun).(*ast.SelectorExpr); isSel && sel.Sel.Name == "Error" {
			if xt, ok := p.info.Types[sel.X]; ok && xt.Type != nil && types.Implements(xt.Type, errorIface) {
				if _, isFn := p.info.Uses[sel.Sel].(*types.Func); isFn {
					return typ, "error-method-string"
				}
			}
		}
	}
	return typ, "other"
}

func flattenPlus(e ast.Expr) []ast.Expr {
	if b, ok := unparen(e).(*ast.BinaryExpr); ok && b.Op == token.ADD {
		return append(flattenPlus(b.X), flattenPlus(b.Y)...)
	}
	return []ast.Expr{e}
}

// finish computes format and the final argument list.
func (p *Pkg) finishSite(s *outSite) {
	switch s.style {
	case "f":
		if len(s.args) > 0 {
			if f, ok := p.constString(s.args[0]); ok {
				s.format, s.args = f, s.args[1:]
			}
		}
	case "ln":
		if len(s.args) > 0 {
			if f, ok := p.constString(s.args[0]); ok {
				s.format = f
			}
		}
	case "panic":
		if len(s.args) == 1 {
			if f, ok := p.constString(s.args[0]); ok {
				s.format = f
			} else {
				s.args = flattenPlus(s.args[0])
			}
		}
	}
}

func (p *Pkg) outputSites() []outSite {
	var sites []outSite
	p.eachBody(func(encl string, _ *ast.FuncDecl, root ast.Node) {
		ast.Inspect(root, func(n ast.Node) bool {
			call, ok := n.(*ast.CallExpr)
			if !ok {
				return true
			}
			if s, ok := p.outputSite(call); ok {
				pos := p.fset.Position(call.Pos())
				s.file, s.line, s.col, s.fn = p.fileName(call.Pos()), pos.Line, pos.Column, encl
				p.finishSite(&s)
				sites = append(sites, s)
			}
			return true
		})
	})
	sort.SliceStable(sites, func(i, j int) bool {
		a, b := sites[i], sites[j]
		if a.file != b.file {
			return a.file < b.file
		}
		if a.line != b.line {
			return a.line < b.line
		}
		return a.col < b.col
	})
	return sites
}

func genOutputSites(p *Pkg) string {
	var sb strings.Builder
	sb.WriteString(header)
	sb.WriteString("\n")
	sb.WriteString("Record out_arg := mkArg { arg_src : string; arg_type : string; arg_kind : string }.\n")
	sb.WriteString("Record out_site := mkSite { site_file : string; site_line : nat; site_func : string; site_callee : string; site_stream : string; site_format : string; site_args : list out_arg }.\n\n")
	var el []string
	for _, s := range p.outputSites() {
		var args []string
		for _, a := range s.args {
			t, k := p.argKind(a)
			args = append(args, "mkArg "+cstr(p.text(a))+" "+cstr(t)+" "+cstr(k))
		}
		el = append(el, strings.Join([]string{"mkSite", cstr(s.file), cnat(s.line), cstr(s.fn), cstr(s.callee),
			cstr(s.stream), cstr(s.format), cinline(args)}, " "))
	}
	sb.WriteString(def("src_output_sites", "list out_site", clist(el)))
	return sb.String()
}
